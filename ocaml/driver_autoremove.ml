(* driver_autoremove.ml — runs the extracted CounterRemover / ConditionalRemover model
   (coq/AutoRemoveModel.v) on case files.
   usage: driver_autoremove <model|spec> < cases > traces     (model: the wrappers as generated from the
          headers; spec: the wrappers as C16 promises them, independent of the headers)
   per case:   target list|disp|queue|hlist|hdisp   (list, hlist: the CallbackList specialisation of the helpers)
               helpers temp|kept                    (meaningful to the harness only)
               cb <c> <n> : cmds                    listener c, n-th activation
               cond <p> <n> <verdict 0|1>           condition p, n-th evaluation
               main : cmds
   commands:   append k c h | prepend k c h | insert k c hb h                 plain listener
               cappend k c n h | cprepend k c n h | cinsert k c hb n h        through counterRemover, count n
               qappend k c p w h | qprepend k c p w h | qinsert k c hb p w h  through conditionalRemover, condition p (w: takes the argument)
               remove k h | dispatch k a | enqueue k a | process | drophelper h *)
open Autoremove_model

let rec nat_of_int i = if i <= 0 then O else S (nat_of_int (i - 1))
let rec int_of_nat = function O -> 0 | S n -> 1 + int_of_nat n
let rec pos_of_int i =
  if i <= 1 then XH else if i land 1 = 0 then XO (pos_of_int (i lsr 1)) else XI (pos_of_int (i lsr 1))
let rec int_of_pos = function XH -> 1 | XO p -> 2 * int_of_pos p | XI p -> 2 * int_of_pos p + 1
let z_of_int i = if i = 0 then Z0 else if i > 0 then Zpos (pos_of_int i) else Zneg (pos_of_int (-i))
let int_of_z = function Z0 -> 0 | Zpos p -> int_of_pos p | Zneg p -> - (int_of_pos p)

let words s = List.filter (fun w -> w <> "") (Str.split (Str.regexp "[ \t\r]+") s)
let split_on sep l =
  let rec go cur acc = function
    | [] -> List.rev (List.rev cur :: acc)
    | x :: t when x = sep -> go [] (List.rev cur :: acc) t
    | x :: t -> go (x :: cur) acc t in
  List.filter (fun c -> c <> []) (go [] [] l)
let ios = int_of_string
let nat s = nat_of_int (ios s)
let z s = z_of_int (ios s)

let cmd = function
  | ["append"; k; c; h] -> AAdd (PAppend, nat k, SPlain (nat c), nat h)
  | ["prepend"; k; c; h] -> AAdd (PPrepend, nat k, SPlain (nat c), nat h)
  | ["insert"; k; c; hb; h] -> AAdd (PInsert (nat hb), nat k, SPlain (nat c), nat h)
  | ["cappend"; k; c; n; h] -> AAdd (PAppend, nat k, SCounter (nat c, z n), nat h)
  | ["cprepend"; k; c; n; h] -> AAdd (PPrepend, nat k, SCounter (nat c, z n), nat h)
  | ["cinsert"; k; c; hb; n; h] -> AAdd (PInsert (nat hb), nat k, SCounter (nat c, z n), nat h)
  | ["qappend"; k; c; p; w; h] -> AAdd (PAppend, nat k, SCond (nat c, nat p, w = "1"), nat h)
  | ["qprepend"; k; c; p; w; h] -> AAdd (PPrepend, nat k, SCond (nat c, nat p, w = "1"), nat h)
  | ["qinsert"; k; c; hb; p; w; h] -> AAdd (PInsert (nat hb), nat k, SCond (nat c, nat p, w = "1"), nat h)
  | ["remove"; k; h] -> ARemove (nat k, nat h)
  | ["dispatch"; k; a] -> ADispatch (nat k, z a)
  | ["enqueue"; k; a] -> AEnqueue (nat k, z a)
  | ["process"] -> AProcess
  | ["drophelper"; h] -> ADropHelper (nat h)
  | w -> failwith ("bad autoremove command: " ^ String.concat " " w)
let cmds ws = List.map cmd (split_on ";" ws)

let print_ev = function
  | ATrig (_, _) -> ()       (* ghost *)
  | ACond (_, p, None, v) -> Printf.printf "cond %d - %d\n" (int_of_nat p) (if v then 1 else 0)
  | ACond (_, p, Some a, v) -> Printf.printf "cond %d %d %d\n" (int_of_nat p) (int_of_z a) (if v then 1 else 0)
  | ACall (_, c, k, a) -> Printf.printf "call %d %d %d\n" (int_of_nat c) (int_of_nat k) (int_of_z a)
  | ARet b -> Printf.printf "ret %d\n" (if b then 1 else 0)

let () =
  let mech = (match Array.to_list Sys.argv with [_; "model"] -> true | [_; "spec"] -> false
              | _ -> prerr_endline "usage: driver_autoremove <model|spec>"; exit 2) in
  let tbl : (int * int, acmd list) Hashtbl.t = Hashtbl.create 16 in
  let ctbl : (int * int, bool) Hashtbl.t = Hashtbl.create 16 in
  let fuel = ref 40 and islist = ref true in
  let behav c n = try Hashtbl.find tbl (int_of_nat c, int_of_nat n) with Not_found -> [] in
  let cverdict p n = try Hashtbl.find ctbl (int_of_nat p, int_of_nat n) with Not_found -> (int_of_nat p + int_of_nat n) mod 3 = 0 in
  (try
     while true do
       let line = input_line stdin in
       match words line with
       | [] -> ()
       | "#" :: _ -> ()
       | ["case"; id] -> Hashtbl.reset tbl; Hashtbl.reset ctbl; fuel := 40; islist := true; Printf.printf "case %s\n" id
       | ["fuel"; n] -> fuel := ios n
       | ["target"; t] -> islist := (t = "list" || t = "hlist")
       | ["helpers"; _] -> ()
       | "cb" :: c :: n :: ":" :: rest -> Hashtbl.replace tbl (ios c, ios n) (cmds rest)
       | ["cond"; p; n; v] -> Hashtbl.replace ctbl (ios p, ios n) (v = "1")
       | "main" :: ":" :: rest ->
           (match autoremove_run_case mech !islist behav cverdict (nat_of_int !fuel) (cmds rest) with
            | Some ((tr, ovf), uaf) ->
                List.iter print_ev tr;
                if ovf then print_string "overflow\n";
                if uaf then print_string "uaf\n"
            | None -> print_string "error\n")
       | ["end"] -> print_string "end\n"
       | _ -> failwith ("bad line: " ^ line)
     done
   with End_of_file -> ())
