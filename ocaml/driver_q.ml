(* driver_q.ml — runs the extracted queue model on case files.
   usage: driver_q <mech|spec> < cases > traces
   per case:   ordered <0|1|2|3>   (0 plain list, 1 ascending, 2 descending, 3 key mod 3 ascending)
               cb <c> <n> : cmds      listener c, n-th activation
               pred <p> <n> <verdict 0|1> : cmds
               main : cmds *)
open Q_model

let rec nat_of_int i = if i <= 0 then O else S (nat_of_int (i - 1))
let rec int_of_nat = function O -> 0 | S n -> 1 + int_of_nat n
let rec pos_of_int i =
  if i <= 1 then XH else if i land 1 = 0 then XO (pos_of_int (i lsr 1)) else XI (pos_of_int (i lsr 1))
let rec int_of_pos = function XH -> 1 | XO p -> 2 * int_of_pos p | XI p -> 2 * int_of_pos p + 1
let z_of_int i = if i = 0 then Z0 else if i > 0 then Zpos (pos_of_int i) else Zneg (pos_of_int (-i))
let int_of_z = function Z0 -> 0 | Zpos p -> int_of_pos p | Zneg p -> - (int_of_pos p)

let words s = List.filter (fun w -> w <> "") (Str.split (Str.regexp "[ \t\r]+") s)
let split_on sep l =
  let rec go cur acc = function
    | [] -> List.rev (List.rev cur :: acc)
    | x :: t when x = sep -> go [] (List.rev cur :: acc) t
    | x :: t -> go (x :: cur) acc t in
  List.filter (fun c -> c <> []) (go [] [] l)
let ios = int_of_string
let nat s = nat_of_int (ios s)

let cmd = function
  | ["append"; k; c; h] -> QAppend (nat k, nat c, nat h)
  | ["prepend"; k; c; h] -> QPrepend (nat k, nat c, nat h)
  | ["insert"; k; c; hb; h] -> QInsert (nat k, nat c, nat hb, nat h)
  | ["remove"; k; h] -> QRemove (nat k, nat h)
  | ["dispatch"; k; a] -> QDispatch (nat k, z_of_int (ios a))
  | ["enqueue"; k; a] -> QEnqueue (nat k, z_of_int (ios a))
  | ["process"] -> QProcess
  | ["processone"] -> QProcessOne
  | ["processif"; p] -> QProcessIf (nat p)
  | ["processuntil"; p] -> QProcessUntil (nat p)
  | ["peek"] -> QPeek
  | ["take"; r] -> QTake (nat r)
  | ["dispatchtaken"; r] -> QDispatchTaken (nat r)
  | ["clear"] -> QClear
  | ["emptyq"] -> QEmpty
  | ["waitfor0"] -> QWaitFor0
  | ["ledger"] -> QLedger
  | ["final"] -> QFinal
  | w -> failwith ("bad q command: " ^ String.concat " " w)
let cmds ws = List.map cmd (split_on ";" ws)

let print_ev = function
  | QRet b -> Printf.printf "ret %d\n" (if b then 1 else 0)
  | QCall (c, k, a) -> Printf.printf "call %d %d %d\n" (int_of_nat c) (int_of_nat k) (int_of_z a)
  | QPred (p, k, a) -> Printf.printf "pred %d %d %d\n" (int_of_nat p) (int_of_nat k) (int_of_z a)
  | QPeeked (k, a) -> Printf.printf "event %d %d\n" (int_of_nat k) (int_of_z a)
  | QLive n -> Printf.printf "live %d\n" (int_of_nat n)

let () =
  let mech = (match Array.to_list Sys.argv with [_; "mech"] -> true | [_; "spec"] -> false
              | _ -> prerr_endline "usage: driver_q <mech|spec>"; exit 2) in
  let tbl : (int * int, qcmd list) Hashtbl.t = Hashtbl.create 16 in
  let ptbl : (int * int, qcmd list * bool) Hashtbl.t = Hashtbl.create 16 in
  let fuel = ref 60 and ordered = ref 0 in
  let behav c n = try Hashtbl.find tbl (int_of_nat c, int_of_nat n) with Not_found -> [] in
  let pbehav p n = try Hashtbl.find ptbl (int_of_nat p, int_of_nat n) with Not_found -> ([], (int_of_nat p + int_of_nat n) mod 2 = 0) in
  let klt a b = let a = int_of_nat a and b = int_of_nat b in
    (match !ordered with 1 -> a < b | 2 -> a > b | 3 -> a mod 3 < b mod 3 | _ -> false) in
  (try
     while true do
       let line = input_line stdin in
       match words line with
       | [] -> ()
       | "#" :: _ -> ()
       | ["case"; id] -> Hashtbl.reset tbl; Hashtbl.reset ptbl; fuel := 60; ordered := 0; Printf.printf "case %s\n" id
       | ["fuel"; n] -> fuel := ios n
       | ["ordered"; n] -> ordered := ios n
       | "cb" :: c :: n :: ":" :: rest -> Hashtbl.replace tbl (ios c, ios n) (cmds rest)
       | "pred" :: p :: n :: v :: ":" :: rest -> Hashtbl.replace ptbl (ios p, ios n) (cmds rest, v = "1")
       | "main" :: ":" :: rest ->
           (match q_run_case mech (!ordered <> 0) klt behav pbehav (nat_of_int !fuel) (cmds rest) with
            | Some (tr, err) -> List.iter print_ev tr; if err then print_string "sloterror\n"
            | None -> print_string "error\n")
       | ["end"] -> print_string "end\n"
       | _ -> failwith ("bad line: " ^ line)
     done
   with End_of_file -> ())
