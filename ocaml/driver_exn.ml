(* driver_exn.ml — runs the extracted C09 models (coq/ExnModel.v, coq/ExnQueue.v) on case files.
   usage: driver_exn <code|spec> < cases > traces
     code : fault plans over the profiles built from the generated facts; throwing-listener
            interpreter instantiated with the headers' facts
     spec : the specification-side twins (no profiles, facts fixed to what the property demands)
   per case:   kind plan                     kind throw
               plan : cmd ; cmd ; ...        cb <c> <n> : cmds
                                             flt <f> <n> <verdict> : cmds
                                             pred <p> <n> <verdict> : cmds
                                             main : cmds
   plan commands:  do <op>   |   fault <k> <measured> <op>   |   list o key | dispatch d key |
                   pending q | drain q | records r | release r | destroy o | live
     measured: nofault | alloc | copy | move | cmp | call | terminated   (what the real run did; `?` is refused)
     op: cladd place hb o c reg | clremove o reg | clcopy dst src | classign dst src |
         dadd place hb d key c reg | dremove d key reg | dcopy dst src | dassign dst src |
         sradd place hb r d key c reg | srcladd place hb r o c reg |
         cradd place hb d key c reg | cnadd place hb d key c reg |
         enqueue ordered q key a | peek q | hadd place hb o proto c reg | hcopy dst src | hassign dst src *)
open Exn_model

let rec nat_of_int i = if i <= 0 then O else S (nat_of_int (i - 1))
let rec int_of_nat = function O -> 0 | S n -> 1 + int_of_nat n
let rec pos_of_int i =
  if i <= 1 then XH else if i land 1 = 0 then XO (pos_of_int (i lsr 1)) else XI (pos_of_int (i lsr 1))
let rec int_of_pos = function XH -> 1 | XO p -> 2 * int_of_pos p | XI p -> 2 * int_of_pos p + 1
let z_of_int i = if i = 0 then Z0 else if i > 0 then Zpos (pos_of_int i) else Zneg (pos_of_int (-i))
let int_of_z = function Z0 -> 0 | Zpos p -> int_of_pos p | Zneg p -> - (int_of_pos p)

let words s = List.filter (fun w -> w <> "") (Str.split (Str.regexp "[ \t\r]+") s)
let split_on sep l =
  let rec go cur acc = function
    | [] -> List.rev (List.rev cur :: acc)
    | x :: t when x = sep -> go [] (List.rev cur :: acc) t
    | x :: t -> go (x :: cur) acc t in
  List.filter (fun c -> c <> []) (go [] [] l)
let ios = int_of_string
let nat s = nat_of_int (ios s)
let zed s = z_of_int (ios s)

(* ---------------- fault plans ---------------- *)

let op = function
  | ["cladd"; p; hb; o; c; r] -> OClAdd (nat p, nat hb, nat o, nat c, nat r)
  | ["clremove"; o; r] -> OClRemove (nat o, nat r)
  | ["clcopy"; d; s] -> OClCopyCtor (nat d, nat s)
  | ["classign"; d; s] -> OClAssign (nat d, nat s)
  | ["dadd"; p; hb; d; k; c; r] -> ODAdd (nat p, nat hb, nat d, nat k, nat c, nat r)
  | ["dremove"; d; k; r] -> ODRemove (nat d, nat k, nat r)
  | ["dcopy"; d; s] -> ODCopyCtor (nat d, nat s)
  | ["dassign"; d; s] -> ODAssign (nat d, nat s)
  | ["sradd"; p; hb; r; d; k; c; reg] -> OSrAdd (nat p, nat hb, nat r, nat d, nat k, nat c, nat reg)
  | ["srcladd"; p; hb; r; o; c; reg] -> OSrClAdd (nat p, nat hb, nat r, nat o, nat c, nat reg)
  | ["cradd"; p; hb; d; k; c; r] -> OCounterAdd (nat p, nat hb, nat d, nat k, nat c, nat r)
  | ["cnadd"; p; hb; d; k; c; r] -> OConditionalAdd (nat p, nat hb, nat d, nat k, nat c, nat r)
  | ["enqueue"; o; q; k; a] -> OEnqueue (o <> "0", nat q, nat k, zed a)
  | ["peek"; q] -> OPeek (nat q)
  | ["hadd"; p; hb; o; k; c; r] -> OHAdd (nat p, nat hb, nat o, nat k, nat c, nat r)
  | ["hcopy"; d; s] -> OHCopyCtor (nat d, nat s)
  | ["hassign"; d; s] -> OHAssign (nat d, nat s)
  | w -> failwith ("bad exn operation: " ^ String.concat " " w)

let measured = function
  | "nofault" -> MNoFault
  | "alloc" -> MExn FAlloc
  | "copy" -> MExn FUserCopy
  | "move" -> MExn FUserMove
  | "cmp" -> MExn FUserCmp
  | "call" -> MExn FUserCall
  | "terminated" -> MTerminated
  | s -> failwith ("fault outcome not measured: " ^ s)

let fcmd = function
  | "do" :: rest -> FDo (op rest)
  | "fault" :: _k :: m :: rest -> FFault (measured m, op rest)
  | ["list"; o; k] -> FList (nat o, nat k)
  | ["dispatch"; d; k] -> FDispatch (nat d, nat k)
  | ["pending"; q] -> FPending (nat q)
  | ["drain"; q] -> FDrain (nat q)
  | ["records"; r] -> FRecords (nat r)
  | ["release"; r] -> FRelease (nat r)
  | ["destroy"; o] -> FDestroy (nat o)
  | ["live"] -> FLive
  | w -> failwith ("bad plan command: " ^ String.concat " " w)

let kind_name = function
  | FAlloc -> "alloc" | FUserCopy -> "copy" | FUserMove -> "move" | FUserCmp -> "cmp" | FUserCall -> "call"

let print_fev = function
  | EOutcome MNoFault -> print_string "nofault\n"
  | EOutcome (MExn k) -> Printf.printf "exn %s\n" (kind_name k)
  | EOutcome MTerminated -> print_string "terminated\n"
  | ENoSuchPoint -> print_string "no-such-fault-point\n"
  | EList (o, k, None) -> Printf.printf "list %d %d unspecified\n" (int_of_nat o) (int_of_nat k)
  | EList (o, k, Some cbs) ->
      Printf.printf "list %d %d :%s\n" (int_of_nat o) (int_of_nat k)
        (String.concat "" (List.map (fun c -> " " ^ string_of_int (int_of_nat c)) cbs))
  | ECall (c, k, a) -> Printf.printf "call %d %d %d\n" (int_of_nat c) (int_of_nat k) (int_of_z a)
  | EPending (q, es) ->
      Printf.printf "pending %d :%s\n" (int_of_nat q)
        (String.concat "" (List.map (fun (k, a) -> Printf.sprintf " %d:%d" (int_of_nat k) (int_of_z a)) es))
  | ERecords (r, n) -> Printf.printf "records %d %d\n" (int_of_nat r) (int_of_nat n)
  | ELive (c, p) -> Printf.printf "live %d %d\n" (int_of_nat c) (int_of_nat p)
  | ELiveUnspecified -> print_string "live unspecified\n"
  | EMustPropagate -> print_string "exception-must-reach-the-caller\n"

(* ---------------- throwing listeners ---------------- *)

let xcmd = function
  | ["append"; k; c; h] -> XAppend (nat k, nat c, nat h)
  | ["prepend"; k; c; h] -> XPrepend (nat k, nat c, nat h)
  | ["insert"; k; c; hb; h] -> XInsert (nat k, nat c, nat hb, nat h)
  | ["remove"; k; h] -> XRemove (nat k, nat h)
  | ["addfilter"; f; h] -> XAddFilter (nat f, nat h)
  | ["removefilter"; h] -> XRemoveFilter (nat h)
  | ["dispatch"; k; a] -> XDispatch (nat k, zed a)
  | ["enqueue"; k; a] -> XEnqueue (nat k, zed a)
  | ["process"] -> XProcess
  | ["processone"] -> XProcessOne
  | ["processif"; p] -> XProcessIf (nat p)
  | ["processuntil"; p] -> XProcessUntil (nat p)
  | ["emptyq"] -> XEmpty
  | ["canprocess"] -> XCanProcess
  | ["ledger"] -> XLedger
  | ["throw"; t] -> XThrow (nat t)
  | w -> failwith ("bad throw-case command: " ^ String.concat " " w)
let xcmds ws = List.map xcmd (split_on ";" ws)

let print_xev = function
  | XRet b -> Printf.printf "ret %d\n" (if b then 1 else 0)
  | XCall (c, k, a) -> Printf.printf "call %d %d %d\n" (int_of_nat c) (int_of_nat k) (int_of_z a)
  | XFilt (f, k, a) -> Printf.printf "filt %d %d %d\n" (int_of_nat f) (int_of_nat k) (int_of_z a)
  | XPred (p, k, a) -> Printf.printf "pred %d %d %d\n" (int_of_nat p) (int_of_nat k) (int_of_z a)
  | XLive n -> Printf.printf "live %d\n" (int_of_z n)
  | XThrew t -> Printf.printf "threw %d\n" (int_of_nat t)
  | XCaught t -> Printf.printf "caught %d\n" (int_of_nat t)

let () =
  let code = (match Array.to_list Sys.argv with [_; "code"] -> true | [_; "spec"] -> false
              | _ -> prerr_endline "usage: driver_exn <code|spec>"; exit 2) in
  let tbl : (int * int, xcmd list) Hashtbl.t = Hashtbl.create 16 in
  let ftbl : (int * int, xcmd list * bool) Hashtbl.t = Hashtbl.create 16 in
  let ptbl : (int * int, xcmd list * bool) Hashtbl.t = Hashtbl.create 16 in
  let fuel = ref 40 in
  let behav c n = try Hashtbl.find tbl (int_of_nat c, int_of_nat n) with Not_found -> [] in
  let fbehav f n = try Hashtbl.find ftbl (int_of_nat f, int_of_nat n) with Not_found -> ([], true) in
  let pbehav p n = try Hashtbl.find ptbl (int_of_nat p, int_of_nat n) with Not_found -> ([], (int_of_nat p + int_of_nat n) mod 2 = 0) in
  (try
     while true do
       let line = input_line stdin in
       match words line with
       | [] -> ()
       | "#" :: _ -> ()
       | ["case"; id] -> Hashtbl.reset tbl; Hashtbl.reset ftbl; Hashtbl.reset ptbl; fuel := 40; Printf.printf "case %s\n" id
       | ["kind"; _] -> ()
       | ["variant"; _] -> ()
       | ["fuel"; n] -> fuel := ios n
       | "cb" :: c :: n :: ":" :: rest -> Hashtbl.replace tbl (ios c, ios n) (xcmds rest)
       | "flt" :: f :: n :: v :: ":" :: rest -> Hashtbl.replace ftbl (ios f, ios n) (xcmds rest, v = "1")
       | "pred" :: p :: n :: v :: ":" :: rest -> Hashtbl.replace ptbl (ios p, ios n) (xcmds rest, v = "1")
       | "main" :: ":" :: rest ->
           (match (if code then exn_x_code else exn_x_spec) behav fbehav pbehav (nat_of_int !fuel) (xcmds rest) with
            | Some tr -> List.iter print_xev tr
            | None -> print_string "error\n")
       | "plan" :: ":" :: rest ->
           let cs = List.map fcmd (split_on ";" rest) in
           List.iter print_fev ((if code then exn_f_run else exn_f_run_spec) cs)
       | ["end"] -> print_string "end\n"
       | _ -> failwith ("bad line: " ^ line)
     done
   with End_of_file -> ())
