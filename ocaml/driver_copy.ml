(* driver_copy.ml — runs the extracted copy/move model. usage: driver_copy <model|spec> < cases
   per case:  kind eq|heq ; fill <byte> ; n <objects> ; main : cmds *)
open Copy_model

let rec nat_of_int i = if i <= 0 then O else S (nat_of_int (i - 1))
let rec int_of_nat = function O -> 0 | S n -> 1 + int_of_nat n
let rec pos_of_int i =
  if i <= 1 then XH else if i land 1 = 0 then XO (pos_of_int (i lsr 1)) else XI (pos_of_int (i lsr 1))
let rec int_of_pos = function XH -> 1 | XO p -> 2 * int_of_pos p | XI p -> 2 * int_of_pos p + 1
let z_of_int i = if i = 0 then Z0 else if i > 0 then Zpos (pos_of_int i) else Zneg (pos_of_int (-i))
let int_of_z = function Z0 -> 0 | Zpos p -> int_of_pos p | Zneg p -> - (int_of_pos p)
let words s = List.filter (fun w -> w <> "") (Str.split (Str.regexp "[ \t\r]+") s)
let split_on sep l =
  let rec go cur acc = function
    | [] -> List.rev (List.rev cur :: acc)
    | x :: t when x = sep -> go [] (List.rev cur :: acc) t
    | x :: t -> go (x :: cur) acc t in
  List.filter (fun c -> c <> []) (go [] [] l)
let ios = int_of_string
let nat s = nat_of_int (ios s)

let cmd = function
  | ["append"; o; k; c] -> CAppend (nat o, nat k, nat c)
  | ["owns"; o; k; h] -> COwns (nat o, nat k, nat h)
  | ["remove"; o; k; h] -> CRemove (nat o, nat k, nat h)
  | ["addfilter"; o; c; v] -> CAddFilter (nat o, nat c, v = "1")
  | ["enqueue"; o; k; a] -> CEnqueue (nat o, nat k, z_of_int (ios a))
  | ["process"; o] -> CProcess (nat o)
  | ["dispatch"; o; k; a] -> CDispatch (nat o, nat k, z_of_int (ios a))
  | ["emptyq"; o] -> CEmptyQ (nat o)
  | ["canprocess"; o] -> CCanProcess (nat o)
  | ["guardbegin"; o; w] -> CGuardBegin (nat o, nat w)
  | ["guardend"; o; w] -> CGuardEnd (nat o, nat w)
  | ["new"; d] -> CNew (nat d)
  | ["copyctor"; s; d] -> CCopyCtor (nat s, nat d)
  | ["movector"; s; d] -> CMoveCtor (nat s, nat d)
  | ["copyassign"; s; d] -> CCopyAssign (nat s, nat d)
  | ["moveassign"; s; d] -> CMoveAssign (nat s, nat d)
  | ["swap"; a; b] -> CSwap (nat a, nat b)
  | ["destroy"; o] -> CDestroy (nat o)
  | w -> failwith ("bad copy command: " ^ String.concat " " w)

let print_ev = function
  | CRet b -> Printf.printf "ret %d\n" (if b then 1 else 0)
  | CCall (o, c, k, a) -> Printf.printf "call %d %d %d %d\n" (int_of_nat o) (int_of_nat c) (int_of_nat k) (int_of_z a)
  | CFilter (o, c, a) -> Printf.printf "filter %d %d %d\n" (int_of_nat o) (int_of_nat c) (int_of_z a)

let () =
  let spec = (match Array.to_list Sys.argv with [_; "model"] -> false | [_; "spec"] -> true
              | _ -> prerr_endline "usage: driver_copy <model|spec>"; exit 2) in
  let kind = ref "eq" and fill = ref 0 and n = ref 3 in
  (try
     while true do
       let line = input_line stdin in
       match words line with
       | [] -> ()
       | "#" :: _ -> ()
       | ["case"; id] -> kind := "eq"; fill := 0; n := 3; Printf.printf "case %s\n" id
       | ["kind"; k] -> kind := k
       | ["fill"; f] -> fill := ios f
       | ["n"; k] -> n := ios k
       | "main" :: ":" :: rest ->
           (* an int whose four bytes are the fill pattern, as the counters would read it *)
           let b = !fill land 255 in
           let u = b lor (b lsl 8) lor (b lsl 16) lor (b lsl 24) in
           let junk = z_of_int (if u >= 0x80000000 then u - 0x100000000 else u) in
           let cs = List.map cmd (split_on ";" rest) in
           let r = if spec then copy_run_spec junk junk (nat_of_int !n) cs
                   else if !kind = "heq" then copy_run_heq junk junk (nat_of_int !n) cs
                   else copy_run_eq junk junk (nat_of_int !n) cs in
           (match r with Some tr -> List.iter print_ev tr | None -> print_string "error\n")
       | ["end"] -> print_string "end\n"
       | _ -> failwith ("bad line: " ^ line)
     done
   with End_of_file -> ())
