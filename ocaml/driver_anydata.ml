(* driver_anydata.ml — runs the extracted Coq model of AnyData (coq/AnyDataModel.v) on case
   files (tie B, model side, property C17).
   usage: driver_anydata <anydata|anydata-spec> < cases > traces
   Case text (the same file is read by harness/anydata.cpp):
     case <id> / cap <n> / large <sizeof(LargeData)> / prog : cmd ; cmd ; ... / end
   A payload type is written <kind> <size>; its identity in the model is kind*1000+size,
   kind 0 (trivial) is not counted by the ledger. *)
open Anydata_model

let rec nat_of_int i = if i <= 0 then O else S (nat_of_int (i - 1))
let rec int_of_nat = function O -> 0 | S n -> 1 + int_of_nat n
let rec pos_of_int i =
  if i <= 1 then XH else if i land 1 = 0 then XO (pos_of_int (i lsr 1)) else XI (pos_of_int (i lsr 1))
let rec int_of_pos = function XH -> 1 | XO p -> 2 * int_of_pos p | XI p -> 2 * int_of_pos p + 1
let n_of_int i = if i = 0 then N0 else Npos (pos_of_int i)
let int_of_n = function N0 -> 0 | Npos p -> int_of_pos p
let z_of_int i = if i = 0 then Z0 else if i > 0 then Zpos (pos_of_int i) else Zneg (pos_of_int (-i))
let int_of_z = function Z0 -> 0 | Zpos p -> int_of_pos p | Zneg p -> - (int_of_pos p)

let words s = List.filter (fun w -> w <> "") (Str.split (Str.regexp "[ \t\r]+") s)
let split_on sep l =
  let rec go cur acc = function
    | [] -> List.rev (List.rev cur :: acc)
    | x :: t when x = sep -> go [] (List.rev cur :: acc) t
    | x :: t -> go (x :: cur) acc t in
  List.filter (fun c -> c <> []) (go [] [] l)
let ios = int_of_string
let nat s = nat_of_int (ios s)

let ty kind size = nat_of_int (ios kind * 1000 + ios size)
let tracked t = int_of_nat t >= 1000

let cmd_of = function
  | ["make"; r; k; sz; v; _mode] -> Make (nat r, ty k sz, n_of_int (ios sz), z_of_int (ios v))
  | ["move"; r; r'] -> Move (nat r, nat r')
  | ["get"; r; _accessor] -> Get (nat r)
  | ["istype"; r; k; sz] -> IsType (nat r, ty k sz)
  | ["addr"; r] -> Addr (nat r)
  | ["where"; r] -> Where (nat r)
  | ["destroy"; r] -> Destroy (nat r)
  | ["enqueue"; r] -> Enqueue (nat r)
  | ["qmake"; k; sz; v; _mode] -> QMake (ty k sz, n_of_int (ios sz), z_of_int (ios v))
  | ["process"] -> Process
  | ["take"; r] -> Take (nat r)
  | ["ledger"] -> Ledger
  | "msz" :: _k :: sizes -> MaxSz (List.map (fun s -> n_of_int (ios s)) sizes)
  | w -> failwith ("bad anydata command: " ^ String.concat " " w)

let b2i b = if b then 1 else 0

let print_ev = function
  | EGet v -> Printf.printf "get %d\n" (int_of_z v)
  | EIsType b -> Printf.printf "istype %d\n" (b2i b)
  | EAddr b -> Printf.printf "addr %d\n" (b2i b)
  | EWhere b -> Printf.printf "where %d\n" (b2i b)
  | EDeliver (b, v) -> Printf.printf "deliver %d %d\n" (b2i b) (int_of_z v)
  | ELedger n -> Printf.printf "ledger %d\n" (int_of_nat n)
  | EMaxSz n -> Printf.printf "msz %d\n" (int_of_n n)
  | EReject -> print_string "reject\n"
  | ENoCompile -> print_string "nocompile\n"
  | EFault -> print_string "fault\n"

let main spec =
  let cap = ref 16 and large = ref 16 in
  (try
     while true do
       let line = input_line stdin in
       match words line with
       | [] -> ()
       | "#" :: _ -> ()
       | ["case"; id] -> cap := 16; large := 16; Printf.printf "case %s\n" id
       | ["cap"; n] -> cap := ios n
       | ["large"; n] -> large := ios n
       | "prog" :: ":" :: rest ->
           let p = List.map cmd_of (split_on ";" rest) in
           let tr = if spec then anydata_spec_run_case tracked p
                    else anydata_run_case (n_of_int !cap) (n_of_int !large) tracked p in
           List.iter print_ev tr
       | ["prog"; ":"] | ["prog"] ->
           let tr = if spec then anydata_spec_run_case tracked []
                    else anydata_run_case (n_of_int !cap) (n_of_int !large) tracked [] in
           List.iter print_ev tr
       | ["end"] -> print_string "end\n"
       | _ -> failwith ("bad line: " ^ line)
     done
   with End_of_file -> ())

let () =
  match Array.to_list Sys.argv with
  | [_; "anydata"] -> main false
  | [_; "anydata-spec"] -> main true
  | _ -> prerr_endline "usage: driver_anydata <anydata|anydata-spec>"; exit 2
