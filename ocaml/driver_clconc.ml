(* driver_clconc.ml — runs the extracted thread-level callback-list model on schedule case files *)
open Clconc_model

let rec nat_of_int i = if i <= 0 then O else S (nat_of_int (i - 1))
let rec int_of_nat = function O -> 0 | S n -> 1 + int_of_nat n
let rec pos_of_int i =
  if i <= 1 then XH else if i land 1 = 0 then XO (pos_of_int (i lsr 1)) else XI (pos_of_int (i lsr 1))
let rec int_of_pos = function XH -> 1 | XO p -> 2 * int_of_pos p | XI p -> 2 * int_of_pos p + 1
let z_of_int i = if i = 0 then Z0 else if i > 0 then Zpos (pos_of_int i) else Zneg (pos_of_int (-i))
let int_of_z = function Z0 -> 0 | Zpos p -> int_of_pos p | Zneg p -> - (int_of_pos p)
let int_of_n = function N0 -> 0 | Npos p -> int_of_pos p
let words s = List.filter (fun w -> w <> "") (Str.split (Str.regexp "[ \t\r]+") s)
let split_on sep l =
  let rec go cur acc = function
    | [] -> List.rev (List.rev cur :: acc)
    | x :: t when x = sep -> go [] (List.rev cur :: acc) t
    | x :: t -> go (x :: cur) acc t in
  List.filter (fun c -> c <> []) (go [] [] l)
let ios = int_of_string
let nat s = nat_of_int (ios s)

let cmd = function
  | ["append"; c; h] -> LAppend (nat c, nat h)
  | ["prepend"; c; h] -> LPrepend (nat c, nat h)
  | ["insert"; c; hb; h] -> LInsert (nat c, nat hb, nat h)
  | ["remove"; h] -> LRemove (nat h)
  | ["owns"; h] -> LOwns (nat h)
  | ["empty"] -> LEmpty
  | ["invoke"; a] -> LInvoke (z_of_int (ios a))
  | ["foreach"] -> LForEach
  | w -> failwith ("bad clconc command: " ^ String.concat " " w)

let t x = int_of_nat x
let print_act = function
  | LaLock x -> Printf.printf "act t%d lock m\n" (t x)
  | LaUnlock x -> Printf.printf "act t%d unlock m\n" (t x)
  | LaInc (x, v) -> Printf.printf "act t%d ainc cc %d\n" (t x) (int_of_n v)
  | LaLoad (x, v) -> Printf.printf "act t%d aload cc %d\n" (t x) (int_of_n v)
  | LaCall (x, c, a) -> Printf.printf "call t%d %d %d\n" (t x) (int_of_nat c) (int_of_z a)
  | LaVisit (x, c) -> Printf.printf "visit t%d %d\n" (t x) (int_of_nat c)
  | LaRes (x, b) -> Printf.printf "res t%d %d\n" (t x) (if b then 1 else 0)
  | LaDone x -> Printf.printf "done t%d\n" (t x)
  | LaDeadlock -> print_string "DEADLOCK\n"

let () =
  let _ = (match Array.to_list Sys.argv with [_; "run"] -> () | _ -> prerr_endline "usage: driver_clconc run"; exit 2) in
  let progs = ref [] in
  (try
     while true do
       let line = input_line stdin in
       match words line with
       | [] -> ()
       | "#" :: _ -> ()
       | ["case"; id] -> progs := []; Printf.printf "case %s\n" id
       | "thread" :: _ :: ":" :: rest -> progs := !progs @ [List.map cmd (split_on ";" rest)]
       | "schedule" :: ":" :: rest ->
           let (tr, fin) = lc_run_case (nat_of_int 6000) !progs (List.map nat rest) in
           List.iter print_act tr;
           Printf.printf "final%s\n" (String.concat "" (List.map (fun c -> " " ^ string_of_int (int_of_nat c)) fin))
       | ["end"] -> print_string "end\n"
       | _ -> failwith ("bad line: " ^ line)
     done
   with End_of_file -> ())
