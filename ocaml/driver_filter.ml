(* driver_filter.ml — runs the extracted filter / canContinueInvoking dispatch model on case files.
   usage: driver_filter <mech|heter|spec> <ref|val> <mix2: 0|1> <cci: 0|1> < cases > traces
     mech   decisions of the header text as generated into coq/gen/GenFilter.v (MixinFilter)
     heter  the same with MixinHeterFilter's mixinBeforeDispatch
     spec   the decisions the property expects (oracle when a proof obligation is broken)
   per case:   cb <c> <n> <verdict 0|1> <value written into the cell | -> : cmds
               main : cmds
               cf <m> <r> : a ...        conditionalFunctor, condition a mod m = r
               adc : a b a b ...          argumentAdapter to (unsigned char, unsigned char)
               adb : v n v n ...          argumentAdapter Base& -> Derived&, int *)
open Filter_model

let rec nat_of_int i = if i <= 0 then O else S (nat_of_int (i - 1))
let rec int_of_nat = function O -> 0 | S n -> 1 + int_of_nat n
let rec pos_of_int i =
  if i <= 1 then XH else if i land 1 = 0 then XO (pos_of_int (i lsr 1)) else XI (pos_of_int (i lsr 1))
let rec int_of_pos = function XH -> 1 | XO p -> 2 * int_of_pos p | XI p -> 2 * int_of_pos p + 1
let z_of_int i = if i = 0 then Z0 else if i > 0 then Zpos (pos_of_int i) else Zneg (pos_of_int (-i))
let int_of_z = function Z0 -> 0 | Zpos p -> int_of_pos p | Zneg p -> - (int_of_pos p)

let words s = List.filter (fun w -> w <> "") (Str.split (Str.regexp "[ \t\r]+") s)
let split_on sep l =
  let rec go cur acc = function
    | [] -> List.rev (List.rev cur :: acc)
    | x :: t when x = sep -> go [] (List.rev cur :: acc) t
    | x :: t -> go (x :: cur) acc t in
  List.filter (fun c -> c <> []) (go [] [] l)
let ios = int_of_string
let nat s = nat_of_int (ios s)

let cmd = function
  | ["addfilter"; c; h] -> FAddFilter (nat c, nat h)
  | ["removefilter"; h] -> FRemoveFilter (nat h)
  | ["append"; k; c; h] -> FAppend (nat k, nat c, nat h)
  | ["prepend"; k; c; h] -> FPrepend (nat k, nat c, nat h)
  | ["remove"; k; h] -> FRemove (nat k, nat h)
  | ["dispatch"; k; a] -> FDispatch (nat k, z_of_int (ios a))
  | ["enqueue"; k; a] -> FEnqueue (nat k, z_of_int (ios a))
  | ["process"] -> FProcess
  | ["processone"] -> FProcessOne
  | w -> failwith ("bad filter command: " ^ String.concat " " w)
let cmds ws = List.map cmd (split_on ";" ws)

let b2i b = if b then 1 else 0

let () =
  let usage () = prerr_endline "usage: driver_filter <mech|heter|spec> <ref|val> <0|1> <0|1>"; exit 2 in
  let (lp, byref, mix2on, ccion) =
    match Array.to_list Sys.argv with
    | [_; m; p; x; c] ->
        ((match m with "mech" -> flt_gen_lp | "heter" -> flt_gen_lp_heter | "spec" -> flt_spec_lp | _ -> usage ()),
         (match p with "ref" -> true | "val" -> false | _ -> usage ()), x = "1", c = "1")
    | _ -> usage () in
  let cci v = if ccion then (int_of_z v) mod 7 <> 0 else true in
  let mix2 = if mix2on then Some (fun v -> (int_of_z v) mod 5 <> 0) else None in
  let print_ev = function
    | EBegin (_, _, _) -> ()
    | EFilter (_, h, c, v) -> Printf.printf "filter %d %d %d\n" (int_of_nat h) (int_of_nat c) (int_of_z v)
    | EVerdict (_, h, b, v) -> Printf.printf "verdict %d %d %d\n" (int_of_nat h) (b2i b) (int_of_z v)
    | EMixin (_, v, b) -> Printf.printf "mixin %d %d\n" (int_of_z v) (b2i b)
    | EListener (_, h, c, k, v) -> Printf.printf "call %d %d %d %d\n" (int_of_nat h) (int_of_nat c) (int_of_nat k) (int_of_z v)
    | ECci (_, v, b) -> if ccion then Printf.printf "cci %d %d\n" (int_of_z v) (b2i b)
    | EFRemoved _ -> ()
    | ERet b -> Printf.printf "ret %d\n" (b2i b) in
  let tbl : (int * int, (fcmd list * bool) * z option) Hashtbl.t = Hashtbl.create 16 in
  let fuel = ref 40 in
  let behav c n = try Hashtbl.find tbl (int_of_nat c, int_of_nat n) with Not_found -> (([], true), None) in
  let rec pairs = function a :: b :: t -> (ios a, ios b) :: pairs t | _ -> [] in
  (try
     while true do
       let line = input_line stdin in
       match words line with
       | [] -> ()
       | "#" :: _ -> ()
       | ["case"; id] -> Hashtbl.reset tbl; fuel := 40; Printf.printf "case %s\n" id
       | ["fuel"; n] -> fuel := ios n
       | "cb" :: c :: n :: v :: rw :: ":" :: rest ->
           Hashtbl.replace tbl (ios c, ios n) ((cmds rest, v = "1"), (if rw = "-" then None else Some (z_of_int (ios rw))))
       | "main" :: ":" :: rest ->
           (match flt_run_case lp byref cci mix2 behav (nat_of_int !fuel) (cmds rest) with
            | Some tr -> List.iter print_ev tr
            | None -> print_string "error\n")
       | "cf" :: m :: r :: ":" :: rest ->
           List.iter (fun a ->
               match flt_cond_functor (fun a -> a mod (ios m) = ios r) (ios a) with
               | Some x -> Printf.printf "cfrun %d\n" x
               | None -> print_string "cfskip\n") rest
       | "adc" :: ":" :: rest ->
           List.iter (fun (a, b) ->
               match flt_arg_adapter (fun x -> ((x mod 256) + 256) mod 256) [a; b] with
               | Some [x; y] -> Printf.printf "adrun %d %d\n" x y
               | _ -> print_string "adnone\n") (pairs rest)
       | "adb" :: ":" :: rest ->
           List.iter (fun (v, n) ->
               match flt_arg_adapter (fun x -> x) [v; n] with
               | Some [x; y] -> Printf.printf "adbrun %d %d\n" x y
               | _ -> print_string "adnone\n") (pairs rest)
       | "ads" :: ":" :: rest ->
           (* two adapted by-value listeners and the caller afterwards: all see the same dispatched value *)
           List.iter (fun (v, n) ->
               match flt_arg_adapter (fun x -> x) [v; n] with
               | Some [x; y] -> Printf.printf "adsrun 1 %d %d\nadsrun 2 %d %d\nadsafter %d\n" x y x y x
               | _ -> print_string "adnone\n") (pairs rest)
       | ["end"] -> print_string "end\n"
       | _ -> failwith ("bad line: " ^ line)
     done
   with End_of_file -> ())
