(* driver_dispconc.ml — runs the extracted dispatcher machine (coq/CLDispConc.v under coq/CLDispRun.v) on schedule case files *)
open Dispconc_model

let rec nat_of_int i = if i <= 0 then O else S (nat_of_int (i - 1))
let rec int_of_nat = function O -> 0 | S n -> 1 + int_of_nat n
let words s = List.filter (fun w -> w <> "") (Str.split (Str.regexp "[ \t\r]+") s)
let split_on sep l =
  let rec go cur acc = function
    | [] -> List.rev (List.rev cur :: acc)
    | x :: t when x = sep -> go [] (List.rev cur :: acc) t
    | x :: t -> go (x :: cur) acc t in
  List.filter (fun c -> c <> []) (go [] [] l)
let ios = int_of_string
let nat s = nat_of_int (ios s)

let cmd = function
  | ["append"; e; c; h] -> DAppend (nat e, nat c, nat h)
  | ["prepend"; e; c; h] -> DPrepend (nat e, nat c, nat h)
  | ["insert"; e; c; hb; h] -> DInsert (nat e, nat c, nat hb, nat h)
  | ["remove"; e; h] -> DRemove (nat e, nat h)
  | ["owns"; e; h] -> DOwns (nat e, nat h)
  | ["hasany"; e] -> DHasAny (nat e)
  | ["walk"; e] -> DWalk (nat e)
  | ["dispatch"; e] -> DWalk (nat e)
  | w -> failwith ("bad dispconc command: " ^ String.concat " " w)

let t x = int_of_nat x
let print_act = function
  | DaLockL x -> Printf.printf "act t%d lock L\n" (t x)
  | DaUnlockL x -> Printf.printf "act t%d unlock L\n" (t x)
  | DaLockM (x, e) -> Printf.printf "act t%d lock M%d\n" (t x) (t e)
  | DaUnlockM (x, e) -> Printf.printf "act t%d unlock M%d\n" (t x) (t e)
  | DaRes (x, b) -> Printf.printf "res t%d %d\n" (t x) (if b then 1 else 0)
  | DaDone x -> Printf.printf "done t%d\n" (t x)
  | DaVisit (x, c) -> Printf.printf "visit t%d %d\n" (t x) (t c)
  | DaDeadlock -> print_string "DEADLOCK\n"

let events = [0; 1; 2; 3]

let () =
  let _ = (match Array.to_list Sys.argv with [_; "run"] -> () | _ -> prerr_endline "usage: driver_dispconc run"; exit 2) in
  let progs = ref [] in
  (try
     while true do
       let line = input_line stdin in
       match words line with
       | [] -> ()
       | "#" :: _ -> ()
       | ["case"; id] -> progs := []; Printf.printf "case %s\n" id
       | "thread" :: _ :: ":" :: rest -> progs := !progs @ [List.map cmd (split_on ";" rest)]
       | "schedule" :: ":" :: rest ->
           let ((tr, fin), bad) = dr_run_case (nat_of_int 4000) !progs (List.map nat rest) (List.map nat_of_int events) in
           List.iter print_act tr;
           List.iter (fun (e, ids) ->
               Printf.printf "final %d :%s\n" (t e) (String.concat "" (List.map (fun c -> " " ^ string_of_int (int_of_nat c)) ids))) fin;
           if bad then print_string "model-error lock discipline\n"
       | ["end"] -> print_string "end\n"
       | _ -> failwith ("bad line: " ^ line)
     done
   with End_of_file -> ())
