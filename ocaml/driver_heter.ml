(* driver_heter.ml — runs the extracted heterogeneous model (coq/HeterModel.v) on case files.
   usage: driver_heter <mech|spec|legacy> < cases > traces
     mech    slots + typed reads, processIf with the two facts tie A reads off the header now
     spec    the plain pending-list specification
     legacy  the mechanism with both facts false (the unrepaired doProcessIf), for witnesses
   table lines (persist until redefined; they describe the harness variant's prototype list):
               np <n>
               arity : a0 a1 ...          number of value-carrying parameters per prototype
               counted : b0 b1 ...        prototype stores a counted payload
               callable <kind> : b0 b1 ...   CanInvoke row of a kind
                  kinds 0..19 callback/predicate types, 20+ak argument lists, 40+p stored tuple of prototype p
   per case:   fuel <n>
               cb <c> <n> : cmds          callback c, n-th activation
               pred <p> <n> <verdict 0|1> : cmds
               main : cmds
   commands:   append k ck c h | prepend k ck c h | insert k ck c hb h | remove k h
               dispatch k ak v | enqueue k ak v | process | processone | processif pk p
               clear | emptyq | ledger        (ak is written 0..19 in case files) *)
open Heter_model

let rec nat_of_int i = if i <= 0 then O else S (nat_of_int (i - 1))
let rec int_of_nat = function O -> 0 | S n -> 1 + int_of_nat n
let rec pos_of_int i =
  if i <= 1 then XH else if i land 1 = 0 then XO (pos_of_int (i lsr 1)) else XI (pos_of_int (i lsr 1))
let rec int_of_pos = function XH -> 1 | XO p -> 2 * int_of_pos p | XI p -> 2 * int_of_pos p + 1
let z_of_int i = if i = 0 then Z0 else if i > 0 then Zpos (pos_of_int i) else Zneg (pos_of_int (-i))
let int_of_z = function Z0 -> 0 | Zpos p -> int_of_pos p | Zneg p -> - (int_of_pos p)

let words s = List.filter (fun w -> w <> "") (Str.split (Str.regexp "[ \t\r]+") s)
let split_on sep l =
  let rec go cur acc = function
    | [] -> List.rev (List.rev cur :: acc)
    | x :: t when x = sep -> go [] (List.rev cur :: acc) t
    | x :: t -> go (x :: cur) acc t in
  List.filter (fun c -> c <> []) (go [] [] l)
let ios = int_of_string
let nat s = nat_of_int (ios s)
let argkind s = nat_of_int (20 + ios s)

let cmd = function
  | ["append"; k; ck; c; h] -> HAppend (nat k, nat ck, nat c, nat h)
  | ["prepend"; k; ck; c; h] -> HPrepend (nat k, nat ck, nat c, nat h)
  | ["insert"; k; ck; c; hb; h] -> HInsert (nat k, nat ck, nat c, nat hb, nat h)
  | ["remove"; k; h] -> HRemove (nat k, nat h)
  | ["dispatch"; k; ak; v] -> HDispatch (nat k, argkind ak, z_of_int (ios v))
  | ["enqueue"; k; ak; v] -> HEnqueue (nat k, argkind ak, z_of_int (ios v))
  | ["process"] -> HProcess
  | ["processone"] -> HProcessOne
  | ["processif"; pk; p] -> HProcessIf (nat pk, nat p)
  | ["clear"] -> HClear
  | ["emptyq"] -> HEmpty
  | ["ledger"] -> HLedger
  | w -> failwith ("bad heter command: " ^ String.concat " " w)
let cmds ws = List.map cmd (split_on ";" ws)

let print_ev = function
  | HRet b -> Printf.printf "ret %d\n" (if b then 1 else 0)
  | HBound p -> Printf.printf "bound %d\n" (int_of_nat p)
  | HCall (c, k, _, v) -> Printf.printf "call %d %d %d\n" (int_of_nat c) (int_of_nat k) (int_of_z v)
  | HPred (p, _, _, v) -> Printf.printf "pred %d %d\n" (int_of_nat p) (int_of_z v)
  | HLive n -> Printf.printf "live %d\n" (int_of_nat n)

let () =
  let mode = (match Array.to_list Sys.argv with
              | [_; "mech"] -> (true, heter_chk, heter_rem)
              | [_; "spec"] -> (false, true, true)
              | [_; "legacy"] -> (true, false, false)
              | _ -> prerr_endline "usage: driver_heter <mech|spec|legacy>"; exit 2) in
  let (mech, chk, rem) = mode in
  let tbl : (int * int, hcmd list) Hashtbl.t = Hashtbl.create 16 in
  let ptbl : (int * int, hcmd list * bool) Hashtbl.t = Hashtbl.create 16 in
  let rows : (int, bool array) Hashtbl.t = Hashtbl.create 64 in
  let np = ref 0 and arity = ref [||] and counted = ref [||] in
  let fuel = ref 60 in
  let behav c n = try Hashtbl.find tbl (int_of_nat c, int_of_nat n) with Not_found -> [] in
  let pbehav p n = try Hashtbl.find ptbl (int_of_nat p, int_of_nat n) with Not_found -> ([], (int_of_nat p + int_of_nat n) mod 2 = 0) in
  let callable k p =
    let k = int_of_nat k and p = int_of_nat p in
    (try let r = Hashtbl.find rows k in p < Array.length r && r.(p) with Not_found -> false) in
  let own p = nat_of_int (40 + int_of_nat p) in
  let arity_f p = let p = int_of_nat p in nat_of_int (if p < Array.length !arity then !arity.(p) else 0) in
  let counted_f p = let p = int_of_nat p in p < Array.length !counted && !counted.(p) in
  let ints ws = Array.of_list (List.map ios ws) in
  (try
     while true do
       let line = input_line stdin in
       match words line with
       | [] -> ()
       | "#" :: _ -> ()
       | ["case"; id] -> Hashtbl.reset tbl; Hashtbl.reset ptbl; fuel := 60; Printf.printf "case %s\n" id
       | ["np"; n] -> np := ios n
       | "arity" :: ":" :: ws -> arity := ints ws
       | "counted" :: ":" :: ws -> counted := Array.map (fun x -> x <> 0) (ints ws)
       | "callable" :: k :: ":" :: ws -> Hashtbl.replace rows (ios k) (Array.map (fun x -> x <> 0) (ints ws))
       | "variant" :: _ -> ()
       | ["fuel"; n] -> fuel := ios n
       | "cb" :: c :: n :: ":" :: rest -> Hashtbl.replace tbl (ios c, ios n) (cmds rest)
       | "pred" :: p :: n :: v :: ":" :: rest -> Hashtbl.replace ptbl (ios p, ios n) (cmds rest, v = "1")
       | "main" :: ":" :: rest ->
           (match heter_run_case (nat_of_int !np) callable own arity_f counted_f mech chk rem behav pbehav (nat_of_int !fuel) (cmds rest) with
            | Some (tr, err) -> List.iter print_ev tr; if err then print_string "sloterror\n"
            | None -> print_string "error\n")
       | ["end"] -> print_string "end\n"
       | _ -> failwith ("bad line: " ^ line)
     done
   with End_of_file -> ())
