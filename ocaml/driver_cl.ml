(* driver.ml — runs the extracted Coq models on case files (tie B, model side).
   usage: driver <domain> < cases > traces
   The text formats are described in DESIGN.md appendix B and in harness/*.cpp,
   which parse the very same files. *)
open Cl_model

let rec nat_of_int i = if i <= 0 then O else S (nat_of_int (i - 1))
let rec int_of_nat = function O -> 0 | S n -> 1 + int_of_nat n
let rec pos_of_int i =
  if i <= 1 then XH else if i land 1 = 0 then XO (pos_of_int (i lsr 1)) else XI (pos_of_int (i lsr 1))
let rec int_of_pos = function XH -> 1 | XO p -> 2 * int_of_pos p | XI p -> 2 * int_of_pos p + 1
let n_of_int i = if i = 0 then N0 else Npos (pos_of_int i)
let int_of_n = function N0 -> 0 | Npos p -> int_of_pos p
let z_of_int i = if i = 0 then Z0 else if i > 0 then Zpos (pos_of_int i) else Zneg (pos_of_int (-i))
let int_of_z = function Z0 -> 0 | Zpos p -> int_of_pos p | Zneg p -> - (int_of_pos p)

let words s = List.filter (fun w -> w <> "") (Str.split (Str.regexp "[ \t\r]+") s)
let split_on sep l =
  let rec go cur acc = function
    | [] -> List.rev (List.rev cur :: acc)
    | x :: t when x = sep -> go [] (List.rev cur :: acc) t
    | x :: t -> go (x :: cur) acc t in
  List.filter (fun c -> c <> []) (go [] [] l)
let ios = int_of_string
let nat s = nat_of_int (ios s)

(* ------------------------------------------------------------------ *)
(* domain cl : callback list programs                                  *)

let cl_cmd = function
  | ["append"; l; c; h] -> Append (nat l, nat c, nat h)
  | ["prepend"; l; c; h] -> Prepend (nat l, nat c, nat h)
  | ["insert"; l; c; hb; h] -> Insert (nat l, nat c, nat hb, nat h)
  | ["remove"; l; h] -> Remove (nat l, nat h)
  | ["owns"; l; h] -> Owns (nat l, nat h)
  | ["empty"; l] -> Empty (nat l)
  | ["invoke"; l; a] -> Invoke (nat l, z_of_int (ios a))
  | ["foreach"; l] -> ForEach (nat l)
  | ["foreachif"; l; k] -> ForEachIf (nat l, nat k)
  | ["has"; l; c] -> HasL (nat l, nat c)
  | ["hasany"; l] -> HasAny (nat l)
  | ["removel"; l; c] -> RemoveL (nat l, nat c)
  | ["new"; l] -> New (nat l)
  | ["copyctor"; s; d] -> CopyCtor (nat s, nat d)
  | ["copyassign"; s; d] -> CopyAssign (nat s, nat d)
  | ["movector"; s; d] -> MoveCtor (nat s, nat d)
  | ["moveassign"; s; d] -> MoveAssign (nat s, nat d)
  | ["swap"; a; b] -> Swap (nat a, nat b)
  | ["destroy"; l] -> Destroy (nat l)
  | ["setcur"; l; k] -> SetCur (nat l, n_of_int (ios k))
  | ["ledger"; n] -> Ledger (nat n)
  | w -> failwith ("bad cl command: " ^ String.concat " " w)

let cl_cmds ws = List.map cl_cmd (split_on ";" ws)

let print_ev = function
  | ERet b -> Printf.printf "ret %d\n" (if b then 1 else 0)
  | ECall (c, a) -> Printf.printf "call %d %d\n" (int_of_nat c) (int_of_z a)
  | EVisit c -> Printf.printf "visit %d\n" (int_of_nat c)
  | ELedger l -> Printf.printf "ledger%s\n" (String.concat "" (List.map (fun x -> " " ^ string_of_int (int_of_nat x)) l))

let w32 = n_of_int (1 lsl 32)

let main_cl mode =
  let tbl : (int * int, cmd list) Hashtbl.t = Hashtbl.create 16 in
  let nl = ref 1 and fuel = ref 400 in
  let behav c n = try Hashtbl.find tbl (int_of_nat c, int_of_nat n) with Not_found -> [] in
  (try
     while true do
       let line = input_line stdin in
       match words line with
       | [] -> ()
       | "#" :: _ -> ()
       | ["case"; id] -> Hashtbl.reset tbl; nl := 1; fuel := 400; Printf.printf "case %s\n" id
       | ["nl"; n] -> nl := ios n
       | ["fuel"; n] -> fuel := ios n
       | "cb" :: c :: n :: ":" :: rest -> Hashtbl.replace tbl (ios c, ios n) (cl_cmds rest)
       | "main" :: ":" :: rest ->
           (match (match mode with
                   | `Model true -> cl_run_case w32 behav (nat_of_int !fuel) (nat_of_int !nl) (cl_cmds rest)
                   | `Model false -> cl_legacy_run_case w32 behav (nat_of_int !fuel) (nat_of_int !nl) (cl_cmds rest)
                   | `Spec -> cl_spec_run_case behav (nat_of_int !fuel) (nat_of_int !nl) (cl_cmds rest)) with
            | Some tr -> List.iter print_ev tr
            | None -> print_string "error\n")
       | ["end"] -> print_string "end\n"
       | w -> failwith ("bad line: " ^ line)
     done
   with End_of_file -> ())

let () =
  match Array.to_list Sys.argv with
  | [_; "cl"] -> main_cl (`Model true)
  | [_; "cl-legacy"] -> main_cl (`Model false)
  | [_; "cl-spec"] -> main_cl `Spec
  | _ -> prerr_endline "usage: driver <cl|cl-legacy|cl-spec>"; exit 2
