(* driver_qconc.ml — runs the extracted thread-level queue model on schedule case files.
   per case:  thread <i> : cmds   (in order i = 0,1,…)    schedule : t t t …  *)
open Qconc_model

let rec nat_of_int i = if i <= 0 then O else S (nat_of_int (i - 1))
let rec int_of_nat = function O -> 0 | S n -> 1 + int_of_nat n
let rec pos_of_int i =
  if i <= 1 then XH else if i land 1 = 0 then XO (pos_of_int (i lsr 1)) else XI (pos_of_int (i lsr 1))
let rec int_of_pos = function XH -> 1 | XO p -> 2 * int_of_pos p | XI p -> 2 * int_of_pos p + 1
let z_of_int i = if i = 0 then Z0 else if i > 0 then Zpos (pos_of_int i) else Zneg (pos_of_int (-i))
let int_of_z = function Z0 -> 0 | Zpos p -> int_of_pos p | Zneg p -> - (int_of_pos p)
let words s = List.filter (fun w -> w <> "") (Str.split (Str.regexp "[ \t\r]+") s)
let split_on sep l =
  let rec go cur acc = function
    | [] -> List.rev (List.rev cur :: acc)
    | x :: t when x = sep -> go [] (List.rev cur :: acc) t
    | x :: t -> go (x :: cur) acc t in
  List.filter (fun c -> c <> []) (go [] [] l)
let ios = int_of_string
let nat s = nat_of_int (ios s)

let cmd = function
  | ["enqueue"; k; a] -> AEnqueue (nat k, z_of_int (ios a))
  | ["process"] -> AProcess
  | ["processone"] -> AProcessOne
  | ["processif"; p] -> AProcessIf (nat p)
  | ["processuntil"; p] -> AProcessUntil (nat p)
  | ["take"] -> ATake
  | ["peek"] -> APeek
  | ["clear"] -> AClear
  | ["emptyq"] -> AEmptyQ
  | ["wait"] -> AWait
  | ["waitfor"] -> AWaitFor
  | ["disable_begin"] -> ADisableBegin
  | ["disable_end"] -> ADisableEnd
  | w -> failwith ("bad qconc command: " ^ String.concat " " w)

let m = function QM -> "qm" | FM -> "fm"
let a = function EC -> "ec" | NC -> "nc"
let t x = int_of_nat x
let print_act = function
  | CLock (x, mm) -> Printf.printf "act t%d lock %s\n" (t x) (m mm)
  | CUnlock (x, mm) -> Printf.printf "act t%d unlock %s\n" (t x) (m mm)
  | CAInc (x, aa, v) -> Printf.printf "act t%d ainc %s %d\n" (t x) (a aa) (int_of_z v)
  | CADec (x, aa, v) -> Printf.printf "act t%d adec %s %d\n" (t x) (a aa) (int_of_z v)
  | CALoad (x, aa, v) -> Printf.printf "act t%d aload %s %d\n" (t x) (a aa) (int_of_z v)
  | CRead (x, r) -> Printf.printf "act t%d read %s\n" (t x) (match r with RQ -> "ql" | RF -> "fl")
  | CNotify x -> Printf.printf "act t%d notify cv\n" (t x)
  | CCvBlock x -> Printf.printf "act t%d cvblock cv\n" (t x)
  | CCvWake x -> Printf.printf "act t%d cvwake cv\n" (t x)
  | CTimeout x -> Printf.printf "act t%d timeout\n" (t x)
  | CDisp (x, k, v) -> Printf.printf "disp t%d %d %d\n" (t x) (int_of_nat k) (int_of_z v)
  | CTaken (x, k, v) -> Printf.printf "taken t%d %d %d\n" (t x) (int_of_nat k) (int_of_z v)
  | CPeeked (x, k, v) -> Printf.printf "peeked t%d %d %d\n" (t x) (int_of_nat k) (int_of_z v)
  | CRes (x, b) -> Printf.printf "res t%d %d\n" (t x) (if b then 1 else 0)
  | CDone x -> Printf.printf "done t%d\n" (t x)
  | CDeadlock (n, v) -> Printf.printf "DEADLOCK pending=%d nc=%d\n" (int_of_nat n) (int_of_z v)
  | CDrained (k, v) -> Printf.printf "drained %d %d\n" (int_of_nat k) (int_of_z v)

let () =
  let _ = (match Array.to_list Sys.argv with [_; "run"] -> () | _ -> prerr_endline "usage: driver_qconc run"; exit 2) in
  let progs = ref [] and fuel = ref 4000 in
  (try
     while true do
       let line = input_line stdin in
       match words line with
       | [] -> ()
       | "#" :: _ -> ()
       | ["case"; id] -> progs := []; Printf.printf "case %s\n" id
       | "thread" :: _ :: ":" :: rest -> progs := !progs @ [List.map cmd (split_on ";" rest)]
       | "schedule" :: ":" :: rest ->
           let tr = qc_run_case (nat_of_int !fuel) !progs (List.map nat rest) in
           List.iter print_act tr;
           (* side condition of the C07 wake-up theorems, checked on every replayed schedule *)
           if not (qc_side_ok (nat_of_int !fuel) !progs (List.map nat rest)) then
             print_string "MODEL-SIDE-CONDITION local code cut short by the fuel of QConc.advance\n"
       | ["end"] -> print_string "end\n"
       | _ -> failwith ("bad line: " ^ line)
     done
   with End_of_file -> ())
