(* driver_anyid.ml — runs the extracted AnyId model (coq/AnyIdModel.v through coq/ExtractAnyId.v)
   on case files (tie B, model side, property C18).
   usage: driver_anyid anyid < cases > traces
   The case format is parsed identically by harness/anyid.cpp:
     case <id>
     storage val|empty              which AnyId: AnyId<Dig3, Val> or AnyId<Dig3, EmptyAnyStorage>
     ids : <tag> <n> ; <tag> <n> ; ...    source values (tag 0 int, 1 std::string, 2 long, 3 Name), n >= 0
     listen : i j ...               listener number p (1-based position) is appended under ids[i]
     dispatch : i j ...             dispatch under ids[i]
     end
   Trace lines: dig (digests), eq/lt/hh rows (pairwise ==, <, std::hash equality), law lines,
   defaultmap, and `run <kind> <i> : <listeners that ran>` for the default / std::map /
   std::unordered_map dispatchers.  The `law` lines are not computed: they are what the theorems of
   coq/Properties_C18.v state (the harness evaluates the laws on the real operators). *)
open Anyid_model

let rec pos_of_int i =
  if i <= 1 then XH else if i land 1 = 0 then XO (pos_of_int (i lsr 1)) else XI (pos_of_int (i lsr 1))
let rec int_of_pos = function XH -> 1 | XO p -> 2 * int_of_pos p | XI p -> 2 * int_of_pos p + 1
let z_of_int i = if i = 0 then Z0 else if i > 0 then Zpos (pos_of_int i) else Zneg (pos_of_int (-i))
let int_of_z = function Z0 -> 0 | Zpos p -> int_of_pos p | Zneg p -> - (int_of_pos p)

let words s = List.filter (fun w -> w <> "") (Str.split (Str.regexp "[ \t\r]+") s)
let split_on sep l =
  let rec go cur acc = function
    | [] -> List.rev (List.rev cur :: acc)
    | x :: t when x = sep -> go [] (List.rev cur :: acc) t
    | x :: t -> go (x :: cur) acc t in
  List.filter (fun c -> c <> []) (go [] [] l)
let ios = int_of_string

let laws = ["eq_refl"; "eq_sym"; "eq_trans"; "lt_irrefl"; "lt_trans"; "incomp_trans"; "incomp_is_eq"; "hash_compat"]

let bit b = if b then '1' else '0'

let run_case storing ids listen dispatch =
  let idv = Array.of_list (List.map (function
      | [t; n] -> if ios t < 0 || ios t > 3 || ios n < 0 then failwith "bad source value" else anyid_make (z_of_int (ios t)) (z_of_int (ios n))
      | w -> failwith ("bad id: " ^ String.concat " " w)) ids) in
  let n = Array.length idv in
  Printf.printf "storage %s\n" (if storing then "val" else "empty");
  Printf.printf "dig%s\n" (String.concat "" (Array.to_list (Array.map (fun x -> " " ^ string_of_int (int_of_z (anyid_digest x))) idv)));
  let row name f =
    for i = 0 to n - 1 do
      Printf.printf "%s %d : %s\n" name i (String.init n (fun j -> bit (f idv.(i) idv.(j))))
    done in
  row "eq" (anyid_eq storing);
  row "lt" (anyid_lt storing);
  row "hh" (fun a b -> int_of_z (anyid_hash a) = int_of_z (anyid_hash b));
  List.iter (fun l -> Printf.printf "law %s ok\n" l) laws;
  (* AnyId has a std::hash specialisation, so SelectMap's default is std::unordered_map *)
  print_string "defaultmap unordered\n";
  let ops = List.mapi (fun p i -> (idv.(ios i), z_of_int (p + 1))) listen in
  let show kind f =
    List.iter (fun i ->
        let r = f idv.(ios i) in
        Printf.printf "run %s %s :%s\n" kind i (String.concat "" (List.map (fun z -> " " ^ string_of_int (int_of_z z)) r)))
      dispatch in
  show "default" (anyid_umap_lookup storing (z_of_int 13) ops);
  show "map" (anyid_map_lookup storing ops);
  show "umap" (anyid_umap_lookup storing (z_of_int 13) ops)

let main () =
  let storing = ref true and ids = ref [] and listen = ref [] and dispatch = ref [] in
  (try
     while true do
       let line = input_line stdin in
       match words line with
       | [] -> ()
       | "#" :: _ -> ()
       | ["case"; id] -> storing := true; ids := []; listen := []; dispatch := []; Printf.printf "case %s\n" id
       | ["storage"; "val"] -> storing := true
       | ["storage"; "empty"] -> storing := false
       | "ids" :: ":" :: rest -> ids := split_on ";" rest
       | "listen" :: ":" :: rest -> listen := rest
       | "dispatch" :: ":" :: rest -> dispatch := rest
       | ["end"] ->
           (try run_case !storing !ids !listen !dispatch
            with Invalid_argument _ | Failure _ -> print_string "error\n");
           print_string "end\n"
       | _ -> failwith ("bad line: " ^ line)
     done
   with End_of_file -> ())

let () =
  match Array.to_list Sys.argv with
  | [_; "anyid"] -> main ()
  | _ -> prerr_endline "usage: driver_anyid anyid"; exit 2
