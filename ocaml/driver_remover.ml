(* driver_remover.ml — runs the extracted ScopedRemover model (coq/RemoverModel.v) on case
   files (tie B, model side).   usage: driver_remover <remover|remover-spec|remover-legacy> < cases
   Case text (harness/remover.cpp parses the very same text):
     case <id> / kind cl|ed|eq / nt <targets> / nk <keys> / main : cmd ; cmd ; ... / end
   commands:  rnew r t|-   radd r k id a|p|i [hb]   rremove r id   rreset r   rset r t
              rmovector s d   rmoveassign s d   rswap a b   rdestroy r
              dadd t k id a|p|i [hb]   dremove id   observe
   trace:     ret 0|1      obs <target> <key> <ids that ran, in order> *)
open Remover_model

let rec nat_of_int i = if i <= 0 then O else S (nat_of_int (i - 1))
let rec int_of_nat = function O -> 0 | S n -> 1 + int_of_nat n

let words s = List.filter (fun w -> w <> "") (Str.split (Str.regexp "[ \t\r]+") s)
let split_on sep l =
  let rec go cur acc = function
    | [] -> List.rev (List.rev cur :: acc)
    | x :: t when x = sep -> go [] (List.rev cur :: acc) t
    | x :: t -> go (x :: cur) acc t in
  List.filter (fun c -> c <> []) (go [] [] l)
let nat s = nat_of_int (int_of_string s)

let mode = function
  | ["a"] -> MAppend
  | ["p"] -> MPrepend
  | ["i"; hb] -> MInsert (nat hb)
  | w -> failwith ("bad mode: " ^ String.concat " " w)

let cmd nk = function
  | ["rnew"; r; "-"] -> RNew (nat r, None)
  | ["rnew"; r; t] -> RNew (nat r, Some (nat t))
  | "radd" :: r :: k :: id :: m -> RAdd (nat r, nat k, nat id, mode m)
  | ["rremove"; r; id] -> RRemove (nat r, nat id)
  | ["rreset"; r] -> RReset (nat r)
  | ["rset"; r; t] -> RSetTarget (nat r, nat t)
  | ["rmovector"; s; d] -> RMoveCtor (nat s, nat d)
  | ["rmoveassign"; s; d] -> RMoveAssign (nat s, nat d)
  | ["rswap"; a; b] -> RSwap (nat a, nat b)
  | ["rdestroy"; r] -> RDestroy (nat r)
  | "dadd" :: t :: k :: id :: m -> DAdd (nat t, nat k, nat id, mode m)
  | ["dremove"; id] -> DRemove (nat id)
  | ["observe"] -> Observe (nat_of_int nk)
  | w -> failwith ("bad remover command: " ^ String.concat " " w)

let print_ev = function
  | ERet b -> Printf.printf "ret %d\n" (if b then 1 else 0)
  | EObs (t, k, ids) ->
      Printf.printf "obs %d %d%s\n" (int_of_nat t) (int_of_nat k)
        (String.concat "" (List.map (fun x -> " " ^ string_of_int (int_of_nat x)) ids))

let main run =
  let nt = ref 1 and nk = ref 1 in
  (try
     while true do
       let line = input_line stdin in
       match words line with
       | [] -> ()
       | "#" :: _ -> ()
       | ["case"; id] -> nt := 1; nk := 1; Printf.printf "case %s\n" id
       | ["kind"; _] -> ()
       | ["nt"; n] -> nt := int_of_string n
       | ["nk"; n] -> nk := int_of_string n
       | "main" :: ":" :: rest ->
           (match run (nat_of_int !nt) (List.map (cmd !nk) (split_on ";" rest)) with
            | Some tr -> List.iter print_ev tr
            | None -> print_string "error\n")
       | ["end"] -> print_string "end\n"
       | _ -> failwith ("bad line: " ^ line)
     done
   with End_of_file -> ())

let () =
  match Array.to_list Sys.argv with
  | [_; "remover"] -> main remover_run
  | [_; "remover-spec"] -> main remover_spec_run
  | [_; "remover-legacy"] -> main remover_legacy_run
  | _ -> prerr_endline "usage: driver_remover <remover|remover-spec|remover-legacy>"; exit 2
