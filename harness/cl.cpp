// cl.cpp — interpreter for callback-list case files, driving the REAL
// eventpp::CallbackList built from /repo's working tree.  Prints the same trace
// lines as `ocaml/driver cl` prints from the Coq model (coq/CLModel.v).
//
// Build-time variants:  -DVH_POLICY=0 default policies (MultipleThreading, std::mutex)
//                                  =1 SingleThreading   =2 GeneralThreading<SpinLock>
//                       -DVH_CB=0 std::function callbacks   =1 comparable functor as Callback policy
//                       -DVH_FILL=<byte>  object storage pre-filled with that byte before construction
#include "common.h"
#include "eventpp/utilities/eventutil.h"

#ifndef VH_POLICY
#define VH_POLICY 0
#endif
#ifndef VH_CB
#define VH_CB 1
#endif
#ifndef VH_FILL
#define VH_FILL 0xAB
#endif

namespace {

struct Case;
Case * g_case = nullptr;
std::map<int, int> g_live;     // live stored callback objects per id (the ledger)

struct Cb
{
	int id;
	explicit Cb(int id) : id(id) { ++g_live[id]; }
	Cb(const Cb & o) : id(o.id) { ++g_live[id]; }
	Cb(Cb && o) noexcept : id(o.id) { ++g_live[id]; }
	Cb & operator = (const Cb & o) { --g_live[id]; id = o.id; ++g_live[id]; return *this; }
	~Cb() { --g_live[id]; }
	void operator() (int a) const;
	bool operator == (const Cb & o) const { return id == o.id; }
};

struct Policies
{
#if VH_POLICY == 1
	using Threading = eventpp::SingleThreading;
#elif VH_POLICY == 2
	using Threading = eventpp::GeneralThreading<eventpp::SpinLock>;
#endif
#if VH_CB == 1
	using Callback = Cb;
#endif
};

using CL = eventpp::CallbackList<void (int), Policies>;

struct Slot
{
	alignas(CL) unsigned char storage[sizeof(CL)];
	CL * p = nullptr;
	void prefill() { std::memset(storage, VH_FILL, sizeof(storage)); }
	~Slot() { destroy(); }
	void destroy() { if(p) { p->~CL(); p = nullptr; } }
};

struct Case
{
	std::map<std::pair<int, int>, std::vector<vh::Cmd>> behav;
	std::map<int, int> acts;
	std::map<int, CL::Handle> regs;
	std::vector<std::unique_ptr<Slot>> lists;

	CL & L(long i) {
		if(i < 0 || i >= (long)lists.size() || ! lists[i]->p) { std::printf("harness-error dead list %ld\n", i); std::fflush(stdout); std::abort(); }
		return *lists[i]->p;
	}

	void exec(const std::vector<vh::Cmd> & cmds) { for(const auto & c : cmds) step(c); }

	void step(const vh::Cmd & c)
	{
		using vh::num;
		const std::string & op = c[0];
		if(op == "append") { regs[num(c[3])] = L(num(c[1])).append(Cb(num(c[2]))); }
		else if(op == "prepend") { regs[num(c[3])] = L(num(c[1])).prepend(Cb(num(c[2]))); }
		else if(op == "insert") { CL::Handle before = regs[num(c[3])]; regs[num(c[4])] = L(num(c[1])).insert(Cb(num(c[2])), before); }
		else if(op == "remove") { std::printf("ret %d\n", (int)L(num(c[1])).remove(regs[num(c[2])])); }
		else if(op == "owns") { std::printf("ret %d\n", (int)L(num(c[1])).ownsHandle(regs[num(c[2])])); }
		else if(op == "empty") { std::printf("ret %d\n", (int)L(num(c[1])).empty()); }
		else if(op == "invoke") { L(num(c[1]))((int)num(c[2])); }
		else if(op == "foreach") {
			L(num(c[1])).forEach([](const CL::Handle &, const CL::Callback & cb) { std::printf("visit %d\n", idOf(cb)); });
		}
		else if(op == "foreachif") {
			long k = num(c[2]); long seen = 0;
			bool r = L(num(c[1])).forEachIf([&](const CL::Callback & cb) -> bool { std::printf("visit %d\n", idOf(cb)); ++seen; return seen < k; });
			std::printf("ret %d\n", (int)r);
		}
#if VH_CB == 1
		else if(op == "has") { std::printf("ret %d\n", (int)eventpp::hasListener(L(num(c[1])), Cb(num(c[2])))); }
		else if(op == "removel") { std::printf("ret %d\n", (int)eventpp::removeListener(L(num(c[1])), Cb(num(c[2])))); }
#endif
		else if(op == "hasany") { std::printf("ret %d\n", (int)eventpp::hasAnyListener(L(num(c[1])))); }
		else if(op == "new") { Slot & s = slot(num(c[1])); s.prefill(); s.p = new (s.storage) CL(); }
		else if(op == "copyctor") { CL & src = L(num(c[1])); Slot & s = slot(num(c[2])); s.prefill(); s.p = new (s.storage) CL(src); }
		else if(op == "movector") { CL & src = L(num(c[1])); Slot & s = slot(num(c[2])); s.prefill(); s.p = new (s.storage) CL(std::move(src)); }
		else if(op == "copyassign") { L(num(c[2])) = L(num(c[1])); }
		else if(op == "moveassign") { CL & src = L(num(c[1])); L(num(c[2])) = std::move(src); }
		else if(op == "swap") { using std::swap; swap(L(num(c[1])), L(num(c[2]))); }
		else if(op == "destroy") { lists[num(c[1])]->destroy(); }
		else if(op == "setcur") {
			const unsigned int target = 0xFFFFFFFFu - (unsigned int)num(c[2]);
			CL & l = L(num(c[1]));
			if(l.currentCounter.load() < target) l.currentCounter = target;
		}
		else if(op == "ledger") {
			std::printf("ledger");
			for(long i = 0; i < num(c[1]); ++i) std::printf(" %d", g_live[(int)i]);
			std::printf("\n");
		}
		else { std::printf("harness-error unknown op %s\n", op.c_str()); std::fflush(stdout); std::abort(); }
	}

	Slot & slot(long i) {
		if(i < 0 || i >= (long)lists.size() || lists[i]->p) { std::printf("harness-error slot %ld busy\n", i); std::fflush(stdout); std::abort(); }
		return *lists[i];
	}

	static int idOf(const Cb & cb) { return cb.id; }
	static int idOf(const std::function<void (int)> & f) { const Cb * p = f.target<Cb>(); return p ? p->id : -1; }
};

void Cb::operator() (int a) const
{
	const int me = id;     // the stored object may be destroyed while the body runs
	std::printf("call %d %d\n", me, a);
	const int n = ++g_case->acts[me];
	auto it = g_case->behav.find(std::make_pair(me, n));
	if(it != g_case->behav.end()) {
		const std::vector<vh::Cmd> body = it->second;
		g_case->exec(body);
	}
}

} // namespace

int main()
{
	std::string line;
	std::unique_ptr<Case> cs;
	while(std::getline(std::cin, line)) {
		auto ws = vh::words(line);
		if(ws.empty() || ws[0] == "#") continue;
		if(ws[0] == "case") {
			cs.reset(new Case());
			g_case = cs.get();
			g_live.clear();
			std::printf("case %s\n", ws[1].c_str());
			std::fflush(stdout);
			cs->lists.emplace_back(new Slot());
			cs->lists[0]->prefill();
			cs->lists[0]->p = new (cs->lists[0]->storage) CL();
		}
		else if(ws[0] == "nl") {
			for(long i = 1; i < vh::num(ws[1]); ++i) {
				cs->lists.emplace_back(new Slot());
				Slot & s = *cs->lists.back(); s.prefill(); s.p = new (s.storage) CL();
			}
		}
		else if(ws[0] == "fuel") {}
		else if(ws[0] == "cb") { cs->behav[std::make_pair((int)vh::num(ws[1]), (int)vh::num(ws[2]))] = vh::splitCmds(ws, 4); }
		else if(ws[0] == "main") { cs->exec(vh::splitCmds(ws, 2)); }
		else if(ws[0] == "end") {
			cs->regs.clear();
			cs.reset();
			g_case = nullptr;
			std::printf("end\n");
			std::fflush(stdout);
		}
	}
	return 0;
}
