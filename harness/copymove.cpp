// copymove.cpp — copy / move / assign / swap of the REAL event queues, each object constructed
// by placement-new into storage PRE-FILLED with the case's byte pattern (C10: results must not
// depend on what the memory held before).  Same trace lines as ocaml/_build/driver_copy.
//   kind eq  : eventpp::EventQueue<int, void(int)> with MixinFilter
//   kind heq : eventpp::HeterEventQueue<int, HeterTuple<void(int)>>
//   -DVH_POLICY=0 MultipleThreading (std::atomic)  =1 SingleThreading (plain Atomic)
#include "common.h"
#define private public
#define protected public
#include "eventpp/hetereventqueue.h"
#include "eventpp/mixins/mixinfilter.h"
#undef private
#undef protected

#ifndef VH_POLICY
#define VH_POLICY 0
#endif

namespace {

struct Base
{
	virtual ~Base() {}
	virtual void step(const vh::Cmd & c) = 0;
};

template <typename Q>
struct Slot
{
	alignas(Q) unsigned char storage[sizeof(Q)];
	Q * p = nullptr;
	void prefill(int byte) { std::memset(storage, byte, sizeof(storage)); }
	void destroy() { if(p) { p->~Q(); p = nullptr; } }
	~Slot() { destroy(); }
};

struct EqPolicies
{
#if VH_POLICY == 1
	using Threading = eventpp::SingleThreading;
#endif
	using Mixins = eventpp::MixinList<eventpp::MixinFilter>;
};
struct HeqPolicies
{
#if VH_POLICY == 1
	using Threading = eventpp::SingleThreading;
#endif
};

using EQ = eventpp::EventQueue<int, void (int), EqPolicies>;
using HEQ = eventpp::HeterEventQueue<int, eventpp::HeterTuple<void (int), void (int, int)>, HeqPolicies>;

extern int g_running;

// EQ: model key k is event k.  HEQ has two prototypes: model key k is (event k / 2, prototype k % 2),
// so that one event's HeterCallbackList can hold a prototype list that exists but is empty.
template <typename Q> struct Ops;

template <> struct Ops<EQ>
{
	using Handle = EQ::Handle;
	static Handle append(EQ & q, int k, int c) { return q.appendListener(k, [c, k](int a) { std::printf("call %d %d %d %d\n", g_running, c, k, a); }); }
	static bool owns(EQ & q, int k, const Handle & h) { return q.ownsHandle(k, h); }
	static bool remove(EQ & q, int k, const Handle & h) { return q.removeListener(k, h); }
	static void dispatch(EQ & q, int k, int a) { q.dispatch(k, a); }
	static void enqueue(EQ & q, int k, int a) { q.enqueue(k, a); }
};
template <> struct Ops<HEQ>
{
	using Handle = HEQ::Handle;
	static Handle append(HEQ & q, int k, int c) {
		if(k % 2 == 0) return q.appendListener(k / 2, [c, k](int a) { std::printf("call %d %d %d %d\n", g_running, c, k, a); });
		else return q.appendListener(k / 2, [c, k](int a, int) { std::printf("call %d %d %d %d\n", g_running, c, k, a); });
	}
	// the heterogeneous dispatcher has no ownsHandle; the generator does not ask
	static bool owns(HEQ &, int, const Handle &) { std::printf("harness-error no ownsHandle for this kind\n"); std::fflush(stdout); std::abort(); }
	static bool remove(HEQ & q, int k, const Handle & h) { return q.removeListener(k / 2, h); }
	static void dispatch(HEQ & q, int k, int a) { if(k % 2 == 0) q.dispatch(k / 2, a); else q.dispatch(k / 2, a, a); }
	static void enqueue(HEQ & q, int k, int a) { if(k % 2 == 0) q.enqueue(k / 2, a); else q.enqueue(k / 2, a, a); }
};

// NOTE: listeners print the object index they were ADDED to; after a copy the copied listener
// prints the source's index.  The model does the same (CCall carries the object that runs it):
// so the harness passes the running object's index through a global instead.
int g_running = -1;

// guards held on an object by an operation in flight (guardbegin/guardend): w = 0 the guard a
// processing call holds on queueEmptyCounter (done directly: it only exists inside process()),
// w = 1 a live DisableQueueNotify (EventQueue) / the same counter directly (HeterEventQueue has no such class)
struct NotifyGuards
{
	std::vector<std::unique_ptr<EQ::DisableQueueNotify>> eq;
	void begin(EQ & q) { eq.emplace_back(new EQ::DisableQueueNotify(&q)); }
	void end(EQ &) { if(eq.empty()) { std::printf("harness-error no guard\n"); std::fflush(stdout); std::abort(); } eq.pop_back(); }
	void begin(HEQ & q) { ++q.queueNotifyCounter; }
	void end(HEQ & q) { --q.queueNotifyCounter; }
};

template <typename Q>
struct Runner : Base
{
	std::vector<std::unique_ptr<Slot<Q>>> slots;
	std::vector<NotifyGuards> guards;       // declared after slots: released before the queues are destroyed
	std::vector<typename Ops<Q>::Handle> handles;   // the i-th append of the case fills handle register i
	int fill;
	Runner(int n, int fill) : fill(fill) {
		for(int i = 0; i < n; ++i) slots.emplace_back(new Slot<Q>());
		guards.resize(n);
		make(0);
	}
	Q & at(long i) {
		if(i < 0 || i >= (long)slots.size() || ! slots[i]->p) { std::printf("harness-error dead object %ld\n", i); std::fflush(stdout); std::abort(); }
		return *slots[i]->p;
	}
	Slot<Q> & freeSlot(long i) {
		if(i < 0 || i >= (long)slots.size() || slots[i]->p) { std::printf("harness-error slot %ld busy\n", i); std::fflush(stdout); std::abort(); }
		slots[i]->prefill(fill);
		return *slots[i];
	}
	void make(long i) { Slot<Q> & s = freeSlot(i); s.p = new (s.storage) Q(); }
	const typename Ops<Q>::Handle & handleAt(long h) {
		if(h < 0 || h >= (long)handles.size()) { std::printf("harness-error no handle %ld\n", h); std::fflush(stdout); std::abort(); }
		return handles[h];
	}

	void step(const vh::Cmd & c) override
	{
		using vh::num;
		const std::string & op = c[0];
		if(op == "append") { handles.push_back(Ops<Q>::append(at(num(c[1])), (int)num(c[2]), (int)num(c[3]))); }
		else if(op == "owns") { std::printf("ret %d\n", (int)Ops<Q>::owns(at(num(c[1])), (int)num(c[2]), handleAt(num(c[3])))); }
		else if(op == "remove") { std::printf("ret %d\n", (int)Ops<Q>::remove(at(num(c[1])), (int)num(c[2]), handleAt(num(c[3])))); }
		else if(op == "addfilter") { addFilter(at(num(c[1])), (int)num(c[2]), c[3] == "1"); }
		else if(op == "enqueue") { Ops<Q>::enqueue(at(num(c[1])), (int)num(c[2]), (int)num(c[3])); }
		else if(op == "process") { g_running = (int)num(c[1]); std::printf("ret %d\n", (int)at(num(c[1])).process()); }
		else if(op == "dispatch") { g_running = (int)num(c[1]); Ops<Q>::dispatch(at(num(c[1])), (int)num(c[2]), (int)num(c[3])); }
		else if(op == "emptyq") { std::printf("ret %d\n", (int)at(num(c[1])).emptyQueue()); }
		else if(op == "canprocess") { std::printf("ret %d\n", (int)at(num(c[1])).doCanProcess()); }
		else if(op == "guardbegin") { Q & q = at(num(c[1])); if(num(c[2]) == 0) ++q.queueEmptyCounter; else guards[num(c[1])].begin(q); }
		else if(op == "guardend") { Q & q = at(num(c[1])); if(num(c[2]) == 0) --q.queueEmptyCounter; else guards[num(c[1])].end(q); }
		else if(op == "new") { make(num(c[1])); }
		else if(op == "copyctor") { Q & src = at(num(c[1])); Slot<Q> & s = freeSlot(num(c[2])); s.p = new (s.storage) Q(src); }
		else if(op == "movector") { Q & src = at(num(c[1])); Slot<Q> & s = freeSlot(num(c[2])); s.p = new (s.storage) Q(std::move(src)); }
		else if(op == "copyassign") { at(num(c[2])) = at(num(c[1])); }
		else if(op == "moveassign") { Q & src = at(num(c[1])); at(num(c[2])) = std::move(src); }
		else if(op == "swap") { using std::swap; swap(at(num(c[1])), at(num(c[2]))); }
		else if(op == "destroy") { slots[num(c[1])]->destroy(); }
		else { std::printf("harness-error unknown op %s\n", op.c_str()); std::fflush(stdout); std::abort(); }
	}

	template <typename QQ = Q>
	typename std::enable_if<std::is_same<QQ, EQ>::value>::type addFilter(Q & q, int cb, bool v) {
		q.appendFilter([cb, v](int & a) -> bool { std::printf("filter %d %d %d\n", g_running, cb, a); return v; });
	}
	template <typename QQ = Q>
	typename std::enable_if<! std::is_same<QQ, EQ>::value>::type addFilter(Q &, int, bool) {
		std::printf("harness-error no filters for this kind\n"); std::fflush(stdout); std::abort();
	}
};

} // namespace

int main()
{
	std::string line, kind = "eq";
	int fill = 0, n = 3;
	std::unique_ptr<Base> runner;
	while(std::getline(std::cin, line)) {
		auto ws = vh::words(line);
		if(ws.empty() || ws[0] == "#") continue;
		if(ws[0] == "case") { runner.reset(); kind = "eq"; fill = 0; n = 3; std::printf("case %s\n", ws[1].c_str()); std::fflush(stdout); }
		else if(ws[0] == "kind") kind = ws[1];
		else if(ws[0] == "fill") fill = (int)vh::num(ws[1]);
		else if(ws[0] == "n") n = (int)vh::num(ws[1]);
		else if(ws[0] == "main") {
			if(kind == "heq") runner.reset(new Runner<HEQ>(n, fill)); else runner.reset(new Runner<EQ>(n, fill));
			for(const auto & c : vh::splitCmds(ws, 2)) runner->step(c);
		}
		else if(ws[0] == "end") { runner.reset(); std::printf("end\n"); std::fflush(stdout); }
	}
	return 0;
}
