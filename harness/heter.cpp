// heter.cpp — interpreter for `heter` case files (coq/HeterModel.v, ocaml/driver_heter.ml),
// driving the REAL eventpp::HeterCallbackList / HeterEventDispatcher / HeterEventQueue built
// from the repository's working tree.  Prints the same trace lines as the extracted model.
//
//   -DVH_INCL=0  event excluded (default policy), key int
//           =1  ArgumentPassingIncludeEvent, key std::string (beyond SSO): every prototype,
//               callback and predicate takes the event as its first parameter; keys are
//               passed as prvalues (odd values) or const lvalues (even values)
//   -DVH_LIST=0  prototypes  void(), void(int), void(const std::string &), void(Payload), void(int,int)
//           =1  prototypes  void(int,int), void(const Payload &), void(long), void(std::string), void(int), void()
//               (overlapping: void(long) is listed before void(int))
//   -DVH_POLICY=0 default threading  =1 SingleThreading
//
//   keys 0..4: one HeterEventQueue (listeners, dispatch, enqueue, process*)
//   keys 5..7: one HeterEventDispatcher (listeners, dispatch)
//   key  9   : one HeterCallbackList (append/prepend/insert/remove, dispatch = invoke)
//
//   kinds (shared numbering with the model's `callable` table, printed by `heter --table`):
//     0..10  callback / predicate functor kinds      20..27 argument-list kinds
//     40+p   the stored tuple of prototype p handed out as const lvalues (queued dispatch)
#include "common.h"
#include "eventpp/hetercallbacklist.h"
#include "eventpp/hetereventdispatcher.h"
#include "eventpp/hetereventqueue.h"

#ifndef VH_INCL
#define VH_INCL 0
#endif
#ifndef VH_LIST
#define VH_LIST 0
#endif
#ifndef VH_POLICY
#define VH_POLICY 0
#endif

namespace {

int g_live = 0;        // Payload objects alive and holding a value

std::string mkstr(long v) { return "s" + std::to_string(v) + "-string-payload-beyond-small-string-optimisation"; }
long decodeStr(const std::string & s)
{
	if(s.size() < 3 || s[0] != 's') return -1;
	size_t i = 1; long v = 0;
	while(i < s.size() && s[i] >= '0' && s[i] <= '9') { v = v * 10 + (s[i] - '0'); ++i; }
	if(i == 1 || s != mkstr(v)) return -1;
	return v;
}

struct Payload
{
	int v;
	bool valid;
	std::string s;
	char pad[40];
	explicit Payload(int v) : v(v), valid(true), s(mkstr(v)), pad() { ++g_live; }
	Payload(const Payload & o) : v(o.v), valid(o.valid), s(o.s), pad() { if(valid) ++g_live; }
	Payload(Payload && o) noexcept : v(o.v), valid(o.valid), s(std::move(o.s)), pad() { o.valid = false; o.v = -2; }
	Payload & operator = (const Payload & o) { if(this != &o) { if(valid) --g_live; v = o.v; valid = o.valid; s = o.s; if(valid) ++g_live; } return *this; }
	Payload & operator = (Payload && o) noexcept { if(this != &o) { if(valid) --g_live; v = o.v; valid = o.valid; s = std::move(o.s); o.valid = false; o.v = -2; } return *this; }
	~Payload() { if(valid) --g_live; valid = false; }
	long value() const { return (valid && decodeStr(s) == v) ? v : -1; }
};

#if VH_INCL
using Key = std::string;
Key mkKey(long k) { return "k" + std::to_string(k) + "-event-key-beyond-small-string-optimisation"; }
int decodeKey(const Key & s) { return (s.size() > 2 && s[0] == 'k' && s == mkKey(s[1] - '0')) ? (s[1] - '0') : -1; }
#define KP1 const Key & ek
#define KP const Key & ek,
#define KGOT decodeKey(ek)
template <typename ...A> using Proto = void (Key, A...);
#else
using Key = int;
Key mkKey(long k) { return (int)k; }
#define KP1
#define KP
#define KGOT (-100)
template <typename ...A> using Proto = void (A...);
#endif

#if VH_LIST == 0
using List = eventpp::HeterTuple<Proto<>, Proto<int>, Proto<const std::string &>, Proto<Payload>, Proto<int, int> >;
#else
using List = eventpp::HeterTuple<Proto<int, int>, Proto<const Payload &>, Proto<long>, Proto<std::string>, Proto<int>, Proto<> >;
#endif
constexpr int NP = eventpp::HeterTupleSize<List>::value;

struct Policies
{
#if VH_POLICY == 1
	using Threading = eventpp::SingleThreading;
#endif
#if VH_INCL
	using ArgumentPassingMode = eventpp::ArgumentPassingIncludeEvent;
#endif
};

using Q = eventpp::HeterEventQueue<Key, List, Policies>;
using D = eventpp::HeterEventDispatcher<Key, List, Policies>;
using L = eventpp::HeterCallbackList<List, Policies>;
using Handle = Q::Handle;
static_assert(std::is_same<Q::Handle, D::Handle>::value && std::is_same<Q::Handle, L::Handle>::value, "one handle type");

struct Runner;
Runner * g_runner = nullptr;
void runBody(const std::vector<vh::Cmd> & body);
std::map<std::pair<int, int>, std::vector<vh::Cmd>> g_behav;
std::map<std::pair<int, int>, std::pair<std::vector<vh::Cmd>, bool>> g_pbehav;
std::map<int, int> g_acts, g_pacts;

struct FnBase { int id; int regk; };

struct CbRole
{
	using Ret = void;
	static void fire(const FnBase & b, int gotk, long v) {
		const int me = b.id, rk = b.regk;
		std::printf("call %d %d %ld\n", me, rk, v);
		if(VH_INCL && gotk != rk) std::printf("misrouted %d %d %d\n", me, rk, gotk);
		const int n = ++g_acts[me];
		auto it = g_behav.find(std::make_pair(me, n));
		if(it != g_behav.end()) { const std::vector<vh::Cmd> body = it->second; runBody(body); }
	}
};

struct PredRole
{
	using Ret = bool;
	static bool fire(const FnBase & b, int gotk, long v) {
		const int me = b.id;
		std::printf("pred %d %ld\n", me, v);
		if(VH_INCL && gotk < 0) std::printf("predkey-corrupt %d\n", me);
		const int n = ++g_pacts[me];
		auto it = g_pbehav.find(std::make_pair(me, n));
		if(it != g_pbehav.end()) {
			const std::vector<vh::Cmd> body = it->second.first;
			const bool verdict = it->second.second;
			runBody(body);
			return verdict;
		}
		return ((me + n) % 2) == 0;
	}
};

// functor kinds: what a callback / predicate can be called with is decided by the compiler
template <int K, typename R> struct Fn;
template <typename R> struct Fn<0, R> : FnBase { typename R::Ret operator() (KP1) const { return R::fire(*this, KGOT, 0); } };
template <typename R> struct Fn<1, R> : FnBase { typename R::Ret operator() (KP int a) const { return R::fire(*this, KGOT, a); } };
template <typename R> struct Fn<2, R> : FnBase { typename R::Ret operator() (KP long a) const { return R::fire(*this, KGOT, a); } };
template <typename R> struct Fn<3, R> : FnBase { typename R::Ret operator() (KP const std::string & s) const { return R::fire(*this, KGOT, decodeStr(s)); } };
template <typename R> struct Fn<4, R> : FnBase { typename R::Ret operator() (KP std::string s) const { return R::fire(*this, KGOT, decodeStr(s)); } };
template <typename R> struct Fn<5, R> : FnBase { typename R::Ret operator() (KP const Payload & p) const { return R::fire(*this, KGOT, p.value()); } };
template <typename R> struct Fn<6, R> : FnBase { typename R::Ret operator() (KP Payload p) const { return R::fire(*this, KGOT, p.value()); } };
template <typename R> struct Fn<7, R> : FnBase { typename R::Ret operator() (KP int a, int b) const { return R::fire(*this, KGOT, b == a + 1 ? a : -1); } };
template <typename R> struct Fn<8, R> : FnBase { typename R::Ret operator() (KP long a, long b) const { return R::fire(*this, KGOT, b == a + 1 ? a : -1); } };
template <typename R> struct Fn<9, R> : FnBase {
	typename R::Ret operator() (KP1) const { return R::fire(*this, KGOT, 0); }
	typename R::Ret operator() (KP int a) const { return R::fire(*this, KGOT, a); }
	typename R::Ret operator() (KP const std::string & s) const { return R::fire(*this, KGOT, decodeStr(s)); }
};
template <typename R> struct Fn<10, R> : FnBase { typename R::Ret operator() (KP double a) const { return R::fire(*this, KGOT, (long)a); } };
constexpr int NFN = 11;
constexpr int NAK = 8;

template <int K, typename R> Fn<K, R> mkFn(int id, int regk) { Fn<K, R> f; f.id = id; f.regk = regk; return f; }

// argument-list kinds: f receives exactly what the listeners see (in include mode the event first)
template <typename F>
void withArgs(int k, int ak, int v, F && f)
{
#if VH_INCL
	const Key lk = mkKey(k);
#define KARG(body) do { if(v % 2) { auto call = [&](Key && kk) { body; }; call(mkKey(k)); } else { auto call = [&](const Key & kk) { body; }; call(lk); } } while(0)
#define KK std::forward<decltype(kk)>(kk),
#define KK1 std::forward<decltype(kk)>(kk)
#else
	(void)k;
#define KARG(body) do { body; } while(0)
#define KK
#define KK1
#endif
	switch(ak) {
	case 0: KARG(f(KK1)); break;
	case 1: KARG(f(KK (int)v)); break;
	case 2: KARG(f(KK (long)v)); break;
	case 3: KARG(f(KK mkstr(v))); break;
	case 4: { const std::string s = mkstr(v); const char * p = s.c_str(); KARG(f(KK std::move(p))); break; }
	case 5: KARG(f(KK Payload(v))); break;
	case 6: { const Payload p(v); KARG(f(KK p)); break; }
	case 7: KARG(f(KK (int)v, (int)(v + 1))); break;
	default: std::printf("harness-error bad argument kind %d\n", ak); std::fflush(stdout); std::abort();
	}
}

// ---- compile-time facts (eventpp's own CanInvoke) for the model's `callable` table -----------
template <typename F, typename P> struct CanP;
template <typename F, typename RT, typename ...A> struct CanP<F, RT (A...)> { enum { value = eventpp::internal_::CanInvoke<F, A...>::value }; };
template <typename P, typename Q2> struct OwnCan;
template <typename RT, typename ...A, typename Q2> struct OwnCan<RT (A...), Q2> {
	enum { value = eventpp::internal_::CanInvoke<Q2, const typename std::remove_cv<typename std::remove_reference<A>::type>::type &...>::value };
};
template <typename T> struct IsPayload { enum { value = std::is_same<typename std::remove_cv<typename std::remove_reference<T>::type>::type, Payload>::value }; };
template <typename P> struct ProtoFacts;
template <typename RT, typename ...A> struct ProtoFacts<RT (A...)> {
	static int arity() { return (int)sizeof...(A) - VH_INCL; }
	static int counted() { int n = 0; int d[] = { 0, (n += IsPayload<A>::value)... }; (void)d; return n > 0; }
};
template <int P> using ProtoAt = typename eventpp::internal_::FindPrototypeByIndex<List, P>::Prototype;

template <typename F, int P = 0>
struct RowCallable { static void print() { if constexpr (P < NP) { std::printf(" %d", (int)CanP<F, ProtoAt<P>>::value); RowCallable<F, P + 1>::print(); } } };
template <int P = 0, typename ...A>
void rowArgs() { if constexpr (P < NP) { std::printf(" %d", (int)eventpp::internal_::CanInvoke<ProtoAt<P>, A...>::value); rowArgs<P + 1, A...>(); } }
template <int O, int P = 0>
void rowOwn() { if constexpr (P < NP) { std::printf(" %d", (int)OwnCan<ProtoAt<O>, ProtoAt<P>>::value); rowOwn<O, P + 1>(); } }
template <int P = 0> void rowArity() { if constexpr (P < NP) { std::printf(" %d", ProtoFacts<ProtoAt<P>>::arity()); rowArity<P + 1>(); } }
template <int P = 0> void rowCounted() { if constexpr (P < NP) { std::printf(" %d", ProtoFacts<ProtoAt<P>>::counted()); rowCounted<P + 1>(); } }
template <int K = 0> void tableFns() {
	if constexpr (K < NFN) {
		std::printf("callable %d :", K); RowCallable<Fn<K, CbRole>>::print(); std::printf("\n");
		std::printf("predrow %d :", K); RowCallable<Fn<K, PredRole>>::print(); std::printf("\n");
		tableFns<K + 1>();
	}
}
template <int O = 0> void tableOwn() { if constexpr (O < NP) { std::printf("callable %d :", 40 + O); rowOwn<O>(); std::printf("\n"); tableOwn<O + 1>(); } }

void printTable()
{
	std::printf("np %d\n", NP);
	std::printf("arity :"); rowArity(); std::printf("\n");
	std::printf("counted :"); rowCounted(); std::printf("\n");
	tableFns();
	for(int ak = 0; ak < NAK; ++ak) {
		for(int v = 1; v <= 2; ++v) {   // both ways of passing the key must give the same row
			std::printf(v == 1 ? "callable %d :" : "keylvalue %d :", 20 + ak);
			withArgs(0, ak, v, [](auto && ...a) { rowArgs<0, decltype(a)...>(); });
			std::printf("\n");
		}
	}
	tableOwn();
}

// ---- the interpreter -------------------------------------------------------------------------
struct Runner
{
	Q q;
	D d;
	L l;
	std::map<int, Handle> regs;

	void exec(const std::vector<vh::Cmd> & cmds) { for(const auto & c : cmds) step(c); }

	[[noreturn]] static void bad(const char * what, int x) { std::printf("harness-error %s %d\n", what, x); std::fflush(stdout); std::abort(); }

	template <int K>
	void addK(const std::string & op, int k, int c, int hb, int h)
	{
		using F = Fn<K, CbRole>;
		if constexpr (eventpp::internal_::FindPrototypeByCallable<List, F>::index >= 0) {
			const F f = mkFn<K, CbRole>(c, k);
			Handle before = (op == "insert") ? regs[hb] : Handle();
			Handle nh;
			if(k == 9) {
				nh = (op == "append") ? l.append(f) : (op == "prepend") ? l.prepend(f) : l.insert(f, before);
			}
			else if(k >= 5) {
				nh = (op == "append") ? d.appendListener(mkKey(k), f) : (op == "prepend") ? d.prependListener(mkKey(k), f) : d.insertListener(mkKey(k), f, before);
			}
			else {
				nh = (op == "append") ? q.appendListener(mkKey(k), f) : (op == "prepend") ? q.prependListener(mkKey(k), f) : q.insertListener(mkKey(k), f, before);
			}
			regs[h] = nh;
			std::printf("bound %d\n", nh.index);
		}
		else bad("callback kind callable with no prototype", K);
	}

	template <int K = 0>
	void add(int ck, const std::string & op, int k, int c, int hb, int h)
	{
		if constexpr (K < NFN) { if(ck == K) addK<K>(op, k, c, hb, h); else add<K + 1>(ck, op, k, c, hb, h); }
		else bad("callback kind", ck);
	}

	template <int K = 0>
	bool processIf(int pk, int p)
	{
		if constexpr (K < NFN) { if(pk == K) return q.processIf(mkFn<K, PredRole>(p, -1)); return processIf<K + 1>(pk, p); }
		else bad("predicate kind", pk);
	}

	void send(bool enqueue, int k, int ak, int v)
	{
		withArgs(k, ak, v, [&](auto && ...a) {
			if constexpr (eventpp::internal_::FindPrototypeByArgs<List, decltype(a)...>::index >= 0) {
#if VH_INCL
				if(k == 9) l(std::forward<decltype(a)>(a)...);
				else if(k >= 5) d.dispatch(std::forward<decltype(a)>(a)...);
				else if(enqueue) q.enqueue(std::forward<decltype(a)>(a)...);
				else q.dispatch(std::forward<decltype(a)>(a)...);
#else
				if(k == 9) l(std::forward<decltype(a)>(a)...);
				else if(k >= 5) d.dispatch(mkKey(k), std::forward<decltype(a)>(a)...);
				else if(enqueue) q.enqueue(mkKey(k), std::forward<decltype(a)>(a)...);
				else q.dispatch(mkKey(k), std::forward<decltype(a)>(a)...);
#endif
			}
			else bad("argument kind callable with no prototype", ak);
		});
	}

	void step(const vh::Cmd & c)
	{
		using vh::num;
		const std::string & op = c[0];
		if(op == "append" || op == "prepend") add((int)num(c[2]), op, (int)num(c[1]), (int)num(c[3]), -1, (int)num(c[4]));
		else if(op == "insert") add((int)num(c[2]), op, (int)num(c[1]), (int)num(c[3]), (int)num(c[4]), (int)num(c[5]));
		else if(op == "remove") {
			const int k = (int)num(c[1]);
			const Handle h = regs[(int)num(c[2])];
			const bool r = (k == 9) ? l.remove(h) : (k >= 5) ? d.removeListener(mkKey(k), h) : q.removeListener(mkKey(k), h);
			std::printf("ret %d\n", (int)r);
		}
		else if(op == "dispatch") send(false, (int)num(c[1]), (int)num(c[2]), (int)num(c[3]));
		else if(op == "enqueue") {
			if(num(c[1]) > 4) bad("enqueue on a key without queue", (int)num(c[1]));
			send(true, (int)num(c[1]), (int)num(c[2]), (int)num(c[3]));
		}
		else if(op == "process") { std::printf("ret %d\n", (int)q.process()); }
		else if(op == "processone") { std::printf("ret %d\n", (int)q.processOne()); }
		else if(op == "processif") { std::printf("ret %d\n", (int)processIf((int)num(c[1]), (int)num(c[2]))); }
		else if(op == "clear") { q.clearEvents(); }
		else if(op == "emptyq") { std::printf("ret %d\n", (int)q.emptyQueue()); }
		else if(op == "ledger") { std::printf("live %d\n", g_live); }
		else { std::printf("harness-error unknown op %s\n", op.c_str()); std::fflush(stdout); std::abort(); }
	}
};

void runBody(const std::vector<vh::Cmd> & body) { g_runner->exec(body); }

} // namespace

int main(int argc, char ** argv)
{
	std::setvbuf(stdout, nullptr, _IOLBF, 0);   // a sanitizer abort must not swallow the trace so far
	if(argc > 1 && std::string(argv[1]) == "--table") { printTable(); return 0; }
	std::string line;
	std::unique_ptr<Runner> runner;
	while(std::getline(std::cin, line)) {
		auto ws = vh::words(line);
		if(ws.empty() || ws[0] == "#") continue;
		if(ws[0] == "case") {
			runner.reset(); g_runner = nullptr; g_behav.clear(); g_pbehav.clear(); g_acts.clear(); g_pacts.clear();
			std::printf("case %s\n", ws[1].c_str()); std::fflush(stdout);
		}
		else if(ws[0] == "cb") { g_behav[std::make_pair((int)vh::num(ws[1]), (int)vh::num(ws[2]))] = vh::splitCmds(ws, 4); }
		else if(ws[0] == "pred") { g_pbehav[std::make_pair((int)vh::num(ws[1]), (int)vh::num(ws[2]))] = std::make_pair(vh::splitCmds(ws, 5), ws[3] == "1"); }
		else if(ws[0] == "main") {
			runner.reset(new Runner());
			g_runner = runner.get();
			runner->exec(vh::splitCmds(ws, 2));
			std::fflush(stdout);
		}
		else if(ws[0] == "end") {
			runner.reset(); g_runner = nullptr;
			if(g_live != 0) std::printf("leaked-payloads %d\n", g_live);
			g_live = 0;
			std::printf("end\n"); std::fflush(stdout);
		}
		// every other line (np, arity, counted, callable, own, fuel, variant) is for the model driver
	}
	return 0;
}
