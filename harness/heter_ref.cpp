// heter_ref.cpp — C14 probe for prototype lists whose prototypes differ only in the value category of a parameter
// (void(std::string &) listed before void(std::string)).  In such a list the prototype an event is enqueued under
// depends on whether the argument is an lvalue; the stored copy is later handed to the dispatcher again, and which
// callbacks it then reaches must not depend on WHICH call consumes the event.  The probe runs the same history — a
// sequence of enqueues of rvalue strings and ints, each with a unique payload — three times and consumes it
//   A  by process()
//   B  by processOne() until the queue is empty
//   C  by processIf with a predicate on the string prototype (accepting every second string), then processIf on ints,
//      then process() for the rest
// and prints, per payload, the callbacks it reached.  The property ("an enqueue selects the first listed prototype
// callable with its argument types and reaches exactly the callbacks bound to that prototype") makes the three
// answers equal.  Case format on stdin:  case <id> / ops: s<number> i<number> ... / end
#include <eventpp/hetereventqueue.h>

#include <cstdio>
#include <iostream>
#include <map>
#include <sstream>
#include <string>
#include <vector>

using Queue = eventpp::HeterEventQueue<int, eventpp::HeterTuple<void (std::string &), void (std::string), void (int)> >;

static std::map<std::string, std::vector<std::string> > reached;

static void setup(Queue & q)
{
	q.appendListener(1, [](std::string & s) { reached[s].push_back("editor"); });                 // prototype 0
	q.appendListener(1, [](std::string && s) { reached[s].push_back("sink"); });                  // prototype 1
	q.appendListener(1, [](int n) { reached["#" + std::to_string(n)].push_back("int"); });        // prototype 2
	q.appendListener(1, [](std::string && s) { reached[s].push_back("sink2"); });                 // prototype 1
}

static void fill(Queue & q, const std::vector<std::string> & ops)
{
	for(const std::string & op : ops) {
		if(op[0] == 's') q.enqueue(1, std::string("payload-payload-payload-payload-") + op.substr(1));
		else q.enqueue(1, std::stoi(op.substr(1)));
	}
}

static std::string render()
{
	std::string r;
	for(const auto & kv : reached) {
		r += kv.first + ":";
		for(const auto & c : kv.second) r += c + ",";
		r += " ";
	}
	reached.clear();
	return r;
}

int main()
{
	std::string line, id;
	std::vector<std::string> ops;
	while(std::getline(std::cin, line)) {
		std::istringstream in(line);
		std::string w;
		in >> w;
		if(w == "case") { in >> id; ops.clear(); }
		else if(w == "ops:") { while(in >> w) ops.push_back(w); }
		else if(w == "end") {
			std::printf("case %s\n", id.c_str());
			{ Queue q; setup(q); fill(q, ops); q.process(); std::printf("A %s\n", render().c_str()); }
			{ Queue q; setup(q); fill(q, ops); while(q.processOne()) {} std::printf("B %s\n", render().c_str()); }
			{
				Queue q; setup(q); fill(q, ops);
				int k = 0;
				q.processIf([&k](const std::string &) -> bool { return (k++ % 2) == 0; });
				q.processIf([](int) -> bool { return true; });
				q.process();
				std::printf("C %s\n", render().c_str());
			}
			std::printf("end\n");
			std::fflush(stdout);
		}
	}
	return 0;
}
