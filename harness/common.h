// common.h — shared by all correspondence harnesses (tie B, implementation side).
// Standard headers are included FIRST, then private/protected are opened so that the
// harness can place the generation counter near its maximum (C19) and pre-fill object
// storage (C10) exactly as the repository's own unit tests do.
#ifndef VERIF_COMMON_H
#define VERIF_COMMON_H

#include <algorithm>
#include <array>
#include <atomic>
#include <cassert>
#include <chrono>
#include <climits>
#include <condition_variable>
#include <cstdio>
#include <cstdlib>
#include <cstring>
#include <functional>
#include <iostream>
#include <list>
#include <map>
#include <memory>
#include <mutex>
#include <sstream>
#include <stdexcept>
#include <string>
#include <thread>
#include <tuple>
#include <type_traits>
#include <unordered_map>
#include <utility>
#include <vector>

#define private public
#define protected public
#include "eventpp/callbacklist.h"
#include "eventpp/eventdispatcher.h"
#include "eventpp/eventqueue.h"
#undef private
#undef protected

namespace vh {

inline std::vector<std::string> words(const std::string & line)
{
	std::vector<std::string> out;
	std::istringstream is(line);
	std::string w;
	while(is >> w) out.push_back(w);
	return out;
}

using Cmd = std::vector<std::string>;

inline std::vector<Cmd> splitCmds(const std::vector<std::string> & ws, size_t from)
{
	std::vector<Cmd> out;
	Cmd cur;
	for(size_t i = from; i < ws.size(); ++i) {
		if(ws[i] == ";") {
			if(! cur.empty()) out.push_back(cur);
			cur.clear();
		}
		else cur.push_back(ws[i]);
	}
	if(! cur.empty()) out.push_back(cur);
	return out;
}

inline long num(const std::string & s) { return std::stol(s); }

} // namespace vh

#endif
