// vsched.h — cooperative scheduler for the thread-level correspondence checks (C03 C06 C07 C11).
//
// eventpp is instantiated with a Threading policy whose Mutex, Atomic<T> and ConditionVariable
// call into this scheduler.  Real std::threads are used, but exactly ONE runs at a time; a
// thread that reaches a visible action on a REGISTERED object (a lock, unlock, atomic
// operation, condition-variable wait/notify, or an EVENTPP_VERIF_POINT marker) announces it
// and yields; the scheduler picks the next thread from the case's schedule (a list of thread
// ids; when the named thread is not enabled, or the list is exhausted, the lowest-numbered
// enabled thread runs).  The chosen thread performs its announced action — which is logged as
// `act t<k> <kind> <object>[ <value>]` — and continues (local computation and plain reads
// included) up to its next visible action.  Objects that are not registered behave as plain,
// non-yielding primitives (safe: only one thread ever runs).
//
// The Coq models (coq/*Conc*.v) have exactly this step granularity, so a schedule is replayed
// step for step on model and implementation and the action sequences are compared.
#ifndef VERIF_VSCHED_H
#define VERIF_VSCHED_H

#include <condition_variable>
#include <cstdio>
#include <map>
#include <mutex>
#include <string>
#include <thread>
#include <vector>
#include <functional>
#include <chrono>
#include <cstdlib>

namespace vsched {

enum class Kind { Lock, Unlock, ALoad, AStore, AInc, ADec, AXchg, CvBlock, Notify, Point, Start, Finish };

struct ThreadState
{
	bool started = false;
	bool finished = false;
	// the announced action
	Kind kind = Kind::Start;
	const void * obj = nullptr;
	const char * tag = "";
	bool waitingCv = false;        // parked on a condition variable (disabled until notified / timed out)
	const void * cv = nullptr;
	bool timedWait = false;
	bool timedOut = false;
	const void * relock = nullptr; // mutex to re-acquire after wake-up
};

class Scheduler
{
public:
	static Scheduler & get() { static Scheduler s; return s; }

	void reset(const std::vector<int> & sched) {
		schedule = sched; pos = 0; threads.clear(); names.clear(); owner.clear(); current = -1; deadlock = false; steps = 0;
	}
	void registerObject(const void * p, const std::string & name) { names[p] = name; }
	bool isRegistered(const void * p) const { return active && names.count(p) != 0; }
	// objects the harness cannot name in advance (created by the code under test): asked once, when first locked
	std::function<std::string (const void *)> autoName;
	bool registerOnDemand(const void * p) {
		if(! active || tlsId() < 0) return false;
		if(names.count(p) != 0) return true;
		if(! autoName) return false;
		const std::string nm = autoName(p);
		if(nm.empty()) return false;
		names[p] = nm;
		return true;
	}
	int self() const { return tlsId(); }
	static int & tlsId() { static thread_local int id = -1; return id; }

	// ---- thread lifecycle (called by the harness) ----
	void run(std::vector<std::function<void ()>> bodies) {
		const int n = (int)bodies.size();
		threads.assign(n, ThreadState());
		active = true;
		std::vector<std::thread> ts;
		for(int i = 0; i < n; ++i) {
			ts.emplace_back([this, i, &bodies]() {
				tlsId() = i;
				announce(i, Kind::Start, nullptr, "");
				waitTurn(i);
				bodies[i]();
				{
					std::unique_lock<std::mutex> lk(mx);
					threads[i].finished = true;
					pickNextLocked();
				}
				tlsId() = -1;
			});
		}
		{
			// wait until all threads have announced Start, then pick the first
			std::unique_lock<std::mutex> lk(mx);
			cvAll.wait(lk, [&] { for(auto & t : threads) if(! t.started) return false; return true; });
			pickNextLocked();
		}
		for(auto & t : ts) t.join();
		active = false;
	}

	bool deadlocked() const { return deadlock; }
	std::function<void ()> onDeadlock;   // prints the DEADLOCK line with whatever state the harness wants to show

	// ---- called by the injected primitives ----
	// announce the next visible action of the calling thread, yield, and return when chosen
	void point(Kind kind, const void * obj, const char * tag = "") {
		const int me = tlsId();
		if(me < 0 || ! active) return;
		announce(me, kind, obj, tag);
		{
			std::unique_lock<std::mutex> lk(mx);
			pickNextLocked();
		}
		waitTurn(me);
	}

	void logAction(const char * kind, const void * obj, long value, bool hasValue, const char * tag = "") {
		const int me = tlsId();
		if(me < 0 || ! active) return;
		if(obj) {
			if(hasValue) std::printf("act t%d %s %s %ld\n", me, kind, names[obj].c_str(), value);
			else std::printf("act t%d %s %s\n", me, kind, names[obj].c_str());
		}
		else std::printf("act t%d %s %s\n", me, kind, tag);
	}

	// mutex bookkeeping
	void acquired(const void * m) { owner[m] = tlsId(); }
	void released(const void * m) { owner[m] = -1; }
	bool held(const void * m) { auto it = owner.find(m); return it != owner.end() && it->second >= 0; }

	// condition variable: atomically release the mutex and park
	void cvBlock(const void * cv, const void * mutex, bool timed) {
		const int me = tlsId();
		{
			std::unique_lock<std::mutex> lk(mx);
			ThreadState & t = threads[me];
			t.waitingCv = true; t.cv = cv; t.timedWait = timed; t.timedOut = false; t.relock = mutex;
			owner[mutex] = -1;
			t.kind = Kind::CvBlock; t.obj = cv;
			pickNextLocked();
		}
		waitTurn(me);
		// woken (notified or timed out) AND chosen: the mutex is free, re-acquire it
		owner[mutex] = me;
	}
	bool lastWaitTimedOut() { return threads[tlsId()].timedOut; }

	void notifyOne(const void * cv) {
		std::unique_lock<std::mutex> lk(mx);
		for(size_t i = 0; i < threads.size(); ++i) {
			ThreadState & t = threads[i];
			if(t.waitingCv && t.cv == cv) { t.waitingCv = false; t.kind = Kind::Lock; t.obj = t.relock; break; }
		}
	}

private:
	std::mutex mx;
	std::condition_variable cvTurn, cvAll;
	std::vector<ThreadState> threads;
	std::vector<int> schedule;
	size_t pos = 0;
	int current = -1;
	bool active = false;
	bool deadlock = false;
	long steps = 0;
	std::map<const void *, std::string> names;
	std::map<const void *, int> owner;

	void announce(int me, Kind kind, const void * obj, const char * tag) {
		std::unique_lock<std::mutex> lk(mx);
		ThreadState & t = threads[me];
		t.started = true; t.kind = kind; t.obj = obj; t.tag = tag;
		cvAll.notify_all();
	}

	bool enabledLocked(int i) {
		ThreadState & t = threads[i];
		if(! t.started || t.finished) return false;
		if(t.waitingCv) return false;
		if(t.kind == Kind::Lock) { auto it = owner.find(t.obj); return it == owner.end() || it->second < 0; }
		return true;
	}

	// choose who runs next; called with mx held by the thread that is giving up the baton
	void pickNextLocked() {
		const int n = (int)threads.size();
		int chosen = -1;
		// Schedule entries 1000 + w and 2000 + w are wake-ups without a notification (QConc.unnotified): they apply only
		// when they stand at the head of the remaining schedule at a scheduling step, exactly as in the model; elsewhere
		// they are skipped like the id of a thread that cannot run.
		bool head = true;
		while(pos < schedule.size()) {
			const int want = schedule[pos++];
			if(want >= 1000) {
				bool applied = false;
				if(head) {
					const bool spurious = want >= 2000;
					const int w = want - (spurious ? 2000 : 1000);
					if(w < n) {
						ThreadState & t = threads[w];
						if(! t.finished && t.waitingCv && (spurious || t.timedWait)) {
							t.waitingCv = false; t.timedOut = ! spurious; t.kind = Kind::Lock; t.obj = t.relock;
							if(! spurious) std::printf("act t%d timeout\n", w);
							applied = true;
						}
					}
				}
				head = applied;
				continue;
			}
			if(want >= 0 && want < n && enabledLocked(want)) { chosen = want; break; }
			head = false;
		}
		if(chosen < 0) {
			for(int i = 0; i < n; ++i) if(enabledLocked(i)) { chosen = i; break; }
		}
		if(chosen < 0) {
			// nobody can run: time passes — the lowest-numbered thread in a timed wait times out
			for(int i = 0; i < n; ++i) {
				ThreadState & t = threads[i];
				if(! t.finished && t.waitingCv && t.timedWait) {
					t.waitingCv = false; t.timedOut = true; t.kind = Kind::Lock; t.obj = t.relock;
					std::printf("act t%d timeout\n", i);
					if(enabledLocked(i)) chosen = i;
					break;
				}
			}
		}
		if(chosen < 0) {
			bool all = true;
			for(auto & t : threads) if(! t.finished) all = false;
			if(! all) {
				// every unfinished thread is blocked for ever: the case is over; the blocked threads
				// cannot be unwound, so the process ends here (the driver re-runs the remaining cases)
				deadlock = true;
				if(onDeadlock) onDeadlock(); else std::printf("DEADLOCK\n");
				std::printf("end\n");
				std::fflush(stdout);
				std::_Exit(3);
			}
		}
		current = chosen;
		++steps;
		cvTurn.notify_all();
	}

	void waitTurn(int me) {
		std::unique_lock<std::mutex> lk(mx);
		cvTurn.wait(lk, [&] { return current == me; });
	}

};

// ---------------------------------------------------------------------------------------------
// the injected primitives

struct VMutex
{
	void lock() {
		Scheduler & s = Scheduler::get();
		if(s.isRegistered(this) || s.registerOnDemand(this)) { s.point(Kind::Lock, this); s.acquired(this); s.logAction("lock", this, 0, false); }
	}
	void unlock() {
		Scheduler & s = Scheduler::get();
		if(s.isRegistered(this)) { s.point(Kind::Unlock, this); s.released(this); s.logAction("unlock", this, 0, false); }
	}
};

template <typename T>
struct VAtomic
{
	VAtomic() noexcept = default;
	constexpr VAtomic(T desired) noexcept : value(desired) {}
	VAtomic(const VAtomic &) = delete;

	void store(T desired, std::memory_order = std::memory_order_seq_cst) noexcept {
		Scheduler & s = Scheduler::get();
		if(s.isRegistered(this)) { s.point(Kind::AStore, this); value = desired; s.logAction("astore", this, (long)desired, true); }
		else value = desired;
	}
	T load(std::memory_order = std::memory_order_seq_cst) const noexcept {
		Scheduler & s = Scheduler::get();
		if(s.isRegistered(this)) { s.point(Kind::ALoad, this); const T v = value; s.logAction("aload", this, (long)v, true); return v; }
		return value;
	}
	T exchange(T desired, std::memory_order = std::memory_order_seq_cst) noexcept {
		Scheduler & s = Scheduler::get();
		if(s.isRegistered(this)) { s.point(Kind::AXchg, this); const T p = value; value = desired; s.logAction("axchg", this, (long)desired, true); return p; }
		const T p = value; value = desired; return p;
	}
	T operator ++ () noexcept {
		Scheduler & s = Scheduler::get();
		if(s.isRegistered(this)) { s.point(Kind::AInc, this); const T v = ++value; s.logAction("ainc", this, (long)v, true); return v; }
		return ++value;
	}
	T operator -- () noexcept {
		Scheduler & s = Scheduler::get();
		if(s.isRegistered(this)) { s.point(Kind::ADec, this); const T v = --value; s.logAction("adec", this, (long)v, true); return v; }
		return --value;
	}
	T operator = (T desired) noexcept { store(desired); return desired; }
	operator T () const noexcept { return load(); }

	T value;
};

struct VCondVar
{
	void notify_one() noexcept {
		Scheduler & s = Scheduler::get();
		if(s.isRegistered(this)) { s.point(Kind::Notify, this); s.notifyOne(this); s.logAction("notify", this, 0, false); }
	}
	template <typename Lock, typename Pred>
	void wait(Lock & lock, Pred pred) {
		Scheduler & s = Scheduler::get();
		while(! pred()) {
			if(! s.isRegistered(this)) return;
			s.point(Kind::CvBlock, this);      // the window between evaluating the predicate and blocking
			s.logAction("cvblock", this, 0, false);
			s.cvBlock(this, lock.mutex(), false);
			s.logAction("cvwake", this, 0, false);
		}
	}
	template <typename Lock, typename Rep, typename Period, typename Pred>
	bool wait_for(Lock & lock, const std::chrono::duration<Rep, Period> &, Pred pred) {
		Scheduler & s = Scheduler::get();
		while(! pred()) {
			if(! s.isRegistered(this)) return pred();
			s.point(Kind::CvBlock, this);
			s.logAction("cvblock", this, 0, false);
			s.cvBlock(this, lock.mutex(), true);
			s.logAction("cvwake", this, 0, false);
			if(s.lastWaitTimedOut()) return pred();
		}
		return true;
	}
};

struct VThreading
{
	using Mutex = VMutex;
	template <typename T> using Atomic = VAtomic<T>;
	using ConditionVariable = VCondVar;
};

} // namespace vsched

// the repository's guarded markers resolve to scheduler points
extern "C++" inline void eventpp_verif_point(const char * tag)
{
	vsched::Scheduler & s = vsched::Scheduler::get();
	if(s.self() >= 0) { s.point(vsched::Kind::Point, nullptr, tag); s.logAction("point", nullptr, 0, false, tag); }
}

#endif
