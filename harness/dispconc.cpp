// dispconc.cpp — thread-level correspondence for eventpp::EventDispatcher (C03): the REAL dispatcher is instantiated
// with the scheduler's Mutex (vsched.h); listenerMutex is registered as "L" and the mutex of every event's CallbackList
// as "M<event>" the first time it is locked (the lists are created by the dispatcher itself); atomics are not
// registered (the generation counter is not a scheduling point here).  `walk` is forEach, `dispatch` is dispatch: both
// traverse the list found, and every callback called is logged.  The case's threads run their calls under the
// case's schedule; every lock / unlock, every result and the final content of each event's list are logged.  Same
// lines as ocaml/driver_dispconc prints from the machine of coq/CLDispConc.v.
#include "common.h"
#include "vsched.h"
#define private public
#define protected public
#include "eventpp/eventdispatcher.h"
#undef private
#undef protected

namespace {

struct Cb
{
	int id;
	void operator() (int) const { std::printf("visit t%d %d\n", vsched::Scheduler::get().self(), id); }
	bool operator == (const Cb & o) const { return id == o.id; }
};

//   -DVH_MAP=1 std::map (default here)   =2 the library's own choice (std::unordered_map for an int key)
#ifndef VH_MAP
#define VH_MAP 1
#endif
struct Policies
{
	using Threading = vsched::VThreading;
	using Callback = Cb;
#if VH_MAP == 1
	template <typename Key, typename T> using Map = std::map<Key, T>;
#endif
};
using D = eventpp::EventDispatcher<int, void (int), Policies>;

const int kEvents = 4;

struct Runner
{
	D d;
	std::map<int, D::Handle> regs;
	std::vector<std::vector<vh::Cmd>> progs;

	void body(int me)
	{
		using vh::num;
		for(const auto & c : progs[me]) {
			const std::string & op = c[0];
			const int e = (int)num(c[1]);
			if(op == "append") { auto h = d.appendListener(e, Cb{(int)num(c[2])}); regs[(int)num(c[3])] = h; std::printf("done t%d\n", me); }
			else if(op == "prepend") { auto h = d.prependListener(e, Cb{(int)num(c[2])}); regs[(int)num(c[3])] = h; std::printf("done t%d\n", me); }
			else if(op == "insert") { D::Handle before = regs[(int)num(c[3])]; auto h = d.insertListener(e, Cb{(int)num(c[2])}, before); regs[(int)num(c[4])] = h; std::printf("done t%d\n", me); }
			else if(op == "remove") { D::Handle h = regs[(int)num(c[2])]; const bool r = d.removeListener(e, h); std::printf("res t%d %d\n", me, (int)r); }
			else if(op == "owns") { D::Handle h = regs[(int)num(c[2])]; const bool r = d.ownsHandle(e, h); std::printf("res t%d %d\n", me, (int)r); }
			else if(op == "walk") { d.forEach(e, [me](const Cb & cb) { std::printf("visit t%d %d\n", me, cb.id); }); std::printf("done t%d\n", me); }
			else if(op == "dispatch") { d.dispatch(e, 0); std::printf("done t%d\n", me); }
			else if(op == "hasany") { const bool r = ! d.hasAnyListener(e); std::printf("res t%d %d\n", me, (int)r); }
			else { std::printf("harness-error unknown op %s\n", op.c_str()); std::fflush(stdout); std::abort(); }
		}
	}
};

} // namespace

int main()
{
	std::string line;
	std::unique_ptr<Runner> r;
	while(std::getline(std::cin, line)) {
		auto ws = vh::words(line);
		if(ws.empty() || ws[0] == "#") continue;
		if(ws[0] == "case") { r.reset(new Runner()); std::printf("case %s\n", ws[1].c_str()); std::fflush(stdout); }
		else if(ws[0] == "thread") { r->progs.push_back(vh::splitCmds(ws, 3)); }
		else if(ws[0] == "schedule") {
			std::vector<int> sched;
			for(size_t i = 2; i < ws.size(); ++i) sched.push_back((int)vh::num(ws[i]));
			vsched::Scheduler & s = vsched::Scheduler::get();
			s.reset(sched);
			Runner * rp = r.get();
			s.registerObject(&rp->d.listenerMutex, "L");
			// a mutex that is locked for the first time: is it the mutex of one of the lists in the map?
			s.autoName = [rp](const void * p) -> std::string {
				for(auto & kv : rp->d.eventCallbackListMap) {
					if((const void *)&kv.second.mutex == p) return "M" + std::to_string(kv.first);
				}
				return std::string();
			};
			s.onDeadlock = []() { std::printf("DEADLOCK\n"); };
			std::vector<std::function<void ()>> bodies;
			for(size_t i = 0; i < r->progs.size(); ++i) bodies.push_back([rp, i]() { rp->body((int)i); });
			s.run(bodies);
			s.autoName = nullptr;
			for(int e = 0; e < kEvents; ++e) {
				std::printf("final %d :", e);
				r->d.forEach(e, [](const Cb & cb) { std::printf(" %d", cb.id); });
				std::printf("\n");
			}
		}
		else if(ws[0] == "end") { r.reset(); std::printf("end\n"); std::fflush(stdout); }
	}
	return 0;
}
