// anydata_probe.cpp — compile-only probe used by tools/props/C17.py when harness/anydata.cpp
// no longer compiles against /repo: can an AnyData<VH_CAP> be constructed from an object of
// VH_SIZE bytes (lvalue, const lvalue and rvalue), moved and destroyed?  (-fsyntax-only)
#include "eventpp/utilities/anydata.h"

struct Probe { unsigned char bytes[VH_SIZE]; };
static_assert(sizeof(Probe) == VH_SIZE, "probe size");

void probe()
{
	Probe p {};
	const Probe & cp = p;
	eventpp::AnyData<VH_CAP> a(p);
	eventpp::AnyData<VH_CAP> b(cp);
	eventpp::AnyData<VH_CAP> c(Probe {});
	eventpp::AnyData<VH_CAP> d(static_cast<eventpp::AnyData<VH_CAP> &&>(c));
	(void)a.get<Probe>();
	(void)b.isType<Probe>();
	(void)d.getAddress();
}
