// queue.cpp — interpreter for queue case files, driving the REAL eventpp::EventQueue
// (plain std::list policy and OrderedQueueList policy) built from /repo's working tree.
// Prints the same trace lines as `ocaml/_build/driver_q mech|spec` prints from coq/QModel.v.
//
//   -DVH_PROTO=0  prototype void(const Payload &)   (no copies: payload ledger exact everywhere)
//   -DVH_PROTO=1  prototype void(Payload)            (by value)
//   -DVH_PROTO=2  prototype void(Payload) by value, the event key is taken FROM the payload by a getEvent policy
//                 (enqueue(Payload(k, a)) / dispatch(Payload(k, a)): the one argument is key source and listener argument;
//                 a moved-from Payload has key -2, so a key read after the argument was moved away is noticed)
//   -DVH_POLICY=0 default threading   =1 SingleThreading
#include "common.h"
#include "eventpp/utilities/orderedqueuelist.h"

#ifndef VH_PROTO
#define VH_PROTO 0
#endif
#ifndef VH_POLICY
#define VH_POLICY 0
#endif

namespace {

int g_live = 0;        // payload objects alive and holding a value
int g_objects = 0;     // payload objects constructed and not yet destroyed, moved-from ones included
int g_order = 0;       // comparator mode of the ordered queue

struct Payload
{
	int key, arg;
	bool valid;
	Payload() : key(-1), arg(-1), valid(false) { ++g_objects; }
	Payload(int k, int a) : key(k), arg(a), valid(true) { ++g_live; ++g_objects; }
	Payload(const Payload & o) : key(o.key), arg(o.arg), valid(o.valid) { if(valid) ++g_live; ++g_objects; }
	Payload(Payload && o) noexcept : key(o.key), arg(o.arg), valid(o.valid) { o.valid = false; o.key = -2; o.arg = -2; ++g_objects; }
	Payload & operator = (const Payload & o) { if(this != &o) { if(valid) --g_live; key = o.key; arg = o.arg; valid = o.valid; if(valid) ++g_live; } return *this; }
	Payload & operator = (Payload && o) noexcept { if(this != &o) { if(valid) --g_live; key = o.key; arg = o.arg; valid = o.valid; o.valid = false; o.key = -2; o.arg = -2; } return *this; }
	~Payload() { if(valid) --g_live; valid = false; --g_objects; }
};

#if VH_PROTO == 0
using Proto = void (const Payload &);
#else
using Proto = void (Payload);
#endif
#if VH_PROTO == 2
#define VH_GETEVENT_POLICY static int getEvent(const Payload & p) { return p.key; }
#define VH_EVARGS(k, a) Payload((int)(k), (int)(a))
#else
#define VH_GETEVENT_POLICY
#define VH_EVARGS(k, a) (int)(k), Payload((int)(k), (int)(a))
#endif

struct KeyCmp
{
	template <typename T>
	bool operator() (const T & a, const T & b) const {
		switch(g_order) {
		case 1: return a.event < b.event;
		case 2: return a.event > b.event;
		case 3: return (a.event % 3) < (b.event % 3);
		default: return false;
		}
	}
};

struct PlainPolicies
{
	VH_GETEVENT_POLICY
#if VH_POLICY == 1
	using Threading = eventpp::SingleThreading;
#endif
};

struct OrderedPolicies
{
	VH_GETEVENT_POLICY
#if VH_POLICY == 1
	using Threading = eventpp::SingleThreading;
#endif
	template <typename Item>
	using QueueList = eventpp::OrderedQueueList<Item, KeyCmp>;
};

struct Runner
{
	virtual ~Runner() {}
	virtual void exec(const std::vector<vh::Cmd> & cmds) = 0;
};

Runner * g_runner = nullptr;
std::map<std::pair<int, int>, std::vector<vh::Cmd>> g_behav;
std::map<std::pair<int, int>, std::pair<std::vector<vh::Cmd>, bool>> g_pbehav;
std::map<int, int> g_acts, g_pacts;

struct Cb
{
	int id;
	void operator() (const Payload & p) const {
		const int me = id;
		std::printf("call %d %d %d\n", me, p.key, p.arg);
		const int n = ++g_acts[me];
		auto it = g_behav.find(std::make_pair(me, n));
		if(it != g_behav.end()) { const std::vector<vh::Cmd> body = it->second; g_runner->exec(body); }
	}
};

struct Pred
{
	int id;
	bool operator() (const Payload & p) const {
		const int me = id;
		std::printf("pred %d %d %d\n", me, p.key, p.arg);
		const int n = ++g_pacts[me];
		auto it = g_pbehav.find(std::make_pair(me, n));
		if(it != g_pbehav.end()) {
			const std::vector<vh::Cmd> body = it->second.first;
			const bool verdict = it->second.second;
			g_runner->exec(body);
			return verdict;
		}
		return ((me + n) % 2) == 0;
	}
};

template <typename Q>
struct RunnerT : Runner
{
	std::unique_ptr<Q> q;
	std::map<int, typename Q::Handle> regs;
	std::map<int, typename Q::QueuedEvent> taken;

	RunnerT() : q(new Q()) {}

	void exec(const std::vector<vh::Cmd> & cmds) override { for(const auto & c : cmds) step(c); }

	void step(const vh::Cmd & c)
	{
		using vh::num;
		const std::string & op = c[0];
		if(op == "append") { regs[num(c[3])] = q->appendListener((int)num(c[1]), Cb{(int)num(c[2])}); }
		else if(op == "prepend") { regs[num(c[3])] = q->prependListener((int)num(c[1]), Cb{(int)num(c[2])}); }
		else if(op == "insert") { typename Q::Handle before = regs[num(c[3])]; regs[num(c[4])] = q->insertListener((int)num(c[1]), Cb{(int)num(c[2])}, before); }
		else if(op == "remove") { std::printf("ret %d\n", (int)q->removeListener((int)num(c[1]), regs[num(c[2])])); }
		else if(op == "dispatch") { q->dispatch(VH_EVARGS(num(c[1]), num(c[2]))); }
		else if(op == "enqueue") { q->enqueue(VH_EVARGS(num(c[1]), num(c[2]))); }
		else if(op == "process") { std::printf("ret %d\n", (int)q->process()); }
		else if(op == "processone") { std::printf("ret %d\n", (int)q->processOne()); }
		else if(op == "processif") { std::printf("ret %d\n", (int)q->processIf(Pred{(int)num(c[1])})); }
		else if(op == "processuntil") { std::printf("ret %d\n", (int)q->processUntil(Pred{(int)num(c[1])})); }
		else if(op == "peek") {
			typename Q::QueuedEvent ev;
			const bool r = q->peekEvent(&ev);
			if(r) std::printf("event %d %d\n", ev.event, std::get<0>(ev.arguments).arg);
			std::printf("ret %d\n", (int)r);
		}
		else if(op == "take") {
			typename Q::QueuedEvent & ev = taken[(int)num(c[1])];
			const bool r = q->takeEvent(&ev);
			if(r) std::printf("event %d %d\n", ev.event, std::get<0>(ev.arguments).arg);
			std::printf("ret %d\n", (int)r);
		}
		else if(op == "dispatchtaken") {
			auto it = taken.find((int)num(c[1]));
			if(it != taken.end() && std::get<0>(it->second.arguments).valid) {
				// dispatch a copy: a listener may take another event into the same caller variable
				const typename Q::QueuedEvent ev = it->second;
				q->dispatch(ev);
			}
		}
		else if(op == "clear") { q->clearEvents(); }
		else if(op == "emptyq") { std::printf("ret %d\n", (int)q->emptyQueue()); }
		else if(op == "waitfor0") {
			// C11's second observer: a waitFor that times out at once.  SingleThreading's ConditionVariable::wait_for
			// returns true without looking at anything (no other thread can exist), so on that variant the answer is
			// taken from the public half of the predicate (no DisableQueueNotify exists in this domain)
#if VH_POLICY == 1
			std::printf("ret %d\n", (int)! q->emptyQueue());
#else
			std::printf("ret %d\n", (int)q->waitFor(std::chrono::nanoseconds(0)));
#endif
		}
		else if(op == "ledger") { std::printf("live %d\n", g_live); }
		else if(op == "final") {
			regs.clear(); q.reset(); std::printf("live %d\n", g_live);
			// every payload object the queue ever held — moved-from ones too — has been destroyed: what is left are the
			// events this harness took out and still holds
			const int left = g_objects - (int)taken.size();
			if(left != 0) std::printf("live-objects-not-destroyed %d\n", left);
		}
		else { std::printf("harness-error unknown op %s\n", op.c_str()); std::fflush(stdout); std::abort(); }
	}
};

using PlainQ = eventpp::EventQueue<int, Proto, PlainPolicies>;
using OrderedQ = eventpp::EventQueue<int, Proto, OrderedPolicies>;

} // namespace

int main()
{
	std::string line;
	std::unique_ptr<Runner> runner;
	int ordered = 0;
	while(std::getline(std::cin, line)) {
		auto ws = vh::words(line);
		if(ws.empty() || ws[0] == "#") continue;
		if(ws[0] == "case") {
			runner.reset(); g_runner = nullptr; g_behav.clear(); g_pbehav.clear(); g_acts.clear(); g_pacts.clear();
			ordered = 0; g_order = 0;
			std::printf("case %s\n", ws[1].c_str()); std::fflush(stdout);
		}
		else if(ws[0] == "fuel") {}
		else if(ws[0] == "ordered") { ordered = (int)vh::num(ws[1]); g_order = ordered; }
		else if(ws[0] == "cb") { g_behav[std::make_pair((int)vh::num(ws[1]), (int)vh::num(ws[2]))] = vh::splitCmds(ws, 4); }
		else if(ws[0] == "pred") { g_pbehav[std::make_pair((int)vh::num(ws[1]), (int)vh::num(ws[2]))] = std::make_pair(vh::splitCmds(ws, 5), ws[3] == "1"); }
		else if(ws[0] == "main") {
			if(ordered) runner.reset(new RunnerT<OrderedQ>()); else runner.reset(new RunnerT<PlainQ>());
			g_runner = runner.get();
			runner->exec(vh::splitCmds(ws, 2));
		}
		else if(ws[0] == "end") {
			runner.reset(); g_runner = nullptr;
			std::printf("end\n"); std::fflush(stdout);
		}
	}
	return 0;
}
