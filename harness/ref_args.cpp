// ref_args.cpp — probe for C04 / C20: listeners receive the caller's arguments THEMSELVES, whatever the compiler.
// Prototypes with reference parameters: a listener's write to a `T &` argument is seen by the next listener and by the
// caller, a `const T &` argument has the caller's address, for CallbackList::operator(), EventDispatcher::dispatch and a
// queued event's stored arguments (there: the stored copy is shared by the listeners of that dispatch).  The expected output
// is fixed (no model is needed: the lines say whether the property's clause holds); every build of the matrix must print it.
#include <cstdio>
#include <string>
#include "eventpp/callbacklist.h"
#include "eventpp/eventdispatcher.h"
#include "eventpp/eventqueue.h"

int main()
{
	int ok = 1;
	{
		eventpp::CallbackList<void (int &, const std::string &)> cl;
		const std::string s = "caller";
		const std::string * seen1 = nullptr; const std::string * seen2 = nullptr; int v2 = -1;
		cl.append([&](int & a, const std::string & t) { ++a; seen1 = &t; });
		cl.append([&](int & a, const std::string & t) { v2 = a; ++a; seen2 = &t; });
		int x = 10;
		cl(x, s);
		const bool good = (x == 12) && (v2 == 11) && (seen1 == &s) && (seen2 == &s);
		std::printf("callbacklist caller=%d second-saw=%d same-object=%d\n", x, v2, (int)(seen1 == &s && seen2 == &s));
		ok = ok && good;
	}
	{
		eventpp::EventDispatcher<int, void (int &, const std::string &)> d;
		const std::string s = "caller";
		const std::string * seen = nullptr; int v2 = -1;
		d.appendListener(3, [&](int & a, const std::string &) { a += 5; });
		d.appendListener(3, [&](int & a, const std::string & t) { v2 = a; a += 7; seen = &t; });
		int x = 1;
		d.dispatch(3, x, s);
		const bool good = (x == 13) && (v2 == 6) && (seen == &s);
		std::printf("dispatcher caller=%d second-saw=%d same-object=%d\n", x, v2, (int)(seen == &s));
		ok = ok && good;
	}
	{
		// a queued event keeps COPIES of its arguments; the listeners of one dispatch share that copy
		eventpp::EventQueue<int, void (int &, const std::string &)> q;
		const std::string * seen1 = nullptr; const std::string * seen2 = nullptr; int v2 = -1;
		q.appendListener(4, [&](int & a, const std::string & t) { a += 2; seen1 = &t; });
		q.appendListener(4, [&](int & a, const std::string & t) { v2 = a; seen2 = &t; });
		int x = 20;
		q.enqueue(4, x, std::string("queued"));
		q.process();
		const bool good = (x == 20) && (v2 == 22) && (seen1 != nullptr) && (seen1 == seen2);
		std::printf("queue caller=%d second-saw=%d shared-copy=%d\n", x, v2, (int)(seen1 != nullptr && seen1 == seen2));
		ok = ok && good;
	}
	std::printf("%s\n", ok ? "ref-args ok" : "ref-args VIOLATED");
	return ok ? 0 : 1;
}
