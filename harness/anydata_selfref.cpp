// anydata_selfref.cpp — probe for C17: AnyData moves its value BY THE VALUE'S OWN MOVE CONSTRUCTOR, also when the value is
// trivially destructible.  SelfRef has a trivial destructor but a user-provided copy / move constructor that keeps a pointer
// to the object itself (a type that is not bitwise-relocatable); after any number of moves of the holder — directly, and
// through an EventQueue — the held object must still point to itself, stored inline (AnyData<64>) and on the heap (AnyData<8>).
#include <cstdio>
#include <type_traits>
#include "eventpp/utilities/anydata.h"
#include "eventpp/eventqueue.h"

struct SelfRef
{
	long value;
	const SelfRef * self;
	long pad[3];
	explicit SelfRef(long v) : value(v), self(this) { pad[0] = v + 1; pad[1] = v + 2; pad[2] = v + 3; }
	SelfRef(const SelfRef & o) : value(o.value), self(this) { pad[0] = o.pad[0]; pad[1] = o.pad[1]; pad[2] = o.pad[2]; }
	SelfRef(SelfRef && o) noexcept : value(o.value), self(this) { pad[0] = o.pad[0]; pad[1] = o.pad[1]; pad[2] = o.pad[2]; o.value = -1; }
	bool intact(long v) const { return self == this && value == v && pad[0] == v + 1 && pad[2] == v + 3; }
};
static_assert(std::is_trivially_destructible<SelfRef>::value, "the probe type must be trivially destructible");

template <std::size_t Cap>
int probe(const char * name)
{
	using Data = eventpp::AnyData<Cap>;
	int ok = 1;
	{
		Data a{SelfRef(7)};
		ok = ok && a.template get<SelfRef>().intact(7);
		Data b(std::move(a));
		ok = ok && b.template get<SelfRef>().intact(7);
		Data c(std::move(b));
		Data d(std::move(c));
		ok = ok && d.template get<SelfRef>().intact(7) && d.template isType<SelfRef>();
	}
	{
		eventpp::EventQueue<int, void (const Data &)> q;
		long seen = 0; int good = 0;
		q.appendListener(1, [&](const Data & x) { ++seen; good += (int)x.template get<SelfRef>().intact(40 + seen); });
		q.enqueue(1, Data{SelfRef(41)});
		q.enqueue(1, Data{SelfRef(42)});
		q.process();
		ok = ok && seen == 2 && good == 2;
	}
	std::printf("selfref %s %s\n", name, ok ? "ok" : "VIOLATED");
	return ok;
}

int main()
{
	const int a = probe<64>("inline");
	const int b = probe<8>("heap");
	std::printf("%s\n", (a && b) ? "selfref all ok" : "selfref VIOLATED");
	return (a && b) ? 0 : 1;
}
