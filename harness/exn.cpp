// exn.cpp — C09 harness: drives the REAL eventpp from /repo's working tree on
//   kind plan   fault plans: global operator new and the key / payload / callback types tick one shared
//               countdown at every allocation, copy, move and comparison; `fault <k> ? <op>` arms the
//               countdown so that the k-th fault point reached DURING that library call fails
//               (std::bad_alloc / a tagged exception), runs the call in try/catch and prints
//               `exn <kind>` | `nofault` | (terminate handler) `terminated`; observations enumerate lists,
//               dispatch, show the pending events, the remover's records and the ledger of live objects.
//   kind throw  throwing listeners / filters / predicates on a real EventQueue<int, void(const Pay &)>
//               with MixinFilter: bodies with `throw <tag>`, nested processing, payload ledger.
// Prints the same trace lines as ocaml/_build/driver_exn prints from coq/ExnModel.v and coq/ExnQueue.v.
//   -DVH_MAP=0  the key type has operator< only  (std::map)        =1  std::hash<Key> too (std::unordered_map)
#include "common.h"
#define private public
#define protected public
#include "eventpp/hetercallbacklist.h"
#include "eventpp/mixins/mixinfilter.h"
#include "eventpp/utilities/scopedremover.h"
#include "eventpp/utilities/counterremover.h"
#include "eventpp/utilities/conditionalremover.h"
#include "eventpp/utilities/orderedqueuelist.h"
#undef private
#undef protected

#ifndef VH_MAP
#define VH_MAP 0
#endif

// ------------------------------------------------------------------------------ fault injector

namespace fi {
bool armed = false;
long countdown = 0;
struct Fault { const char * kind; };
inline void tick(const char * kind)
{
	if(armed && --countdown == 0) {
		armed = false;
		throw Fault{kind};
	}
}
inline void * alloc(std::size_t n)
{
	if(armed && --countdown == 0) {
		armed = false;
		throw std::bad_alloc();
	}
	void * p = std::malloc(n ? n : 1);
	if(p == nullptr) throw std::bad_alloc();
	return p;
}
} // namespace fi

void * operator new(std::size_t n) { return fi::alloc(n); }
void * operator new[](std::size_t n) { return fi::alloc(n); }
void operator delete(void * p) noexcept { std::free(p); }
void operator delete[](void * p) noexcept { std::free(p); }
void operator delete(void * p, std::size_t) noexcept { std::free(p); }
void operator delete[](void * p, std::size_t) noexcept { std::free(p); }

namespace {

// ------------------------------------------------------------------------------ ledger and user types

long g_cb_live = 0, g_pay_live = 0, g_key_live = 0;
bool g_identify = false;            // callbacks report their id instead of printing
std::vector<int> g_ids;

struct Key
{
	int v;
	explicit Key(int x = 0) : v(x) { ++g_key_live; }
	Key(const Key & o) : v(o.v) { fi::tick("copy"); ++g_key_live; }
	Key(Key && o) : v(o.v) { fi::tick("move"); ++g_key_live; }
	Key & operator = (const Key & o) { fi::tick("copy"); v = o.v; return *this; }
	Key & operator = (Key && o) { fi::tick("move"); v = o.v; return *this; }
	~Key() { --g_key_live; }
	bool operator < (const Key & o) const { fi::tick("cmp"); return v < o.v; }
	bool operator == (const Key & o) const { fi::tick("cmp"); return v == o.v; }
};

struct Pay
{
	int key, arg;
	Pay(int k, int a) : key(k), arg(a) { ++g_pay_live; }
	Pay(const Pay & o) : key(o.key), arg(o.arg) { fi::tick("copy"); ++g_pay_live; }
	Pay(Pay && o) : key(o.key), arg(o.arg) { fi::tick("move"); ++g_pay_live; }
	Pay & operator = (const Pay & o) { fi::tick("copy"); key = o.key; arg = o.arg; return *this; }
	Pay & operator = (Pay && o) { fi::tick("move"); key = o.key; arg = o.arg; return *this; }
	~Pay() { --g_pay_live; }
};

struct Cb
{
	int id;
	explicit Cb(int i) : id(i) { ++g_cb_live; }
	Cb(const Cb & o) : id(o.id) { fi::tick("copy"); ++g_cb_live; }
	Cb(Cb && o) : id(o.id) { fi::tick("move"); ++g_cb_live; }
	Cb & operator = (const Cb & o) { fi::tick("copy"); id = o.id; return *this; }
	~Cb() { --g_cb_live; }
	void operator() (const Pay & p) const {
		if(g_identify) g_ids.push_back(id);
		else std::printf("call %d %d %d\n", id, p.key, p.arg);
	}
};

struct Cb2          // second prototype of the heterogeneous list
{
	int id;
	explicit Cb2(int i) : id(i) { ++g_cb_live; }
	Cb2(const Cb2 & o) : id(o.id) { fi::tick("copy"); ++g_cb_live; }
	Cb2(Cb2 && o) : id(o.id) { fi::tick("move"); ++g_cb_live; }
	~Cb2() { --g_cb_live; }
	void operator() (const Pay & p, int) const {
		if(g_identify) g_ids.push_back(id);
		else std::printf("call %d %d %d\n", id, p.key, p.arg);
	}
};

struct Cond { bool operator() (const Pay &) const { return false; } };

} // namespace

#if VH_MAP == 1
namespace std {
template <> struct hash<Key> { std::size_t operator() (const Key & k) const { fi::tick("cmp"); return (std::size_t)k.v; } };
}
#endif

namespace {

struct OrdPol { template <typename Item> using QueueList = eventpp::OrderedQueueList<Item>; };

using CL = eventpp::CallbackList<void (const Pay &)>;
using D = eventpp::EventDispatcher<Key, void (const Pay &)>;
using Q = eventpp::EventQueue<Key, void (const Pay &)>;
using OQ = eventpp::EventQueue<Key, void (const Pay &), OrdPol>;
using H = eventpp::HeterCallbackList<eventpp::HeterTuple<void (const Pay &), void (const Pay &, int)> >;

// objects live in pre-allocated storage so that constructing one inside an armed region allocates
// nothing on the harness's account
template <typename T>
struct Slot
{
	alignas(T) unsigned char buf[sizeof(T)];
	bool live = false;
	T * get() { return reinterpret_cast<T *>(buf); }
	template <typename ...A> void make(A && ...a) { new (buf) T(std::forward<A>(a)...); live = true; }
	void kill() { if(live) { live = false; get()->~T(); } }
	~Slot() { kill(); }
};

enum Type { tCL, tD, tQ, tOQ, tH, tNone };
Type typeOf(int o)
{
	if(o >= 1 && o <= 9) return tCL;
	if(o >= 10 && o <= 19) return tD;
	if(o >= 20 && o <= 29) return tQ;
	if(o >= 30 && o <= 39) return tOQ;
	if(o >= 40 && o <= 49) return tH;
	return tNone;
}

struct RemoverBase { virtual ~RemoverBase() {} virtual std::size_t records() const = 0; };
template <typename T>
struct RemoverT : RemoverBase
{
	eventpp::ScopedRemover<T> r;
	explicit RemoverT(T & t) : r(t) {}
	std::size_t records() const override { return r.itemList.size(); }
};

struct Reg { int obj; int key; std::shared_ptr<void> h; };

struct Plan
{
	std::map<int, std::unique_ptr<Slot<CL>>> cls;
	std::map<int, std::unique_ptr<Slot<D>>> ds;
	std::map<int, std::unique_ptr<Slot<Q>>> qs;
	std::map<int, std::unique_ptr<Slot<OQ>>> oqs;
	std::map<int, std::unique_ptr<Slot<H>>> hs;
	std::map<int, std::unique_ptr<RemoverBase>> removers;
	std::map<int, Reg> regs;

	~Plan() { removers.clear(); }

	template <typename T> Slot<T> & slot(std::map<int, std::unique_ptr<Slot<T>>> & m, int o, bool construct)
	{
		auto & p = m[o];
		if(! p) p.reset(new Slot<T>());
		if(construct && ! p->live) p->make();
		return *p;
	}
	CL & cl(int o) { return *slot(cls, o, true).get(); }
	D & d(int o) { return *slot(ds, o, true).get(); }
	Q & q(int o) { return *slot(qs, o, true).get(); }
	OQ & oq(int o) { return *slot(oqs, o, true).get(); }
	H & h(int o) { return *slot(hs, o, true).get(); }

	// a handle is only ever used with the list it was issued for (anything else: an empty handle)
	template <typename Hd> Hd handle(int reg, int obj, int key)
	{
		auto it = regs.find(reg);
		if(it == regs.end() || it->second.obj != obj || it->second.key != key) return Hd();
		return *std::static_pointer_cast<Hd>(it->second.h);
	}
	template <typename Hd> void keep(int reg, int obj, int key, const Hd & h) { regs[reg] = Reg{obj, key, std::make_shared<Hd>(h)}; }

	// runs f with the countdown armed at k (k <= 0: not armed, prints nothing); true = completed
	template <typename F> bool guarded(long k, F && f)
	{
		if(k > 0) { fi::countdown = k; fi::armed = true; }
		try {
			f();
			fi::armed = false;
			if(k > 0) std::printf("nofault\n");
			return true;
		}
		catch(const fi::Fault & e) { fi::armed = false; std::printf("exn %s\n", e.kind); }
		catch(const std::bad_alloc &) { fi::armed = false; std::printf("exn alloc\n"); }
		return false;
	}

	template <typename T, typename AddF>
	void addTo(long k, T & target, int obj, int key, int reg, AddF && add)
	{
		typename T::Handle hd;
		if(guarded(k, [&]() { hd = add(target); })) keep(reg, obj, key, hd);
	}

	// place: 0 append 1 prepend 2 insert-before regs[hb]
	template <typename T> void dispAdd(long k, T & t, int place, int hb, int obj, int key, int c, int reg)
	{
		const Key kk(key);
		const Cb cb(c);
		const typename T::Handle before = handle<typename T::Handle>(hb, obj, key);
		addTo(k, t, obj, key, reg, [&](T & x) {
			return place == 0 ? x.appendListener(kk, cb) : place == 1 ? x.prependListener(kk, cb) : x.insertListener(kk, cb, before);
		});
	}
	template <typename T> void srAdd(long k, T & t, int place, int hb, int r, int obj, int key, int c, int reg)
	{
		auto & rp = removers[r];
		if(! rp) rp.reset(new RemoverT<T>(t));
		auto & rem = static_cast<RemoverT<T> &>(*rp).r;
		const Key kk(key);
		const Cb cb(c);
		const typename T::Handle before = handle<typename T::Handle>(hb, obj, key);
		typename T::Handle hd;
		if(guarded(k, [&]() {
			hd = place == 0 ? rem.appendListener(kk, cb) : place == 1 ? rem.prependListener(kk, cb) : rem.insertListener(kk, cb, before);
		})) keep(reg, obj, key, hd);
	}
	template <typename T> void autoAdd(long k, T & t, bool conditional, int place, int hb, int obj, int key, int c, int reg)
	{
		const Key kk(key);
		const Cb cb(c);
		const Cond cond;
		const typename T::Handle before = handle<typename T::Handle>(hb, obj, key);
		typename T::Handle hd;
		if(guarded(k, [&]() {
			if(conditional) {
				auto rem = eventpp::conditionalRemover(t);
				hd = place == 0 ? rem.appendListener(kk, cb, cond) : place == 1 ? rem.prependListener(kk, cb, cond) : rem.insertListener(kk, cb, before, cond);
			}
			else {
				auto rem = eventpp::counterRemover(t);
				hd = place == 0 ? rem.appendListener(kk, cb, 1000000) : place == 1 ? rem.prependListener(kk, cb, 1000000) : rem.insertListener(kk, cb, before, 1000000);
			}
		})) keep(reg, obj, key, hd);
	}
	template <typename T> void dispRemove(long k, T & t, int obj, int key, int reg)
	{
		const Key kk(key);
		const typename T::Handle hd = handle<typename T::Handle>(reg, obj, key);
		guarded(k, [&]() { t.removeListener(kk, hd); });
	}
	template <typename T> void copyCtor(long k, std::map<int, std::unique_ptr<Slot<T>>> & m, int dst, int src)
	{
		T & s = *slot(m, src, true).get();
		Slot<T> & dslot = slot(m, dst, false);
		dslot.kill();
		guarded(k, [&]() { dslot.make(s); });
	}
	template <typename T> void assign(long k, std::map<int, std::unique_ptr<Slot<T>>> & m, int dst, int src)
	{
		T & s = *slot(m, src, true).get();
		T & dd = *slot(m, dst, true).get();
		guarded(k, [&]() { dd = s; });
	}
	template <typename T> void enqueue(long k, T & t, int key, int a)
	{
		const Key kk(key);
		const Pay pay(key, a);
		guarded(k, [&]() { t.enqueue(kk, pay); });
	}
	template <typename T> void peek(long k, T & t)
	{
		typename T::QueuedEvent ev{Key(-1), std::tuple<Pay>(Pay(-1, -1))};
		guarded(k, [&]() { t.peekEvent(&ev); });
	}

	template <typename T> void listD(T & t, int o, int key)
	{
		g_ids.clear();
		g_identify = true;
		const Pay probe(key, 0);
		t.forEach(Key(key), [&](const typename T::Callback & cb) { cb(probe); });
		g_identify = false;
		std::printf("list %d %d :", o, key);
		for(int id : g_ids) std::printf(" %d", id);
		std::printf("\n");
		// the emptiness query must agree with what the enumeration found (a failed addition must not leave the
		// object claiming listeners it does not have); the model has no such line
		if(t.hasAnyListener(Key(key)) == g_ids.empty()) std::printf("emptiness-disagrees-with-enumeration %d %d\n", o, key);
	}
	template <typename T> void pending(T & t, int o)
	{
		std::printf("pending %d :", o);
		for(auto it = t.queueList.begin(); it != t.queueList.end(); ++it) {
			std::printf(" %d:%d", it->get().event.v, std::get<0>(it->get().arguments).arg);
		}
		std::printf("\n");
	}

	void op(long k, const vh::Cmd & c, size_t i)
	{
		using vh::num;
		const std::string & name = c[i];
		auto n = [&](size_t j) { return (int)num(c[i + j]); };
		if(name == "cladd") {
			const int place = n(1), hb = n(2), o = n(3), cc = n(4), reg = n(5);
			CL & l = cl(o);
			const Cb cb(cc);
			const CL::Handle before = handle<CL::Handle>(hb, o, 0);
			addTo(k, l, o, 0, reg, [&](CL & x) { return place == 0 ? x.append(cb) : place == 1 ? x.prepend(cb) : x.insert(cb, before); });
		}
		else if(name == "clremove") {
			CL & l = cl(n(1));
			const CL::Handle hd = handle<CL::Handle>(n(2), n(1), 0);
			guarded(k, [&]() { l.remove(hd); });
		}
		else if(name == "clcopy") copyCtor(k, cls, n(1), n(2));
		else if(name == "classign") assign(k, cls, n(1), n(2));
		else if(name == "dadd") {
			const int o = n(3);
			switch(typeOf(o)) {
			case tD: dispAdd(k, d(o), n(1), n(2), o, n(4), n(5), n(6)); break;
			case tQ: dispAdd(k, q(o), n(1), n(2), o, n(4), n(5), n(6)); break;
			case tOQ: dispAdd(k, oq(o), n(1), n(2), o, n(4), n(5), n(6)); break;
			default: bad(c);
			}
		}
		else if(name == "dremove") {
			const int o = n(1);
			switch(typeOf(o)) {
			case tD: dispRemove(k, d(o), o, n(2), n(3)); break;
			case tQ: dispRemove(k, q(o), o, n(2), n(3)); break;
			case tOQ: dispRemove(k, oq(o), o, n(2), n(3)); break;
			default: bad(c);
			}
		}
		else if(name == "dcopy" || name == "dassign") {
			const int dst = n(1), src = n(2);
			const bool ctor = (name == "dcopy");
			if(typeOf(dst) != typeOf(src)) bad(c);
			switch(typeOf(dst)) {
			case tD: ctor ? copyCtor(k, ds, dst, src) : assign(k, ds, dst, src); break;
			case tQ: ctor ? copyCtor(k, qs, dst, src) : assign(k, qs, dst, src); break;
			case tOQ: ctor ? copyCtor(k, oqs, dst, src) : assign(k, oqs, dst, src); break;
			default: bad(c);
			}
		}
		else if(name == "sradd") {
			const int o = n(4);
			switch(typeOf(o)) {
			case tD: srAdd(k, d(o), n(1), n(2), n(3), o, n(5), n(6), n(7)); break;
			case tQ: srAdd(k, q(o), n(1), n(2), n(3), o, n(5), n(6), n(7)); break;
			default: bad(c);
			}
		}
		else if(name == "srcladd") {
			const int place = n(1), hb = n(2), r = n(3), o = n(4), cc = n(5), reg = n(6);
			CL & l = cl(o);
			auto & rp = removers[r];
			if(! rp) rp.reset(new RemoverT<CL>(l));
			auto & rem = static_cast<RemoverT<CL> &>(*rp).r;
			const Cb cb(cc);
			const CL::Handle before = handle<CL::Handle>(hb, o, 0);
			CL::Handle hd;
			if(guarded(k, [&]() { hd = place == 0 ? rem.append(cb) : place == 1 ? rem.prepend(cb) : rem.insert(cb, before); })) keep(reg, o, 0, hd);
		}
		else if(name == "cradd" || name == "cnadd") {
			const int o = n(3);
			const bool cond = (name == "cnadd");
			switch(typeOf(o)) {
			case tD: autoAdd(k, d(o), cond, n(1), n(2), o, n(4), n(5), n(6)); break;
			case tQ: autoAdd(k, q(o), cond, n(1), n(2), o, n(4), n(5), n(6)); break;
			default: bad(c);
			}
		}
		else if(name == "enqueue") {
			const int o = n(2);
			if(n(1) != (typeOf(o) == tOQ ? 1 : 0)) bad(c);
			switch(typeOf(o)) {
			case tQ: enqueue(k, q(o), n(3), n(4)); break;
			case tOQ: enqueue(k, oq(o), n(3), n(4)); break;
			default: bad(c);
			}
		}
		else if(name == "peek") {
			const int o = n(1);
			switch(typeOf(o)) {
			case tQ: peek(k, q(o)); break;
			case tOQ: peek(k, oq(o)); break;
			default: bad(c);
			}
		}
		else if(name == "hadd") {
			const int place = n(1), hb = n(2), o = n(3), proto = n(4), cc = n(5), reg = n(6);
			H & hh = h(o);
			H::Handle before;
			{
				auto it = regs.find(hb);
				if(it != regs.end() && it->second.obj == o && it->second.key == proto) before = *std::static_pointer_cast<H::Handle>(it->second.h);
				else { before.index = -1; }
			}
			H::Handle hd;
			bool ok;
			if(proto == 0) {
				const Cb cb(cc);
				ok = guarded(k, [&]() { hd = place == 0 ? hh.append(cb) : place == 1 ? hh.prepend(cb) : hh.insert(cb, before); });
			}
			else {
				const Cb2 cb(cc);
				ok = guarded(k, [&]() { hd = place == 0 ? hh.append(cb) : place == 1 ? hh.prepend(cb) : hh.insert(cb, before); });
			}
			if(ok) keep(reg, o, proto, hd);
		}
		else if(name == "hcopy") copyCtor(k, hs, n(1), n(2));
		else if(name == "hassign") assign(k, hs, n(1), n(2));
		else bad(c);
	}

	[[noreturn]] void bad(const vh::Cmd & c)
	{
		std::printf("harness-error bad plan command:");
		for(const auto & w : c) std::printf(" %s", w.c_str());
		std::printf("\n");
		std::fflush(stdout);
		std::abort();
	}

	void step(const vh::Cmd & c)
	{
		using vh::num;
		const std::string & name = c[0];
		if(name == "do") op(0, c, 1);
		else if(name == "fault") op(num(c[1]), c, 3);
		else if(name == "list") {
			const int o = (int)num(c[1]), key = (int)num(c[2]);
			switch(typeOf(o)) {
			case tCL: {
				g_ids.clear(); g_identify = true;
				const Pay probe(0, 0);
				cl(o).forEach([&](const CL::Callback & cb) { cb(probe); });
				g_identify = false;
				std::printf("list %d %d :", o, key);
				for(int id : g_ids) std::printf(" %d", id);
				std::printf("\n");
				if(cl(o).empty() != g_ids.empty()) std::printf("emptiness-disagrees-with-enumeration %d %d\n", o, key);
				break;
			}
			case tD: listD(d(o), o, key); break;
			case tQ: listD(q(o), o, key); break;
			case tOQ: listD(oq(o), o, key); break;
			case tH: {
				g_ids.clear(); g_identify = true;
				const Pay probe(key, 0);
				if(key == 0) h(o).forEach<void (const Pay &)>([&](const std::function<void (const Pay &)> & cb) { cb(probe); });
				else h(o).forEach<void (const Pay &, int)>([&](const std::function<void (const Pay &, int)> & cb) { cb(probe, 0); });
				g_identify = false;
				std::printf("list %d %d :", o, key);
				for(int id : g_ids) std::printf(" %d", id);
				std::printf("\n");
				break;
			}
			default: bad(c);
			}
		}
		else if(name == "dispatch") {
			const int o = (int)num(c[1]), key = (int)num(c[2]);
			const Pay pay(key, 0);
			switch(typeOf(o)) {
			case tCL: cl(o)(pay); break;
			case tD: d(o).dispatch(Key(key), pay); break;
			case tQ: q(o).dispatch(Key(key), pay); break;
			case tOQ: oq(o).dispatch(Key(key), pay); break;
			case tH: if(key == 0) h(o)(pay); else h(o)(pay, 0); break;
			default: bad(c);
			}
		}
		else if(name == "pending") {
			const int o = (int)num(c[1]);
			if(typeOf(o) == tQ) pending(q(o), o); else if(typeOf(o) == tOQ) pending(oq(o), o); else bad(c);
		}
		else if(name == "drain") {
			const int o = (int)num(c[1]);
			if(typeOf(o) == tQ) q(o).process(); else if(typeOf(o) == tOQ) oq(o).process(); else bad(c);
		}
		else if(name == "records") {
			auto it = removers.find((int)num(c[1]));
			std::printf("records %d %d\n", (int)num(c[1]), it == removers.end() || ! it->second ? 0 : (int)it->second->records());
		}
		else if(name == "release") { removers.erase((int)num(c[1])); }
		else if(name == "destroy") {
			const int o = (int)num(c[1]);
			switch(typeOf(o)) {
			case tCL: cls.erase(o); break;
			case tD: ds.erase(o); break;
			case tQ: qs.erase(o); break;
			case tOQ: oqs.erase(o); break;
			case tH: hs.erase(o); break;
			default: bad(c);
			}
		}
		else if(name == "live") { std::printf("live %ld %ld\n", g_cb_live, g_pay_live); }
		else bad(c);
	}
};

// ------------------------------------------------------------------------------ throwing listeners

struct Thrown { int tag; };

struct FilterPolicies { using Mixins = eventpp::MixinList<eventpp::MixinFilter>; };
using XQ = eventpp::EventQueue<int, void (const Pay &), FilterPolicies>;

struct Throwing;
Throwing * g_throwing = nullptr;

struct Throwing
{
	std::unique_ptr<XQ> q;
	std::map<int, XQ::Handle> regs;
	std::map<int, XQ::FilterHandle> fregs;
	std::map<std::pair<int, int>, std::vector<vh::Cmd>> behav;
	std::map<std::pair<int, int>, std::pair<std::vector<vh::Cmd>, bool>> fbehav, pbehav;
	std::map<int, int> acts, facts, pacts;

	Throwing() : q(new XQ()) {}

	struct XCb
	{
		int id;
		void operator() (const Pay & p) const {
			const int me = id;
			std::printf("call %d %d %d\n", me, p.key, p.arg);
			const int n = ++g_throwing->acts[me];
			auto it = g_throwing->behav.find(std::make_pair(me, n));
			if(it != g_throwing->behav.end()) { const std::vector<vh::Cmd> body = it->second; g_throwing->exec(body); }
		}
	};
	struct XFilter
	{
		int id;
		bool operator() (const Pay & p) const {
			const int me = id;
			std::printf("filt %d %d %d\n", me, p.key, p.arg);
			const int n = ++g_throwing->facts[me];
			auto it = g_throwing->fbehav.find(std::make_pair(me, n));
			if(it != g_throwing->fbehav.end()) {
				const std::vector<vh::Cmd> body = it->second.first;
				const bool verdict = it->second.second;
				g_throwing->exec(body);
				return verdict;
			}
			return true;
		}
	};
	struct XPred
	{
		int id;
		bool operator() (const Pay & p) const {
			const int me = id;
			std::printf("pred %d %d %d\n", me, p.key, p.arg);
			const int n = ++g_throwing->pacts[me];
			auto it = g_throwing->pbehav.find(std::make_pair(me, n));
			if(it != g_throwing->pbehav.end()) {
				const std::vector<vh::Cmd> body = it->second.first;
				const bool verdict = it->second.second;
				g_throwing->exec(body);
				return verdict;
			}
			return ((me + n) % 2) == 0;
		}
	};

	void exec(const std::vector<vh::Cmd> & cmds) { for(const auto & c : cmds) step(c); }

	void runMain(const std::vector<vh::Cmd> & cmds)
	{
		for(const auto & c : cmds) {
			try { step(c); }
			catch(const Thrown & t) { std::printf("caught %d\n", t.tag); }
		}
	}

	void step(const vh::Cmd & c)
	{
		using vh::num;
		const std::string & op = c[0];
		if(op == "append") { regs[num(c[3])] = q->appendListener((int)num(c[1]), XCb{(int)num(c[2])}); }
		else if(op == "prepend") { regs[num(c[3])] = q->prependListener((int)num(c[1]), XCb{(int)num(c[2])}); }
		else if(op == "insert") { XQ::Handle before = regs[num(c[3])]; regs[num(c[4])] = q->insertListener((int)num(c[1]), XCb{(int)num(c[2])}, before); }
		else if(op == "remove") { std::printf("ret %d\n", (int)q->removeListener((int)num(c[1]), regs[num(c[2])])); }
		else if(op == "addfilter") { fregs[num(c[2])] = q->appendFilter(XFilter{(int)num(c[1])}); }
		else if(op == "removefilter") { std::printf("ret %d\n", (int)q->removeFilter(fregs[num(c[1])])); }
		else if(op == "dispatch") { q->dispatch((int)num(c[1]), Pay((int)num(c[1]), (int)num(c[2]))); }
		else if(op == "enqueue") { q->enqueue((int)num(c[1]), Pay((int)num(c[1]), (int)num(c[2]))); }
		else if(op == "process") { std::printf("ret %d\n", (int)q->process()); }
		else if(op == "processone") { std::printf("ret %d\n", (int)q->processOne()); }
		else if(op == "processif") { std::printf("ret %d\n", (int)q->processIf(XPred{(int)num(c[1])})); }
		else if(op == "processuntil") { std::printf("ret %d\n", (int)q->processUntil(XPred{(int)num(c[1])})); }
		else if(op == "emptyq") { std::printf("ret %d\n", (int)q->emptyQueue()); }
		else if(op == "canprocess") { std::printf("ret %d\n", (int)q->doCanProcess()); }
		else if(op == "ledger") { std::printf("live %ld\n", g_pay_live); }
		else if(op == "throw") { std::printf("threw %d\n", (int)num(c[1])); throw Thrown{(int)num(c[1])}; }
		else { std::printf("harness-error unknown op %s\n", op.c_str()); std::fflush(stdout); std::abort(); }
	}
};

void onTerminate()
{
	std::printf("terminated\n");
	std::fflush(stdout);
	std::_Exit(0);
}

} // namespace

int main()
{
	std::set_terminate(onTerminate);
	std::string line;
	std::unique_ptr<Plan> plan;
	std::unique_ptr<Throwing> thr;
	while(std::getline(std::cin, line)) {
		auto ws = vh::words(line);
		if(ws.empty() || ws[0] == "#") continue;
		if(ws[0] == "case") {
			plan.reset(); thr.reset(); g_throwing = nullptr;
			std::printf("case %s\n", ws[1].c_str()); std::fflush(stdout);
		}
		else if(ws[0] == "kind" || ws[0] == "fuel" || ws[0] == "variant") {}
		else if(ws[0] == "cb" || ws[0] == "flt" || ws[0] == "pred") {
			if(! thr) { thr.reset(new Throwing()); g_throwing = thr.get(); }
			const auto key = std::make_pair((int)vh::num(ws[1]), (int)vh::num(ws[2]));
			if(ws[0] == "cb") thr->behav[key] = vh::splitCmds(ws, 4);
			else if(ws[0] == "flt") thr->fbehav[key] = std::make_pair(vh::splitCmds(ws, 5), ws[3] == "1");
			else thr->pbehav[key] = std::make_pair(vh::splitCmds(ws, 5), ws[3] == "1");
		}
		else if(ws[0] == "main") {
			if(! thr) { thr.reset(new Throwing()); g_throwing = thr.get(); }
			thr->runMain(vh::splitCmds(ws, 2));
		}
		else if(ws[0] == "plan") {
			plan.reset(new Plan());
			for(const auto & c : vh::splitCmds(ws, 2)) { plan->step(c); std::fflush(stdout); }
		}
		else if(ws[0] == "end") {
			plan.reset(); thr.reset(); g_throwing = nullptr;
			if(g_cb_live != 0 || g_pay_live != 0 || g_key_live != 0) {
				std::printf("leak callbacks %ld payloads %ld keys %ld\n", g_cb_live, g_pay_live, g_key_live);
				g_cb_live = g_pay_live = g_key_live = 0;
			}
			std::printf("end\n"); std::fflush(stdout);
		}
	}
	return 0;
}
