// autoremove.cpp — interpreter for `autoremove` case files, driving the REAL
// eventpp::counterRemover(x) / eventpp::conditionalRemover(x) helpers
// (include/eventpp/utilities/counterremover.h, conditionalremover.h from /repo's working tree) over
//   target list  : eventpp::CallbackList<void (int)>                                   (single key 0)
//   target disp  : eventpp::EventDispatcher<int, void (int)>
//   target queue : eventpp::EventQueue<int, void (int)>                                (dispatch, enqueue + process)
//   target hlist : eventpp::HeterCallbackList<HeterTuple<void (int), void (int, int)>> (key = prototype index)
//   target hdisp : eventpp::HeterEventDispatcher<int, HeterTuple<void (int), void (int, int)>>
//                                                                                      (key = 2 * event + prototype index)
// Prints the same trace lines as `ocaml/_build/driver_autoremove model` prints from coq/AutoRemoveModel.v.
//
// helpers temp : the helper objects are temporaries, destroyed at the end of the adding statement
//                (`eventpp::counterRemover(x).append(...)`, the documented use); `drophelper` does nothing
// helpers kept : every helper object lives on the heap until `drophelper <register>` (or the end of the case)
//
//   -DVH_POLICY=0 default policies   =1 SingleThreading
#include "common.h"
#include "eventpp/hetercallbacklist.h"
#include "eventpp/hetereventdispatcher.h"
#include "eventpp/utilities/counterremover.h"
#include "eventpp/utilities/conditionalremover.h"

#ifndef VH_POLICY
#define VH_POLICY 0
#endif

namespace {

[[noreturn]] void harnessError(const std::string & why)
{
	std::printf("harness-error %s\n", why.c_str());
	std::fflush(stdout);
	std::fprintf(stderr, "harness-error %s\n", why.c_str());
	std::abort();
}

struct Policies
{
#if VH_POLICY == 1
	using Threading = eventpp::SingleThreading;
#endif
};

struct Runner
{
	virtual ~Runner() {}
	virtual void exec(const std::vector<vh::Cmd> & cmds) = 0;
};

Runner * g_runner = nullptr;
std::map<std::pair<int, int>, std::vector<vh::Cmd>> g_behav;
std::map<std::pair<int, int>, bool> g_verdict;
std::map<int, int> g_acts, g_pacts;

void fired(const int c, const int k, const int a)
{
	std::printf("call %d %d %d\n", c, k, a);
	const int n = ++g_acts[c];
	auto it = g_behav.find(std::make_pair(c, n));
	if(it != g_behav.end()) { const std::vector<vh::Cmd> body = it->second; g_runner->exec(body); }
}

bool verdict(const int p)
{
	const int n = ++g_pacts[p];
	auto it = g_verdict.find(std::make_pair(p, n));
	return it != g_verdict.end() ? it->second : ((p + n) % 3 == 0);
}

// listeners: one-argument and two-argument prototypes
struct Cb1
{
	int id, key;
	void operator() (int a) const { const int c = id, k = key; fired(c, k, a); }
};
struct Cb2
{
	int id, key;
	void operator() (int a, int b) const { const int c = id, k = key; if(b != a + 1000) harnessError("second argument lost"); fired(c, k, a); }
};
// conditions: with and without the argument.  Each condition object also keeps a count of its own evaluations INSIDE itself
// (a condition may be a stateful callable: "true on my n-th evaluation"); the count is compared with a registry kept per
// registration: if the library evaluates a COPY of the stored condition, the object's own state does not advance and the
// line `cond-state-lost` appears in the trace (the model has no such line)
int g_serial = 0;
std::map<int, int> g_evals;
struct CondA
{
	int id, serial;
	mutable int seen;
	CondA(int id, int serial) : id(id), serial(serial), seen(0) {}
	bool operator() (int a) const {
		const int p = id; const bool v = verdict(p); std::printf("cond %d %d %d\n", p, a, (int)v);
		if(++seen != ++g_evals[serial]) std::printf("cond-state-lost %d\n", p);
		return v;
	}
};
struct CondN
{
	int id, serial;
	mutable int seen;
	CondN(int id, int serial) : id(id), serial(serial), seen(0) {}
	bool operator() () const {
		const int p = id; const bool v = verdict(p); std::printf("cond %d - %d\n", p, (int)v);
		if(++seen != ++g_evals[serial]) std::printf("cond-state-lost %d\n", p);
		return v;
	}
};

enum Place { pAppend, pPrepend, pInsert };

// the same member names on the target and on both helper classes
struct ListFamily
{
	template <typename Obj, typename H, typename F, typename ...Extra>
	static H add(Obj && obj, Place pl, int /*event*/, const F & f, const H & before, const Extra & ...extra) {
		switch(pl) {
		case pAppend: return obj.append(f, extra...);
		case pPrepend: return obj.prepend(f, extra...);
		default: return obj.insert(f, before, extra...);
		}
	}
	template <typename T, typename H> static bool remove(T & t, int, const H & h) { return t.remove(h); }
};
struct DispFamily
{
	template <typename Obj, typename H, typename F, typename ...Extra>
	static H add(Obj && obj, Place pl, int event, const F & f, const H & before, const Extra & ...extra) {
		switch(pl) {
		case pAppend: return obj.appendListener(event, f, extra...);
		case pPrepend: return obj.prependListener(event, f, extra...);
		default: return obj.insertListener(event, f, before, extra...);
		}
	}
	template <typename T, typename H> static bool remove(T & t, int event, const H & h) { return t.removeListener(event, h); }
};

struct KList : ListFamily
{
	using Target = eventpp::CallbackList<void (int), Policies>;
	using Heter = std::false_type;
	static constexpr bool queued = false;
	static int event(int k) { if(k != 0) harnessError("CallbackList target with key != 0"); return 0; }
	static int proto(int) { return 0; }
	static void fire(Target & t, int, int a) { t(a); }
	static void enqueue(Target &, int, int) { harnessError("enqueue on a list"); }
	static bool process(Target &) { harnessError("process on a list"); }
};
struct KDisp : DispFamily
{
	using Target = eventpp::EventDispatcher<int, void (int), Policies>;
	using Heter = std::false_type;
	static int event(int k) { return k; }
	static int proto(int) { return 0; }
	static void fire(Target & t, int k, int a) { t.dispatch(k, a); }
	static void enqueue(Target &, int, int) { harnessError("enqueue on a dispatcher"); }
	static bool process(Target &) { harnessError("process on a dispatcher"); }
};
struct KQueue : DispFamily
{
	using Target = eventpp::EventQueue<int, void (int), Policies>;
	using Heter = std::false_type;
	static int event(int k) { return k; }
	static int proto(int) { return 0; }
	static void fire(Target & t, int k, int a) { t.dispatch(k, a); }
	static void enqueue(Target & t, int k, int a) { t.enqueue(k, a); }
	static bool process(Target & t) { return t.process(); }
};
using HProtos = eventpp::HeterTuple<void (int), void (int, int)>;
struct KHList : ListFamily
{
	using Target = eventpp::HeterCallbackList<HProtos, Policies>;
	using Heter = std::true_type;
	static int event(int k) { if(k != 0 && k != 1) harnessError("HeterCallbackList target with key > 1"); return 0; }
	static int proto(int k) { return k; }
	static void fire(Target & t, int k, int a) { if(k == 0) t(a); else t(a, a + 1000); }
	static void enqueue(Target &, int, int) { harnessError("enqueue on a list"); }
	static bool process(Target &) { harnessError("process on a list"); }
};
struct KHDisp : DispFamily
{
	using Target = eventpp::HeterEventDispatcher<int, HProtos, Policies>;
	using Heter = std::true_type;
	static int event(int k) { return k / 2; }
	static int proto(int k) { return k % 2; }
	static void fire(Target & t, int k, int a) { if(k % 2 == 0) t.dispatch(k / 2, a); else t.dispatch(k / 2, a, a + 1000); }
	static void enqueue(Target &, int, int) { harnessError("enqueue on a dispatcher"); }
	static bool process(Target &) { harnessError("process on a dispatcher"); }
};

template <typename K>
struct RunnerT : Runner
{
	using Target = typename K::Target;
	using Handle = typename Target::Handle;
	using CounterHelper = eventpp::CounterRemover<Target>;
	using CondHelper = eventpp::ConditionalRemover<Target>;

	std::unique_ptr<Target> target;
	std::map<int, Handle> regs;
	std::map<int, std::function<void ()>> helpers;   // kept helper objects, by the register of the handle they produced
	bool keep;

	explicit RunnerT(bool keep) : target(new Target()), keep(keep) {}
	~RunnerT() override { dropAll(); }

	void dropAll() { for(auto & h : helpers) if(h.second) h.second(); helpers.clear(); }

	void exec(const std::vector<vh::Cmd> & cmds) override { for(const auto & c : cmds) step(c); }

	void keepHelper(int reg, std::function<void ()> deleter) {
		auto it = helpers.find(reg);
		if(it != helpers.end() && it->second) it->second();     // the register is reused: its previous helper goes
		helpers[reg] = deleter;
	}

	// ---- plain
	template <typename F>
	Handle addPlain(Place pl, int k, const F & f, const Handle & before) { return K::add(*target, pl, K::event(k), f, before); }

	// ---- through counterRemover
	template <typename F>
	Handle addCounter(Place pl, int k, const F & f, const Handle & before, int n, int reg) {
		if(! keep) {
			return K::add(eventpp::counterRemover(*target), pl, K::event(k), f, before, n);   // temporary helper, gone after this statement
		}
		CounterHelper * helper = new CounterHelper(*target);
		const Handle h = K::add(*helper, pl, K::event(k), f, before, n);
		keepHelper(reg, [helper]() { delete helper; });
		return h;
	}

	// ---- through conditionalRemover
	template <typename F, typename C>
	Handle addCond(Place pl, int k, const F & f, const Handle & before, const C & cond, int reg) {
		if(! keep) {
			return K::add(eventpp::conditionalRemover(*target), pl, K::event(k), f, before, cond);   // temporary helper, gone after this statement
		}
		CondHelper * helper = new CondHelper(*target);
		const Handle h = K::add(*helper, pl, K::event(k), f, before, cond);
		keepHelper(reg, [helper]() { delete helper; });
		return h;
	}

	// kind: 0 plain, 1 counter(n), 2 condition with argument(p), 3 condition without argument(p)
	template <typename F>
	Handle addWith(const F & f, int kind, Place pl, int k, const Handle & before, int x, int reg, std::false_type /*two-argument prototype*/) {
		switch(kind) {
		case 0: return addPlain(pl, k, f, before);
		case 1: return addCounter(pl, k, f, before, x, reg);
		case 2: return addCond(pl, k, f, before, CondA(x, ++g_serial), reg);
		default: return addCond(pl, k, f, before, CondN(x, ++g_serial), reg);
		}
	}
	template <typename F>
	Handle addWith(const F & f, int kind, Place pl, int k, const Handle & before, int x, int reg, std::true_type /*two-argument prototype*/) {
		switch(kind) {
		case 0: return addPlain(pl, k, f, before);
		case 1: return addCounter(pl, k, f, before, x, reg);
		// ConditionalRemover's wrapper accepts any argument list, so a heterogeneous target files it
		// under its first prototype: conditional entries exist for prototype 0 only
		default: harnessError("conditional entry on the second prototype");
		}
	}

	Handle addProto(int c, int kind, Place pl, int k, const Handle & before, int x, int reg, std::false_type /*homogeneous*/) {
		return addWith(Cb1{c, k}, kind, pl, k, before, x, reg, std::false_type());
	}
	Handle addProto(int c, int kind, Place pl, int k, const Handle & before, int x, int reg, std::true_type /*heterogeneous*/) {
		if(K::proto(k) == 0) return addWith(Cb1{c, k}, kind, pl, k, before, x, reg, std::false_type());
		return addWith(Cb2{c, k}, kind, pl, k, before, x, reg, std::true_type());
	}

	void add(int c, int kind, Place pl, int k, int beforeReg, int x, int reg) {
		const Handle before = (pl == pInsert) ? regs[beforeReg] : Handle();
		const Handle h = addProto(c, kind, pl, k, before, x, reg, typename K::Heter());
		regs[reg] = h;
	}

	void step(const vh::Cmd & c)
	{
		using vh::num;
		const std::string & op = c[0];
		auto I = [&c](size_t i) { return (int)vh::num(c.at(i)); };
		if(op == "append") add(I(2), 0, pAppend, I(1), 0, 0, I(3));
		else if(op == "prepend") add(I(2), 0, pPrepend, I(1), 0, 0, I(3));
		else if(op == "insert") add(I(2), 0, pInsert, I(1), I(3), 0, I(4));
		else if(op == "cappend") add(I(2), 1, pAppend, I(1), 0, I(3), I(4));
		else if(op == "cprepend") add(I(2), 1, pPrepend, I(1), 0, I(3), I(4));
		else if(op == "cinsert") add(I(2), 1, pInsert, I(1), I(3), I(4), I(5));
		else if(op == "qappend") add(I(2), I(4) ? 2 : 3, pAppend, I(1), 0, I(3), I(5));
		else if(op == "qprepend") add(I(2), I(4) ? 2 : 3, pPrepend, I(1), 0, I(3), I(5));
		else if(op == "qinsert") add(I(2), I(5) ? 2 : 3, pInsert, I(1), I(3), I(4), I(6));
		else if(op == "remove") { std::printf("ret %d\n", (int)K::remove(*target, K::event(I(1)), regs[I(2)])); }
		else if(op == "dispatch") { K::fire(*target, I(1), I(2)); }
		else if(op == "enqueue") { K::enqueue(*target, I(1), I(2)); }
		else if(op == "process") { std::printf("ret %d\n", (int)K::process(*target)); }
		else if(op == "drophelper") {
			auto it = helpers.find(I(1));
			if(it != helpers.end() && it->second) { it->second(); it->second = nullptr; }
		}
		else harnessError("unknown op " + op);
	}
};

} // namespace

int main()
{
	std::string line;
	std::unique_ptr<Runner> runner;
	std::string target = "list";
	bool keep = false;
	while(std::getline(std::cin, line)) {
		auto ws = vh::words(line);
		if(ws.empty() || ws[0] == "#") continue;
		if(ws[0] == "case") {
			runner.reset(); g_runner = nullptr; g_behav.clear(); g_verdict.clear(); g_acts.clear(); g_pacts.clear();
			target = "list"; keep = false;
			std::printf("case %s\n", ws[1].c_str()); std::fflush(stdout);
		}
		else if(ws[0] == "fuel") {}
		else if(ws[0] == "target") target = ws[1];
		else if(ws[0] == "helpers") keep = (ws[1] == "kept");
		else if(ws[0] == "cb") { g_behav[std::make_pair((int)vh::num(ws[1]), (int)vh::num(ws[2]))] = vh::splitCmds(ws, 4); }
		else if(ws[0] == "cond") { g_verdict[std::make_pair((int)vh::num(ws[1]), (int)vh::num(ws[2]))] = (ws[3] == "1"); }
		else if(ws[0] == "main") {
			if(target == "list") runner.reset(new RunnerT<KList>(keep));
			else if(target == "disp") runner.reset(new RunnerT<KDisp>(keep));
			else if(target == "queue") runner.reset(new RunnerT<KQueue>(keep));
			else if(target == "hlist") runner.reset(new RunnerT<KHList>(keep));
			else if(target == "hdisp") runner.reset(new RunnerT<KHDisp>(keep));
			else harnessError("unknown target " + target);
			g_runner = runner.get();
			runner->exec(vh::splitCmds(ws, 2));
		}
		else if(ws[0] == "end") {
			runner.reset(); g_runner = nullptr;
			std::printf("end\n"); std::fflush(stdout);
		}
	}
	return 0;
}
