// qconc.cpp — thread-level correspondence for eventpp::EventQueue (C06 C07 C11): the REAL queue
// is instantiated with the scheduler's Mutex / Atomic / ConditionVariable (vsched.h); the case's
// threads run their API calls under the case's schedule; every visible action on the queue's two
// mutexes, two atomic counters and condition variable is logged, together with every dispatched /
// taken / peeked event and every call's result.  Same lines as ocaml/_build/driver_qconc.
// the guarded verification marker of eventpp (EVENTPP_VERIF_POINT, internal/eventqueue_i.h) calls this function at the
// emptiness pre-checks that are made without the mutex: a scheduling point, logged as `act tN read ql|fl`
void qc_point(const char * what);
#define EVENTPP_VERIF_POINT_FN qc_point
#include "common.h"
#include "vsched.h"
#if defined(VH_HETER) && VH_HETER == 1
#define private public
#define protected public
#include "eventpp/hetereventqueue.h"
#undef private
#undef protected
#endif

static const char qcTagQl = 'q', qcTagFl = 'f';
void qc_point(const char * what)
{
	vsched::Scheduler & s = vsched::Scheduler::get();
	const void * obj = (what[0] == 'f') ? (const void *)&qcTagFl : (const void *)&qcTagQl;
	if(s.isRegistered(obj)) { s.point(vsched::Kind::Point, obj); s.logAction("read", obj, 0, false); }
}

namespace {

struct Policies { using Threading = vsched::VThreading; };
// -DVH_HETER=1: the same thread programs against eventpp::HeterEventQueue (one prototype).  It has no takeEvent,
// peekEvent, processUntil or DisableQueueNotify: programs using them are not generated for this variant.
#if defined(VH_HETER) && VH_HETER == 1
using Q = eventpp::HeterEventQueue<int, eventpp::HeterTuple<void (int)>, Policies>;
#define VH_HAS_FULL_API 0
#else
using Q = eventpp::EventQueue<int, void (int), Policies>;
#define VH_HAS_FULL_API 1
#endif
bool g_draining = false;

struct Runner
{
	Q q;
	std::vector<std::vector<vh::Cmd>> progs;

	void body(int me)
	{
#if VH_HAS_FULL_API
		std::vector<std::unique_ptr<Q::DisableQueueNotify>> scopes;
#endif
		for(const auto & c : progs[me]) {
			const std::string & op = c[0];
			using vh::num;
			if(op == "enqueue") { q.enqueue((int)num(c[1]), (int)num(c[2])); std::printf("done t%d\n", me); }
			else if(op == "process") { const bool r = q.process(); std::printf("res t%d %d\n", me, (int)r); }
			else if(op == "processone") { const bool r = q.processOne(); std::printf("res t%d %d\n", me, (int)r); }
			else if(op == "processif") { const int p = (int)num(c[1]); const bool r = q.processIf([p](int a) { return ((p + a) % 2) == 0; }); std::printf("res t%d %d\n", me, (int)r); }
#if VH_HAS_FULL_API
			else if(op == "processuntil") { const int p = (int)num(c[1]); const bool r = q.processUntil([p](int a) { return ((p + a) % 2) == 0; }); std::printf("res t%d %d\n", me, (int)r); }
			else if(op == "take") {
				Q::QueuedEvent ev; const bool r = q.takeEvent(&ev);
				if(r) std::printf("taken t%d %d %d\n", me, ev.event, std::get<0>(ev.arguments));
				std::printf("res t%d %d\n", me, (int)r);
			}
			else if(op == "peek") {
				Q::QueuedEvent ev; const bool r = q.peekEvent(&ev);
				if(r) std::printf("peeked t%d %d %d\n", me, ev.event, std::get<0>(ev.arguments));
				std::printf("res t%d %d\n", me, (int)r);
			}
#endif
			else if(op == "clear") { q.clearEvents(); std::printf("done t%d\n", me); }
			else if(op == "emptyq") { const bool r = q.emptyQueue(); std::printf("res t%d %d\n", me, (int)r); }
			else if(op == "wait") { q.wait(); std::printf("done t%d\n", me); }
			else if(op == "waitfor") { const bool r = q.waitFor(std::chrono::milliseconds(1)); std::printf("res t%d %d\n", me, (int)r); }
#if VH_HAS_FULL_API
			else if(op == "disable_begin") { scopes.emplace_back(new Q::DisableQueueNotify(&q)); std::printf("done t%d\n", me); }
			else if(op == "disable_end") { if(! scopes.empty()) scopes.pop_back(); std::printf("done t%d\n", me); }
#endif
			else { std::printf("harness-error unknown op %s\n", op.c_str()); std::fflush(stdout); std::abort(); }
		}
	}
};

} // namespace

int main()
{
	std::string line;
	std::unique_ptr<Runner> r;
	while(std::getline(std::cin, line)) {
		auto ws = vh::words(line);
		if(ws.empty() || ws[0] == "#") continue;
		if(ws[0] == "case") { r.reset(new Runner()); std::printf("case %s\n", ws[1].c_str()); std::fflush(stdout); }
		else if(ws[0] == "thread") { r->progs.push_back(vh::splitCmds(ws, 3)); }
		else if(ws[0] == "schedule") {
			std::vector<int> sched;
			for(size_t i = 2; i < ws.size(); ++i) sched.push_back((int)vh::num(ws[i]));
			vsched::Scheduler & s = vsched::Scheduler::get();
			s.reset(sched);
			for(int k = 0; k < 6; ++k) r->q.appendListener(k, [k](int a) {
				if(g_draining) std::printf("drained %d %d\n", k, a);
				else std::printf("disp t%d %d %d\n", vsched::Scheduler::get().self(), k, a); });
			s.registerObject(&r->q.queueListMutex, "qm");
			s.registerObject(&r->q.freeListMutex, "fm");
			s.registerObject(&r->q.queueEmptyCounter, "ec");
			s.registerObject(&r->q.queueNotifyCounter, "nc");
			s.registerObject(&r->q.queueListConditionVariable, "cv");
			s.registerObject(&qcTagQl, "ql");
			s.registerObject(&qcTagFl, "fl");
			std::vector<std::function<void ()>> bodies;
			Runner * rp = r.get();
			for(size_t i = 0; i < r->progs.size(); ++i) bodies.push_back([rp, i]() { rp->body((int)i); });
			s.onDeadlock = [rp]() { std::printf("DEADLOCK pending=%d nc=%d\n", (int)rp->q.queueList.size(), (int)rp->q.queueNotifyCounter.value); };
			s.run(bodies);
			// all threads have finished: what is still queued
#if VH_HAS_FULL_API
			{ Q::QueuedEvent ev; while(r->q.takeEvent(&ev)) std::printf("drained %d %d\n", ev.event, std::get<0>(ev.arguments)); }
#else
			g_draining = true; r->q.process(); g_draining = false;
#endif
		}
		else if(ws[0] == "end") { r.reset(); std::printf("end\n"); std::fflush(stdout); }
	}
	return 0;
}
