// remover.cpp — interpreter for `remover` case files, driving the REAL eventpp::ScopedRemover
// (include/eventpp/utilities/scopedremover.h from /repo's working tree) over
//   kind cl : eventpp::CallbackList<void ()>           (single key 0)
//   kind ed : eventpp::EventDispatcher<int, void ()>
//   kind eq : eventpp::EventQueue<int, void ()>        (observation: enqueue + process)
// Prints the same trace lines as `ocaml/_build/driver_remover` prints from coq/RemoverModel.v.
// Removers live in std::unique_ptr slots, so construction, move construction and destruction
// order are exactly what the case says.
#include "common.h"
#define private public
#include "eventpp/utilities/scopedremover.h"
#undef private

namespace {

[[noreturn]] void harnessError(const std::string & why)
{
	std::printf("harness-error %s\n", why.c_str());
	std::fflush(stdout);
	std::fprintf(stderr, "harness-error %s\n", why.c_str());
	std::abort();
}

using Listener = std::function<void ()>;

struct KindCL
{
	using Target = eventpp::CallbackList<void ()>;
	using Remover = eventpp::ScopedRemover<Target>;
	using Handle = Target::Handle;
	static void key0(int k) { if(k != 0) harnessError("CallbackList target with key != 0"); }
	static Handle append(Target & t, int k, const Listener & f) { key0(k); return t.append(f); }
	static Handle prepend(Target & t, int k, const Listener & f) { key0(k); return t.prepend(f); }
	static Handle insert(Target & t, int k, const Listener & f, const Handle & b) { key0(k); return t.insert(f, b); }
	static bool remove(Target & t, int k, const Handle & h) { key0(k); return t.remove(h); }
	static Handle append(Remover & r, int k, const Listener & f) { key0(k); return r.append(f); }
	static Handle prepend(Remover & r, int k, const Listener & f) { key0(k); return r.prepend(f); }
	static Handle insert(Remover & r, int k, const Listener & f, const Handle & b) { key0(k); return r.insert(f, b); }
	static bool remove(Remover & r, int k, const Handle & h) { key0(k); return r.remove(h); }
	static void retarget(Remover & r, Target & t) { r.setCallbackList(t); }
	static void trigger(Target & t, int k) { key0(k); t(); }
	static const Target * pointee(const Remover & r) { return r.callbackList; }
};

template <typename T>
struct KindDispatcherLike
{
	using Target = T;
	using Remover = eventpp::ScopedRemover<Target>;
	using Handle = typename Target::Handle;
	static Handle append(Target & t, int k, const Listener & f) { return t.appendListener(k, f); }
	static Handle prepend(Target & t, int k, const Listener & f) { return t.prependListener(k, f); }
	static Handle insert(Target & t, int k, const Listener & f, const Handle & b) { return t.insertListener(k, f, b); }
	static bool remove(Target & t, int k, const Handle & h) { return t.removeListener(k, h); }
	static Handle append(Remover & r, int k, const Listener & f) { return r.appendListener(k, f); }
	static Handle prepend(Remover & r, int k, const Listener & f) { return r.prependListener(k, f); }
	static Handle insert(Remover & r, int k, const Listener & f, const Handle & b) { return r.insertListener(k, f, b); }
	static bool remove(Remover & r, int k, const Handle & h) { return r.removeListener(k, h); }
	static void retarget(Remover & r, Target & t) { r.setDispatcher(t); }
	static const Target * pointee(const Remover & r) { return r.dispatcher; }
};

struct KindED : KindDispatcherLike<eventpp::EventDispatcher<int, void ()>>
{
	static void trigger(Target & t, int k) { t.dispatch(k); }
};

struct KindEQ : KindDispatcherLike<eventpp::EventQueue<int, void ()>>
{
	static void trigger(Target & t, int k) { t.enqueue(k); t.process(); }
};

struct CaseBase
{
	virtual ~CaseBase() {}
	virtual void setup(long nt, long nk) = 0;
	virtual void exec(const std::vector<vh::Cmd> & cmds) = 0;
};

template <typename K>
struct Case : CaseBase
{
	using Target = typename K::Target;
	using Remover = typename K::Remover;
	using Handle = typename K::Handle;

	struct Reg { long target; int key; Handle handle; };

	// declaration order = reverse destruction order: the removers still alive at the end of
	// a case are destroyed (slot order) before the targets, the handles last
	std::map<long, Reg> regs;
	std::vector<std::unique_ptr<Target>> targets;
	std::map<long, std::unique_ptr<Remover>> removers;
	std::vector<int> ran;
	long nk = 1;

	~Case() override
	{
		for(auto & p : removers) p.second.reset();
		removers.clear();
		targets.clear();
		regs.clear();
	}

	void setup(long nt, long nk_) override
	{
		nk = nk_;
		for(long i = 0; i < nt; ++i) targets.emplace_back(new Target());
	}

	Target & T(long i)
	{
		if(i < 0 || i >= (long)targets.size()) harnessError("no such target");
		return *targets[i];
	}

	Remover & R(long i)
	{
		auto it = removers.find(i);
		if(it == removers.end() || ! it->second) harnessError("dead remover slot");
		return *it->second;
	}

	bool live(long i) const
	{
		auto it = removers.find(i);
		return it != removers.end() && it->second;
	}

	Handle handleOf(long id) const
	{
		auto it = regs.find(id);
		return it == regs.end() ? Handle() : it->second.handle;
	}

	Listener listener(long id)
	{
		std::vector<int> * out = &ran;
		const int me = (int)id;
		return [out, me]() { out->push_back(me); };
	}

	// mode tokens start at c[at]: a | p | i <before>
	template <typename Where>
	Handle add(Where & w, int k, long id, const vh::Cmd & c, size_t at)
	{
		if(regs.count(id)) harnessError("listener id used twice");
		const std::string & m = c.at(at);
		if(m == "a") return K::append(w, k, listener(id));
		if(m == "p") return K::prepend(w, k, listener(id));
		if(m == "i") return K::insert(w, k, listener(id), handleOf(vh::num(c.at(at + 1))));
		harnessError("bad mode " + m);
	}

	void exec(const std::vector<vh::Cmd> & cmds) override { for(const auto & c : cmds) step(c); }

	void step(const vh::Cmd & c)
	{
		using vh::num;
		const std::string & op = c[0];
		if(op == "rnew") {
			if(live(num(c[1]))) harnessError("remover slot busy");
			if(c[2] == "-") removers[num(c[1])].reset(new Remover());
			else removers[num(c[1])].reset(new Remover(T(num(c[2]))));
		}
		else if(op == "radd") {
			Remover & r = R(num(c[1]));
			const int k = (int)num(c[2]);
			const long id = num(c[3]);
			// the remover does not tell which target it points to; the harness reads the pointer
			// only to file the handle under the right target for later `dremove`
			long t = targetIndexOf(r);
			Handle h = add(r, k, id, c, 4);
			regs[id] = Reg { t, k, h };
		}
		else if(op == "rremove") {
			Remover & r = R(num(c[1]));
			auto it = regs.find(num(c[2]));
			const int k = it == regs.end() ? 0 : it->second.key;
			std::printf("ret %d\n", (int)K::remove(r, k, handleOf(num(c[2]))));
		}
		else if(op == "rreset") { R(num(c[1])).reset(); }
		else if(op == "rset") { K::retarget(R(num(c[1])), T(num(c[2]))); }
		else if(op == "rmovector") {
			Remover & src = R(num(c[1]));
			if(live(num(c[2]))) harnessError("remover slot busy");
			removers[num(c[2])].reset(new Remover(std::move(src)));
		}
		else if(op == "rmoveassign") {
			Remover & src = R(num(c[1]));
			Remover & dst = R(num(c[2]));
			dst = std::move(src);
		}
		else if(op == "rswap") {
			using std::swap;
			Remover & a = R(num(c[1]));
			Remover & b = R(num(c[2]));
			a.swap(b);
		}
		else if(op == "rdestroy") {
			R(num(c[1]));
			removers[num(c[1])].reset();
		}
		else if(op == "dadd") {
			const long t = num(c[1]);
			const int k = (int)num(c[2]);
			const long id = num(c[3]);
			Handle h = add(T(t), k, id, c, 4);
			regs[id] = Reg { t, k, h };
		}
		else if(op == "dremove") {
			auto it = regs.find(num(c[1]));
			if(it == regs.end()) std::printf("ret %d\n", (int)K::remove(T(0), 0, Handle()));
			else std::printf("ret %d\n", (int)K::remove(T(it->second.target), it->second.key, it->second.handle));
		}
		else if(op == "observe") {
			for(long t = 0; t < (long)targets.size(); ++t) {
				for(long k = 0; k < nk; ++k) {
					ran.clear();
					K::trigger(T(t), (int)k);
					std::printf("obs %ld %ld", t, k);
					for(int id : ran) std::printf(" %d", id);
					std::printf("\n");
				}
			}
		}
		else harnessError("unknown op " + op);
	}

	long targetIndexOf(Remover & r)
	{
		for(long i = 0; i < (long)targets.size(); ++i) if(targets[i].get() == K::pointee(r)) return i;
		harnessError("add through a remover without target");
	}
};

} // namespace

int main()
{
	std::string line;
	std::unique_ptr<CaseBase> cs;
	std::string kind = "cl";
	long nt = 1, nk = 1;
	while(std::getline(std::cin, line)) {
		auto ws = vh::words(line);
		if(ws.empty() || ws[0] == "#") continue;
		if(ws[0] == "case") {
			kind = "cl"; nt = 1; nk = 1;
			std::printf("case %s\n", ws[1].c_str());
			std::fflush(stdout);
		}
		else if(ws[0] == "kind") kind = ws[1];
		else if(ws[0] == "nt") nt = vh::num(ws[1]);
		else if(ws[0] == "nk") nk = vh::num(ws[1]);
		else if(ws[0] == "main") {
			if(kind == "cl") cs.reset(new Case<KindCL>());
			else if(kind == "ed") cs.reset(new Case<KindED>());
			else if(kind == "eq") cs.reset(new Case<KindEQ>());
			else harnessError("unknown kind " + kind);
			cs->setup(nt, nk);
			cs->exec(vh::splitCmds(ws, 2));
		}
		else if(ws[0] == "end") {
			cs.reset();
			std::printf("end\n");
			std::fflush(stdout);
		}
	}
	return 0;
}
