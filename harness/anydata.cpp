// anydata.cpp — interpreter for AnyData case files (property C17), driving the REAL
// eventpp::AnyData<VH_CAP> and eventpp::EventQueue<int, void (const AnyData<VH_CAP> &)>
// built from /repo's working tree.  Prints the same trace lines as `ocaml/driver_anydata`
// prints from the Coq model (coq/AnyDataModel.v).
//
// Build-time parameter: -DVH_CAP=<n>   the template argument of AnyData (default 16).
// The payload types are Payload<Kind, N> with sizeof == N exactly, for N around the
// effective capacity E = max(VH_CAP, sizeof(LargeData)):
//   kind 0 trivial        (bytes only, trivially copyable; not counted by the ledger)
//   kind 1 non-trivial    (user-provided copy/move/destructor, every object in the ledger)
//   kind 2 move-only      (owns a heap long through std::unique_ptr; in the ledger)
//   kind 3 shared         (owns a heap long through std::shared_ptr; in the ledger; copyable, move constructor not noexcept)
// `anydata --meta` prints the capacity, sizeof(LargeData), the type list and the maxSizeOf lists.
#include "common.h"
#include <deque>
#include <set>
#define private public
#define protected public
#include "eventpp/utilities/anydata.h"
#undef private
#undef protected

#ifndef VH_CAP
#define VH_CAP 16
#endif

namespace {

[[noreturn]] void harnessError(const std::string & what)
{
	std::printf("harness-error %s\n", what.c_str());
	std::fflush(stdout);
	std::abort();
}

// ------------------------------------------------------------------ the ledger of payload objects
std::set<const void *> g_live;

void fault(const char * what)
{
	std::printf("fault %s\n", what);
}

void ledgerCtor(const void * p) { if(! g_live.insert(p).second) fault("construction over a live object"); }
void ledgerDtor(const void * p) { if(g_live.erase(p) != 1) fault("destruction of an object that is not live"); }
void ledgerRead(const void * p) { if(g_live.count(p) != 1) fault("read of an object that is not live"); }

// ------------------------------------------------------------------ payload types
template <std::size_t M>
struct Pad
{
	unsigned char b[M];
	void fill(long v, unsigned salt) { for(std::size_t i = 0; i < M; ++i) b[i] = (unsigned char)(v * 31 + (long)i * 7 + salt); }
	bool ok(long v, unsigned salt) const {
		for(std::size_t i = 0; i < M; ++i) if(b[i] != (unsigned char)(v * 31 + (long)i * 7 + salt)) return false;
		return true;
	}
	void scramble() { for(std::size_t i = 0; i < M; ++i) b[i] = 0xDD; }
};

template <>
struct Pad<0>
{
	void fill(long, unsigned) {}
	bool ok(long, unsigned) const { return true; }
	void scramble() {}
};

template <int K, std::size_t N> struct Payload;

// values are 0..199: byte 0 holds the value, the other bytes a pattern derived from it
template <std::size_t N>
struct Payload<0, N>
{
	unsigned char v0;
	Pad<N - 1> pad;
	static Payload make(long v) { Payload p; p.v0 = (unsigned char)v; p.pad.fill(v, 3); return p; }
	long value() const { return pad.ok(v0, 3) ? (long)v0 : -1; }
};

template <>
struct Payload<0, 1>
{
	unsigned char v0;
	static Payload make(long v) { Payload p; p.v0 = (unsigned char)v; return p; }
	long value() const { return (long)v0; }
};

template <std::size_t N>
struct Payload<1, N> : Pad<N - 1>
{
	unsigned char v0;
	explicit Payload(long v) : v0((unsigned char)v) { this->fill(v, 5); ledgerCtor(this); }
	Payload(const Payload & o) : Pad<N - 1>(o), v0(o.v0) { ledgerRead(&o); ledgerCtor(this); }
	Payload(Payload && o) noexcept : Pad<N - 1>(o), v0(o.v0) { ledgerRead(&o); ledgerCtor(this); o.v0 = 0xEE; o.scramble(); }
	Payload & operator = (const Payload &) = delete;
	~Payload() { ledgerDtor(this); v0 = 0xCC; this->scramble(); }
	static Payload make(long v) { return Payload(v); }
	long value() const { ledgerRead(this); return this->ok(v0, 5) ? (long)v0 : -1; }
};

template <std::size_t N>
struct Payload<2, N> : Pad<N - sizeof(std::unique_ptr<long>)>
{
	std::unique_ptr<long> p;
	explicit Payload(long v) : p(new long(v)) { this->fill(v, 7); ledgerCtor(this); }
	Payload(const Payload &) = delete;
	Payload(Payload && o) noexcept : Pad<N - sizeof(std::unique_ptr<long>)>(o), p(std::move(o.p)) { ledgerRead(&o); ledgerCtor(this); o.scramble(); }
	Payload & operator = (const Payload &) = delete;
	~Payload() { ledgerDtor(this); this->scramble(); }
	static Payload make(long v) { return Payload(v); }
	long value() const { ledgerRead(this); return (p && this->ok(*p, 7)) ? *p : -1; }
};

template <std::size_t N>
struct Payload<3, N> : Pad<N - sizeof(std::shared_ptr<long>)>
{
	std::shared_ptr<long> p;
	explicit Payload(long v) : p(std::make_shared<long>(v)) { this->fill(v, 9); ledgerCtor(this); }
	Payload(const Payload & o) : Pad<N - sizeof(std::shared_ptr<long>)>(o), p(o.p) { ledgerRead(&o); ledgerCtor(this); }
	// NOT noexcept on purpose: a copyable type whose move constructor may throw must still be MOVED when its AnyData is moved
	// (a copy would leave a second owner behind, which value() notices)
	Payload(Payload && o) : Pad<N - sizeof(std::shared_ptr<long>)>(o), p(std::move(o.p)) { ledgerRead(&o); ledgerCtor(this); o.scramble(); }
	Payload & operator = (const Payload &) = delete;
	~Payload() { ledgerDtor(this); this->scramble(); }
	static Payload make(long v) { return Payload(v); }
	// at every point where the harness reads, the client's own object is gone: one owner
	long value() const { ledgerRead(this); return (p && p.use_count() == 1 && this->ok(*p, 9)) ? *p : -1; }
};

template <typename T> struct Info;
template <int K, std::size_t N> struct Info<Payload<K, N>> { static constexpr int kind = K; static constexpr std::size_t size = N; };

using Data = eventpp::AnyData<VH_CAP>;
constexpr std::size_t LS = sizeof(eventpp::anydata_internal_::LargeData);
constexpr std::size_t E = (VH_CAP < LS ? LS : (std::size_t)VH_CAP);
// E only selects which payload sizes are instantiated; what AnyData itself computes is Data::maxSize

template <typename ...Ts> struct TypeList {};

using Types = TypeList<
	Payload<0, 1>, Payload<0, 8>, Payload<0, E - 1>, Payload<0, E>, Payload<0, E + 1>, Payload<0, E + 9>,
	Payload<1, 1>, Payload<1, E - 1>, Payload<1, E>, Payload<1, E + 1>, Payload<1, E + 9>,
	Payload<2, 8>, Payload<2, E>, Payload<2, E + 8>,
	Payload<3, 16>, Payload<3, E>, Payload<3, E + 8>, Payload<3, E + 16>
>;

using MszLists = TypeList<
	TypeList<Payload<0, 1>, Payload<0, E + 1>, Payload<0, E - 1>>,
	TypeList<Payload<1, E>, Payload<0, 1>>,
	TypeList<Payload<0, E + 9>>,
	TypeList<Payload<2, 8>, Payload<3, 16>, Payload<0, E + 9>, Payload<0, E + 1>>,
	TypeList<Payload<0, 8>, Payload<0, 1>, Payload<2, E>, Payload<0, E - 1>>
>;

template <typename T> constexpr bool sizeOk() { return sizeof(T) == Info<T>::size; }

// calls f.template operator()<T>() for the type with the given kind and size
template <typename F>
bool withType(TypeList<>, int, std::size_t, F &&) { return false; }

template <typename T, typename ...Ts, typename F>
bool withType(TypeList<T, Ts...>, int kind, std::size_t size, F && f)
{
	static_assert(sizeOk<T>(), "Payload<K, N> must have sizeof N");
	if(Info<T>::kind == kind && Info<T>::size == size) {
		f.template run<T>();
		return true;
	}
	return withType(TypeList<Ts...>(), kind, size, std::forward<F>(f));
}

template <typename F>
void dispatch(int kind, std::size_t size, F && f)
{
	if(! withType(Types(), kind, size, std::forward<F>(f))) {
		harnessError("type " + std::to_string(kind) + ":" + std::to_string(size) + " is not instantiated for this capacity");
	}
}

bool isWithin(const Data & d, const void * address)
{
	return (std::uintptr_t)address >= (std::uintptr_t)&d && (std::uintptr_t)address < (std::uintptr_t)&d + sizeof(Data);
}

// ------------------------------------------------------------------ registers
struct Reg
{
	alignas(Data) unsigned char storage[sizeof(Data)];
	Data * p = nullptr;
	bool moved = false;
	int kind = 0;
	std::size_t size = 0;
	const void * addr0 = nullptr;

	~Reg() { destroy(); }
	void destroy() { if(p) { p->~Data(); p = nullptr; } }
	Data & data() { return *p; }
};

using Queue = eventpp::EventQueue<int, void (const Data &)>;

struct Case
{
	std::map<long, std::unique_ptr<Reg>> regs;
	std::unique_ptr<Queue> queue;
	std::deque<std::pair<int, std::size_t>> expect;

	Case() : queue(new Queue())
	{
		queue->appendListener(1, [this](const Data & d) { this->listener(d); });
	}

	Reg * live(long r) {
		auto it = regs.find(r);
		if(it == regs.end() || it->second->moved) return nullptr;
		return it->second.get();
	}

	bool absent(long r) const { return regs.find(r) == regs.end(); }

	Reg & fresh(long r, int kind, std::size_t size) {
		std::unique_ptr<Reg> reg(new Reg());
		std::memset(reg->storage, 0xAB, sizeof(reg->storage));
		reg->kind = kind;
		reg->size = size;
		Reg & ref = *reg;
		regs[r] = std::move(reg);
		return ref;
	}

	// ---- typed actions
	struct DoMake {
		Reg & reg; long v; const std::string & mode;
		template <typename T> void run() {
			T src = T::make(v);
			construct<T>(src, std::is_copy_constructible<T>());
		}
		template <typename T> void construct(T & src, std::true_type) {
			if(mode == "copy") reg.p = new (reg.storage) Data(src);
			else if(mode == "ccopy") reg.p = new (reg.storage) Data(static_cast<const T &>(src));
			else reg.p = new (reg.storage) Data(std::move(src));
		}
		template <typename T> void construct(T & src, std::false_type) {
			reg.p = new (reg.storage) Data(std::move(src));
		}
	};

	struct DoQMake {
		Queue & queue; long v; const std::string & mode;
		template <typename T> void run() {
			T src = T::make(v);
			enqueue<T>(src, std::is_copy_constructible<T>());
		}
		template <typename T> void enqueue(T & src, std::true_type) {
			if(mode == "copy") queue.enqueue(1, src);
			else if(mode == "ccopy") queue.enqueue(1, static_cast<const T &>(src));
			else queue.enqueue(1, std::move(src));
		}
		template <typename T> void enqueue(T & src, std::false_type) {
			queue.enqueue(1, std::move(src));
		}
	};

	struct DoGet {
		const Data & d; long accessor; long result;
		template <typename T> void run() {
			switch(accessor) {
			case 0: result = d.template get<T>().value(); break;
			case 1: { T & ref = d; result = ref.value(); break; }
			case 2: { T * ptr = d; result = ptr->value(); break; }
			default: result = static_cast<const T *>(d.getAddress())->value(); break;
			}
		}
	};

	struct DoIsType {
		const Data & d; bool result;
		template <typename T> void run() { result = d.template isType<T>(); }
	};

	struct DoAddr {
		const Data & d; const void * addr0; bool result;
		template <typename T> void run() {
			const void * a = d.getAddress();
			T & ref = d;
			T * ptr = d;
			result = (a == addr0) && ((const void *)&d.template get<T>() == a) && ((const void *)&ref == a) && ((const void *)ptr == a);
		}
	};

	void listener(const Data & d)
	{
		if(expect.empty()) harnessError("listener called with nothing expected");
		const auto e = expect.front();
		expect.pop_front();
		DoIsType it { d, false };
		dispatch(e.first, e.second, it);
		DoGet g { d, 0, 0 };
		dispatch(e.first, e.second, g);
		std::printf("deliver %d %ld\n", (int)it.result, g.result);
	}

	void step(const vh::Cmd & c)
	{
		using vh::num;
		const std::string & op = c[0];
		if(op == "make") {
			// make r kind size val mode
			if(! absent(num(c[1]))) { std::printf("reject\n"); return; }
			Reg & reg = fresh(num(c[1]), (int)num(c[2]), (std::size_t)num(c[3]));
			DoMake m { reg, num(c[4]), c[5] };
			dispatch(reg.kind, reg.size, m);
			reg.addr0 = reg.p->getAddress();
		}
		else if(op == "move") {
			Reg * src = live(num(c[1]));
			if(src == nullptr || ! absent(num(c[2]))) { std::printf("reject\n"); return; }
			Reg & dst = fresh(num(c[2]), src->kind, src->size);
			dst.p = new (dst.storage) Data(std::move(src->data()));
			dst.addr0 = dst.p->getAddress();
			src->moved = true;
		}
		else if(op == "get") {
			Reg * reg = live(num(c[1]));
			if(reg == nullptr) { std::printf("reject\n"); return; }
			DoGet g { reg->data(), num(c[2]), 0 };
			dispatch(reg->kind, reg->size, g);
			std::printf("get %ld\n", g.result);
		}
		else if(op == "istype") {
			// istype r kind size
			Reg * reg = live(num(c[1]));
			if(reg == nullptr) { std::printf("reject\n"); return; }
			DoIsType it { reg->data(), false };
			dispatch((int)num(c[2]), (std::size_t)num(c[3]), it);
			std::printf("istype %d\n", (int)it.result);
		}
		else if(op == "addr") {
			Reg * reg = live(num(c[1]));
			if(reg == nullptr) { std::printf("reject\n"); return; }
			DoAddr a { reg->data(), reg->addr0, false };
			dispatch(reg->kind, reg->size, a);
			std::printf("addr %d\n", (int)a.result);
		}
		else if(op == "where") {
			Reg * reg = live(num(c[1]));
			if(reg == nullptr) { std::printf("reject\n"); return; }
			std::printf("where %d\n", (int)isWithin(reg->data(), reg->data().getAddress()));
		}
		else if(op == "destroy") {
			auto it = regs.find(num(c[1]));
			if(it == regs.end()) { std::printf("reject\n"); return; }
			regs.erase(it);
		}
		else if(op == "enqueue") {
			Reg * reg = live(num(c[1]));
			if(reg == nullptr) { std::printf("reject\n"); return; }
			queue->enqueue(1, std::move(reg->data()));
			reg->moved = true;
			expect.emplace_back(reg->kind, reg->size);
		}
		else if(op == "qmake") {
			// qmake kind size val mode
			DoQMake m { *queue, num(c[3]), c[4] };
			dispatch((int)num(c[1]), (std::size_t)num(c[2]), m);
			expect.emplace_back((int)num(c[1]), (std::size_t)num(c[2]));
		}
		else if(op == "process") {
			queue->process();
		}
		else if(op == "take") {
			// EventQueue::takeEvent / peekEvent need a default-constructible, assignable QueuedEvent,
			// which AnyData is not (by design): the front slot is moved out the way takeEvent would
			// do it with a move CONSTRUCTION, the slot is cleared and recycled.
			if(! absent(num(c[1])) || queue->queueList.empty()) { std::printf("reject\n"); return; }
			const auto e = expect.front();
			expect.pop_front();
			Reg & dst = fresh(num(c[1]), e.first, e.second);
			auto & slot = queue->queueList.front();
			dst.p = new (dst.storage) Data(std::move(std::get<0>(slot.get().arguments)));
			slot.clear();
			queue->freeList.splice(queue->freeList.end(), queue->queueList, queue->queueList.begin());
			dst.addr0 = dst.p->getAddress();
		}
		else if(op == "ledger") {
			for(const auto & kv : regs) if(kv.second->moved) { std::printf("reject\n"); return; }
			std::printf("ledger %zu\n", g_live.size());
		}
		else if(op == "msz") {
			// msz k s1 s2 ... : the sizes must be those of the k-th compiled list
			if(c.size() < 3) { std::printf("reject\n"); return; }
			std::vector<std::size_t> want;
			for(std::size_t i = 2; i < c.size(); ++i) want.push_back((std::size_t)num(c[i]));
			std::vector<std::size_t> have;
			const std::size_t r = msz(MszLists(), num(c[1]), have);
			if(have != want) harnessError("msz list " + c[1] + " does not have these sizes");
			std::printf("msz %zu\n", r);
		}
		else harnessError("unknown op " + op);
	}

	template <typename ...Ts>
	static std::size_t mszOne(TypeList<Ts...>, std::vector<std::size_t> & sizes) {
		sizes = { sizeof(Ts)... };
		return eventpp::maxSizeOf<Ts...>();
	}
	static std::size_t msz(TypeList<>, long, std::vector<std::size_t> &) { harnessError("msz list index"); }
	template <typename L, typename ...Ls>
	static std::size_t msz(TypeList<L, Ls...>, long k, std::vector<std::size_t> & sizes) {
		if(k == 0) return mszOne(L(), sizes);
		return msz(TypeList<Ls...>(), k - 1, sizes);
	}

	void finish()
	{
		regs.clear();
		queue.reset();
		expect.clear();
		std::printf("ledger %zu\n", g_live.size());
	}
};

template <typename ...Ts>
void printTypes(TypeList<Ts...>)
{
	const int kinds[] = { Info<Ts>::kind... };
	const std::size_t sizes[] = { Info<Ts>::size... };
	std::printf("types");
	for(std::size_t i = 0; i < sizeof...(Ts); ++i) std::printf(" %d:%zu", kinds[i], sizes[i]);
	std::printf("\n");
}

template <typename ...Ts>
void printSizes(TypeList<Ts...>)
{
	const std::size_t sizes[] = { sizeof(Ts)... };
	for(std::size_t i = 0; i < sizeof...(Ts); ++i) std::printf(" %zu", sizes[i]);
}

void printMsz(TypeList<>, int) {}
template <typename L, typename ...Ls>
void printMsz(TypeList<L, Ls...>, int k)
{
	std::printf("msz %d", k);
	printSizes(L());
	std::printf("\n");
	printMsz(TypeList<Ls...>(), k + 1);
}

} // namespace

int main(int argc, char ** argv)
{
	if(argc > 1 && std::string(argv[1]) == "--meta") {
		std::printf("cap %d\nlarge %zu\neff %zu\nmaxsize %zu\nsizeof %zu\n", (int)VH_CAP, LS, E, (std::size_t)Data::maxSize, sizeof(Data));
		printTypes(Types());
		printMsz(MszLists(), 0);
		return 0;
	}
	std::string line;
	std::unique_ptr<Case> cs;
	while(std::getline(std::cin, line)) {
		auto ws = vh::words(line);
		if(ws.empty() || ws[0] == "#") continue;
		if(ws[0] == "case") {
			g_live.clear();
			cs.reset(new Case());
			std::printf("case %s\n", ws[1].c_str());
			std::fflush(stdout);
		}
		else if(ws[0] == "cap") {
			if(vh::num(ws[1]) != VH_CAP) harnessError("case for capacity " + ws[1] + " given to the harness built for " + std::to_string(VH_CAP));
		}
		else if(ws[0] == "large") {
			if((std::size_t)vh::num(ws[1]) != LS) harnessError("sizeof(LargeData) is " + std::to_string(LS));
		}
		else if(ws[0] == "prog") {
			for(const auto & c : vh::splitCmds(ws, 2)) { cs->step(c); std::fflush(stdout); }
		}
		else if(ws[0] == "end") {
			cs->finish();
			cs.reset();
			std::printf("end\n");
			std::fflush(stdout);
		}
	}
	return 0;
}
