// filter.cpp — interpreter for filter case files, driving the REAL eventpp with MixinFilter /
// MixinHeterFilter, a canContinueInvoking policy, conditionalFunctor and argumentAdapter, built
// from the repository's working tree.  Prints the same trace lines as
// `ocaml/_build/driver_filter <mech|heter|spec> <ref|val> <mix2> <cci>` prints from coq/FilterModel.v.
//
//   -DVF_PROTO=0  prototype void(int &)   listeners may rewrite the argument
//   -DVF_PROTO=1  prototype void(int)     listeners get a copy
//   -DVF_MIX2=1   Mixins = MixinList<MixinFilter, MixinLog>  (a second mixin that logs and answers a % 5 != 0)
//   -DVF_HETER=1  HeterEventDispatcher<int, HeterTuple<void(int &), void(int &, int)>> with MixinHeterFilter
//                 (no queue: MixinHeterFilter does not compile over HeterEventQueue; no canContinueInvoking:
//                 the heterogeneous lists do not take the policy, see doc/policies.md "Apply")
#include "common.h"
#include "eventpp/mixins/mixinfilter.h"
#include "eventpp/mixins/mixinheterfilter.h"
#include "eventpp/hetereventdispatcher.h"
#include "eventpp/utilities/conditionalfunctor.h"
#include "eventpp/utilities/argumentadapter.h"

#ifndef VF_PROTO
#define VF_PROTO 0
#endif
#ifndef VF_MIX2
#define VF_MIX2 0
#endif
#ifndef VF_HETER
#define VF_HETER 0
#endif

namespace {

#if VF_PROTO == 0 || VF_HETER
using Arg = int &;
#else
using Arg = int;
#endif

struct Behaviour
{
	std::vector<vh::Cmd> body;
	bool verdict;
	bool rewrites;
	int value;
};

struct Runner
{
	virtual ~Runner() {}
	virtual void exec(const std::vector<vh::Cmd> & cmds) = 0;
};

Runner * g_runner = nullptr;
std::map<std::pair<int, int>, Behaviour> g_behav;
std::map<int, int> g_acts;
int g_nexth = 0;

const Behaviour * activation(const int c)
{
	const int n = ++g_acts[c];
	auto it = g_behav.find(std::make_pair(c, n));
	return it == g_behav.end() ? nullptr : &it->second;
}

// a second mixin, after the filter mixin in the list
template <typename Base>
struct MixinLog : public Base
{
	bool mixinBeforeDispatch(int & a) const {
		const bool r = (a % 5 != 0);
		std::printf("mixin %d %d\n", a, (int)r);
		return r;
	}
};

struct Policies
{
#if VF_HETER
	using Mixins = eventpp::MixinList<eventpp::MixinHeterFilter>;
#elif VF_MIX2
	using Mixins = eventpp::MixinList<eventpp::MixinFilter, MixinLog>;
#else
	using Mixins = eventpp::MixinList<eventpp::MixinFilter>;
#endif
	static bool canContinueInvoking(const int & a) {
		const bool r = (a % 7 != 0);
		std::printf("cci %d %d\n", a, (int)r);
		return r;
	}
};

struct FilterCb
{
	int id, c;
	bool operator() (int & a) const {
		const int myId = id, myC = c;
		std::printf("filter %d %d %d\n", myId, myC, a);
		const Behaviour * b = activation(myC);
		bool verdict = true;
		if(b != nullptr) {
			const Behaviour copy = *b;
			g_runner->exec(copy.body);
			if(copy.rewrites) a = copy.value;
			verdict = copy.verdict;
		}
		std::printf("verdict %d %d %d\n", myId, (int)verdict, a);
		return verdict;
	}
};

struct ListenerCb
{
	int id, c, k;
	void operator() (Arg a) const {
		const int myId = id, myC = c, myK = k;
		std::printf("call %d %d %d %d\n", myId, myC, myK, a);
		const Behaviour * b = activation(myC);
		if(b != nullptr) {
			const Behaviour copy = *b;
			g_runner->exec(copy.body);
			if(copy.rewrites) a = copy.value;   // by value: the listener's own copy
		}
	}
};

#if VF_HETER
using D = eventpp::HeterEventDispatcher<int, eventpp::HeterTuple<void (int &), void (int &, int)>, Policies>;
#else
using D = eventpp::EventQueue<int, void (Arg), Policies>;
#endif

struct RunnerT : Runner
{
	std::unique_ptr<D> q;
	std::map<int, typename D::Handle> regs;
	std::map<int, typename D::FilterHandle> fregs;

	RunnerT() : q(new D()) {}

	void exec(const std::vector<vh::Cmd> & cmds) override { for(const auto & c : cmds) step(c); }

	void step(const vh::Cmd & c)
	{
		using vh::num;
		const std::string & op = c[0];
		if(op == "addfilter") { const int id = g_nexth++; fregs[num(c[2])] = q->appendFilter(FilterCb{id, (int)num(c[1])}); }
		else if(op == "removefilter") { std::printf("ret %d\n", (int)q->removeFilter(fregs[num(c[1])])); }
		else if(op == "append") { const int id = g_nexth++; regs[num(c[3])] = q->appendListener((int)num(c[1]), ListenerCb{id, (int)num(c[2]), (int)num(c[1])}); }
		else if(op == "prepend") { const int id = g_nexth++; regs[num(c[3])] = q->prependListener((int)num(c[1]), ListenerCb{id, (int)num(c[2]), (int)num(c[1])}); }
		else if(op == "remove") { std::printf("ret %d\n", (int)q->removeListener((int)num(c[1]), regs[num(c[2])])); }
		else if(op == "dispatch") {
#if VF_PROTO == 0 || VF_HETER
			int cell = (int)num(c[2]);
			q->dispatch((int)num(c[1]), cell);
#else
			q->dispatch((int)num(c[1]), (int)num(c[2]));
#endif
		}
#if ! VF_HETER
		else if(op == "enqueue") { q->enqueue((int)num(c[1]), (int)num(c[2])); }
		else if(op == "process") { std::printf("ret %d\n", (int)q->process()); }
		else if(op == "processone") { std::printf("ret %d\n", (int)q->processOne()); }
#endif
		else { std::printf("harness-error unknown op %s\n", op.c_str()); std::fflush(stdout); std::abort(); }
	}
};

// ---- the two wrappers

class Base
{
public:
	virtual ~Base() {}
	virtual int getValue() const { return -1; }
};

class Derived : public Base
{
public:
	explicit Derived(const int value) : Base(), value(value) {}
	int getValue() const override { return -2; }
	int derivedOnly() const { return value; }
private:
	int value;
};

void showDerived(Derived & obj, int n) { std::printf("adbrun %d %d\n", obj.derivedOnly(), n); }

void runConditional(const int m, const int r, const std::vector<std::string> & ws, size_t from)
{
	// the wrapped listener is registered on a real dispatcher; the condition sees the dispatched argument
	eventpp::EventDispatcher<int, void (int)> d;
	bool ran = false;
	d.appendListener(0, eventpp::conditionalFunctor(
		[&ran](const int a) { ran = true; std::printf("cfrun %d\n", a); },
		[m, r](const int a) { return a % m == r; }
	));
	for(size_t i = from; i < ws.size(); ++i) {
		ran = false;
		d.dispatch(0, (int)vh::num(ws[i]));
		if(! ran) std::printf("cfskip\n");
	}
}

void runAdapterChar(const std::vector<std::string> & ws, size_t from)
{
	eventpp::CallbackList<void (int, long)> list;
	list.append(eventpp::argumentAdapter<void (unsigned char, unsigned char)>(
		[](unsigned char x, unsigned char y) { std::printf("adrun %d %d\n", (int)x, (int)y); }
	));
	for(size_t i = from; i + 1 < ws.size(); i += 2) list((int)vh::num(ws[i]), vh::num(ws[i + 1]));
}

void runAdapterBase(const std::vector<std::string> & ws, size_t from)
{
	eventpp::EventDispatcher<int, void (Base &, int)> d;
	d.appendListener(0, eventpp::argumentAdapter(std::function<void (Derived &, int)>(&showDerived)));
	for(size_t i = from; i + 1 < ws.size(); i += 2) {
		Derived obj((int)vh::num(ws[i]));
		d.dispatch(0, obj, (int)vh::num(ws[i + 1]));
	}
}

// prototype void(std::string &, int): a movable class passed by non-const lvalue reference, adapted to two
// listeners that take it BY VALUE; each listener and the caller afterwards must see the dispatched value
std::string adsEncode(long v) { return "value-" + std::to_string(v) + "-padding-beyond-the-small-string-optimisation"; }
long adsDecode(const std::string & s) { return s.size() > 6 ? std::atol(s.c_str() + 6) : -1; }
void runAdapterString(const std::vector<std::string> & ws, size_t from)
{
	eventpp::CallbackList<void (std::string &, int)> list;
	list.append(eventpp::argumentAdapter<void (std::string, int)>(
		[](std::string s, int n) { std::printf("adsrun 1 %ld %d\n", adsDecode(s), n); }));
	list.append(eventpp::argumentAdapter<void (std::string, int)>(
		[](std::string s, int n) { std::printf("adsrun 2 %ld %d\n", adsDecode(s), n); }));
	for(size_t i = from; i + 1 < ws.size(); i += 2) {
		std::string s = adsEncode(vh::num(ws[i]));
		list(s, (int)vh::num(ws[i + 1]));
		std::printf("adsafter %ld\n", adsDecode(s));
	}
}

} // namespace

int main()
{
	std::string line;
	std::unique_ptr<Runner> runner;
	while(std::getline(std::cin, line)) {
		auto ws = vh::words(line);
		if(ws.empty() || ws[0] == "#") continue;
		if(ws[0] == "case") {
			runner.reset(); g_runner = nullptr; g_behav.clear(); g_acts.clear(); g_nexth = 0;
			std::printf("case %s\n", ws[1].c_str()); std::fflush(stdout);
		}
		else if(ws[0] == "fuel") {}
		else if(ws[0] == "cb") {
			Behaviour b;
			b.verdict = (ws[3] == "1");
			b.rewrites = (ws[4] != "-");
			b.value = b.rewrites ? (int)vh::num(ws[4]) : 0;
			b.body = vh::splitCmds(ws, 6);
			g_behav[std::make_pair((int)vh::num(ws[1]), (int)vh::num(ws[2]))] = b;
		}
		else if(ws[0] == "main") {
			runner.reset(new RunnerT());
			g_runner = runner.get();
			runner->exec(vh::splitCmds(ws, 2));
		}
		else if(ws[0] == "cf") { runConditional((int)vh::num(ws[1]), (int)vh::num(ws[2]), ws, 4); }
		else if(ws[0] == "adc") { runAdapterChar(ws, 2); }
		else if(ws[0] == "adb") { runAdapterBase(ws, 2); }
		else if(ws[0] == "ads") { runAdapterString(ws, 2); }
		else if(ws[0] == "end") {
			runner.reset(); g_runner = nullptr;
			std::printf("end\n"); std::fflush(stdout);
		}
	}
	return 0;
}
