// anyid.cpp — interpreter for AnyId case files (property C18), driving the REAL eventpp::AnyId,
// its operator==, operator<, std::hash specialisation (include/eventpp/utilities/anyid.h) and
// eventpp::EventDispatcher keyed by AnyId with the default map selection, with std::map and with
// std::unordered_map (internal/eventpolicies_i.h SelectMap).  Prints the same trace lines as
// `ocaml/_build/driver_anyid anyid` prints from the Coq model (coq/AnyIdModel.v).
//
// Case format (see ocaml/driver_anyid.ml):
//   case <id> / storage val|empty / ids : <tag> <n> ; ... / listen : i ... / dispatch : i ... / end
// Source values: tag 0 int n, tag 1 std::string (n as 6 decimal digits), tag 2 long n,
// tag 3 Name{the same string}.  The test Digester Dig3 has a 3-bit range and is the function
// digest3 of coq/AnyIdModel.v; the test Storage Val keeps (kind, content) with kind 0 for int/long
// and kind 1 for std::string/Name, and supports == and < (kind first, then content).
//   -DVH_WIDE=1  the test digester spreads its eight values over the whole range of unsigned int (digest3 * 0x24924924),
//   -DVH_WIDE=3  the digest is a 128-bit pair whose conversion to std::size_t is lossy (see DigT below); the `hh` lines (which
//                hashes are equal) then differ from the model's, whose hash is the identity, and are left out of the comparison
//   -DVH_WIDE=2  over the whole range of std::size_t: the order of the digests is the same (the scaling is monotone and
//                does not overflow) and the trace prints the unscaled value, so the model's trace is unchanged — but two
//                digests may now be further apart than half the range of their type
#include "common.h"
#include "eventpp/utilities/anyid.h"

#ifndef VH_WIDE
#define VH_WIDE 0
#endif

namespace {

struct Name
{
	std::string text;
};

std::string encode(long n)
{
	char buf[32];
	std::snprintf(buf, sizeof(buf), "%06ld", n);
	return buf;
}

// the 3-bit digest:  (n*5 + n/8 + salt(tag, n)) mod 8   (n >= 0)
unsigned int digest3(int tag, long n)
{
	long salt = 0;
	if(tag == 0) salt = 0;
	else if(tag == 1) salt = 3;
	else if(tag == 2) salt = 2 * (n % 2);
	else salt = 3 + 4 * (n % 2);
	return (unsigned int)((n * 5 + n / 8 + salt) % 8);
}

#if VH_WIDE == 3
// a digest WIDER than std::size_t whose conversion to std::size_t (what MakeHash uses for std::hash<AnyId>) is lossy: the
// eight test digests d become (hi, lo) = (d / 2, d % 2), ordered and compared like d, hashed as hi ^ lo — so different
// digests (1 and 2, 5 and 6, …) have equal hashes.  Equality and order of ids must follow the DIGEST, never its hash.
struct DigT
{
	unsigned long long hi, lo;
	operator std::size_t () const { return (std::size_t)(hi ^ lo); }
};
inline bool operator == (const DigT & a, const DigT & b) { return a.hi == b.hi && a.lo == b.lo; }
inline bool operator < (const DigT & a, const DigT & b) { return a.hi < b.hi || (a.hi == b.hi && a.lo < b.lo); }
inline DigT makeDig(unsigned int d) { return DigT{d / 2, d % 2}; }
inline long shownDig(const DigT & d) { return (long)(d.hi * 2 + d.lo); }
#else
#if VH_WIDE == 1
using DigT = unsigned int;
constexpr DigT digScale = 0x24924924u;
#elif VH_WIDE == 2
using DigT = std::size_t;
constexpr DigT digScale = (DigT)0x2492492492492492ull;
#else
using DigT = unsigned int;
constexpr DigT digScale = 1;
#endif
static_assert((DigT)(7 * digScale) / 7 == digScale, "the scaled digests must not overflow");
inline DigT makeDig(unsigned int d) { return d * digScale; }
inline long shownDig(const DigT & d) { return (long)(d / digScale); }
#endif

template <typename T> struct Dig3;
template <> struct Dig3<int> { DigT operator() (int v) const { return makeDig(digest3(0, v)); } };
template <> struct Dig3<std::string> { DigT operator() (const std::string & v) const { return makeDig(digest3(1, std::stol(v))); } };
template <> struct Dig3<long> { DigT operator() (long v) const { return makeDig(digest3(2, v)); } };
template <> struct Dig3<Name> { DigT operator() (const Name & v) const { return makeDig(digest3(3, std::stol(v.text))); } };

// a variant-like value type over mixed source types, comparable with == and <
struct Val
{
	int kind;          // 0: integer alternative, 1: string alternative
	long number;
	std::string text;

	Val() : kind(-1), number(0), text() {}
	Val(const int & v) : kind(0), number(v), text() {}
	Val(const long & v) : kind(0), number(v), text() {}
	Val(const std::string & v) : kind(1), number(0), text(v) {}
	Val(const Name & v) : kind(1), number(0), text(v.text) {}
};

bool operator == (const Val & a, const Val & b)
{
	if(a.kind != b.kind) return false;
	return a.kind == 0 ? a.number == b.number : a.text == b.text;
}

bool operator < (const Val & a, const Val & b)
{
	if(a.kind != b.kind) return a.kind < b.kind;
	return a.kind == 0 ? a.number < b.number : a.text < b.text;
}

struct MapPolicies
{
	template <typename Key, typename T>
	using Map = std::map<Key, T>;
};

struct UnorderedMapPolicies
{
	template <typename Key, typename T>
	using Map = std::unordered_map<Key, T>;
};

struct Source
{
	int tag;
	long n;
};

template <typename Id>
Id makeId(const Source & s)
{
	switch(s.tag) {
	case 0: return Id((int)s.n);
	case 1: return Id(encode(s.n));
	case 2: return Id((long)s.n);
	default: return Id(Name{ encode(s.n) });
	}
}

template <typename Id, typename Policies>
void runDispatcher(const char * kind, const std::vector<Id> & ids, const std::vector<long> & listen, const std::vector<long> & dispatch)
{
	using Dispatcher = eventpp::EventDispatcher<Id, void (), Policies>;
	Dispatcher dispatcher;
	std::vector<int> ran;
	for(size_t p = 0; p < listen.size(); ++p) {
		const int number = (int)p + 1;
		dispatcher.appendListener(ids.at(listen[p]), [&ran, number]() { ran.push_back(number); });
	}
	for(long i : dispatch) {
		ran.clear();
		dispatcher.dispatch(ids.at(i));
		std::printf("run %s %ld :", kind, i);
		for(int r : ran) std::printf(" %d", r);
		std::printf("\n");
	}
}

void law(const char * name, bool ok, long i, long j, long k)
{
	if(ok) std::printf("law %s ok\n", name);
	else std::printf("law %s FAIL %ld %ld %ld\n", name, i, j, k);
}

template <typename Id>
void runCase(const char * storage, const std::vector<Source> & sources, const std::vector<long> & listen, const std::vector<long> & dispatch)
{
	std::vector<Id> ids;
	for(const Source & s : sources) ids.push_back(makeId<Id>(s));
	const long n = (long)ids.size();
	std::printf("storage %s\n", storage);
	std::printf("dig");
	for(const Id & x : ids) std::printf(" %ld", shownDig(x.getDigest()));
	std::printf("\n");

	std::vector<std::vector<char>> eq(n, std::vector<char>(n)), lt(n, std::vector<char>(n)), hh(n, std::vector<char>(n));
	for(long i = 0; i < n; ++i) for(long j = 0; j < n; ++j) {
		eq[i][j] = (ids[i] == ids[j]);
		lt[i][j] = (ids[i] < ids[j]);
		hh[i][j] = (std::hash<Id>()(ids[i]) == std::hash<Id>()(ids[j]));
	}
	auto rows = [n](const char * name, const std::vector<std::vector<char>> & m) {
		for(long i = 0; i < n; ++i) {
			std::printf("%s %ld : ", name, i);
			for(long j = 0; j < n; ++j) std::putchar(m[i][j] ? '1' : '0');
			std::printf("\n");
		}
	};
	rows("eq", eq);
	rows("lt", lt);
	rows("hh", hh);

	// the laws, evaluated on the results of the real operators; first counterexample reported
	struct Bad { bool ok = true; long i = 0, j = 0, k = 0; void hit(long a, long b, long c) { if(ok) { ok = false; i = a; j = b; k = c; } } };
	Bad eqRefl, eqSym, eqTrans, ltIrrefl, ltTrans, incompTrans, incompIsEq, hashCompat;
	auto incomp = [&lt](long a, long b) { return ! lt[a][b] && ! lt[b][a]; };
	for(long i = 0; i < n; ++i) {
		if(! eq[i][i]) eqRefl.hit(i, i, i);
		if(lt[i][i]) ltIrrefl.hit(i, i, i);
		for(long j = 0; j < n; ++j) {
			if(eq[i][j] && ! eq[j][i]) eqSym.hit(i, j, j);
			if(incomp(i, j) != (bool)eq[i][j]) incompIsEq.hit(i, j, j);
			if(eq[i][j] && ! hh[i][j]) hashCompat.hit(i, j, j);
			for(long k = 0; k < n; ++k) {
				if(eq[i][j] && eq[j][k] && ! eq[i][k]) eqTrans.hit(i, j, k);
				if(lt[i][j] && lt[j][k] && ! lt[i][k]) ltTrans.hit(i, j, k);
				if(incomp(i, j) && incomp(j, k) && ! incomp(i, k)) incompTrans.hit(i, j, k);
			}
		}
	}
	law("eq_refl", eqRefl.ok, eqRefl.i, eqRefl.j, eqRefl.k);
	law("eq_sym", eqSym.ok, eqSym.i, eqSym.j, eqSym.k);
	law("eq_trans", eqTrans.ok, eqTrans.i, eqTrans.j, eqTrans.k);
	law("lt_irrefl", ltIrrefl.ok, ltIrrefl.i, ltIrrefl.j, ltIrrefl.k);
	law("lt_trans", ltTrans.ok, ltTrans.i, ltTrans.j, ltTrans.k);
	law("incomp_trans", incompTrans.ok, incompTrans.i, incompTrans.j, incompTrans.k);
	law("incomp_is_eq", incompIsEq.ok, incompIsEq.i, incompIsEq.j, incompIsEq.k);
	law("hash_compat", hashCompat.ok, hashCompat.i, hashCompat.j, hashCompat.k);

	using DefaultDispatcher = eventpp::EventDispatcher<Id, void ()>;
	using DefaultMap = typename DefaultDispatcher::Map;
	using Mapped = typename DefaultMap::mapped_type;
	std::printf("defaultmap %s\n",
		std::is_same<DefaultMap, std::unordered_map<Id, Mapped>>::value ? "unordered"
		: (std::is_same<DefaultMap, std::map<Id, Mapped>>::value ? "ordered" : "other"));

	std::fflush(stdout);
	runDispatcher<Id, eventpp::DefaultPolicies>("default", ids, listen, dispatch);
	runDispatcher<Id, MapPolicies>("map", ids, listen, dispatch);
	runDispatcher<Id, UnorderedMapPolicies>("umap", ids, listen, dispatch);
}

using IdVal = eventpp::AnyId<Dig3, Val>;
using IdEmpty = eventpp::AnyId<Dig3, eventpp::EmptyAnyStorage>;

static_assert(std::is_same<IdVal::DigestType, DigT>::value, "digest type of the test digester");

std::vector<long> numbers(const std::vector<std::string> & ws, size_t from)
{
	std::vector<long> out;
	for(size_t i = from; i < ws.size(); ++i) out.push_back(vh::num(ws[i]));
	return out;
}

} // namespace

int main()
{
	std::string line;
	bool storing = true;
	std::vector<Source> sources;
	std::vector<long> listen, dispatch;
	while(std::getline(std::cin, line)) {
		auto ws = vh::words(line);
		if(ws.empty() || ws[0] == "#") continue;
		if(ws[0] == "case") {
			storing = true; sources.clear(); listen.clear(); dispatch.clear();
			std::printf("case %s\n", ws[1].c_str());
			std::fflush(stdout);
		}
		else if(ws[0] == "storage") { storing = (ws.at(1) == "val"); }
		else if(ws[0] == "ids") {
			for(const auto & c : vh::splitCmds(ws, 2)) sources.push_back(Source{ (int)vh::num(c.at(0)), vh::num(c.at(1)) });
		}
		else if(ws[0] == "listen") { listen = numbers(ws, 2); }
		else if(ws[0] == "dispatch") { dispatch = numbers(ws, 2); }
		else if(ws[0] == "end") {
			bool ok = true;
			for(long i : listen) if(i < 0 || i >= (long)sources.size()) ok = false;
			for(long i : dispatch) if(i < 0 || i >= (long)sources.size()) ok = false;
			for(const Source & s : sources) if(s.n < 0 || s.tag < 0 || s.tag > 3) ok = false;
			if(! ok) std::printf("error\n");
			else if(storing) runCase<IdVal>("val", sources, listen, dispatch);
			else runCase<IdEmpty>("empty", sources, listen, dispatch);
			std::printf("end\n");
			std::fflush(stdout);
		}
	}
	return 0;
}
