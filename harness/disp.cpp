// disp.cpp — runs callback-list case files (the `cl` domain: coq/CLModel.v) against the REAL
// eventpp::EventDispatcher: list slot L of the case is event key keyOf(L); `invoke L a` is
// dispatch(keyOf(L), a); per event every listener operation must behave exactly like the
// callback-list operation the model describes (C04), listeners of other events untouched.
//
//   -DVH_KEY=0 int  1 std::string (long, beyond SSO)  2 enum class  3 user type with operator< only
//            4 user type with std::hash and ==
//   -DVH_ARGMODE=0 prototype void(Arg)            dispatch(key, Arg(a))            (event excluded)
//               =1 prototype void(Key, Arg)       ArgumentPassingIncludeEvent, dispatch(Key(key), Arg(a))
//               =2 prototype void(const Key &, const Arg &) ArgumentPassingIncludeEvent
//   -DVH_GETEVENT=1 (with VH_ARGMODE=1) the policy's getEvent returns a std::reference_wrapper to the key
//               ARGUMENT instead of a copy: the dispatcher must copy the key before it forwards the arguments
//   -DVH_GETEVENT=2 (with VH_ARGMODE=0) the policy's getEvent takes the listener argument by value
//   -DVH_GETEVENT=3 (with VH_KEY=0) the policy's getEvent returns a type that only CONVERTS to the key (long for int) and
//               maps the first argument k to the event k + 1000: listeners live at regKey = keyOf + 1000, dispatch is called
//               with keyOf; a dispatcher that ignores such a policy routes by the raw first argument and finds nobody
//   -DVH_POLICY=0 default  1 SingleThreading  2 SpinLock
//   -DVH_MAP=0 default map selection  1 force std::map  2 force std::unordered_map  3 a flat (sorted vector) user map
//   -DVH_FILL=<byte> the dispatcher's storage is pre-filled with that byte before construction
#include "common.h"
#include <cstring>
#include <new>
#include "eventpp/utilities/eventutil.h"

#ifndef VH_KEY
#define VH_KEY 0
#endif
#ifndef VH_ARGMODE
#define VH_ARGMODE 0
#endif
#ifndef VH_POLICY
#define VH_POLICY 0
#endif
#ifndef VH_MAP
#define VH_MAP 0
#endif
#ifndef VH_FILL
#define VH_FILL 0xAB
#endif

namespace {

#if defined(VH_MAP) && VH_MAP == 3
template <typename K, typename V>
struct FlatMap
{
	using value_type = std::pair<K, V>;
	using Store = std::vector<value_type>;
	using iterator = typename Store::iterator;
	using const_iterator = typename Store::const_iterator;
	Store items;
	iterator lower(const K & k) { return std::lower_bound(items.begin(), items.end(), k, [](const value_type & a, const K & b) { return a.first < b; }); }
	const_iterator lower(const K & k) const { return std::lower_bound(items.begin(), items.end(), k, [](const value_type & a, const K & b) { return a.first < b; }); }
	V & operator [] (const K & k) {
		iterator it = lower(k);
		if(it == items.end() || k < it->first) it = items.insert(it, value_type(k, V()));
		return it->second;
	}
	iterator find(const K & k) { iterator it = lower(k); return (it != items.end() && ! (k < it->first)) ? it : items.end(); }
	const_iterator find(const K & k) const { const_iterator it = lower(k); return (it != items.end() && ! (k < it->first)) ? it : items.end(); }
	iterator begin() { return items.begin(); }
	iterator end() { return items.end(); }
	const_iterator begin() const { return items.begin(); }
	const_iterator end() const { return items.end(); }
};
#endif

// ---- key types ----------------------------------------------------------------------------
#if VH_KEY == 0
using Key = int;
Key keyOf(long l) { return (int)(l * 7 + 3); }
#elif VH_KEY == 1
using Key = std::string;
Key keyOf(long l) { return "event-key-" + std::to_string((l * 37 + 11) % 101) + "-padding-beyond-small-string-optimisation-" + std::to_string(l); }
#elif VH_KEY == 2
enum class Key { a = 3, b = 1, c = 7, d = 2, e = 9, f = 0 };
Key keyOf(long l) { static const Key ks[] = { Key::a, Key::b, Key::c, Key::d, Key::e, Key::f }; return ks[l % 6]; }
#elif VH_KEY == 3
struct Key { int v; std::string s; };
bool operator < (const Key & a, const Key & b) { return a.v < b.v; }
Key keyOf(long l) { return Key{ (int)((l * 5 + 2) % 17), "k" + std::to_string(l) }; }
bool keyEq(const Key & a, const Key & b) { return a.v == b.v; }
#else
struct Key { int v; std::string s; bool operator == (const Key & o) const { return v == o.v; } };
Key keyOf(long l) { return Key{ (int)((l * 5 + 2) % 17), "k" + std::to_string(l) + "-padding-padding-padding-padding" }; }
#endif

#if VH_KEY != 3
bool keyEq(const Key & a, const Key & b) { return a == b; }
#endif

} // namespace

#if VH_KEY == 4
namespace std { template <> struct hash<Key> { size_t operator()(const Key & k) const noexcept { return (size_t)(k.v % 2); } }; }
#endif

namespace {

// ---- the dispatched argument: notices when it is handed over moved-from ---------------------
struct Arg
{
	int v;
	std::string pad;
	explicit Arg(int v) : v(v), pad("argument-padding-beyond-small-string-optimisation") {}
	Arg(const Arg &) = default;
	Arg(Arg && o) noexcept : v(o.v), pad(std::move(o.pad)) { o.v = -777; }
	Arg & operator = (const Arg &) = default;
	bool intact() const { return ! pad.empty(); }
};

struct Case;
Case * g_case = nullptr;

struct Cb
{
	int id;
	long list;      // the list slot it was registered for
#if VH_ARGMODE == 0
	void operator() (const Arg & a) const { run(a, nullptr); }
#else
	void operator() (const Key & k, const Arg & a) const { run(a, &k); }
#endif
	void run(const Arg & a, const Key * k) const;
	bool operator == (const Cb & o) const { return id == o.id; }
};

struct Policies
{
#if VH_POLICY == 1
	using Threading = eventpp::SingleThreading;
#elif VH_POLICY == 2
	using Threading = eventpp::GeneralThreading<eventpp::SpinLock>;
#endif
	using Callback = Cb;
#if defined(VH_GETEVENT) && VH_GETEVENT == 1
	static std::reference_wrapper<const Key> getEvent(const Key & k, const Arg &) { return std::cref(k); }
#elif defined(VH_GETEVENT) && VH_GETEVENT == 2
	// takes the trailing argument BY VALUE: if the dispatcher hands getEvent its parameters as rvalues,
	// this move-constructs `a` from the argument the listeners are to receive afterwards
	static Key getEvent(const Key & k, Arg a) { (void)a; return k; }
#elif defined(VH_GETEVENT) && VH_GETEVENT == 3
	static long getEvent(const Key & k, const Arg &) { return (long)k + 1000; }
#endif
#if VH_ARGMODE != 0
	using ArgumentPassingMode = eventpp::ArgumentPassingIncludeEvent;
#else
	using ArgumentPassingMode = eventpp::ArgumentPassingExcludeEvent;
#endif
#if VH_MAP == 1
	template <typename K, typename V> using Map = std::map<K, V>;
#elif VH_MAP == 2
	template <typename K, typename V> using Map = std::unordered_map<K, V>;
#elif VH_MAP == 3
	// a user-supplied Map as doc/policies.md allows it ([], find, end): a sorted vector, whose values MOVE when an entry is
	// inserted in front of them — a dispatcher must not keep the address of a list across an insertion
	template <typename K, typename V> using Map = FlatMap<K, V>;
#endif
};

#if VH_ARGMODE == 0
using Proto = void (Arg);
#elif VH_ARGMODE == 1
using Proto = void (Key, Arg);
#else
using Proto = void (const Key &, const Arg &);
#endif

using D = eventpp::EventDispatcher<Key, Proto, Policies>;

// the key under which the listeners of list slot l are registered
#if defined(VH_GETEVENT) && VH_GETEVENT == 3
Key regKey(long l) { return keyOf(l) + 1000; }
#else
Key regKey(long l) { return keyOf(l); }
#endif

struct Case
{
	std::map<std::pair<int, int>, std::vector<vh::Cmd>> behav;
	std::map<int, int> acts;
	std::map<int, D::Handle> regs;
	// the dispatcher lives in storage that held VH_FILL bytes before its construction (C20: no result depends on what the
	// object's memory held before)
	alignas(D) unsigned char storage[sizeof(D)];
	D & d;
	Case() : d(*(std::memset(storage, VH_FILL, sizeof(storage)), new (storage) D())) {}
	~Case() { d.~D(); }
	Case(const Case &) = delete;
	Case & operator = (const Case &) = delete;

	void exec(const std::vector<vh::Cmd> & cmds) { for(const auto & c : cmds) step(c); }

	void step(const vh::Cmd & c)
	{
		using vh::num;
		const std::string & op = c[0];
		const long l = (c.size() > 1) ? num(c[1]) : 0;
		if(op == "append") { regs[num(c[3])] = d.appendListener(regKey(l), Cb{(int)num(c[2]), l}); }
		else if(op == "prepend") { regs[num(c[3])] = d.prependListener(regKey(l), Cb{(int)num(c[2]), l}); }
		else if(op == "insert") { D::Handle before = regs[num(c[3])]; regs[num(c[4])] = d.insertListener(regKey(l), Cb{(int)num(c[2]), l}, before); }
		else if(op == "remove") { std::printf("ret %d\n", (int)d.removeListener(regKey(l), regs[num(c[2])])); }
		else if(op == "owns") { std::printf("ret %d\n", (int)d.ownsHandle(regKey(l), regs[num(c[2])])); }
		else if(op == "empty") { std::printf("ret %d\n", (int)! d.hasAnyListener(regKey(l))); }
		else if(op == "invoke") {
#if VH_ARGMODE == 0
			d.dispatch(keyOf(l), Arg((int)num(c[2])));
#else
			d.dispatch(Key(keyOf(l)), Arg((int)num(c[2])));      // temporaries: the key is an rvalue
#endif
		}
		else if(op == "foreach") {
			d.forEach(regKey(l), [](const D::Handle &, const D::Callback & cb) { std::printf("visit %d\n", cb.id); });
		}
		else if(op == "foreachif") {
			long k = num(c[2]); long seen = 0;
			bool r = d.forEachIf(regKey(l), [&](const D::Callback & cb) -> bool { std::printf("visit %d\n", cb.id); ++seen; return seen < k; });
			std::printf("ret %d\n", (int)r);
		}
		else if(op == "has") { std::printf("ret %d\n", (int)eventpp::hasListener(d, regKey(l), Cb{(int)num(c[2]), l})); }
		else if(op == "removel") { std::printf("ret %d\n", (int)eventpp::removeListener(d, regKey(l), Cb{(int)num(c[2]), l})); }
		else if(op == "hasany") { std::printf("ret %d\n", (int)eventpp::hasAnyListener(d, regKey(l))); }
		else { std::printf("harness-error unsupported op %s\n", op.c_str()); std::fflush(stdout); std::abort(); }
	}
};

void Cb::run(const Arg & a, const Key * k) const
{
	const int me = id;
	const long mylist = list;
	const char * bad = "";
	if(! a.intact()) bad = " ARG-MOVED-FROM";
	if(k != nullptr && ! keyEq(*k, keyOf(mylist))) bad = " WRONG-KEY-RECEIVED";
	std::printf("call %d %d%s\n", me, a.v, bad);
	const int n = ++g_case->acts[me];
	auto it = g_case->behav.find(std::make_pair(me, n));
	if(it != g_case->behav.end()) {
		const std::vector<vh::Cmd> body = it->second;
		g_case->exec(body);
	}
}

} // namespace

int main()
{
	std::string line;
	std::unique_ptr<Case> cs;
	while(std::getline(std::cin, line)) {
		auto ws = vh::words(line);
		if(ws.empty() || ws[0] == "#") continue;
		if(ws[0] == "case") {
			cs.reset(new Case());
			g_case = cs.get();
			std::printf("case %s\n", ws[1].c_str());
			std::fflush(stdout);
		}
		else if(ws[0] == "nl" || ws[0] == "fuel") {}
		else if(ws[0] == "cb") { cs->behav[std::make_pair((int)vh::num(ws[1]), (int)vh::num(ws[2]))] = vh::splitCmds(ws, 4); }
		else if(ws[0] == "main") { cs->exec(vh::splitCmds(ws, 2)); }
		else if(ws[0] == "end") {
			cs->regs.clear();
			cs.reset();
			g_case = nullptr;
			std::printf("end\n");
			std::fflush(stdout);
		}
	}
	return 0;
}
