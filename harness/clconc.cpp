// clconc.cpp — thread-level correspondence for eventpp::CallbackList (C03): the REAL list is
// instantiated with the scheduler's Mutex / Atomic (vsched.h); the case's threads run their calls
// under the case's schedule; every visible action on the list's mutex and on currentCounter is
// logged, with every callback call / visit and every result.  Same lines as driver_clconc.
#include "common.h"
#include "vsched.h"

namespace {

struct Cb
{
	int id;
	void operator() (int a) const { std::printf("call t%d %d %d\n", vsched::Scheduler::get().self(), id, a); }
	bool operator == (const Cb & o) const { return id == o.id; }
};

struct Policies { using Threading = vsched::VThreading; using Callback = Cb; };
using CL = eventpp::CallbackList<void (int), Policies>;

struct Runner
{
	CL list;
	std::map<int, CL::Handle> regs;
	std::vector<std::vector<vh::Cmd>> progs;

	void body(int me)
	{
		using vh::num;
		for(const auto & c : progs[me]) {
			const std::string & op = c[0];
			if(op == "append") { auto h = list.append(Cb{(int)num(c[1])}); regs[(int)num(c[2])] = h; std::printf("done t%d\n", me); }
			else if(op == "prepend") { auto h = list.prepend(Cb{(int)num(c[1])}); regs[(int)num(c[2])] = h; std::printf("done t%d\n", me); }
			else if(op == "insert") { CL::Handle before = regs[(int)num(c[2])]; auto h = list.insert(Cb{(int)num(c[1])}, before); regs[(int)num(c[3])] = h; std::printf("done t%d\n", me); }
			else if(op == "remove") { const bool r = list.remove(regs[(int)num(c[1])]); std::printf("res t%d %d\n", me, (int)r); }
			else if(op == "owns") { const bool r = list.ownsHandle(regs[(int)num(c[1])]); std::printf("res t%d %d\n", me, (int)r); }
			else if(op == "empty") { const bool r = list.empty(); std::printf("res t%d %d\n", me, (int)r); }
			else if(op == "invoke") { list((int)num(c[1])); std::printf("done t%d\n", me); }
			else if(op == "foreach") { list.forEach([me](const Cb & cb) { std::printf("visit t%d %d\n", me, cb.id); }); std::printf("done t%d\n", me); }
			else { std::printf("harness-error unknown op %s\n", op.c_str()); std::fflush(stdout); std::abort(); }
		}
	}
};

} // namespace

int main()
{
	std::string line;
	std::unique_ptr<Runner> r;
	while(std::getline(std::cin, line)) {
		auto ws = vh::words(line);
		if(ws.empty() || ws[0] == "#") continue;
		if(ws[0] == "case") { r.reset(new Runner()); std::printf("case %s\n", ws[1].c_str()); std::fflush(stdout); }
		else if(ws[0] == "thread") { r->progs.push_back(vh::splitCmds(ws, 3)); }
		else if(ws[0] == "schedule") {
			std::vector<int> sched;
			for(size_t i = 2; i < ws.size(); ++i) sched.push_back((int)vh::num(ws[i]));
			vsched::Scheduler & s = vsched::Scheduler::get();
			s.reset(sched);
			s.registerObject(&r->list.mutex, "m");
			s.registerObject(&r->list.currentCounter, "cc");
			s.onDeadlock = []() { std::printf("DEADLOCK\n"); };
			std::vector<std::function<void ()>> bodies;
			Runner * rp = r.get();
			for(size_t i = 0; i < r->progs.size(); ++i) bodies.push_back([rp, i]() { rp->body((int)i); });
			s.run(bodies);
			std::printf("final");
			r->list.forEach([](const Cb & cb) { std::printf(" %d", cb.id); });
			std::printf("\n");
		}
		else if(ws[0] == "end") { r.reset(); std::printf("end\n"); std::fflush(stdout); }
	}
	return 0;
}
