(* CLSec.v — the critical sections of CallbackList's adding / removing / querying calls, as functions on the
   pointer-level group of CLModel.  These are the very functions the thread-level machine (CLConc.v) executes under the
   list's mutex and the functions CLConcProofs.v / CLTrav.v / CLCycle.v reason about.  Definitions only. *)
From Coq Require Import List Arith NArith Bool.
From EV Require Import CLModel.
From EV.gen Require GenCL.
Import ListNotations.
Local Open Scope nat_scope.

Inductive sec :=
| SBack (c : nat) (k : N)                       (* append's section *)
| SFront (c : nat) (k : N)                      (* prepend's section *)
| SBefore (c : nat) (k : N) (b : option nat)    (* insert's section: b = what the before-handle locked to *)
| SRemove (x : option nat)                      (* remove's section: x = the handle's node, if any *)
| SOwns (x : option nat)
| SEmpty.                                       (* empty(): one read of head (made without the mutex) *)

Definition is_live (g : group) (x : nat) : bool :=
  match nth_error (heap g) x with Some nd => negb (N.eqb (ctr nd) GenCL.removed_marker) | None => false end.

(* the code of the sections *)
Definition sec_step (g : group) (s : sec) : group * bool :=
  match s with
  | SBack c k => (g_link_back (fst (g_alloc g c k)) (length (heap g)), true)
  | SFront c k => (g_link_front (fst (g_alloc g c k)) (length (heap g)), true)
  | SBefore c k (Some b) =>
      if is_live g b then (g_link_before (fst (g_alloc g c k)) (length (heap g)) b, true)
      else (g_link_back (fst (g_alloc g c k)) (length (heap g)), true)
  | SBefore c k None => (g_link_back (fst (g_alloc g c k)) (length (heap g)), true)
  | SRemove (Some x) => if is_live g x then (g_unlink g x, true) else (g, false)
  | SRemove None => (g, false)
  | SOwns (Some x) => (g, is_live g x)
  | SOwns None => (g, false)
  | SEmpty => (g, match ghead g with Some _ => false | None => true end)
  end.

Definition adds (s : sec) : bool := match s with SBack _ _ | SFront _ _ | SBefore _ _ _ => true | _ => false end.

(* ---------- the list as a traversal sees it: node ids from head through next ---------- *)
Fixpoint walk_ids (h : list node) (k : nat) (c : option nat) : list nat :=
  match k, c with
  | S k', Some n => match nth_error h n with Some nd => n :: walk_ids h k' (nxt nd) | None => [] end
  | _, _ => []
  end.

Definition list_ids (g : group) : list nat := walk_ids (heap g) (length (heap g)) (ghead g).

Definition memb (v : nat) (ids : list nat) : bool := existsb (Nat.eqb v) ids.

(* v stands before w in ids *)
Fixpoint beforeb (ids : list nat) (v w : nat) : bool :=
  match ids with
  | [] => false
  | x :: r => if Nat.eqb x v then memb w r else beforeb r v w
  end.

(* w is about to be visited: every node visited earlier that is still in the list stands before w *)
Definition ordered_visit (g : group) (vis : list nat) (w : nat) : bool :=
  forallb (fun v => negb (memb v (list_ids g)) || beforeb (list_ids g) v w) vis.
