(* CLSec.v — the critical sections of CallbackList's adding / removing / querying calls, as functions on the
   pointer-level group of CLModel.  These are the very functions the thread-level machine (CLConc.v) executes under the
   list's mutex and the functions CLConcProofs.v / CLTrav.v / CLCycle.v reason about.  Definitions only. *)
From Coq Require Import List Arith NArith Bool.
From EV Require Import CLModel.
From EV.gen Require GenCL.
Import ListNotations.
Local Open Scope nat_scope.

Inductive sec :=
| SBack (c : nat) (k : N)                       (* append's section *)
| SFront (c : nat) (k : N)                      (* prepend's section *)
| SBefore (c : nat) (k : N) (b : option nat)    (* insert's section: b = what the before-handle locked to *)
| SRemove (x : option nat)                      (* remove's section: x = the handle's node, if any *)
| SOwns (x : option nat)
| SEmpty.                                       (* empty(): one read of head (made without the mutex) *)

Definition is_live (g : group) (x : nat) : bool :=
  match nth_error (heap g) x with Some nd => negb (N.eqb (ctr nd) GenCL.removed_marker) | None => false end.

(* the code of the sections *)
Definition sec_step (g : group) (s : sec) : group * bool :=
  match s with
  | SBack c k => (g_link_back (fst (g_alloc g c k)) (length (heap g)), true)
  | SFront c k => (g_link_front (fst (g_alloc g c k)) (length (heap g)), true)
  | SBefore c k (Some b) =>
      if is_live g b then (g_link_before (fst (g_alloc g c k)) (length (heap g)) b, true)
      else (g_link_back (fst (g_alloc g c k)) (length (heap g)), true)
  | SBefore c k None => (g_link_back (fst (g_alloc g c k)) (length (heap g)), true)
  | SRemove (Some x) => if is_live g x then (g_unlink g x, true) else (g, false)
  | SRemove None => (g, false)
  | SOwns (Some x) => (g, is_live g x)
  | SOwns None => (g, false)
  | SEmpty => (g, match ghead g with Some _ => false | None => true end)
  end.

Definition adds (s : sec) : bool := match s with SBack _ _ | SFront _ _ | SBefore _ _ _ => true | _ => false end.
