(* HeterModel.v — executable model of eventpp::HeterCallbackList, HeterEventDispatcher and
   HeterEventQueue (hetercallbacklist.h, hetereventdispatcher.h, hetereventqueue.h,
   internal/hetercallbacklist_i.h, BufferedUnion of internal/eventqueue_i.h) for
   single-threaded, re-entrant programs.

   Prototypes are the indices 0..np-1 of the prototype list.  `callable k p` says whether a
   thing of kind k (a callback or predicate type, an argument-type list, or the stored tuple
   of a prototype handed out as const lvalues: `own p`) can be used with prototype p: it
   stands for CanInvoke, a compile-time fact.  The searches FindPrototypeByCallableFromIndex
   and FindPrototypeByArgsFromIndex are written as the recursions of the header, with the
   index arithmetic generated from it (GenHeter).

   A heterogeneous callback list is one listener list per prototype (snapshot level, as in
   QModel; the pointer level of each list is C01/C02's business); a dispatcher has one such
   family per event key; key 9 of the drivers is a bare HeterCallbackList.

   MECHANISM (h_run ... true ...): queueList/freeList are lists of slots (BufferedUnion); a
   slot holds an event tagged with callableIndex; get<QueuedItem<ArgsTuple>>() on a slot whose
   tag is another prototype, set() on an occupied and get()/clear() on an empty slot raise the
   error flag.  processIf is parameterised by the two facts tie A reads off doProcessIf:
   chk (the tag is tested before the typed access) and rem (the search for the next callable
   prototype ranges over the remaining prototypes).
   SPECIFICATION (h_run ... false ...): the same interpreter over the plain list of pending
   (tag, key, value) events: no slots, no free list, no typed reads, ideal search.
   Definitions only. *)
From Coq Require Import List Arith NArith ZArith Bool.
From EV.gen Require GenHeter.
Import ListNotations.
Local Open Scope nat_scope.

Definition kind := nat.
Definition proto := nat.

Record hevent := mkHE { etag : proto; ekey : nat; eval : Z }.
Definition hslot := option hevent.       (* None = empty slot (dtor == nullptr) *)

Inductive hcmd :=
| HAppend (k : nat) (ck : kind) (c h : nat)
| HPrepend (k : nat) (ck : kind) (c h : nat)
| HInsert (k : nat) (ck : kind) (c hb h : nat)
| HRemove (k h : nat)
| HDispatch (k : nat) (ak : kind) (v : Z)     (* dispatch(key, args...) / operator()(args...) *)
| HEnqueue (k : nat) (ak : kind) (v : Z)
| HProcess | HProcessOne
| HProcessIf (pk : kind) (p : nat)
| HClear | HEmpty | HLedger.

Inductive hev :=
| HRet (b : bool)
| HBound (p : proto)                                   (* Handle::index of a new callback *)
| HCall (c k : nat) (p : proto) (v : Z)                (* p (ghost): the prototype whose list held the callback *)
| HPred (p : nat) (pk : kind) (tag : proto) (v : Z)    (* pk, tag (ghosts): predicate kind, tag of the examined event *)
| HLive (n : nat).

Record hstate := mkH {
  hq : list hslot;                               (* queueList *)
  hf : list hslot;                               (* freeList *)
  hecount : nat;                                 (* queueEmptyCounter *)
  hlsts : list ((nat * proto) * list (nat * nat));  (* per (event key, prototype): (listener id, callback id) in order *)
  hnexth : nat;                                  (* listener ids handed out *)
  hregs : list (nat * (nat * proto * nat));      (* handle register -> (key, prototype index, listener id) *)
  hcacts : list (nat * nat);
  hpacts : list (nat * nat);
  herr : bool;                                   (* wrong-type read / set on occupied / get,clear on empty *)
  htrace : list hev
}.

Fixpoint h_alookup {A} (k : nat) (l : list (nat * A)) : option A :=
  match l with [] => None | (k', v) :: t => if Nat.eqb k k' then Some v else h_alookup k t end.

Fixpoint h_aset {A} (k : nat) (v : A) (l : list (nat * A)) : list (nat * A) :=
  match l with
  | [] => [(k, v)]
  | (k', v') :: t => if Nat.eqb k k' then (k, v) :: t else (k', v') :: h_aset k v t
  end.

Definition keq (a b : nat * proto) : bool := Nat.eqb (fst a) (fst b) && Nat.eqb (snd a) (snd b).

Fixpoint l_lookup {A} (k : nat * proto) (l : list ((nat * proto) * A)) : option A :=
  match l with [] => None | (k', v) :: t => if keq k k' then Some v else l_lookup k t end.

Fixpoint l_set {A} (k : nat * proto) (v : A) (l : list ((nat * proto) * A)) : list ((nat * proto) * A) :=
  match l with
  | [] => [(k, v)]
  | (k', v') :: t => if keq k k' then (k, v) :: t else (k', v') :: l_set k v t
  end.

Definition lst_of (st : hstate) (k : nat) (p : proto) : list (nat * nat) :=
  match l_lookup (k, p) (hlsts st) with Some l => l | None => [] end.

Definition hupd_q st ql fl := mkH ql fl (hecount st) (hlsts st) (hnexth st) (hregs st) (hcacts st) (hpacts st) (herr st) (htrace st).
Definition hupd_ecount st n := mkH (hq st) (hf st) n (hlsts st) (hnexth st) (hregs st) (hcacts st) (hpacts st) (herr st) (htrace st).
Definition hupd_lsts st ls nh hr := mkH (hq st) (hf st) (hecount st) ls nh hr (hcacts st) (hpacts st) (herr st) (htrace st).
Definition hupd_cacts st a := mkH (hq st) (hf st) (hecount st) (hlsts st) (hnexth st) (hregs st) a (hpacts st) (herr st) (htrace st).
Definition hupd_pacts st a := mkH (hq st) (hf st) (hecount st) (hlsts st) (hnexth st) (hregs st) (hcacts st) a (herr st) (htrace st).
Definition hset_err st := mkH (hq st) (hf st) (hecount st) (hlsts st) (hnexth st) (hregs st) (hcacts st) (hpacts st) true (htrace st).
Definition hlog st e := mkH (hq st) (hf st) (hecount st) (hlsts st) (hnexth st) (hregs st) (hcacts st) (hpacts st) (herr st) (e :: htrace st).

Definition hact_of (l : list (nat * nat)) (c : nat) : nat := match h_alookup c l with Some n => n | None => 0 end.

Fixpoint hhas_l (h : nat) (l : list (nat * nat)) : bool :=
  match l with [] => false | (x, _) :: t => Nat.eqb h x || hhas_l h t end.
Fixpoint hdel_l (h : nat) (l : list (nat * nat)) : list (nat * nat) :=
  match l with [] => [] | (x, c) :: t => if Nat.eqb h x then t else (x, c) :: hdel_l h t end.
Fixpoint hins_l (b : nat) (new : nat * nat) (l : list (nat * nat)) : list (nat * nat) :=
  match l with
  | [] => [new]
  | (x, c) :: t => if Nat.eqb b x then new :: (x, c) :: t else (x, c) :: hins_l b new t
  end.

(* ---------- the compile-time searches, as the recursions of hetercallbacklist_i.h ---------- *)

Section Search.
  Variable np : nat.                            (* HeterTupleSize<PrototypeList> *)
  Variable callable : kind -> proto -> bool.    (* CanInvoke *)

  (* FindPrototypeByCallableFromIndex<n, l, k, _, M>: (index, the prototype whose Prototype /
     ArgsTuple are selected); l lists the true positions of the prototypes still to be tried *)
  Fixpoint find_callable (M n : Z) (l : list proto) (k : kind) : Z * proto :=
    match l with
    | [] => (GenHeter.fpc_end, 0)
    | p :: others =>
        if GenHeter.fpc_guard n M then
          let r := find_callable M (GenHeter.fpc_next n) others k in
          (GenHeter.fpc_index (callable k p) n (fst r), if callable k p then p else snd r)
        else (GenHeter.fpc_end, 0)
    end.

  (* FindPrototypeByArgsFromIndex<n, l, InArgs...> *)
  Fixpoint find_args (n : Z) (l : list proto) (k : kind) : Z * proto :=
    match l with
    | [] => (GenHeter.fpa_end, 0)
    | p :: others =>
        let r := find_args (GenHeter.fpa_next n) others k in
        (GenHeter.fpa_index (callable k p) n (fst r), if callable k p then p else snd r)
    end.

  Definition protos : list proto := seq 0 np.

  (* static_assert(PrototypeInfo::index >= 0, ...) / enable_if<(PrototypeInfo::index >= 0)> *)
  Definition decode (r : Z * proto) : option (nat * proto) :=
    if GenHeter.processif_enabled (fst r) then Some (Z.to_nat (fst r), snd r) else None.

  (* FindPrototypeByCallable<PrototypeList, C>, FindPrototypeByArgs<PrototypeList, Args...> *)
  Definition first_callable (k : kind) : option (nat * proto) :=
    decode (find_callable (Z.of_nat np) GenHeter.fpc_start protos k).
  Definition first_args (k : kind) : option (nat * proto) :=
    decode (find_args GenHeter.fpa_start protos k).

  (* doProcessIf's NextPrototypeInfo after the round (lab, ty): over the prototypes listed after
     ty (rem = true), or over the whole list again (rem = false); M is the size of the whole list
     either way, the labels start at processif_next_start lab *)
  Definition next_round (rem : bool) (lab : nat) (ty : proto) (pk : kind) : option (nat * proto) :=
    decode (find_callable (Z.of_nat np) (GenHeter.processif_next_start (Z.of_nat lab))
                          (if rem then seq (S ty) (np - S ty) else protos) pk).
End Search.

Section HInterp.
  Variable np : nat.
  Variable callable : kind -> proto -> bool.
  Variable own : proto -> kind.          (* the stored tuple of prototype p handed out as const lvalues *)
  Variable arity : proto -> nat.         (* number of value-carrying parameters (observability only) *)
  Variable counted : proto -> bool.      (* the stored tuple holds a counted payload object (ledger only) *)
  Variable mech : bool.                  (* true: slots + free list + typed reads (the code); false: the specification *)
  Variable chk : bool.                   (* processIf tests the tag before the typed access *)
  Variable rem : bool.                   (* processIf searches the next prototype among the remaining ones *)
  Variable behav : nat -> nat -> list hcmd.            (* callback c, n-th activation *)
  Variable pbehav : nat -> nat -> list hcmd * bool.    (* predicate p, n-th evaluation: body and verdict *)

  Definition chk' : bool := if mech then chk else true.
  Definition rem' : bool := if mech then rem else true.

  Definition pval (p : proto) (v : Z) : Z := if Nat.eqb (arity p) 0 then 0%Z else v.

  (* BufferedUnion::set / get<U> / clear with their assertions *)
  Definition hslot_set (st : hstate) (s : hslot) (e : hevent) : hstate * hslot :=
    match s with
    | None => (st, Some e)
    | Some _ => (hset_err st, Some e)
    end.

  Definition hslot_clear (st : hstate) (s : hslot) : hstate :=
    match s with Some _ => st | None => hset_err st end.

  (* get<QueuedItem<ArgsTuple of ty>>() *)
  Definition typed_read (st : hstate) (s : hslot) (ty : proto) : hstate :=
    if mech then
      match s with
      | Some e => if Nat.eqb (etag e) ty then st else hset_err st
      | None => hset_err st
      end
    else st.

  (* doEnqueueItem *)
  Definition hdo_enqueue (st : hstate) (e : hevent) : hstate :=
    if mech then
      let '(s, fl) := match hf st with
                      | s :: fl => (s, fl)          (* recycled slot from the front of freeList *)
                      | [] => (None, [])            (* tempList.emplace_back() *)
                      end in
      let '(st1, s1) := hslot_set st s e in
      hupd_q st1 (hq st1 ++ [s1]) fl
    else
      hupd_q st (hq st ++ [Some e]) (hf st).

  (* freeList.splice(freeList.end(), cleared slots) *)
  Definition hrecycle (st : hstate) (n : nat) : hstate :=
    if mech then hupd_q st (hq st) (hf st ++ repeat None n) else st.

  Section WithRec.
    Variable rec : hstate -> list hcmd -> option hstate.

    (* CallbackList<Prototype p>::operator(): snapshot rule on the listeners of (key k, prototype p) *)
    Fixpoint hcall_all (st : hstate) (k : nat) (p : proto) (todo : list (nat * nat)) (v : Z) : option hstate :=
      match todo with
      | [] => Some st
      | (h, c) :: rest =>
          if hhas_l h (lst_of st k p) then
            let st1 := hlog st (HCall c k p (pval p v)) in
            let st2 := hupd_cacts st1 (h_aset c (S (hact_of (hcacts st1) c)) (hcacts st1)) in
            match rec st2 (behav c (hact_of (hcacts st2) c)) with
            | Some st3 => hcall_all st3 k p rest v
            | None => None
            end
          else hcall_all st k p rest v
      end.

    (* HeterCallbackList::operator()(Args...): FindPrototypeByArgs, then that prototype's list *)
    Definition hdispatch (st : hstate) (k : nat) (ak : kind) (v : Z) : option hstate :=
      match first_args np callable ak with
      | Some (i, _) => hcall_all st k i (lst_of st k i) v
      | None => None                       (* static_assert: does not compile *)
      end.

    (* doDispatchItem: the stored tuple's elements are passed on as const lvalues *)
    Definition hdispatch_event (st : hstate) (e : hevent) : option hstate :=
      hdispatch st (ekey e) (own (etag e)) (eval e).

    Definition heval_pred (st : hstate) (pk : kind) (p : nat) (ty : proto) (e : hevent) : option (hstate * bool) :=
      let st1 := hlog st (HPred p pk (etag e) (pval ty (eval e))) in
      let st2 := hupd_pacts st1 (h_aset p (S (hact_of (hpacts st1) p)) (hpacts st1)) in
      let '(body, verdict) := pbehav p (hact_of (hpacts st2) p) in
      match rec st2 body with
      | Some st3 => Some (st3, verdict)
      | None => None
      end.

    (* the loop of process(): get<QueuedItemBase>(), dispatch, clear *)
    Fixpoint hprocess_loop (st : hstate) (temp : list hslot) : option hstate :=
      match temp with
      | [] => Some st
      | s :: rest =>
          match s with
          | None => hprocess_loop (hset_err st) rest
          | Some e =>
              match hdispatch_event st e with
              | Some st1 => hprocess_loop (hslot_clear st1 s) rest
              | None => None
              end
          end
      end.

    (* the loop of doProcessIf<PrototypeInfo> with PrototypeInfo::index = lab and
       PrototypeInfo::ArgsTuple = the tuple of prototype ty:
       returns (state, kept slots in order, number dispatched) *)
    Fixpoint hpif_loop (st : hstate) (pk : kind) (p : nat) (lab : nat) (ty : proto)
             (temp : list hslot) (kept : list hslot) (idle : nat) : option (hstate * list hslot * nat) :=
      match temp with
      | [] => Some (st, rev kept, idle)
      | s :: rest =>
          (* unrepaired order: the slot is retyped (and copied) before its tag is looked at *)
          let st0 := if chk' then st else typed_read st s ty in
          match s with
          | None => hpif_loop (hset_err st0) pk p lab ty rest kept idle
          | Some e =>
              if GenHeter.processif_skip (Z.of_nat (etag e)) (Z.of_nat lab)
              then hpif_loop st0 pk p lab ty rest (s :: kept) idle
              else
                let st1 := if chk' then typed_read st0 s ty else st0 in
                match heval_pred st1 pk p ty e with
                | None => None
                | Some (st2, true) =>
                    match hdispatch_event st2 e with
                    | Some st3 => hpif_loop (hslot_clear st3 s) pk p lab ty rest kept (S idle)
                    | None => None
                    end
                | Some (st2, false) => hpif_loop st2 pk p lab ty rest (s :: kept) idle
                end
          end
      end.

    (* doProcessIf<PrototypeInfo> and its continuation doProcessIf<NextPrototypeInfo>; n bounds the
       number of rounds (the labels grow strictly and stay below np) *)
    Fixpoint hpif_rounds (n : nat) (st : hstate) (pk : kind) (p : nat) (round : option (nat * proto))
      : option (hstate * bool) :=
      match n, round with
      | 0, _ => Some (st, false)
      | _, None => Some (st, false)                           (* PrototypeInfo::index < 0 *)
      | S n', Some (lab, ty) =>
          let temp := hq st in
          let st1 := hupd_q (hupd_ecount st (S (hecount st))) [] (hf st) in     (* CounterGuard; swap *)
          match hpif_loop st1 pk p lab ty temp [] 0 with
          | None => None
          | Some (st2, kept, idle) =>
              let st3 := hupd_q st2 (kept ++ hq st2) (hf st2) in                  (* put back at the FRONT *)
              match idle with
              | S _ =>
                  let st4 := hrecycle st3 idle in
                  Some (hupd_ecount st4 (pred (hecount st4)), true)
              | 0 =>
                  match hpif_rounds n' st3 pk p (next_round np callable rem' lab ty pk) with
                  | Some (st4, b) => Some (hupd_ecount st4 (pred (hecount st4)), b)
                  | None => None
                  end
              end
          end
      end.

    Definition hadd_listener (st : hstate) (k : nat) (i : proto) (c h : nat)
               (place : nat * nat -> list (nat * nat) -> list (nat * nat)) : hstate :=
      let id := hnexth st in
      hlog (hupd_lsts st (l_set (k, i) (place (id, c) (lst_of st k i)) (hlsts st)) (S id) (h_aset h (k, i, id) (hregs st)))
           (HBound i).

    Definition h_step (st : hstate) (c : hcmd) : option hstate :=
      match c with
      | HAppend k ck c h =>
          match first_callable np callable ck with
          | Some (i, _) => Some (hadd_listener st k i c h (fun n l => l ++ [n]))
          | None => None
          end
      | HPrepend k ck c h =>
          match first_callable np callable ck with
          | Some (i, _) => Some (hadd_listener st k i c h (fun n l => n :: l))
          | None => None
          end
      | HInsert k ck c hb h =>
          match first_callable np callable ck with
          | Some (i, _) =>
              match h_alookup hb (hregs st) with
              | Some (k', i', b) =>
                  if Nat.eqb k' k then
                    if Nat.eqb i' i && hhas_l b (lst_of st k i)
                    then Some (hadd_listener st k i c h (fun n l => hins_l b n l))
                    else Some (hadd_listener st k i c h (fun n l => l ++ [n]))   (* before.index != index, or stale handle *)
                  else None                   (* a handle of another event's list: misuse, excluded *)
              | None => Some (hadd_listener st k i c h (fun n l => l ++ [n]))
              end
          | None => None
          end
      | HRemove k h =>
          match h_alookup h (hregs st) with
          | Some (k', i, b) =>
              if Nat.eqb k' k then
                if hhas_l b (lst_of st k i)
                then Some (hlog (hupd_lsts st (l_set (k, i) (hdel_l b (lst_of st k i)) (hlsts st)) (hnexth st) (hregs st)) (HRet true))
                else Some (hlog st (HRet false))
              else None
          | None => Some (hlog st (HRet false))
          end
      | HDispatch k ak v => hdispatch st k ak v
      | HEnqueue k ak v =>
          match first_args np callable ak with
          | Some (i, _) => Some (hdo_enqueue st (mkHE i k v))
          | None => None
          end
      | HProcess =>
          match hq st with
          | [] => Some (hlog st (HRet false))
          | temp =>
              let st1 := hupd_q (hupd_ecount st (S (hecount st))) [] (hf st) in
              match hprocess_loop st1 temp with
              | Some st2 =>
                  let st3 := hrecycle st2 (length temp) in
                  Some (hlog (hupd_ecount st3 (pred (hecount st3))) (HRet true))
              | None => None
              end
          end
      | HProcessOne =>
          match hq st with
          | [] => Some (hlog st (HRet false))
          | s :: rest =>
              let st1 := hupd_q (hupd_ecount st (S (hecount st))) rest (hf st) in
              match hprocess_loop st1 [s] with
              | Some st2 =>
                  let st3 := hrecycle st2 1 in
                  Some (hlog (hupd_ecount st3 (pred (hecount st3))) (HRet true))
              | None => None
              end
          end
      | HProcessIf pk p =>
          match hq st with
          | [] => Some (hlog st (HRet false))
          | _ =>
              match hpif_rounds (S np) st pk p (first_callable np callable pk) with
              | Some (st1, b) => Some (hlog st1 (HRet b))
              | None => None
              end
          end
      | HClear =>
          match hq st with
          | [] => Some st
          | temp => Some (hrecycle (hupd_q st [] (hf st)) (length temp))
          end
      | HEmpty =>
          Some (hlog st (HRet (GenHeter.heter_empty_queue (match hq st with [] => true | _ => false end) (Z.of_nat (hecount st)))))
      | HLedger =>
          Some (hlog st (HLive (length (filter (fun s => match s with Some e => counted (etag e) | None => false end) (hq st)))))
      end.

    Fixpoint h_seq (st : hstate) (cs : list hcmd) : option hstate :=
      match cs with
      | [] => Some st
      | c :: r => match h_step st c with Some st1 => h_seq st1 r | None => None end
      end.
  End WithRec.

  Fixpoint h_run (fuel : nat) : hstate -> list hcmd -> option hstate :=
    match fuel with
    | 0 => fun _ _ => None
    | S f => h_seq (h_run f)
    end.

  Definition h_init : hstate := mkH [] [] 0 [] 0 [] [] [] false [].

  Definition h_run_case (fuel : nat) (main : list hcmd) : option (list hev * bool) :=
    match h_run fuel h_init main with
    | Some st => Some (rev (htrace st), herr st)
    | None => None
    end.
End HInterp.
