(* QBalance.v — the "events in dispatch" counter (queueEmptyCounter): every command, to any
   nesting depth, leaves it exactly as it found it (CounterGuard), processing calls hold it
   incremented while their listeners and predicates run, and with the counter positive
   emptyQueue() is false (through the generated body of emptyQueue). *)
From Coq Require Import List Arith NArith ZArith Bool Lia.
From EV Require Import QModel.
From EV Require GenQFacts.
From EV.gen Require GenQ.
Import ListNotations.
Local Open Scope nat_scope.

Section Balance.
  Variable mech ordered : bool.
  Variable klt : nat -> nat -> bool.
  Variable behav : nat -> nat -> list qcmd.
  Variable pbehav : nat -> nat -> list qcmd * bool.

  Definition RecBal (rec : qstate -> list qcmd -> option qstate) : Prop :=
    forall st cs st', rec st cs = Some st' -> ecount st' = ecount st.

  Lemma enqueue_ecount st e : ecount (do_enqueue mech ordered klt st e) = ecount st.
  Proof.
    unfold do_enqueue. destruct mech; [|reflexivity].
    destruct (flist st) as [|s fl]; simpl; [reflexivity|]. destruct s; reflexivity.
  Qed.

  Lemma recycle_ecount st n : ecount (recycle mech ordered klt st n) = ecount st.
  Proof. unfold recycle. destruct mech; reflexivity. Qed.

  Lemma slot_clear_ecount st s : ecount (slot_clear st s) = ecount st.
  Proof. destruct s; reflexivity. Qed.

  Section Loops.
    Variable rec : qstate -> list qcmd -> option qstate.
    Hypothesis HB : RecBal rec.

    Lemma call_all_bal k a : forall todo st st', call_all behav rec st k todo a = Some st' -> ecount st' = ecount st.
    Proof.
      induction todo as [|[h c] rest IH]; intros st st' H; simpl in H; [inversion H; reflexivity|].
      destruct (has_l h (lst_of st k)); [|apply (IH _ _ H)].
      cbv zeta in H. match type of H with (match ?X with _ => _ end = _) => destruct X as [s3|] eqn:Er; [|discriminate] end.
      rewrite (IH _ _ H). apply HB in Er. exact Er.
    Qed.

    Lemma dispatch_bal st k a st' : dispatch behav rec st k a = Some st' -> ecount st' = ecount st.
    Proof. apply call_all_bal. Qed.

    Lemma eval_pred_bal st p e st' v : eval_pred pbehav rec st p e = Some (st', v) -> ecount st' = ecount st.
    Proof.
      unfold eval_pred. cbv zeta. destruct (pbehav p _) as [body verdict].
      match goal with |- (match ?X with _ => _ end = _) -> _ => destruct X as [s3|] eqn:Er; [|discriminate] end.
      intros H; inversion H; subst. apply HB in Er. exact Er.
    Qed.

    Lemma process_loop_bal : forall temp st st', process_loop behav rec st temp = Some st' -> ecount st' = ecount st.
    Proof.
      induction temp as [|s rest IH]; intros st st' H; simpl in H; [inversion H; reflexivity|].
      destruct s as [e|].
      - destruct (dispatch behav rec st (ekey e) (earg e)) as [s1|] eqn:Ed; [|discriminate].
        rewrite (IH _ _ H), slot_clear_ecount. apply (dispatch_bal _ _ _ _ Ed).
      - rewrite (IH _ _ H). reflexivity.
    Qed.

    Lemma processif_loop_bal p : forall temp st kept idle st' k' i',
      processif_loop behav pbehav rec st p temp kept idle = Some (st', k', i') -> ecount st' = ecount st.
    Proof.
      induction temp as [|s rest IH]; intros st kept idle st' k' i' H; simpl in H; [inversion H; reflexivity|].
      destruct s as [e|].
      - destruct (eval_pred pbehav rec st p e) as [[s1 v]|] eqn:Ep; [|discriminate].
        assert (E1 := eval_pred_bal _ _ _ _ _ Ep). destruct v.
        + destruct (dispatch behav rec s1 (ekey e) (earg e)) as [s2|] eqn:Ed; [|discriminate].
          rewrite (IH _ _ _ _ _ _ H), slot_clear_ecount, (dispatch_bal _ _ _ _ Ed). exact E1.
        + rewrite (IH _ _ _ _ _ _ H). exact E1.
      - rewrite (IH _ _ _ _ _ _ H). reflexivity.
    Qed.

    Lemma processuntil_loop_bal p : forall temp st idle st' k' i',
      processuntil_loop behav pbehav rec st p temp idle = Some (st', k', i') -> ecount st' = ecount st.
    Proof.
      induction temp as [|s rest IH]; intros st idle st' k' i' H; simpl in H; [inversion H; reflexivity|].
      destruct s as [e|].
      - destruct (eval_pred pbehav rec st p e) as [[s1 v]|] eqn:Ep; [|discriminate].
        assert (E1 := eval_pred_bal _ _ _ _ _ Ep). destruct v.
        + inversion H; subst. exact E1.
        + destruct (dispatch behav rec s1 (ekey e) (earg e)) as [s2|] eqn:Ed; [|discriminate].
          rewrite (IH _ _ _ _ _ H), slot_clear_ecount, (dispatch_bal _ _ _ _ Ed). exact E1.
      - rewrite (IH _ _ _ _ _ H). reflexivity.
    Qed.

    Lemma step_bal st c st' : q_step mech ordered klt behav pbehav rec st c = Some st' -> ecount st' = ecount st.
    Proof.
      intros H. destruct c; unfold q_step in H.
      - inversion H; reflexivity.
      - inversion H; reflexivity.
      - destruct (alookup hb (hregs st)) as [[k' b]|]; [|inversion H; reflexivity].
        destruct (Nat.eqb k' k); [|discriminate]. destruct (has_l b (lst_of st k)); inversion H; reflexivity.
      - destruct (alookup h (hregs st)) as [[k' b]|]; [|inversion H; reflexivity].
        destruct (Nat.eqb k' k); [|discriminate]. destruct (has_l b (lst_of st k)); inversion H; reflexivity.
      - apply (dispatch_bal _ _ _ _ H).
      - inversion H. rewrite enqueue_ecount. reflexivity.
      - destruct (qlist st) as [|x t]; [inversion H; reflexivity|].
        match type of H with (match ?X with _ => _ end = _) => destruct X as [s2|] eqn:Ep; [|discriminate] end.
        inversion H. simpl. rewrite recycle_ecount, (process_loop_bal _ _ _ Ep). reflexivity.
      - destruct (qlist st) as [|x t]; [inversion H; reflexivity|].
        match type of H with (match ?X with _ => _ end = _) => destruct X as [s2|] eqn:Ep; [|discriminate] end.
        inversion H. simpl. rewrite recycle_ecount, (process_loop_bal _ _ _ Ep). reflexivity.
      - destruct (qlist st) as [|x t]; [inversion H; reflexivity|].
        match type of H with (match ?X with _ => _ end = _) => destruct X as [[[s2 kept] idle]|] eqn:Ep; [|discriminate] end.
        inversion H. simpl. rewrite recycle_ecount. simpl. rewrite (processif_loop_bal _ _ _ _ _ _ _ _ Ep). reflexivity.
      - destruct (qlist st) as [|x t]; [inversion H; reflexivity|].
        match type of H with (match ?X with _ => _ end = _) => destruct X as [[[s2 kept] idle]|] eqn:Ep; [|discriminate] end.
        inversion H. simpl. rewrite recycle_ecount. simpl. rewrite (processuntil_loop_bal _ _ _ _ _ _ _ Ep). reflexivity.
      - destruct (qlist st) as [|[e|] t]; inversion H; reflexivity.
      - destruct (qlist st) as [|[e|] t]; inversion H; try reflexivity. simpl. rewrite recycle_ecount. reflexivity.
      - destruct (alookup r (tregs st)) as [e|]; [apply (dispatch_bal _ _ _ _ H)|inversion H; reflexivity].
      - destruct (qlist st) as [|x t]; inversion H; try reflexivity. rewrite recycle_ecount. reflexivity.
      - inversion H; reflexivity.
      - inversion H; reflexivity.
      - inversion H; reflexivity.
      - inversion H; reflexivity.
    Qed.

    Lemma seq_bal : forall cs st st', q_seq mech ordered klt behav pbehav rec st cs = Some st' -> ecount st' = ecount st.
    Proof.
      induction cs as [|c r IH]; intros st st' H; simpl in H; [inversion H; reflexivity|].
      destruct (q_step mech ordered klt behav pbehav rec st c) as [s1|] eqn:E; [|discriminate].
      rewrite (IH _ _ H). apply (step_bal _ _ _ E).
    Qed.
  End Loops.

  Theorem ecount_balanced : forall fuel, RecBal (q_run mech ordered klt behav pbehav fuel).
  Proof.
    induction fuel as [|f IH]; intros st cs st' H; simpl in H; [discriminate|]. apply (seq_bal _ IH _ _ _ H).
  Qed.

  (* with an event in dispatch, emptyQueue() answers false *)
  Theorem emptyq_false_when_busy rec st :
    1 <= ecount st -> q_step mech ordered klt behav pbehav rec st QEmpty = Some (qlog st (QRet false)).
  Proof.
    intros H. unfold q_step. rewrite GenQFacts.empty_queue_spec.
    assert (E : (Z.of_nat (ecount st) =? 0)%Z = false) by (apply Z.eqb_neq; lia).
    rewrite E. rewrite andb_false_r. reflexivity.
  Qed.

  (* and only when nothing is pending and nothing is in dispatch does it answer true *)
  Theorem emptyq_true_iff rec st st' :
    q_step mech ordered klt behav pbehav rec st QEmpty = Some st' ->
    (qtrace st' = QRet true :: qtrace st <-> qlist st = [] /\ ecount st = 0).
  Proof.
    unfold q_step. rewrite GenQFacts.empty_queue_spec. intros H. inversion H; subst. simpl. split.
    - intros X. inversion X as [Y]. apply andb_true_iff in Y. destruct Y as [Y1 Y2].
      split; [destruct (qlist st); [reflexivity|discriminate]|]. apply Z.eqb_eq in Y2. lia.
    - intros [A B]. rewrite A, B. reflexivity.
  Qed.

  (* the second observer of C11: waitFor with a zero time-out (no DisableQueueNotify in this domain) answers what its
     predicate doCanProcess says; with an event in dispatch it does not time out, and it times out exactly when nothing is
     pending and nothing is in dispatch *)
  Theorem waitfor0_true_when_busy rec st :
    1 <= ecount st -> q_step mech ordered klt behav pbehav rec st QWaitFor0 = Some (qlog st (QRet true)).
  Proof.
    intros H. unfold q_step. rewrite GenQFacts.can_process_spec.
    assert (E : (Z.of_nat (ecount st) =? 0)%Z = false) by (apply Z.eqb_neq; lia).
    rewrite E. rewrite andb_false_r. reflexivity.
  Qed.

  Theorem waitfor0_false_iff rec st st' :
    q_step mech ordered klt behav pbehav rec st QWaitFor0 = Some st' ->
    (qtrace st' = QRet false :: qtrace st <-> qlist st = [] /\ ecount st = 0).
  Proof.
    unfold q_step. rewrite GenQFacts.can_process_spec. intros H. inversion H; subst. simpl. split.
    - intros X. inversion X as [Y]. rewrite andb_true_r in Y. apply negb_false_iff in Y. apply andb_true_iff in Y. destruct Y as [Y1 Y2].
      split; [destruct (qlist st); [reflexivity|discriminate]|]. apply Z.eqb_eq in Y2. lia.
    - intros [A B]. rewrite A, B. reflexivity.
  Qed.
End Balance.
