(* Properties_C17.v — C17: AnyData holds, moves and destroys its value like the value itself.

   This file contains only the property theorems (closed by `exact`), their non-vacuity
   examples and Print Assumptions.  The proofs are in AnyDataProofs.v; the model and the
   value-semantics specification are in AnyDataModel.v; the size conditions, the effective
   capacity, MaxSizeOf, isLargerData and the branch conditions / comparisons of getAddress,
   isType and of the destructors are the GENERATED definitions of gen/GenAnyData.v. *)
From Coq Require Import List Arith NArith ZArith Bool Permutation.
From EV Require Import AnyDataModel AnyDataProofs.
From EV.gen Require GenAnyData.
Import ListNotations.

(* For every size and every capacity exactly one of the two converting constructors is
   viable: a value of any size can be stored, and the choice is never ambiguous. *)
Theorem C17_split_complementary : forall size maxSize : N,
  (GenAnyData.inline_cond size maxSize = true /\ GenAnyData.heap_cond size maxSize = false) \/
  (GenAnyData.inline_cond size maxSize = false /\ GenAnyData.heap_cond size maxSize = true).
Proof. exact split_complementary. Qed.
Print Assumptions C17_split_complementary.

(* The inline constructor placement-news the object into a buffer of maxSize bytes only when
   it fits; the LargeData built by the other constructor always fits (and the effective
   capacity is never below the requested one). *)
Theorem C17_inline_in_bounds : forall size maxSize : N,
  GenAnyData.inline_cond size maxSize = true -> (size <= maxSize)%N.
Proof. exact inline_in_bounds. Qed.
Print Assumptions C17_inline_in_bounds.

Theorem C17_large_fits : forall cap ls : N, (ls <= eff cap ls)%N /\ (cap <= eff cap ls)%N.
Proof. exact large_fits. Qed.
Print Assumptions C17_large_fits.

(* maxSizeOf<T, Ts...>() is the largest of the sizes. *)
Theorem C17_max_size_of_is_max : forall t ts,
  In (max_size_of t ts) (t :: ts) /\ (forall x, In x (t :: ts) -> (x <= max_size_of t ts)%N) /\
  max_size_of t ts = fold_right N.max t ts.
Proof. exact max_size_of_max. Qed.
Print Assumptions C17_max_size_of_is_max.

(* For every program — any interleaving of constructions, moves, reads through every
   accessor, isType queries against any type, address checks, destructions, enqueues of
   existing or fresh AnyData, process() and slot take-outs, for all sizes, capacities and
   sizeof(LargeData) — the observable trace of the function-table / placement-new model is
   the trace of the specification in which registers and queue slots hold plain (type,
   value) pairs.  Only `where` (inline or heap) is erased. *)
Theorem C17_anydata_refines_value_semantics : forall cap ls tracked p,
  map erase (run_case cap ls tracked p) = s_run_case tracked p.
Proof. exact anydata_refines_value_semantics. Qed.
Print Assumptions C17_anydata_refines_value_semantics.

(* After any history, an AnyData constructed from a value reads back that value, at the
   address it had when constructed, and isType answers true exactly for the stored type. *)
Theorem C17_anydata_roundtrip : forall cap ls tracked p r t sz v t',
  get_reg r (regs (run cap ls tracked init p)) = None ->
  map erase (trace (run cap ls tracked init (p ++ [Make r t sz v; Get r; Addr r; IsType r t']))) =
  map erase (trace (run cap ls tracked init p)) ++ [EGet v; EAddr true; EIsType (t' =? t)].
Proof. exact anydata_roundtrip. Qed.
Print Assumptions C17_anydata_roundtrip.

Theorem C17_anydata_istype : forall cap ls tracked p r t0 v0 t,
  get_reg r (sregs (s_run tracked s_init p)) = Some (SLive t0 v0) ->
  exists b, trace (run cap ls tracked init (p ++ [IsType r t])) = trace (run cap ls tracked init p) ++ [EIsType b]
            /\ (b = true <-> t = t0).
Proof. exact anydata_istype. Qed.
Print Assumptions C17_anydata_istype.

(* After a chain of moves and queue round trips of ANY length the last holder reads the
   original value (and a listener of process() receives it); everything is destroyed. *)
Theorem C17_anydata_move_chain : forall cap ls tracked t sz v hops t',
  map erase (run_case cap ls tracked
     (Make 0 t sz v :: chain 0 hops ++ [Get (length hops); IsType (length hops) t'; Addr (length hops)]))
  = [EGet v; EIsType (t' =? t); EAddr true; ELedger 0]
  /\
  map erase (run_case cap ls tracked (Make 0 t sz v :: chain 0 hops ++ [Enqueue (length hops); Process]))
  = [EDeliver true v; ELedger 0].
Proof. exact anydata_move_chain. Qed.
Print Assumptions C17_anydata_move_chain.

(* The ledger: at every point of every program no object has been destroyed twice or read
   after destruction (error flag clear), every id ever constructed is live or dead and never
   both, and the live objects are exactly those owned by the holders (registers, moved-from
   registers, queue slots) — none destroyed early, none leaked, none owned twice.  When all
   holders are gone every constructed object (client copies, stored copies, moved-to objects,
   moved-from shells, boxes) has been destroyed exactly once. *)
Theorem C17_anydata_once : forall cap ls tracked p,
  let s := run cap ls tracked init p in
  let f := final cap ls tracked p in
  (err (led s) = false /\
   NoDup (map fst (live (led s)) ++ dead (led s)) /\
   (forall x, In x (map fst (live (led s)) ++ dead (led s)) <-> x < next (led s)) /\
   Permutation (owned s) (live (led s))) /\
  (err (led f) = false /\ live (led f) = [] /\ NoDup (dead (led f)) /\
   (forall x, In x (dead (led f)) <-> x < next (led f))).
Proof. exact anydata_once. Qed.
Print Assumptions C17_anydata_once.

(* Replacing every size, the capacity and sizeof(LargeData) by any others does not change
   the trace: objects larger than the inline capacity behave like small ones. *)
Theorem C17_size_uniform : forall cap cap' ls ls' tracked p p', Forall2 reshape p p' ->
  map erase (run_case cap ls tracked p) = map erase (run_case cap' ls' tracked p').
Proof. exact size_uniform. Qed.
Print Assumptions C17_size_uniform.

(* ------------------------------------------------------------------------------------ *)
(* non-vacuity *)

Definition tr1 (t : nat) : bool := 1000 <=? t.

(* both storages, every command, a moved-from register still pending, two queue slots *)
Definition ex_prog : list cmd :=
  [Make 0 1017 40 5; Make 1 16 4 7; Where 0; Where 1; Move 0 2; Get 2; Get 0; IsType 2 1017; IsType 2 1016;
   Addr 2; Ledger; Destroy 0; Ledger; Enqueue 2; QMake 3016 12 9; Enqueue 1; Take 4; Get 4; Process;
   Make 5 2024 48 11; Move 5 6; Move 6 7; Make 7 0 1 0; MaxSz [1; 17; 15]%N].

(* sizes away from the boundary are decided as expected, the boundary itself is decided one
   way or the other, small capacities are raised to sizeof(LargeData) *)
Example C17_conditions_nontrivial :
  GenAnyData.inline_cond 1 16 = true /\ GenAnyData.heap_cond 1 16 = false /\
  GenAnyData.inline_cond 100 16 = false /\ GenAnyData.heap_cond 100 16 = true /\
  xorb (GenAnyData.inline_cond 16 16) (GenAnyData.heap_cond 16 16) = true /\
  xorb (GenAnyData.inline_cond 17 16) (GenAnyData.heap_cond 17 16) = true /\
  eff 8 16 = 16%N /\ eff 24 16 = 24%N /\ max_size_of 1 [17; 15]%N = 17%N.
Proof. vm_compute. repeat split. Qed.

Example C17_trace_nontrivial :
  run_case 16 16 tr1 ex_prog =
  [EWhere false; EWhere true; EGet 5; EReject; EIsType true; EIsType false; EAddr true; EReject; ELedger 1;
   EGet 5; EDeliver true 9; EDeliver true 7; EReject; EMaxSz 17; ELedger 0]%Z
  /\ s_run_case tr1 ex_prog = map erase (run_case 16 16 tr1 ex_prog).
Proof. vm_compute. split; reflexivity. Qed.

Example C17_roundtrip_hypothesis_satisfiable :
  get_reg 9 (regs (run 16 16 tr1 init ex_prog)) = None /\ length (regs (run 16 16 tr1 init ex_prog)) = 6.
Proof. vm_compute. split; reflexivity. Qed.

Example C17_istype_hypothesis_satisfiable :
  get_reg 7 (sregs (s_run tr1 s_init ex_prog)) = Some (SLive 2024 11).
Proof. vm_compute. reflexivity. Qed.

Example C17_chain_nontrivial :
  chain 0 [HMove; HQueue; HMove] = [Move 0 1; Enqueue 1; Take 2; Move 2 3] /\
  run_case 16 16 tr1 (Make 0 1025 90 42 :: chain 0 [HMove; HQueue; HMove] ++ [Get 3; IsType 3 1025; Addr 3; Where 3])
  = [EGet 42; EIsType true; EAddr true; EWhere false; ELedger 0]%Z.
Proof. vm_compute. split; reflexivity. Qed.

(* at the end of ex_prog 8 objects are live and owned (payloads, moved-from shells, boxes and
   empty boxes); after the cleanup all 19 objects ever constructed are dead *)
Example C17_once_nontrivial :
  length (owned (run 16 16 tr1 init (firstn 11 ex_prog))) = 4 /\
  length (owned (run 16 16 tr1 init ex_prog)) = 8 /\
  length (dead (led (final 16 16 tr1 ex_prog))) = 19 /\ next (led (final 16 16 tr1 ex_prog)) = 19.
Proof. vm_compute. repeat split. Qed.

(* the same program with every size changed and another capacity: `where` differs, nothing else *)
Definition ex_prog' : list cmd :=
  [Make 0 1017 3 5; Make 1 16 900 7; Where 0; Where 1; Move 0 2; Get 2; Get 0; IsType 2 1017; IsType 2 1016;
   Addr 2; Ledger; Destroy 0; Ledger; Enqueue 2; QMake 3016 64 9; Enqueue 1; Take 4; Get 4; Process;
   Make 5 2024 65 11; Move 5 6; Move 6 7; Make 7 0 1 0; MaxSz [1; 17; 15]%N].

Example C17_size_uniform_nontrivial :
  Forall2 reshape ex_prog ex_prog' /\
  run_case 16 16 tr1 ex_prog <> run_case 64 16 tr1 ex_prog' /\
  map erase (run_case 16 16 tr1 ex_prog) = map erase (run_case 64 16 tr1 ex_prog').
Proof.
  split; [repeat constructor|]. split; [vm_compute; discriminate | vm_compute; reflexivity].
Qed.
