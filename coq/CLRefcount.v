(* CLRefcount.v — C08: reference counting releases the removed nodes of a callback list.

   The executable models treat shared_ptr life time as reachability.  What std::shared_ptr does is counting: an object is
   destroyed when the last strong reference to it goes away, and its own references go away with it.  The two agree
   exactly when the unreachable part has no cycle.  Here, first for any finite graph: if a set D of nodes is closed under
   referrers (whatever refers to a node of D is in D: nothing outside keeps it alive) and ranked (every reference between
   nodes of D goes to a strictly higher rank), then the nodes of D can be released one after the other, each at a moment
   when every node that refers to it has already been released — its count is zero.  Then for the callback list: after
   ANY history of critical sections, the removed nodes that no traversal in progress can still reach form such a set (live
   nodes never refer to removed ones: CLCycle.ginv_neighbours; ranking by removal: CLCycle.ACM).  So a removed callback is
   released as soon as no invocation that was running when it was removed still stands on a node from which it can be
   reached — with no invocation in progress: every removed node. *)
From Coq Require Import List Arith NArith ZArith Bool Lia.
From EV Require Import CLModel CLHeap CLOps CLRefine CLConcProofs CLCycle.
From EV.gen Require GenCL.
Import ListNotations.
Local Open Scope nat_scope.

Section GRAPH.
  Variable n : nat.                        (* nodes are 0 .. n-1 *)
  Variable edge : nat -> nat -> Prop.      (* x holds a strong reference to y *)
  Variable D : nat -> bool.                (* the set to be released *)
  Variable rk : nat -> nat.
  Variable M : nat.
  Hypothesis D_bound : forall x, D x = true -> x < n /\ rk x < M.
  Hypothesis D_closed : forall y x, edge y x -> D x = true -> D y = true.
  Hypothesis D_ranked : forall y x, edge y x -> D y = true -> D x = true -> rk y < rk x.

  (* the nodes of D of rank r, then the release order: rank 0 first *)
  Definition layer (r : nat) : list nat := filter (fun x => D x && Nat.eqb (rk x) r) (seq 0 n).
  Fixpoint upto (m : nat) : list nat := match m with 0 => [] | S k => upto k ++ layer k end.

  Lemma in_layer r x : In x (layer r) <-> D x = true /\ rk x = r /\ x < n.
  Proof.
    unfold layer. rewrite filter_In, in_seq, andb_true_iff, Nat.eqb_eq. split.
    - intros [A [B C]]. repeat split; auto; lia.
    - intros [A [B C]]. repeat split; auto; lia.
  Qed.

  Lemma in_upto m x : In x (upto m) <-> D x = true /\ rk x < m /\ x < n.
  Proof.
    induction m as [|k IH]; cbn [upto].
    - split; [intros []|intros [_ [H _]]; lia].
    - rewrite in_app_iff, IH, in_layer. split.
      + intros [[A [B C]]|[A [B C]]]; repeat split; auto; lia.
      + intros [A [B C]]. destruct (Nat.eq_dec (rk x) k); [right|left]; repeat split; auto; lia.
  Qed.

  Lemma nodup_layer r : NoDup (layer r).
  Proof. unfold layer. apply NoDup_filter. apply seq_NoDup. Qed.

  Lemma nodup_app_disjoint (a b : list nat) :
    NoDup a -> NoDup b -> (forall x, In x a -> In x b -> False) -> NoDup (a ++ b).
  Proof.
    induction a as [|x a IH]; intros Ha Hb Hd; cbn [app]; [exact Hb|].
    inversion Ha as [|? ? Hx Ha']; subst. constructor.
    - intro H. apply in_app_or in H. destruct H as [H|H]; [contradiction|]. apply (Hd x); [left; reflexivity|exact H].
    - apply IH; auto. intros y Hy Hy'. apply (Hd y); [right; exact Hy|exact Hy'].
  Qed.

  Lemma nodup_upto m : NoDup (upto m).
  Proof.
    induction m as [|k IH]; cbn [upto]; [constructor|].
    apply nodup_app_disjoint; [exact IH|apply nodup_layer|].
    intros x Hx Hl. apply in_upto in Hx. apply in_layer in Hl. lia.
  Qed.

  Lemma split_unique : forall (pre p1 post p2 : list nat) x,
    NoDup (pre ++ x :: post) -> pre ++ x :: post = p1 ++ x :: p2 -> pre = p1.
  Proof.
    induction pre as [|a pre IH]; intros p1 post p2 x N E.
    - destruct p1 as [|b p1]; [reflexivity|]. cbn [app] in E. injection E as Eb Er. subst b.
      exfalso. cbn [app] in N. inversion N as [|? ? Hn _]; subst. apply Hn. apply in_or_app. right. left. reflexivity.
    - destruct p1 as [|b p1].
      + cbn [app] in E. injection E as Ea Er. subst a. exfalso. cbn [app] in N. inversion N as [|? ? Hn _]; subst.
        apply Hn. apply in_or_app. right. left. reflexivity.
      + cbn [app] in E. injection E as Ea Er. subst b. f_equal. cbn [app] in N. inversion N; subst. eapply IH; eauto.
  Qed.

  Lemma prefix_before : forall (u v pre post : list nat) x,
    u ++ v = pre ++ x :: post -> ~ In x u -> forall y, In y u -> In y pre.
  Proof.
    induction u as [|a u IH]; intros v pre post x E Nx y Hy; [destruct Hy|].
    destruct pre as [|b pre].
    - cbn [app] in E. inversion E; subst. exfalso. apply Nx. left. reflexivity.
    - cbn [app] in E. inversion E; subst b. destruct Hy as [<-|Hy]; [left; reflexivity|right].
      eapply IH; [eassumption|intro H; apply Nx; right; exact H|exact Hy].
  Qed.

  (* in the order upto M: whoever refers to x stands before x *)
  Lemma referrers_first : forall m pre x post,
    upto m = pre ++ x :: post -> forall y, edge y x -> In y pre.
  Proof.
    induction m as [|k IH]; intros pre x post E y He; cbn [upto] in E.
    - destruct pre; discriminate.
    - assert (Hx : In x (upto k ++ layer k)) by (rewrite E; apply in_or_app; right; left; reflexivity).
      assert (Dx : D x = true) by (apply in_app_or in Hx; destruct Hx as [H|H]; [apply in_upto in H|apply in_layer in H]; tauto).
      assert (Dy : D y = true) by (eapply D_closed; eauto).
      assert (Ry : rk y < rk x) by (eapply D_ranked; eauto).
      destruct (D_bound y Dy) as [By _].
      apply in_app_or in Hx. destruct Hx as [Hx|Hx].
      + (* x in upto k: the same position there *)
        destruct (in_split _ _ Hx) as [p1 [p2 E1]].
        assert (Epre : pre = p1).
        { apply (split_unique pre p1 post (p2 ++ layer k) x).
          - rewrite <- E. apply (nodup_upto (S k)).
          - rewrite <- E, E1, <- app_assoc. reflexivity. }
        subst pre. eapply IH; [exact E1|exact He].
      + (* x in layer k: y has a smaller rank, so it is in upto k, all of which stands before x *)
        apply in_layer in Hx. destruct Hx as [_ [Rx _]].
        assert (Hy : In y (upto k)) by (apply in_upto; repeat split; auto; lia).
        assert (Nx : ~ In x (upto k)) by (intro H; apply in_upto in H; lia).
        eapply prefix_before; eauto.
  Qed.

  (* THE THEOREM: D can be released node by node, each with no referrer left *)
  Theorem counting_releases_ranked_sets :
    exists order : list nat,
      NoDup order /\ (forall x, In x order <-> D x = true) /\
      forall pre x post, order = pre ++ x :: post -> forall y, edge y x -> In y pre.
  Proof.
    exists (upto M). split; [apply nodup_upto|]. split.
    - intros x. rewrite in_upto. split; [tauto|]. intros Dx. destruct (D_bound x Dx). tauto.
    - apply referrers_first.
  Qed.
End GRAPH.

(* ---------- the callback list ---------- *)
(* x refers to y: y is x's previous or next *)
Definition refers (h : list node) (x y : nat) : Prop :=
  exists nd, nth_error h x = Some nd /\ (prv nd = Some y \/ nxt nd = Some y).

(* reachable from a pinned node (a node some traversal in progress stands on) through previous / next *)
Inductive pinned (h : list node) (pins : list nat) : nat -> Prop :=
| pin_root x : In x pins -> pinned h pins x
| pin_step x y : pinned h pins x -> refers h x y -> pinned h pins y.

(* the removed nodes nothing can reach any more, given which nodes are still reachable from pins (any decision procedure
   `keep` for `pinned` will do) *)
Theorem counting_releases_unpinned_removed_nodes g ids pins (keep : nat -> bool) :
  GInv g ids -> ACM (heap g) ->
  (forall x, keep x = true <-> pinned (heap g) pins x) ->
  exists order : list nat,
    NoDup order /\
    (forall x, In x order <-> deadb (heap g) x = true /\ keep x = false) /\
    forall pre x post, order = pre ++ x :: post -> forall y, refers (heap g) y x -> In y pre.
Proof.
  intros G (rk & M & A & B) HK.
  assert (X : exists order : list nat,
            NoDup order /\ (forall x, In x order <-> deadb (heap g) x && negb (keep x) = true) /\
            forall pre x post, order = pre ++ x :: post -> forall y, refers (heap g) y x -> In y pre);
    [|destruct X as [order [N [I R]]]; exists order; split; [exact N|]; split; [|exact R];
      intros x; rewrite I, andb_true_iff, negb_true_iff; tauto].
  apply (counting_releases_ranked_sets (length (heap g)) (refers (heap g))
           (fun x => deadb (heap g) x && negb (keep x)) rk M).
  - intros x Hx. apply andb_true_iff in Hx. destruct Hx as [Hd _]. split; [apply deadb_lt; exact Hd|apply A; exact Hd].
  - (* whatever refers to such a node is such a node: live nodes refer to live nodes only, pinned nodes pin what they refer to *)
    intros y x [nd [Hn E]] Hx. apply andb_true_iff in Hx. destruct Hx as [Hd Hk]. apply negb_true_iff in Hk.
    apply andb_true_iff. split.
    + destruct (deadb (heap g) y) eqn:Dy; [reflexivity|exfalso].
      (* y is not removed: it is in the list, and so is everything it refers to *)
      assert (Iy : In y ids).
      { unfold deadb in Dy. rewrite Hn in Dy. apply N.eqb_neq in Dy. eapply gi_live; eauto. }
      assert (Ix := ginv_neighbours g ids y nd x G Iy Hn E).
      rewrite (deadb_live_iff g ids x G Ix) in Hd. discriminate.
    + apply negb_true_iff. destruct (keep y) eqn:Ky; [exfalso|reflexivity].
      apply HK in Ky. assert (Px : pinned (heap g) pins x) by (eapply pin_step; [exact Ky|exists nd; auto]).
      apply HK in Px. congruence.
  - intros y x [nd [Hn E]] Hy Hx. apply andb_true_iff in Hy. apply andb_true_iff in Hx. eapply B; [tauto|tauto|exact Hn|exact E].
Qed.

(* with no traversal in progress: every removed node *)
Corollary counting_releases_all_removed_nodes g ids :
  GInv g ids -> ACM (heap g) ->
  exists order : list nat,
    NoDup order /\ (forall x, In x order <-> deadb (heap g) x = true) /\
    forall pre x post, order = pre ++ x :: post -> forall y, refers (heap g) y x -> In y pre.
Proof.
  intros G A.
  destruct (counting_releases_unpinned_removed_nodes g ids [] (fun _ => false) G A) as [order [N [I R]]].
  - intros x. split; [discriminate|]. intros P. exfalso. induction P as [x []|x y _ IH _]; exact IH.
  - exists order. split; [exact N|]. split; [|exact R]. intros x. rewrite I. tauto.
Qed.

(* after every history of critical sections, starting from the empty list *)
Theorem counting_releases_after_any_history l pins (keep : nat -> bool) :
  Forall sec_counter_ok l ->
  let g := fst (run_secs empty_group l) in
  (forall x, keep x = true <-> pinned (heap g) pins x) ->
  exists order : list nat,
    NoDup order /\
    (forall x, In x order <-> deadb (heap g) x = true /\ keep x = false) /\
    forall pre x post, order = pre ++ x :: post -> forall y, refers (heap g) y x -> In y pre.
Proof.
  intros Hk g HK.
  destruct (sections_in_any_order_refine_list_spec l empty_group [] ginv_empty Hk) as [G _].
  exact (counting_releases_unpinned_removed_nodes g _ pins keep G (from_the_empty_list l Hk) HK).
Qed.

(* three callbacks appended, the first two removed, nothing pinned: both removed nodes are released, node 0 (removed first,
   its next still refers to node 1) before node 1 *)
Example release_order_example :
  let g := fst (run_secs empty_group [SBack 1 1%N; SBack 2 2%N; SBack 3 3%N; SRemove (Some 0); SRemove (Some 1)]) in
  map (deadb (heap g)) [0; 1; 2] = [true; true; false] /\
  (exists nd, nth_error (heap g) 0 = Some nd /\ nxt nd = Some 1) /\
  (exists nd, nth_error (heap g) 1 = Some nd /\ nxt nd = Some 2 /\ prv nd = None).
Proof. vm_compute. split; [reflexivity|]. split; eexists; split; try reflexivity. split; reflexivity. Qed.
