(* QOrdered.v — OrderedQueueList: the stable sort with the header's comparison lambda.
   For every strict weak order on keys: the result is a permutation, has no inversion,
   keeps the relative order of events the comparator does not separate, never consults
   the user comparator on an empty slot, and leaves a free list (all slots empty) alone. *)
From Coq Require Import List Arith NArith ZArith Bool Lia Permutation Sorted.
From EV Require Import QModel.
From EV.gen Require GenQ.
Import ListNotations.
Local Open Scope nat_scope.

Section Ordered.
  Variable klt : nat -> nat -> bool.
  Hypothesis klt_irrefl : forall a, klt a a = false.
  Hypothesis klt_trans : forall a b c, klt a b = true -> klt b c = true -> klt a c = true.
  Hypothesis klt_incomp_trans : forall a b c,
    klt a b = false -> klt b a = false -> klt b c = false -> klt c b = false -> klt a c = false /\ klt c a = false.

  Notation slt := (slot_lt klt).

  (* the lambda never asks the user comparator about an empty slot *)
  Lemma slot_lt_none_l b : slt None b = match b with None => false | Some _ => true end.
  Proof. unfold slot_lt, GenQ.slot_lt. destruct b; reflexivity. Qed.
  Lemma slot_lt_none_r a : slt a None = false.
  Proof. unfold slot_lt, GenQ.slot_lt. destruct a; reflexivity. Qed.
  Lemma slot_lt_some x y : slt (Some x) (Some y) = klt (ekey x) (ekey y).
  Proof. unfold slot_lt, GenQ.slot_lt. reflexivity. Qed.

  Lemma slt_irrefl a : slt a a = false.
  Proof. destruct a; [rewrite slot_lt_some; apply klt_irrefl|reflexivity]. Qed.

  Lemma slt_trans a b c : slt a b = true -> slt b c = true -> slt a c = true.
  Proof.
    destruct a as [x|], b as [y|], c as [z|]; rewrite ?slot_lt_some, ?slot_lt_none_l, ?slot_lt_none_r; try discriminate; auto.
    apply klt_trans.
  Qed.

  (* a does not come after b:  ~ (b < a) *)
  Definition sle (a b : slot) : Prop := slt b a = false.

  Lemma sle_trans a b c : sle a b -> sle b c -> sle a c.
  Proof.
    unfold sle. intros H1 H2.
    destruct (slt c a) eqn:E; [|reflexivity]. exfalso.
    (* c < a, not b < a, not c < b : then a ~ b or a < b ; b ~ c or b < c *)
    destruct (slt a b) eqn:Eab.
    - rewrite (slt_trans c a b E Eab) in H2. discriminate.
    - destruct (slt b c) eqn:Ebc.
      + (* b < c < a  contradicts not b < a *) rewrite (slt_trans b c a Ebc E) in H1. discriminate.
      + (* a ~ b, b ~ c  =>  a ~ c *)
        destruct a as [x|], b as [y|], c as [z|]; rewrite ?slot_lt_some, ?slot_lt_none_l, ?slot_lt_none_r in *; try discriminate.
        destruct (klt_incomp_trans (ekey x) (ekey y) (ekey z) Eab H1 Ebc H2) as [_ X]. congruence.
  Qed.

  Lemma sinsert_perm x l : Permutation (x :: l) (sinsert klt x l).
  Proof.
    induction l as [|y t IH]; simpl; [reflexivity|].
    destruct (slt y x); [|reflexivity].
    eapply perm_trans; [apply perm_swap|]. apply perm_skip. exact IH.
  Qed.

  Theorem ssort_perm l : Permutation l (ssort klt l).
  Proof.
    induction l as [|x t IH]; simpl; [constructor|].
    eapply perm_trans; [apply perm_skip; exact IH|apply sinsert_perm].
  Qed.

  Lemma sinsert_sorted x l : StronglySorted sle l -> StronglySorted sle (sinsert klt x l).
  Proof.
    intros H. induction H as [|y t Ht IH Hy]; simpl; [constructor; constructor|].
    destruct (slt y x) eqn:E.
    - constructor; [exact IH|].
      (* y before everything of sinsert x t *)
      apply (Permutation_Forall (sinsert_perm x t)). constructor; [|exact Hy].
      unfold sle. destruct (slt x y) eqn:E2; [|reflexivity].
      assert (X := slt_trans x y x E2 E). rewrite slt_irrefl in X. discriminate.
    - constructor; [constructor; assumption|].
      constructor; [exact E|].
      (* x <= y <= everything in t *)
      eapply Forall_impl; [|exact Hy]. intros z Hz. apply (sle_trans x y z E Hz).
  Qed.

  (* no inversion in the sorted list: nothing later is strictly smaller than something earlier *)
  Theorem ssort_sorted l : StronglySorted sle (ssort klt l).
  Proof. induction l as [|x t IH]; simpl; [constructor|apply sinsert_sorted; exact IH]. Qed.

  (* sorting a list that is already in order does nothing: in particular equal keys keep their order *)
  Lemma sinsert_head x l : Forall (sle x) l -> sinsert klt x l = x :: l.
  Proof. intros H. destruct l as [|y t]; simpl; [reflexivity|]. inversion H; subst. unfold sle in *. rewrite H2. reflexivity. Qed.

  Theorem ssort_sorted_id l : StronglySorted sle l -> ssort klt l = l.
  Proof.
    intros H. induction H as [|x t Ht IH Hx]; simpl; [reflexivity|]. rewrite IH. apply sinsert_head; exact Hx.
  Qed.

  (* stability: x is placed after exactly the elements strictly smaller than it, so it stays
     in front of every element it is not separated from that was behind it *)
  Lemma sinsert_split x l : exists a b, sinsert klt x l = a ++ x :: b /\ l = a ++ b /\
                                        Forall (fun y => slt y x = true) a /\
                                        (match b with [] => True | y :: _ => slt y x = false end).
  Proof.
    induction l as [|y t IH]; simpl.
    - exists [], []. auto.
    - destruct (slt y x) eqn:E.
      + destruct IH as [a [b [A [B [C D]]]]]. exists (y :: a), b. rewrite A, B. auto.
      + exists [], (y :: t). auto.
  Qed.

  (* the free list: all slots empty — the sort is the identity *)
  Theorem free_list_harmless n : ssort klt (repeat None n) = repeat None n.
  Proof.
    apply ssort_sorted_id. induction n; simpl; constructor; auto.
    clear. induction n; simpl; constructor; auto. reflexivity.
  Qed.

  (* appending a new event to a sorted queue puts it behind everything it is not strictly smaller than *)
  Theorem enqueue_stable l x :
    StronglySorted sle l ->
    exists a b, ssort klt (l ++ [x]) = a ++ x :: b /\ l = a ++ b /\
                Forall (fun y => sle y x) a /\ Forall (fun y => slt x y = true) b.
  Proof.
    intros H. induction H as [|y t Ht IH Hy].
    - simpl. exists [], []. auto.
    - destruct IH as [a [b [A [B [C D]]]]]. simpl. rewrite A.
      (* insert y into a ++ x :: b : y <= everything of t = a ++ b ; where does it go relative to x? *)
      destruct (slt x y) eqn:E.
      + (* x < y: then a must be empty of elements... y <= a's elements and a's elements <= x < y *)
        assert (Ha : a = []).
        { destruct a as [|z a']; [reflexivity|]. exfalso.
          assert (Hzx : sle z x) by (inversion C; assumption).
          assert (Hyz : sle y z) by (rewrite B in Hy; inversion Hy; assumption).
          assert (Y := sle_trans y z x Hyz Hzx). unfold sle in Y. congruence. }
        subst a. simpl in *. exists [], (y :: b).
        rewrite E.
        assert (Hb : sinsert klt y b = y :: b).
        { apply sinsert_head. rewrite B in Hy. exact Hy. }
        rewrite Hb. subst t. auto.
      + (* not x < y : y stays in front *)
        assert (Hall : Forall (sle y) (a ++ x :: b)).
        { rewrite B in Hy. apply Forall_app in Hy. destruct Hy as [Hya Hyb].
          apply Forall_app. split; [exact Hya|]. constructor; [exact E|exact Hyb]. }
        rewrite (sinsert_head y _ Hall). exists (y :: a), b. subst t. simpl. repeat split; auto.
  Qed.
End Ordered.
