(* QConcWake.v — C07, first clause: no wake-up is lost, for EVERY set of thread programs and EVERY schedule.

   Ghosts in QConc (they change no visible action):
     lowes   (per thread)  the thread has made "events pending and notification enabled" true (it put events into
                           queueList: enqueue, the put-back of processIf / processUntil; or it is about to bring
                           queueNotifyCounter down: ~DisableQueueNotify), or it was handed the wake-up (it is a waiter
                           about to park / just woken), and it has since neither called notify_one nor seen — in the
                           same atomic block as the read — that the condition does not hold (queue empty, counter not 0);
     g_awake (shared)      threads that returned from wait / waitFor(true) and have not since found the queue empty
                           or taken all of it (a full swap by process / processIf / processUntil);
     g_under (shared)      queueNotifyCounter went below zero (a DisableQueueNotify destroyed that was never constructed).

   The invariant J, proved for every reachable configuration:
       some thread is parked in wait(), queueList is not empty, queueNotifyCounter = 0, not g_under
       ->  some thread has been notified and not yet run (TWoken), or a running thread holds lowes, or g_awake <> [].
   Its proof is a rely/guarantee argument.  The per-thread assertions are computed by a weakest-precondition
   calculus (wki / wkl) that — unlike the calculi of QConcInv / QConcEmpty — threads the shared state through the
   local code of one atomic block (so that the value a read returned and the branch taken on it stay correlated) and
   lets it change at every visible action only as the other threads can change it (Rely: what a thread that holds
   queueListMutex can count on: the list is not touched and queueNotifyCounter is not decremented — the latter is
   the repaired ~DisableQueueNotify, P7; the discharge of lowes after the put-back is the repaired processIf, P13).

   Consequence (no_lost_wakeup): in a configuration where no thread can run, if a thread is parked in wait() while
   events are pending and notification is enabled, then a thread that was released from wait observing work did not
   drain the queue afterwards (g_awake <> []) — or the program destroyed more DisableQueueNotify objects than it
   constructed.  With nobody in g_awake (e.g. every woken consumer calls process()) such a configuration does not
   exist. *)
From Coq Require Import List Arith NArith ZArith Bool Lia.
From EV Require Import QConc QConcInv.
From EV.gen Require GenQ GenQConc.
Import ListNotations.
Local Open Scope nat_scope.

(* ---------- what thread t can count on while other threads run ---------- *)
Definition Rely (t : nat) (sh sh1 : qshared) : Prop :=
  (oqm sh = Some t <-> oqm sh1 = Some t) /\ (ofm sh = Some t <-> ofm sh1 = Some t) /\
  (oqm sh = Some t -> ql sh1 = ql sh /\ (cnc sh <= cnc sh1)%Z) /\
  (g_under sh = true -> g_under sh1 = true) /\
  (In t (g_awake sh) <-> In t (g_awake sh1)).

Lemma Rely_refl t sh : Rely t sh sh.
Proof. repeat split; auto; lia. Qed.

Lemma Rely_trans t a b c : Rely t a b -> Rely t b c -> Rely t a c.
Proof.
  intros (A1 & A2 & A3 & A4 & A5) (B1 & B2 & B3 & B4 & B5).
  split; [tauto|]. split; [tauto|]. split; [|split; tauto].
  intros Hq. destruct (A3 Hq) as [X Y]. destruct (B3 (proj1 A1 Hq)) as [X' Y']. split; [congruence|lia].
Qed.

Definition GoodSh (sh : qshared) : Prop := g_under sh = false -> (0 <= cnc sh)%Z.

(* one piece of local code of thread t *)
Record kstep (t : nat) (sh : qshared) (lo : qlocals) (sh' : qshared) (lo' : qlocals) : Prop := mkKS {
  k_ql : ql sh' = ql sh \/ oqm sh = Some t;
  k_nc : cnc sh' = cnc sh;
  k_oqm : oqm sh' = oqm sh;
  k_ofm : ofm sh' = ofm sh;
  k_under : g_under sh = true -> g_under sh' = true;
  k_set : ql sh = [] -> ql sh' <> [] -> lowes lo' = true;
  k_drop : lowes lo = true -> lowes lo' = false ->
           ql sh' = [] \/ cnc sh' <> 0%Z \/ In t (g_awake sh') \/ (exists rest, clog sh = CNotify t :: rest);
  k_awake : incl (g_awake sh) (g_awake sh') \/ ql sh' = [] \/ cnc sh' <> 0%Z \/ g_under sh' = true;
  k_self : forall u, u <> t -> (In u (g_awake sh') <-> In u (g_awake sh));
  k_log : clog sh' = clog sh \/ (forall t0 rest, clog sh' <> CNotify t0 :: rest)
}.

Lemma kstep_good t sh lo sh' lo' : kstep t sh lo sh' lo' -> GoodSh sh -> GoodSh sh'.
Proof.
  intros K G U. rewrite (k_nc _ _ _ _ _ K). apply G. destruct (g_under sh) eqn:E; [|reflexivity].
  rewrite (k_under _ _ _ _ _ K E) in U. discriminate U.
Qed.

Lemma kstep_rely t u sh lo sh' lo' : kstep t sh lo sh' lo' -> u <> t -> Rely u sh sh'.
Proof.
  intros K Hu. destruct K as [Kq Kn Ko Kf Ku _ _ _ Ks _].
  split; [rewrite Ko; tauto|]. split; [rewrite Kf; tauto|]. split; [|split; [exact Ku|]].
  - intros X. split; [destruct Kq as [Y|Y]; [exact Y|congruence]|lia].
  - symmetry. apply Ks. exact Hu.
Qed.

(* what the wait loop has established when it is left with result false: the wait timed out, and its last evaluation
   of doCanProcess() was false because emptyQueue() read the list empty and then the in-dispatch counter 0, or because
   the load of queueNotifyCounter returned a non-zero value (that only a timed wait times out is QConcWait's) *)
Definition WX (timed : bool) (lo : qlocals) : Prop :=
  lres lo = false ->
  ltimedout lo = true /\
  ((lbe lo = true /\ lseen lo = true) \/ (lbe lo = false /\ GenQ.can_notify (lreg lo) = false)).

(* ---------- the calculus ---------- *)
Section WK.
Variable t : nat.

(* the visible action of a sync instruction, as QConc.perform has it *)
Definition eff (i : instr) (sh : qshared) (lo : qlocals) : qshared * qlocals :=
  match i with
  | ILock QM => (sh_oqm (sh_log sh (CLock t QM)) (Some t), lo)
  | ILock FM => (sh_ofm (sh_log sh (CLock t FM)) (Some t), lo)
  | IUnlock QM => (sh_oqm (sh_log sh (CUnlock t QM)) None, lo)
  | IUnlock FM => (sh_ofm (sh_log sh (CUnlock t FM)) None, lo)
  | IAInc EC => let v := (cec sh + 1)%Z in (sh_log (sh_ec sh v) (CAInc t EC v), lo_held lo (S (lheld lo)))
  | IAInc NC => let v := (cnc sh + 1)%Z in (sh_log (sh_nc sh v) (CAInc t NC v), lo)
  | IADec EC => let v := (cec sh - 1)%Z in (sh_log (sh_ec sh v) (CADec t EC v), lo_held lo (pred (lheld lo)))
  | IADec NC => let v := (cnc sh - 1)%Z in (sh_log (sh_nc sh v) (CADec t NC v), lo)
  | IALoad EC => (sh_log sh (CALoad t EC (cec sh)), lo_reg lo (cec sh))
  | IALoad NC => (sh_log sh (CALoad t NC (cnc sh)), lo_reg lo (cnc sh))
  | INotify => (sh_log sh (CNotify t), lo)
  | IRead r => (sh_log sh (CRead t r), lo)
  | _ => (sh, lo)
  end.

(* what the thread must know when it performs the action *)
Definition pre (i : instr) (sh : qshared) (lo : qlocals) : Prop :=
  match i with
  | ILock _ => oqm sh <> Some t /\ ofm sh <> Some t
  | IUnlock QM => oqm sh = Some t
  | IUnlock FM => ofm sh = Some t
  | IADec NC => oqm sh = Some t /\ lowes lo = true /\ (g_under sh = true \/ (1 <= cnc sh)%Z)
  | ICvWait _ => oqm sh = Some t /\ ofm sh <> Some t /\ lowes lo = true /\
                 (ql sh = [] \/ cnc sh <> 0%Z \/ g_under sh = true) /\ ~ In t (g_awake sh)
  | _ => True
  end.

Definition wake_sh (sh : qshared) : qshared := sh_oqm (sh_log sh (CCvWake t)) (Some t).

Fixpoint wki (i : instr) (Q : qshared -> qlocals -> Prop) (sh : qshared) (lo : qlocals) {struct i} : Prop :=
  match i with
  | ILocal _ f => kstep t sh lo (fst (f t sh lo)) (snd (f t sh lo)) /\ Q (fst (f t sh lo)) (snd (f t sh lo))
  | IIf _ c a b =>
      if c sh lo
      then (fix wl (l : list instr) (Q : qshared -> qlocals -> Prop) (sh : qshared) (lo : qlocals) {struct l} : Prop :=
              match l with [] => Q sh lo | j :: r => wki j (wl r Q) sh lo end) a Q sh lo
      else (fix wl (l : list instr) (Q : qshared -> qlocals -> Prop) (sh : qshared) (lo : qlocals) {struct l} : Prop :=
              match l with [] => Q sh lo | j :: r => wki j (wl r Q) sh lo end) b Q sh lo
  | IRes => Q (sh_log sh (CRes t (lres lo))) lo
  | IDone => Q (sh_log sh (CDone t)) lo
  | IWaitLoop timed =>
      oqm sh = Some t /\ ofm sh <> Some t /\
      forall sh' lo', oqm sh' = Some t -> ofm sh' <> Some t -> lowes lo' = false -> WX timed lo' -> Q sh' lo'
  | ICvWait _ =>
      forall sh1, Rely t sh sh1 -> GoodSh sh1 ->
        pre i sh1 lo /\
        forall sh2 b, GoodSh sh2 -> ofm sh2 <> Some t -> Q (wake_sh sh2) (lo_to lo b)
  | _ => forall sh1, Rely t sh sh1 -> GoodSh sh1 -> pre i sh1 lo /\ Q (fst (eff i sh1 lo)) (snd (eff i sh1 lo))
  end.

Fixpoint wkl (l : list instr) (Q : qshared -> qlocals -> Prop) (sh : qshared) (lo : qlocals) {struct l} : Prop :=
  match l with [] => Q sh lo | j :: r => wki j (wkl r Q) sh lo end.

Lemma wki_if r c a b Q sh lo :
  wki (IIf r c a b) Q sh lo = (if c sh lo then wkl a Q sh lo else wkl b Q sh lo).
Proof. reflexivity. Qed.

Definition kmono_at (i : instr) : Prop :=
  forall (Q Q' : qshared -> qlocals -> Prop) sh lo, (forall x y, Q x y -> Q' x y) -> wki i Q sh lo -> wki i Q' sh lo.

Lemma wkl_mono_F l : Forall kmono_at l ->
  forall (Q Q' : qshared -> qlocals -> Prop) sh lo, (forall x y, Q x y -> Q' x y) -> wkl l Q sh lo -> wkl l Q' sh lo.
Proof.
  induction 1 as [|j r Hj _ IH]; intros Q Q' sh lo HQ H; cbn [wkl] in *.
  - apply HQ; exact H.
  - eapply Hj; [|exact H]. intros x y Hx. eapply IH; eauto.
Qed.

Lemma wki_mono i : kmono_at i.
Proof.
  induction i as [i Hn | r c a b Ha Hb] using instr_ind'.
  - intros Q Q' sh lo HQ H.
    destruct i as [m|m|a|a|a| |timed|tt f|r c x y|timed| | | |rr]; try contradiction; cbn [wki] in *.
    all: try (intros sh1 R G; destruct (H sh1 R G) as [H1 H2]; split; [exact H1|]; try (apply HQ; exact H2)).
    + intros sh2 b G2 F2. apply HQ. apply H2; assumption.
    + destruct H as [H1 H2]. split; [exact H1 | apply HQ; exact H2].
    + destruct H as (H1 & H2 & H3). split; [exact H1|]. split; [exact H2|]. intros sh' lo' A B C D. apply HQ. apply H3; assumption.
    + apply HQ; exact H.
    + apply HQ; exact H.
  - intros Q Q' sh lo HQ H. rewrite wki_if in *. destruct (c sh lo).
    + eapply wkl_mono_F; eauto.
    + eapply wkl_mono_F; eauto.
Qed.

Lemma wkl_mono l : forall (Q Q' : qshared -> qlocals -> Prop) sh lo, (forall x y, Q x y -> Q' x y) -> wkl l Q sh lo -> wkl l Q' sh lo.
Proof. apply wkl_mono_F. apply Forall_forall. intros i _. apply wki_mono. Qed.

Lemma wkl_app a : forall b Q sh lo, wkl (a ++ b) Q sh lo <-> wkl a (wkl b Q) sh lo.
Proof.
  induction a as [|j r IH]; intros b Q sh lo; cbn [wkl app]; [tauto|].
  split; intros H; (eapply wki_mono; [|exact H]); intros x y Hx; apply IH; exact Hx.
Qed.

(* a call ends: nothing is owed, no mutex is held *)
Definition Post (sh : qshared) (lo : qlocals) : Prop := lowes lo = false /\ oqm sh <> Some t /\ ofm sh <> Some t.

End WK.

(* ---------- symbolic execution ---------- *)
Ltac ksimpl := cbn [fst snd eff pre wake_sh] in *; sh_simpl; lo_simpl.

Ltac wk1 :=
  cbv beta;
  lazymatch goal with
  | |- wkl _ [] ?Q ?sh ?lo => change (Q sh lo)
  | |- wkl ?t (?j :: ?r) ?Q ?sh ?lo => change (wki t j (wkl t r Q) sh lo)
  | |- wkl _ (_ ++ _) _ _ _ => apply wkl_app
  | |- wki _ (IIf _ _ _ _) _ _ _ =>
      rewrite wki_if; cbv beta; lo_simpl;
      match goal with |- if ?c then _ else _ => let Hc := fresh "Hc" in destruct c eqn:Hc end
  | |- wki ?t (ILocal _ ?f) ?Q ?sh ?lo =>
      change (kstep t sh lo (fst (f t sh lo)) (snd (f t sh lo)) /\ Q (fst (f t sh lo)) (snd (f t sh lo)));
      cbv beta; ksimpl;
      repeat (match goal with
              | |- context[fst (match ?x with _ => _ end)] => let E := fresh "E" in destruct x eqn:E; ksimpl
              | H : ?x = _ |- context[if ?x then _ else _] => rewrite H; ksimpl
              | |- context[if ?x then _ else _] => let E := fresh "E" in destruct x eqn:E; ksimpl
              end);
      split
  | |- wki ?t IRes ?Q ?sh ?lo => change (Q (sh_log sh (CRes t (lres lo))) lo)
  | |- wki ?t IDone ?Q ?sh ?lo => change (Q (sh_log sh (CDone t)) lo)
  | |- wki ?t (IWaitLoop ?timed) ?Q ?sh ?lo =>
      change (oqm sh = Some t /\ ofm sh <> Some t /\
              forall sh' lo', oqm sh' = Some t -> ofm sh' <> Some t -> lowes lo' = false -> WX timed lo' -> Q sh' lo')
  | |- wki ?t (ICvWait ?timed) ?Q ?sh ?lo =>
      change (forall sh1, Rely t sh sh1 -> GoodSh sh1 ->
                pre t (ICvWait timed) sh1 lo /\
                forall sh2 b, GoodSh sh2 -> ofm sh2 <> Some t -> Q (wake_sh t sh2) (lo_to lo b));
      let sh1 := fresh "sh" in let R := fresh "R" in let G := fresh "G" in intros sh1 R G; split
  | |- wki ?t ?i ?Q ?sh ?lo =>
      change (forall sh1, Rely t sh sh1 -> GoodSh sh1 -> pre t i sh1 lo /\ Q (fst (eff t i sh1 lo)) (snd (eff t i sh1 lo)));
      let sh1 := fresh "sh" in let R := fresh "R" in let G := fresh "G" in intros sh1 R G; split; [|ksimpl]
  end.

(* the shared state reached after some more blocks of this thread, as seen from an earlier one *)
Ltac rely_simpl :=
  repeat match goal with
         | R : Rely _ _ _ |- _ =>
             let Rq := fresh "Rq" in let Rf := fresh "Rf" in let Rl := fresh "Rl" in let Ru := fresh "Ru" in
             destruct R as (Rq & Rf & Rl & Ru)
         end; ksimpl.

Lemma Rely_log t sh sh1 e : Rely t sh sh1 -> Rely t sh (sh_log sh1 e).
Proof. intros H. exact H. Qed.

(* a piece of local code that touches nothing the argument looks at *)
Lemma kstep_same t sh lo sh' lo' :
  ql sh' = ql sh -> cnc sh' = cnc sh -> oqm sh' = oqm sh -> ofm sh' = ofm sh -> g_under sh' = g_under sh ->
  g_awake sh' = g_awake sh -> clog sh' = clog sh -> (lowes lo = true -> lowes lo' = true) -> kstep t sh lo sh' lo'.
Proof.
  intros A B C D E F G H. split; auto.
  - congruence.
  - intros X Y. congruence.
  - intros X Y. rewrite (H X) in Y. discriminate Y.
  - left. rewrite F. apply incl_refl.
  - intros u _. rewrite F. tauto.
Qed.

Ltac ks_same := apply kstep_same; ksimpl; try reflexivity; try (intros; assumption); try congruence.

(* local code that changes ghosts only *)
Lemma kstep_ghost t sh lo sh' lo' :
  ql sh' = ql sh -> cnc sh' = cnc sh -> oqm sh' = oqm sh -> ofm sh' = ofm sh -> (g_under sh = true -> g_under sh' = true) ->
  clog sh' = clog sh ->
  (incl (g_awake sh) (g_awake sh') \/ ql sh' = [] \/ cnc sh' <> 0%Z \/ g_under sh' = true) ->
  (forall u, u <> t -> (In u (g_awake sh') <-> In u (g_awake sh))) ->
  (lowes lo = true -> lowes lo' = false ->
   ql sh' = [] \/ cnc sh' <> 0%Z \/ In t (g_awake sh') \/ (exists rest, clog sh = CNotify t :: rest)) ->
  kstep t sh lo sh' lo'.
Proof.
  intros A B C D E F G S H. split; auto.
  intros X Y. congruence.
Qed.

Lemma awake_self_same (t : nat) (l : list nat) : forall u, u <> t -> (In u l <-> In u l).
Proof. tauto. Qed.
Lemma awake_self_cons (t : nat) (l : list nat) : forall u, u <> t -> (In u (t :: l) <-> In u l).
Proof. intros u Hu. cbn [In]. split; [intros [X|X]; [congruence|exact X]|auto]. Qed.
Lemma awake_self_remove (t : nat) (l : list nat) : forall u, u <> t -> (In u (remove Nat.eq_dec t l) <-> In u l).
Proof. intros u Hu. split; [intros X; apply in_remove in X; tauto|intros X; apply in_in_remove; assumption]. Qed.

Lemma nonempty_false {A} (l : list A) : nonempty l = false -> l = [].
Proof. destruct l; [reflexivity|discriminate]. Qed.
Lemma nonempty_true {A} (l : list A) : nonempty l = true -> l <> [].
Proof. destruct l; [discriminate|intros _ X; discriminate X]. Qed.

Ltac ks_ghost :=
  apply kstep_ghost; ksimpl; try reflexivity; try (intros; assumption);
  try (left; apply incl_refl); try (left; apply incl_tl; apply incl_refl);
  try apply awake_self_same; try apply awake_self_cons; try apply awake_self_remove;
  try (let X := fresh in let Y := fresh in intros X Y; congruence).

Lemma eem_wk t (Q : qshared -> qlocals -> Prop) sh lo :
  (forall sh' lo', Rely t sh sh' -> GoodSh sh' ->
     (lbe lo' = true -> lowes lo' = false) -> (lowes lo = false -> lowes lo' = false) ->
     (oqm sh = Some t -> lbe lo' = true -> ql sh' = []) ->
     ((lbe lo' = true -> lseen lo' = true) /\ ltimedout lo' = ltimedout lo) -> Q sh' lo') ->
  wkl t eval_empty Q sh lo.
Proof.
  intros H. unfold eval_empty. cbv beta iota delta [GenQ.empty_queue_reads].
  repeat wk1; try exact I.
  - ks_ghost. intros X Y. left. apply nonempty_false. apply negb_true_iff. exact Hc.
  - ks_ghost.
  - apply negb_true_iff in Hc. apply nonempty_false in Hc.
    apply H; ksimpl.
    + eapply Rely_trans; [exact R|exact R0].
    + exact G0.
    + intros _. rewrite Hc. cbn [nonempty]. apply andb_false_r.
    + intros X. rewrite X. reflexivity.
    + intros Hq _. destruct R as (Rq & _ & _ & _). destruct R0 as (_ & _ & Rl & _). ksimpl.
      destruct (Rl (proj1 Rq Hq)) as [X _]. congruence.
    + split; [|reflexivity]. intros _. rewrite Hc. reflexivity.
  - ks_ghost.
  - apply H; ksimpl.
    + exact R.
    + exact G.
    + intros X; discriminate X.
    + intros X; exact X.
    + intros _ X; discriminate X.
    + split; [|reflexivity]. intros X; discriminate X.
Qed.

Lemma can_notify_spec v : GenQ.can_notify v = (v =? 0)%Z.
Proof. reflexivity. Qed.

Lemma een_wk t (Q : qshared -> qlocals -> Prop) sh lo :
  (forall sh' lo', Rely t sh sh' -> GoodSh sh' ->
     (lb lo' = false -> lowes lo' = false) -> (lowes lo = false -> lowes lo' = false) ->
     (lb lo' = false -> (0 < cnc sh')%Z \/ g_under sh' = true) ->
     (lb lo' = GenQ.can_notify (lreg lo') /\ lbe lo' = lbe lo /\ lseen lo' = lseen lo /\ ltimedout lo' = ltimedout lo) -> Q sh' lo') ->
  wkl t eval_can_notify Q sh lo.
Proof.
  intros H. unfold eval_can_notify.
  repeat wk1; try exact I.
  - ks_ghost. intros X Y. right. left. rewrite X in Y. cbn [andb] in Y. apply Z.eqb_neq. exact Y.
  - apply H; ksimpl.
    + exact R.
    + exact G.
    + rewrite can_notify_spec. intros X. rewrite X. apply andb_false_r.
    + intros X. rewrite X. reflexivity.
    + rewrite can_notify_spec. intros X. apply Z.eqb_neq in X.
      destruct (g_under sh0) eqn:U; [right; reflexivity|left]. specialize (G U). lia.
    + repeat split; reflexivity.
Qed.

Lemma ecp_wk t (Q : qshared -> qlocals -> Prop) sh lo :
  (forall sh' lo', Rely t sh sh' -> GoodSh sh' ->
     (lb lo' = false -> lowes lo' = false) -> (lowes lo = false -> lowes lo' = false) ->
     (oqm sh = Some t -> lb lo' = false -> ql sh' = [] \/ (0 < cnc sh')%Z \/ g_under sh' = true) ->
     ((lb lo' = false -> (lbe lo' = true /\ lseen lo' = true) \/ (lbe lo' = false /\ GenQ.can_notify (lreg lo') = false)) /\
      ltimedout lo' = ltimedout lo) ->
     Q sh' lo') ->
  wkl t eval_can_process Q sh lo.
Proof.
  intros H. unfold eval_can_process. apply wkl_app. apply eem_wk.
  intros sh1 lo1 R1 G1 A1 B1 C1 (D1 & T1). repeat wk1.
  - ks_ghost.
  - apply H; ksimpl; auto.
  - apply een_wk. intros sh2 lo2 R2 G2 A2 B2 C2 (D2 & D3 & D4 & T2). apply H; auto.
    + eapply Rely_trans; eauto.
    + split; [|congruence]. intros X. right. split; [congruence|]. rewrite <- D2. exact X.
Qed.

Lemma wait_loop_wk t timed (Q : qshared -> qlocals -> Prop) sh lo :
  oqm sh = Some t -> ofm sh <> Some t ->
  (forall sh' lo', oqm sh' = Some t -> ofm sh' <> Some t -> lowes lo' = false -> WX timed lo' -> Q sh' lo') ->
  wkl t (wait_loop timed) Q sh lo.
Proof.
  intros Hq Hf H. unfold wait_loop. apply wkl_app. apply ecp_wk.
  intros sh1 lo1 R1 G1 A1 B1 C1 D1.
  assert (Hq1 : oqm sh1 = Some t) by (destruct R1 as (X & _); tauto).
  assert (Hf1 : ofm sh1 <> Some t) by (destruct R1 as (_ & X & _); tauto).
  repeat wk1.
  - ks_ghost. intros _ _. right. right. left. left. reflexivity.
  - apply H; ksimpl; auto. intros X; discriminate X.
  - ks_ghost. destruct (C1 Hq eq_refl) as [Z|[Z|Z]]; [right; left; exact Z|right; right; left; lia|right; right; right; exact Z].
  - (* about to park: the predicate was false on values that still stand *)
    ksimpl. destruct R as (Rq & Rf & Rl & Ru & Ra). ksimpl. destruct (Rl Hq1) as [X Y].
    split; [tauto|]. split; [tauto|]. split; [reflexivity|]. split.
    + destruct (C1 Hq eq_refl) as [Z|[Z|Z]].
      * left. congruence.
      * right. left. lia.
      * right. right. auto.
    + intros In0. apply Ra in In0. apply remove_In in In0. exact In0.
  - intros sh2 b G2 F2. repeat wk1.
    + (* timed out: one more evaluation of the predicate, then return its value *)
      apply ecp_wk. intros sh3 lo3 R3 G3 A3 B3 C3 D3.
      assert (Hq3 : oqm sh3 = Some t) by (destruct R3 as (X & _); apply X; reflexivity).
      assert (Hf3 : ofm sh3 <> Some t) by (destruct R3 as (_ & X & _); ksimpl; tauto).
      destruct D3 as [D3 Lt3]. ksimpl.
      repeat wk1.
      * ks_ghost. intros _ _. right. right. left. left. reflexivity.
      * apply H; ksimpl; auto; [apply andb_false_r|intros X; discriminate X].
      * ks_ghost. intros X Y. rewrite (A3 eq_refl) in X. discriminate X.
      * apply H; ksimpl; auto; [rewrite (A3 eq_refl); reflexivity|]. intros _. split; [exact Lt3|]. apply D3. reflexivity.
    + ksimpl. split; [reflexivity|]. split; [exact F2|]. intros sh' lo' A B C D. apply H; assumption.
Qed.


Ltac wk2 :=
  first [ wk1
        | lazymatch goal with
          | |- wkl _ eval_can_process _ _ _ => apply ecp_wk
          | |- wkl _ eval_empty _ _ _ => apply eem_wk
          | |- wkl _ eval_can_notify _ _ _ => apply een_wk
          end;
          let sh' := fresh "sh" in let lo' := fresh "lo" in let R := fresh "R" in let G := fresh "G" in
          let A := fresh "A" in let B := fresh "B" in let C := fresh "C" in let D := fresh "D" in intros sh' lo' R G A B C D ].

Lemma dispatch_all_k t es : forall sh,
  ql (dispatch_all t sh es) = ql sh /\ cnc (dispatch_all t sh es) = cnc sh /\ oqm (dispatch_all t sh es) = oqm sh /\
  ofm (dispatch_all t sh es) = ofm sh /\ g_under (dispatch_all t sh es) = g_under sh /\
  g_awake (dispatch_all t sh es) = g_awake sh /\
  (clog (dispatch_all t sh es) = clog sh \/ forall t0 rest, clog (dispatch_all t sh es) <> CNotify t0 :: rest).
Proof.
  unfold dispatch_all. induction es as [|e r IH]; intros sh; cbn [fold_left].
  - repeat split; try reflexivity. left; reflexivity.
  - destruct (IH (sh_disp sh t e)) as (A & B & C & D & E & F & G). sh_simpl.
    repeat split; try assumption.
    right. destruct G as [G|G]; [|exact G]. intros t0 rest. rewrite G. discriminate.
Qed.

Lemma take_all_k t es : forall sh,
  ql (take_all t sh es) = ql sh /\ cnc (take_all t sh es) = cnc sh /\ oqm (take_all t sh es) = oqm sh /\
  ofm (take_all t sh es) = ofm sh /\ g_under (take_all t sh es) = g_under sh /\
  g_awake (take_all t sh es) = g_awake sh /\ clog (take_all t sh es) = clog sh.
Proof.
  unfold take_all. induction es as [|e r IH]; intros sh; cbn [fold_left].
  - repeat split; reflexivity.
  - destruct (IH (sh_take sh t e)) as (A & B & C & D & E & F & G). sh_simpl. repeat split; assumption.
Qed.

Lemma da_ql t es sh : ql (dispatch_all t sh es) = ql sh. Proof. apply dispatch_all_k. Qed.
Lemma da_cnc t es sh : cnc (dispatch_all t sh es) = cnc sh. Proof. apply dispatch_all_k. Qed.
Lemma da_oqm t es sh : oqm (dispatch_all t sh es) = oqm sh. Proof. apply dispatch_all_k. Qed.
Lemma da_ofm t es sh : ofm (dispatch_all t sh es) = ofm sh. Proof. apply dispatch_all_k. Qed.
Lemma da_under t es sh : g_under (dispatch_all t sh es) = g_under sh. Proof. apply dispatch_all_k. Qed.
Lemma da_awake t es sh : g_awake (dispatch_all t sh es) = g_awake sh. Proof. apply dispatch_all_k. Qed.
Lemma ta_ql t es sh : ql (take_all t sh es) = ql sh. Proof. apply take_all_k. Qed.
Lemma ta_cnc t es sh : cnc (take_all t sh es) = cnc sh. Proof. apply take_all_k. Qed.
Lemma ta_oqm t es sh : oqm (take_all t sh es) = oqm sh. Proof. apply take_all_k. Qed.
Lemma ta_ofm t es sh : ofm (take_all t sh es) = ofm sh. Proof. apply take_all_k. Qed.
Lemma ta_under t es sh : g_under (take_all t sh es) = g_under sh. Proof. apply take_all_k. Qed.
Lemma ta_awake t es sh : g_awake (take_all t sh es) = g_awake sh. Proof. apply take_all_k. Qed.
Lemma ta_clog t es sh : clog (take_all t sh es) = clog sh. Proof. apply take_all_k. Qed.

Ltac fold_take :=
  repeat match goal with
         | |- context[fold_left (fun s e => sh_take s ?t e) ?es ?sh] =>
             change (fold_left (fun s e => sh_take s t e) es sh) with (take_all t sh es)
         | H : context[fold_left (fun s e => sh_take s ?t e) ?es ?sh] |- _ =>
             change (fold_left (fun s e => sh_take s t e) es sh) with (take_all t sh es) in H
         end.

Ltac dsimpl :=
  fold_take;
  rewrite ?da_ql, ?da_cnc, ?da_oqm, ?da_ofm, ?da_under, ?da_awake, ?ta_ql, ?ta_cnc, ?ta_oqm, ?ta_ofm, ?ta_under, ?ta_awake, ?ta_clog in *.

(* local code that dispatches (logs CDisp entries) and touches nothing else the argument looks at *)
Lemma kstep_dispatch t sh lo es lo' : (lowes lo = true -> lowes lo' = true) -> kstep t sh lo (dispatch_all t sh es) lo'.
Proof.
  intros H. destruct (dispatch_all_k t es sh) as (A & B & C & D & E & F & G). split; auto.
  - congruence.
  - intros X Y. congruence.
  - intros X Y. rewrite (H X) in Y. discriminate Y.
  - left. rewrite F. apply incl_refl.
  - intros u _. rewrite F. tauto.
Qed.

Ltac relyd :=
  repeat match goal with
         | R : Rely _ _ _ |- _ =>
             let Rq := fresh "Rq" in let Rf := fresh "Rf" in let Rl := fresh "Rl" in let Ru := fresh "Ru" in let Ra := fresh "Ra" in
             destruct R as (Rq & Rf & Rl & Ru & Ra)
         end; ksimpl.

Ltac own := relyd; dsimpl;
  repeat match goal with H : negb _ = false |- _ => apply negb_false_iff in H | H : negb _ = true |- _ => apply negb_true_iff in H end; cbn [pre]; unfold Post; ksimpl; intuition (try congruence; try discriminate).

Ltac ks_full :=
  split; ksimpl;
  [ first [left; reflexivity | right; reflexivity | right; assumption | right; solve [own]]
  | reflexivity | reflexivity | reflexivity
  | first [let X := fresh in intros X; exact X | intros; reflexivity]
  | let X := fresh in let Y := fresh in intros X Y; first [reflexivity | contradiction | congruence]
  | let X := fresh in let Y := fresh in intros X Y; first [discriminate | congruence | left; reflexivity]
  | first [left; apply incl_refl | left; apply incl_tl; apply incl_refl | right; left; reflexivity]
  | first [apply awake_self_same | apply awake_self_cons | apply awake_self_remove]
  | first [left; reflexivity | right; intros; discriminate] ].

Ltac ks_notified := ks_ghost; intros _ _; right; right; right; eexists; reflexivity.
Ltac ks_auto := first [ solve [ks_ghost] | solve [ks_full] | solve [ks_notified]
                      | solve [apply kstep_dispatch; ksimpl; auto]
                      | solve [fold_take; ks_ghost; dsimpl; try reflexivity; auto] ].

Ltac wk3 :=
  first [ wk2
        | lazymatch goal with
          | |- wki _ (IWaitLoop _) _ _ _ => idtac
          end ].

Lemma all_calls_wk t c sh : oqm sh <> Some t -> ofm sh <> Some t -> wkl t (code_of c) (Post t) sh lo0.
Proof.
  intros Hq Hf. destruct c; cbn [code_of]; unfold processif_code, processuntil_code, putback, notify_code, dqn_ghost;
    cbv beta iota delta [GenQConc.dqn_dtor_decrement_under_mutex GenQConc.processif_putback_notifies GenQConc.processuntil_putback_notifies].
  all: repeat wk2.
  all: try exact I.
  all: try ks_auto.
  all: try solve [own].
  all: try solve [ks_ghost; right; left; apply nonempty_false; assumption].
  all: try solve [destruct R0 as (Rq0 & _ & Rl0 & Ru0 & _); ksimpl; split; [apply Rq0; reflexivity|]; split; [reflexivity|];
                  left; apply Ru0; reflexivity].
  all: try solve [destruct R0 as (Rq0 & _ & Rl0 & Ru0 & _); ksimpl; split; [apply Rq0; reflexivity|]; split; [reflexivity|]; right;
                  apply Z.leb_gt in E; destruct (Rl0 eq_refl) as [_ X]; lia].
  1,2: (split; [reflexivity|]; split; [own|]; intros sh' lo' X Y Z V; repeat wk2; try exact I; try solve [own]).
Qed.

(* ---------- the invariant over configurations ---------- *)
Definition witness (th : thread) : Prop := status th = TWoken \/ (status th = TRun /\ lowes (lo th) = true).

Definition J (sh : qshared) (ths : list thread) : Prop :=
  g_under sh = false -> (exists th, In th ths /\ status th = TParked false) -> ql sh <> [] -> cnc sh = 0%Z ->
  (exists th, In th ths /\ witness th) \/ g_awake sh <> [].

(* what a notify_one leaves behind: a notified thread, or nobody was waiting *)
Definition Nfact (ths : list thread) : Prop :=
  (exists th, In th ths /\ status th = TWoken) \/ (forall th, In th ths -> status th <> TParked false).

(* who is in g_awake is a thread that is running or has finished (never one that is waiting) *)
Definition okst (th : thread) : Prop := status th = TRun \/ status th = TFinished.
Definition AWs (sh : qshared) (ths : list thread) : Prop :=
  forall u, In u (g_awake sh) -> exists th, nth_error ths u = Some th /\ okst th.

Record KG (sh : qshared) (ths : list thread) : Prop := mkKG {
  kg_good : GoodSh sh;
  kg_j : J sh ths;
  kg_n : forall t0 rest, clog sh = CNotify t0 :: rest -> Nfact ths;
  kg_own : forall o, oqm sh = Some o \/ ofm sh = Some o -> o < length ths;
  kg_aw : AWs sh ths
}.

Lemma in_mid {A} (x : A) a y b : In x (a ++ y :: b) <-> In x a \/ x = y \/ In x b.
Proof. rewrite in_app_iff. cbn [In]. intuition congruence. Qed.

Lemma mid_length {A} (a : list A) x y b : length (a ++ x :: b) = length (a ++ y :: b).
Proof. rewrite !app_length. reflexivity. Qed.

(* replacing one thread *)
Lemma J_replace sh a th th' b :
  J sh (a ++ th :: b) -> (status th' = TParked false -> status th = TParked false) -> (witness th -> witness th') ->
  J sh (a ++ th' :: b).
Proof.
  intros HJ Hp Hw U (p & Hp1 & Hp2) Q C.
  assert (P0 : exists x, In x (a ++ th :: b) /\ status x = TParked false).
  { apply in_mid in Hp1. destruct Hp1 as [X|[X|X]].
    - exists p. split; [apply in_mid; auto|exact Hp2].
    - subst p. exists th. split; [apply in_mid; auto|auto].
    - exists p. split; [apply in_mid; auto|exact Hp2]. }
  destruct (HJ U P0 Q C) as [(w & Hw1 & Hw2)|X]; [|right; exact X].
  left. apply in_mid in Hw1. destruct Hw1 as [X|[X|X]].
  - exists w. split; [apply in_mid; auto|exact Hw2].
  - subst w. exists th'. split; [apply in_mid; auto|auto].
  - exists w. split; [apply in_mid; auto|exact Hw2].
Qed.

Lemma Nfact_replace a th th' b :
  Nfact (a ++ th :: b) -> (status th = TWoken -> status th' = TWoken) -> (status th' = TParked false -> status th = TParked false) ->
  Nfact (a ++ th' :: b).
Proof.
  intros [(w & Hw1 & Hw2)|H] A B.
  - left. apply in_mid in Hw1. destruct Hw1 as [X|[X|X]].
    + exists w. split; [apply in_mid; auto|exact Hw2].
    + subst w. exists th'. split; [apply in_mid; auto|auto].
    + exists w. split; [apply in_mid; auto|exact Hw2].
  - right. intros x Hx. apply in_mid in Hx. destruct Hx as [X|[X|X]].
    + apply H. apply in_mid; auto.
    + subst x. intros E. apply (H th); [apply in_mid; auto|auto].
    + apply H. apply in_mid; auto.
Qed.

Lemma J_sheq sh sh' ths :
  ql sh' = ql sh -> cnc sh' = cnc sh -> g_under sh' = g_under sh -> g_awake sh' = g_awake sh -> J sh ths -> J sh' ths.
Proof. intros A B C D H. unfold J in *. rewrite A, B, C, D. exact H. Qed.

Lemma nth_mid_eq {A} (a : list A) x b : nth_error (a ++ x :: b) (length a) = Some x.
Proof. induction a as [|y r IH]; cbn [app length nth_error]; auto. Qed.

Lemma nth_mid_ne {A} (a : list A) x y b : forall u, u <> length a -> nth_error (a ++ x :: b) u = nth_error (a ++ y :: b) u.
Proof.
  induction a as [|z r IH]; intros [|u] H; cbn [app nth_error length] in *; try reflexivity.
  - contradiction.
  - apply IH. intros E. apply H. rewrite E. reflexivity.
Qed.

Lemma AWs_replace sh a th th' b : AWs sh (a ++ th :: b) -> (okst th -> okst th') -> AWs sh (a ++ th' :: b).
Proof.
  intros H Hk u Hu. destruct (H u Hu) as (x & Nx & Ox). destruct (Nat.eq_dec u (length a)) as [->|Hne].
  - rewrite nth_mid_eq in Nx. injection Nx as <-. exists th'. split; [apply nth_mid_eq|auto].
  - exists x. split; [|exact Ox]. rewrite <- Nx. apply nth_mid_ne. exact Hne.
Qed.

Lemma AWs_sheq sh sh' ths : g_awake sh' = g_awake sh -> AWs sh ths -> AWs sh' ths.
Proof. intros E H u Hu. rewrite E in Hu. apply H. exact Hu. Qed.

(* the same shared state, one thread replaced *)
Lemma KG_same_sh sh a th th' b :
  KG sh (a ++ th :: b) ->
  (status th' = TParked false -> status th = TParked false) -> (witness th -> witness th') ->
  (status th = TWoken -> status th' = TWoken) -> (okst th -> okst th') ->
  KG sh (a ++ th' :: b).
Proof.
  intros [A B C D AW] H1 H2 H3 H4. constructor.
  - exact A.
  - eapply J_replace; eauto.
  - intros t0 rs E. eapply Nfact_replace; [exact (C _ _ E)| |]; auto.
  - intros o H. rewrite (mid_length a _ th). apply D. exact H.
  - eapply AWs_replace; eauto.
Qed.

(* one piece of local code of a running thread *)
Lemma kstep_KG t sh a cd cl l b sh' cd' cl' l' :
  length a = t ->
  KG sh (a ++ mkTh cd cl l TRun :: b) -> kstep t sh l sh' l' -> KG sh' (a ++ mkTh cd' cl' l' TRun :: b).
Proof.
  intros La [Hg Hj Hn Ho Haw] K. pose proof K as [Kq Kn Koq Kof Ku Kset Kdrop Kaw Kself Klog].
  constructor.
  - eapply kstep_good; eauto.
  - intros U (p & Hp & Sp) Q C.
    assert (U0 : g_under sh = false).
    { destruct (g_under sh) eqn:E; [rewrite (Ku eq_refl) in U; discriminate|reflexivity]. }
    assert (P0 : exists th, In th (a ++ mkTh cd cl l TRun :: b) /\ status th = TParked false).
    { exists p. split; [|exact Sp]. apply in_mid in Hp. apply in_mid. destruct Hp as [X|[X|X]]; auto. subst p. discriminate Sp. }
    assert (C0 : cnc sh = 0%Z) by congruence.
    assert (Hnew : In (mkTh cd' cl' l' TRun) (a ++ mkTh cd' cl' l' TRun :: b)) by (apply in_mid; auto).
    destruct (ql sh) as [|e0 r0] eqn:EQ.
    + left. exists (mkTh cd' cl' l' TRun). split; [exact Hnew|]. right. split; [reflexivity|]. cbn [lo]. apply Kset; [reflexivity|exact Q].
    + assert (Q0 : ql sh <> []) by (rewrite EQ; discriminate).
      destruct (Hj U0 P0 Q0 C0) as [(w & Hw1 & Hw2)|X].
      * apply in_mid in Hw1. destruct Hw1 as [X|[X|X]].
        -- left. exists w. split; [apply in_mid; auto|exact Hw2].
        -- subst w. destruct Hw2 as [Y|[_ Y]]; [discriminate Y|]. cbn [lo] in Y.
           destruct (lowes l') eqn:L'.
           ++ left. exists (mkTh cd' cl' l' TRun). split; [exact Hnew|]. right. split; [reflexivity|exact L'].
           ++ destruct (Kdrop Y eq_refl) as [Z|[Z|[Z|(rest & Z)]]].
              ** contradiction.
              ** contradiction.
              ** right. intros E. rewrite E in Z. destruct Z.
              ** destruct (Hn _ _ Z) as [(x & Hx1 & Hx2)|N].
                 --- left. apply in_mid in Hx1. destruct Hx1 as [X|[X|X]].
                     +++ exists x. split; [apply in_mid; auto|left; exact Hx2].
                     +++ subst x. discriminate Hx2.
                     +++ exists x. split; [apply in_mid; auto|left; exact Hx2].
                 --- destruct P0 as (q & Hq1 & Hq2). exfalso. exact (N q Hq1 Hq2).
        -- left. exists w. split; [apply in_mid; auto|exact Hw2].
      * right. destruct Kaw as [I|[I|[I|I]]]; [|contradiction|contradiction|congruence].
        destruct (g_awake sh) as [|x r]; [contradiction|]. intros E. specialize (I x (or_introl eq_refl)). rewrite E in I. destruct I.
  - intros t0 rest E. destruct Klog as [L|L]; [|exfalso; exact (L _ _ E)].
    rewrite L in E. eapply Nfact_replace; [exact (Hn _ _ E)| |]; cbn [status]; auto.
  - intros o H. rewrite Koq, Kof in H. rewrite (mid_length a _ (mkTh cd cl l TRun)). apply Ho. exact H.
  - intros u Hu. destruct (Nat.eq_dec u t) as [->|Hne].
    + exists (mkTh cd' cl' l' TRun). split; [rewrite <- La; apply nth_mid_eq|left; reflexivity].
    + apply (Kself u Hne) in Hu. destruct (Haw u Hu) as (x & Nx & Ox). exists x. split; [|exact Ox].
      rewrite <- Nx. apply nth_mid_ne. rewrite La. exact Hne.
Qed.

(* ---------- per-thread assertions ---------- *)
(* a running thread is stopped in front of a visible action (or at the end of its code); a parked thread resumes
   with the local code that follows the wait *)
Definition stopped (th : thread) : Prop :=
  match status th with
  | TRun => match code th with [] => False | i :: _ => is_sync i = true end
  | _ => True
  end.

Definition Wth (t : nat) (th : thread) (sh : qshared) : Prop :=
  match status th with
  | TRun => wkl t (code th) (Post t) sh (lo th)
  | TFinished => oqm sh <> Some t /\ ofm sh <> Some t
  | _ => lowes (lo th) = true /\ oqm sh <> Some t /\ ofm sh <> Some t /\
         forall sh2 b, GoodSh sh2 -> ofm sh2 <> Some t -> wkl t (code th) (Post t) (wake_sh t sh2) (lo_to (lo th) b)
  end.

Lemma wki_sync_stable t i Q sh sh' lo : is_sync i = true -> Rely t sh sh' -> wki t i Q sh lo -> wki t i Q sh' lo.
Proof.
  intros S R H. destruct i as [m|m|x|x|x| |timed|tt f|r c u v|timed| | | |rr]; try discriminate S; cbn [wki] in *.
  all: intros sh1 R1 G1; apply H; [eapply Rely_trans; eauto|exact G1].
Qed.

Lemma Wth_stable t th sh sh' : stopped th -> Rely t sh sh' -> Wth t th sh -> Wth t th sh'.
Proof.
  intros S R. unfold Wth, stopped in *. destruct R as (Rq & Rf & Rl & Ru).
  assert (R : Rely t sh sh') by (repeat split; tauto).
  destruct (status th).
  - destruct (code th) as [|i r]; cbn [wkl].
    + unfold Post. tauto.
    + apply wki_sync_stable; assumption.
  - intros (A & B & C & D). repeat split; tauto.
  - intros (A & B & C & D). repeat split; tauto.
  - tauto.
Qed.

Lemma Rely_log_any u sh e : Rely u sh (sh_log sh e).
Proof. exact (Rely_refl u sh). Qed.

Lemma lo_to_id l : lo_to l (ltimedout l) = l.
Proof. destruct l; reflexivity. Qed.

Lemma KG_log sh ths e : (forall t0, e <> CNotify t0) -> KG sh ths -> KG (sh_log sh e) ths.
Proof.
  intros He [A B C D AW]. constructor; auto.
  intros t0 rest E. cbn [clog sh_log] in E. injection E as E _. exfalso. exact (He _ E).
Qed.

(* ---------- soundness: local code ---------- *)
Lemma advance_k t fuel : forall sh cd cl l a b,
  length a = t ->
  KG sh (a ++ mkTh cd cl l TRun :: b) -> wkl t cd (Post t) sh l ->
  KG (fst (advance fuel t sh (mkTh cd cl l TRun))) (a ++ snd (advance fuel t sh (mkTh cd cl l TRun)) :: b) /\
  (forall u, u <> t -> Rely u sh (fst (advance fuel t sh (mkTh cd cl l TRun)))) /\
  Wth t (snd (advance fuel t sh (mkTh cd cl l TRun))) (fst (advance fuel t sh (mkTh cd cl l TRun))).
Proof.
  induction fuel as [|f IH]; intros sh cd cl l a b La HG HW.
  - cbn [advance fst snd]. split; [exact HG|]. split; [intros; apply Rely_refl|exact HW].
  - cbn [advance code calls lo]. destruct cd as [|i rest].
    + cbn [wkl] in HW. destruct HW as (P1 & P2 & P3). destruct cl as [|c r].
      * cbn [fst snd]. split; [|split; [intros; apply Rely_refl|unfold Wth; cbn [status]; tauto]].
        eapply KG_same_sh; [exact HG| | | |]; cbn [status]; try discriminate.
        -- intros [X|[_ X]]; [discriminate X|]. cbn [lo] in X. congruence.
        -- intros _. right. reflexivity.
      * apply IH; [exact La| |apply all_calls_wk; assumption].
        eapply KG_same_sh; [exact HG| | | |]; cbn [status]; auto.
        intros [X|[_ X]]; [discriminate X|]. cbn [lo] in X. congruence.
    + cbn [wkl] in HW. destruct i as [m|m|x|x|x| |timed|tt f0|r c u v|timed| | | |rr];
        try (cbn [fst snd]; split; [exact HG|]; split; [intros; apply Rely_refl|exact HW]).
      * (* ILocal *)
        change (kstep t sh l (fst (f0 t sh l)) (snd (f0 t sh l)) /\ wkl t rest (Post t) (fst (f0 t sh l)) (snd (f0 t sh l))) in HW.
        destruct HW as [K HW]. destruct (f0 t sh l) as [sh1 lo1]. cbn [fst snd] in *.
        destruct (IH sh1 rest cl lo1 a b La (kstep_KG _ _ _ _ _ _ _ _ _ _ _ La HG K) HW) as (X & Y & Z).
        split; [exact X|]. split; [|exact Z]. intros u Hu. eapply Rely_trans; [eapply kstep_rely; eauto|apply Y; exact Hu].
      * (* IIf *)
        rewrite wki_if in HW.
        apply IH; [exact La|eapply KG_same_sh; [exact HG| | | |]; cbn [status lo]; auto|].
        apply wkl_app. destruct (c sh l); exact HW.
      * (* IWaitLoop *)
        apply IH; [exact La|eapply KG_same_sh; [exact HG| | | |]; cbn [status lo]; auto|].
        apply wkl_app. destruct HW as (X & Y & Z). apply wait_loop_wk; assumption.
      * (* IRes *)
        change (wkl t rest (Post t) (sh_log sh (CRes t (lres l))) l) in HW.
        destruct (IH (sh_log sh (CRes t (lres l))) rest cl l a b La) as (X & Y & Z); [|exact HW|].
        { apply KG_log; [discriminate|]. eapply KG_same_sh; [exact HG| | | |]; cbn [status lo]; auto. }
        split; [exact X|]. split; [|exact Z]. intros u Hu. eapply Rely_trans; [apply Rely_log_any|apply Y; exact Hu].
      * (* IDone *)
        change (wkl t rest (Post t) (sh_log sh (CDone t)) l) in HW.
        destruct (IH (sh_log sh (CDone t)) rest cl l a b La) as (X & Y & Z); [|exact HW|].
        { apply KG_log; [discriminate|]. eapply KG_same_sh; [exact HG| | | |]; cbn [status lo]; auto. }
        split; [exact X|]. split; [|exact Z]. intros u Hu. eapply Rely_trans; [apply Rely_log_any|apply Y; exact Hu].
Qed.

(* ---------- lists of threads ---------- *)
Lemma nth_set : forall (l : list thread) w x0 y u, nth_error l w = Some x0 ->
  nth_error (set_th l w y) u = if Nat.eqb u w then Some y else nth_error l u.
Proof.
  induction l as [|a r IH]; intros [|w] x0 y [|u] H; cbn [nth_error set_th Nat.eqb] in *; try discriminate; try reflexivity.
  apply (IH _ _ _ _ H).
Qed.

Lemma set_th_length : forall (l : list thread) w y, length (set_th l w y) = length l.
Proof. induction l as [|a r IH]; intros [|w] y; cbn [set_th length]; auto. Qed.

Lemma set_th_mid (a : list thread) th b x : set_th (a ++ th :: b) (length a) x = a ++ x :: b.
Proof. induction a as [|y r IH]; cbn [app length set_th]; [reflexivity|]. rewrite IH. reflexivity. Qed.

Lemma nth_mid (a : list thread) th b : nth_error (a ++ th :: b) (length a) = Some th.
Proof. induction a as [|y r IH]; cbn [app length nth_error]; auto. Qed.

Lemma nth_mid_other (a : list thread) x y b : forall u, u <> length a -> nth_error (a ++ x :: b) u = nth_error (a ++ y :: b) u.
Proof.
  induction a as [|z r IH]; intros [|u] H; cbn [app nth_error length] in *; try reflexivity.
  - contradiction.
  - apply IH. intros E. apply H. rewrite E. reflexivity.
Qed.

Lemma first_parked_none p : forall (l : list thread) i, first_parked l i p = None -> forall x, In x l -> p x = false.
Proof.
  induction l as [|a r IH]; intros i H x Hx; [destruct Hx|]. cbn [first_parked] in H.
  destruct (p a) eqn:E; [discriminate|]. destruct Hx as [<-|Hx]; [exact E|]. eapply IH; eauto.
Qed.

(* J and Nfact along a map between thread lists *)
Lemma J_mono sh l l' :
  J sh l ->
  (forall x', In x' l' -> status x' = TParked false -> exists x, In x l /\ status x = TParked false) ->
  (forall x, In x l -> witness x -> exists x', In x' l' /\ witness x') ->
  J sh l'.
Proof.
  intros HJ Hp Hw U (p & P1 & P2) Q C.
  destruct (HJ U (Hp p P1 P2) Q C) as [(w & W1 & W2)|X]; [left; eauto|right; exact X].
Qed.

Definition KW (sh : qshared) (ths : list thread) : Prop := forall u th, nth_error ths u = Some th -> Wth u th sh.
Definition Stopped (ths : list thread) : Prop := forall th, In th ths -> stopped th.

(* ---------- soundness: the visible action of a running thread, then its local code ---------- *)
Lemma finish_k t fuel others th0 sh_e cd cl l :
  nth_error others t = Some th0 ->
  KG sh_e (set_th others t (mkTh cd cl l TRun)) ->
  wkl t cd (Post t) sh_e l ->
  (forall u thu, u <> t -> nth_error others u = Some thu -> Wth u thu sh_e /\ stopped thu) ->
  KG (fst (advance fuel t sh_e (mkTh cd cl l TRun))) (set_th others t (snd (advance fuel t sh_e (mkTh cd cl l TRun)))) /\
  KW (fst (advance fuel t sh_e (mkTh cd cl l TRun))) (set_th others t (snd (advance fuel t sh_e (mkTh cd cl l TRun)))).
Proof.
  intros HN HG HW HO.
  destruct (nth_error_split _ _ HN) as (a & b & E & La). subst others. subst t.
  rewrite set_th_mid in HG. rewrite !set_th_mid.
  destruct (advance_k (length a) fuel sh_e cd cl l a b eq_refl HG HW) as (X & Y & Z).
  split; [exact X|].
  intros u th Hu. destruct (Nat.eq_dec u (length a)) as [->|Hne].
  - rewrite nth_mid in Hu. injection Hu as <-. exact Z.
  - assert (Hu' : nth_error (a ++ th0 :: b) u = Some th).
    { rewrite <- Hu. apply nth_mid_other. exact Hne. }
    destruct (HO u th Hne Hu') as [W S]. eapply Wth_stable; [exact S|apply Y; exact Hne|exact W].
Qed.

Lemma KG_eff_same sh sh' a th th' b :
  KG sh (a ++ th :: b) -> ql sh' = ql sh -> cnc sh' = cnc sh -> g_under sh' = g_under sh -> g_awake sh' = g_awake sh ->
  (clog sh' = clog sh \/ forall t0 rest, clog sh' <> CNotify t0 :: rest) ->
  (forall o, oqm sh' = Some o \/ ofm sh' = Some o -> o < length (a ++ th :: b)) ->
  status th' = status th -> (lowes (lo th) = true -> lowes (lo th') = true) ->
  KG sh' (a ++ th' :: b).
Proof.
  intros [A B C D AW] E1 E2 E3 E4 E5 E6 E7 E8. constructor.
  - unfold GoodSh in *. rewrite E2, E3. exact A.
  - eapply J_sheq; eauto. eapply J_replace; [exact B| |].
    + rewrite E7. auto.
    + unfold witness. rewrite E7. intros [X|[X Y]]; auto.
  - intros t0 rest E. destruct E5 as [L|L]; [|exfalso; exact (L _ _ E)]. rewrite L in E.
    eapply Nfact_replace; [exact (C _ _ E)| |]; rewrite E7; auto.
  - intros o H. rewrite (mid_length a _ th). apply E6. exact H.
  - eapply AWs_sheq; [exact E4|]. eapply AWs_replace; [exact AW|]. unfold okst. rewrite E7. auto.
Qed.

Lemma eff_KG t a th b i rest sh :
  length a = t -> status th = TRun -> code th = i :: rest -> is_sync i = true ->
  (forall timed, i <> ICvWait timed) -> i <> INotify ->
  KG sh (a ++ th :: b) -> pre t i sh (lo th) ->
  KG (fst (eff t i sh (lo th))) (a ++ mkTh rest (calls th) (snd (eff t i sh (lo th))) TRun :: b).
Proof.
  intros La St Ec Sy Nc Nn HG HP.
  assert (Ht : t < length (a ++ th :: b)) by (rewrite app_length; cbn [length]; lia).
  pose proof (kg_own _ _ HG) as Ho.
  destruct i as [m|m|x|x|x| |timed|tt f|r c u v|timed| | | |rr]; try discriminate Sy; try (exfalso; apply (Nc timed); reflexivity);
    try (exfalso; apply Nn; reflexivity).
  - (* ILock *) destruct m; cbn [eff fst snd].
    + eapply KG_eff_same; [exact HG| | | | | | | |]; sh_simpl; cbn [status lo]; auto; try (right; intros; discriminate).
      intros o [H|H]; [injection H as <-; exact Ht|apply Ho; auto].
    + eapply KG_eff_same; [exact HG| | | | | | | |]; sh_simpl; cbn [status lo]; auto; try (right; intros; discriminate).
      intros o [H|H]; [apply Ho; auto|injection H as <-; exact Ht].
  - (* IUnlock *) destruct m; cbn [eff fst snd].
    + eapply KG_eff_same; [exact HG| | | | | | | |]; sh_simpl; cbn [status lo]; auto; try (right; intros; discriminate).
      intros o [H|H]; [discriminate H|apply Ho; auto].
    + eapply KG_eff_same; [exact HG| | | | | | | |]; sh_simpl; cbn [status lo]; auto; try (right; intros; discriminate).
      intros o [H|H]; [apply Ho; auto|discriminate H].
  - (* IAInc *) destruct x; cbn [eff fst snd].
    + eapply KG_eff_same; [exact HG| | | | | | | |]; sh_simpl; cbn [status lo]; lo_simpl; auto; try (right; intros; discriminate).
    + (* the notify counter goes up: notification is not enabled afterwards *)
      destruct HG as [A B C D AW]. constructor; sh_simpl.
      * intros U. sh_simpl. specialize (A U). lia.
      * intros U _ _ Cn. sh_simpl. specialize (A U). lia.
      * intros t0 rs E. discriminate E.
      * intros o H. rewrite (mid_length a _ th). apply D. exact H.
      * eapply AWs_replace; [exact AW|]. unfold okst. cbn [status]. auto.
  - (* IADec *) destruct x; cbn [eff fst snd].
    + eapply KG_eff_same; [exact HG| | | | | | | |]; sh_simpl; cbn [status lo]; lo_simpl; auto; try (right; intros; discriminate).
    + (* the notify counter comes down: this thread owes the wake-up *)
      cbn [pre] in HP. destruct HP as (P1 & P2 & P3).
      destruct HG as [A B C D AW]. constructor; sh_simpl.
      * intros U. sh_simpl. destruct P3 as [X|X]; [congruence|lia].
      * intros U _ _ _. left. eexists. split; [apply in_mid; right; left; reflexivity|]. right. cbn [status lo]. auto.
      * intros t0 rs E. discriminate E.
      * intros o H. rewrite (mid_length a _ th). apply D. exact H.
      * eapply AWs_replace; [exact AW|]. unfold okst. cbn [status]. auto.
  - (* IALoad *) destruct x; cbn [eff fst snd];
      (eapply KG_eff_same; [exact HG| | | | | | | |]; sh_simpl; cbn [status lo]; lo_simpl; auto; try (right; intros; discriminate)).
  - (* IStart *) cbn [eff fst snd]. eapply KG_eff_same; [exact HG| | | | | | | |]; cbn [status lo]; auto.
  - (* IRead *) cbn [eff fst snd]. eapply KG_eff_same; [exact HG| | | | | | | |]; sh_simpl; cbn [status lo]; auto; try (right; intros; discriminate).
Qed.

Lemma eff_rely t u i sh l :
  u <> t -> is_sync i = true -> pre t i sh l -> (forall m, i = ILock m -> owner_of sh m = None) ->
  Rely u sh (fst (eff t i sh l)).
Proof.
  intros Hu Sy HP En.
  assert (Hne : forall x : nat, Some t = Some x -> x = u -> False) by (intros x X Y; injection X as X; congruence).
  destruct i as [m|m|x|x|x| |timed|tt f|r c w v|timed| | | |rr]; try discriminate Sy; cbn [eff fst snd].
  - specialize (En m eq_refl). destruct m; cbn [owner_of] in En; unfold Rely; cbn [eff fst snd]; sh_simpl.
    + split; [split; intros X; [congruence|exfalso; eapply Hne; eauto]|]. split; [tauto|].
      split; [intros X; congruence|split; [auto|tauto]].
    + split; [tauto|]. split; [split; intros X; [congruence|exfalso; eapply Hne; eauto]|].
      split; [intros X; split; [reflexivity|lia]|split; [auto|tauto]].
  - destruct m; cbn [pre] in HP; unfold Rely; cbn [eff fst snd]; sh_simpl.
    + split; [split; intros X; [rewrite HP in X; exfalso; eapply Hne; eauto|discriminate X]|]. split; [tauto|].
      split; [intros X; rewrite HP in X; exfalso; eapply Hne; eauto|split; [auto|tauto]].
    + split; [tauto|]. split; [split; intros X; [rewrite HP in X; exfalso; eapply Hne; eauto|discriminate X]|].
      split; [intros X; split; [reflexivity|lia]|split; [auto|tauto]].
  - destruct x; unfold Rely; cbn [eff fst snd]; sh_simpl; (split; [tauto|]); (split; [tauto|]); (split; [intros _; split; [reflexivity|lia]|split; [auto|tauto]]).
  - destruct x; cbn [pre] in HP; unfold Rely; cbn [eff fst snd]; sh_simpl; (split; [tauto|]); (split; [tauto|]); (split; [|split; [auto|tauto]]).
    + intros _; split; [reflexivity|lia].
    + destruct HP as (P1 & _). intros X. rewrite P1 in X. exfalso; eapply Hne; eauto.
  - destruct x; unfold Rely; cbn [eff fst snd]; sh_simpl; (split; [tauto|]); (split; [tauto|]); (split; [intros _; split; [reflexivity|lia]|split; [auto|tauto]]).
  - unfold Rely; cbn [eff fst snd]; sh_simpl; (split; [tauto|]); (split; [tauto|]); (split; [intros _; split; [reflexivity|lia]|split; [auto|tauto]]).
  - apply Rely_refl.
  - apply Rely_refl.
  - unfold Rely; cbn [eff fst snd]; sh_simpl; (split; [tauto|]); (split; [tauto|]); (split; [intros _; split; [reflexivity|lia]|split; [auto|tauto]]).
Qed.

Lemma Stopped_nth ths u th : Stopped ths -> nth_error ths u = Some th -> stopped th.
Proof. intros S H. apply S. eapply nth_error_In; eauto. Qed.

Lemma wki_sync_inst t i Q sh lo :
  is_sync i = true -> (forall timed, i <> ICvWait timed) -> GoodSh sh -> wki t i Q sh lo ->
  pre t i sh lo /\ Q (fst (eff t i sh lo)) (snd (eff t i sh lo)).
Proof.
  intros Sy Nc G H. destruct i as [m|m|x|x|x| |timed|tt f|r c w v|timed| | | |rr]; try discriminate Sy;
    try (exfalso; apply (Nc timed); reflexivity).
  all: exact (H sh (Rely_refl t sh) G).
Qed.

(* the generic visible action *)
Lemma perform_generic t fuel sh ths th i rest :
  KG sh ths -> KW sh ths -> Stopped ths ->
  nth_error ths t = Some th -> status th = TRun -> code th = i :: rest -> is_sync i = true ->
  (forall timed, i <> ICvWait timed) -> i <> INotify -> (forall m, i = ILock m -> owner_of sh m = None) ->
  KG (fst (advance fuel t (fst (eff t i sh (lo th))) (mkTh rest (calls th) (snd (eff t i sh (lo th))) TRun)))
     (set_th ths t (snd (advance fuel t (fst (eff t i sh (lo th))) (mkTh rest (calls th) (snd (eff t i sh (lo th))) TRun)))) /\
  KW (fst (advance fuel t (fst (eff t i sh (lo th))) (mkTh rest (calls th) (snd (eff t i sh (lo th))) TRun)))
     (set_th ths t (snd (advance fuel t (fst (eff t i sh (lo th))) (mkTh rest (calls th) (snd (eff t i sh (lo th))) TRun)))).
Proof.
  intros HG HW HS HN St Ec Sy Nc Nn En.
  pose proof (HW t th HN) as Wt. unfold Wth in Wt. rewrite St, Ec in Wt. cbn [wkl] in Wt.
  destruct (wki_sync_inst _ _ _ _ _ Sy Nc (kg_good _ _ HG) Wt) as [Hpre Hk].
  apply (finish_k t fuel ths th); [exact HN| |exact Hk|].
  - destruct (nth_error_split _ _ HN) as (a & b & E & La). subst ths. rewrite <- La. rewrite set_th_mid.
    rewrite La. apply eff_KG; auto.
  - intros u thu Hu Hnu. split; [|eapply Stopped_nth; eauto].
    eapply Wth_stable; [eapply Stopped_nth; eauto| |apply HW; exact Hnu].
    apply eff_rely; auto.
Qed.

Lemma In_set_th l t th0 y x : nth_error l t = Some th0 -> In x (set_th l t y) -> x = y \/ (exists u, u <> t /\ nth_error l u = Some x).
Proof.
  intros H Hx. destruct (In_nth_error _ _ Hx) as (u & Hu). rewrite (nth_set _ _ _ _ _ H) in Hu.
  destruct (Nat.eqb u t) eqn:E.
  - left. congruence.
  - right. exists u. split; [apply Nat.eqb_neq; exact E|exact Hu].
Qed.

Lemma In_set_th_other l t th0 y x u : nth_error l t = Some th0 -> nth_error l u = Some x -> u <> t -> In x (set_th l t y).
Proof.
  intros H Hx Hu. apply (nth_error_In _ u). rewrite (nth_set _ _ _ _ _ H).
  apply Nat.eqb_neq in Hu. rewrite Hu. exact Hx.
Qed.

Lemma In_set_th_self l t th0 y : nth_error l t = Some th0 -> In y (set_th l t y).
Proof. intros H. apply (nth_error_In _ t). rewrite (nth_set _ _ _ _ _ H). rewrite Nat.eqb_refl. reflexivity. Qed.

Lemma lo_to_to l b c : lo_to (lo_to l b) c = lo_to l c.
Proof. reflexivity. Qed.

Lemma nth_lt (l : list thread) t x : nth_error l t = Some x -> t < length l.
Proof. intros H. apply nth_error_Some. congruence. Qed.

(* condition_variable::wait: release the mutex and park *)
Lemma perform_cvwait t sh ths th timed rest :
  KG sh ths -> KW sh ths -> Stopped ths ->
  nth_error ths t = Some th -> status th = TRun -> code th = ICvWait timed :: rest ->
  KG (sh_oqm (sh_log sh (CCvBlock t)) None) (set_th ths t (mkTh rest (calls th) (lo_to (lo th) false) (TParked timed))) /\
  KW (sh_oqm (sh_log sh (CCvBlock t)) None) (set_th ths t (mkTh rest (calls th) (lo_to (lo th) false) (TParked timed))).
Proof.
  intros HG HW HS HN St Ec.
  pose proof (HW t th HN) as Wt. unfold Wth in Wt. rewrite St, Ec in Wt. cbn [wkl wki] in Wt.
  destruct (Wt sh (Rely_refl t sh) (kg_good _ _ HG)) as [(P1 & P2 & P3 & P4 & P5) Hk].
  set (th' := mkTh rest (calls th) (lo_to (lo th) false) (TParked timed)).
  assert (Rl : forall u, u <> t -> Rely u sh (sh_oqm (sh_log sh (CCvBlock t)) None)).
  { intros u Hu. unfold Rely. sh_simpl. rewrite P1.
    split; [split; intros X; [injection X as X; congruence|discriminate X]|]. split; [tauto|].
    split; [intros X; injection X as X; congruence|split; [auto|tauto]]. }
  split.
  - destruct HG as [A B C D AW]. constructor.
    + exact A.
    + intros U _ Q Cn. sh_simpl. destruct P4 as [X|[X|X]]; [contradiction|contradiction|congruence].
    + intros t0 rs E. discriminate E.
    + intros o H. sh_simpl. rewrite set_th_length. destruct H as [H|H]; [discriminate H|apply D; auto].
    + intros u Hu. sh_simpl. destruct (AW u Hu) as (x & Nx & Ox). exists x. split; [|exact Ox].
      rewrite (nth_set _ _ _ _ _ HN). destruct (Nat.eqb_spec u t) as [->|_]; [contradiction|exact Nx].
  - intros u x Hu. rewrite (nth_set _ _ _ _ _ HN) in Hu. destruct (Nat.eqb u t) eqn:E.
    + apply Nat.eqb_eq in E. subst u. injection Hu as <-. unfold Wth. cbn [status code lo th']. sh_simpl. lo_simpl.
      split; [exact P3|]. split; [discriminate|]. split; [exact P2|].
      intros sh2 b G2 F2. rewrite lo_to_to. apply Hk; assumption.
    + apply Nat.eqb_neq in E. eapply Wth_stable; [eapply Stopped_nth; eauto|apply Rl; exact E|apply HW; exact Hu].
Qed.

(* a notified (or timed-out) waiter re-acquires the mutex and runs on *)
Lemma perform_woken t fuel sh ths th :
  KG sh ths -> KW sh ths -> Stopped ths ->
  nth_error ths t = Some th -> status th = TWoken -> oqm sh = None ->
  KG (fst (advance fuel t (wake_sh t sh) (mkTh (code th) (calls th) (lo th) TRun)))
     (set_th ths t (snd (advance fuel t (wake_sh t sh) (mkTh (code th) (calls th) (lo th) TRun)))) /\
  KW (fst (advance fuel t (wake_sh t sh) (mkTh (code th) (calls th) (lo th) TRun)))
     (set_th ths t (snd (advance fuel t (wake_sh t sh) (mkTh (code th) (calls th) (lo th) TRun)))).
Proof.
  intros HG HW HS HN St En.
  pose proof (HW t th HN) as Wt. unfold Wth in Wt. rewrite St in Wt. destruct Wt as (W1 & W2 & W3 & W4).
  apply (finish_k t fuel ths th); [exact HN| | |].
  - destruct (nth_error_split _ _ HN) as (a & b & E & La). subst ths. rewrite <- La. rewrite set_th_mid.
    destruct HG as [A B C D AW]. unfold wake_sh. constructor.
    + exact A.
    + eapply J_sheq; [| | | |eapply J_replace; [exact B| |]]; sh_simpl; auto; cbn [status].
      * discriminate.
      * intros _. right. split; [reflexivity|exact W1].
    + intros t0 rs E. discriminate E.
    + intros o H. sh_simpl. rewrite (mid_length a _ th). destruct H as [H|H]; [injection H as <-; rewrite app_length; cbn [length]; lia|apply D; auto].
    + eapply AWs_sheq; [reflexivity|]. eapply AWs_replace; [exact AW|]. intros _. left. reflexivity.
  - specialize (W4 sh (ltimedout (lo th)) (kg_good _ _ HG) W3). rewrite lo_to_id in W4. exact W4.
  - intros u thu Hu Hnu. split; [|eapply Stopped_nth; eauto].
    eapply Wth_stable; [eapply Stopped_nth; eauto| |apply HW; exact Hnu].
    unfold Rely, wake_sh. sh_simpl. rewrite En.
    split; [split; intros X; [discriminate X|injection X as X; congruence]|]. split; [tauto|].
    split; [intros X; discriminate X|split; [auto|tauto]].
Qed.

Definition is_parked (x : thread) : bool := match status x with TParked _ => true | _ => false end.
Definition woken (wt : thread) : thread := mkTh (code wt) (calls wt) (lo wt) TWoken.
Definition notify_others (ths : list thread) : list thread :=
  match first_parked ths 0 is_parked with
  | Some w => match nth_error ths w with Some wt => set_th ths w (woken wt) | None => ths end
  | None => ths
  end.

Lemma Wth_woken u wt sh : is_parked wt = true -> Wth u wt sh -> Wth u (woken wt) sh.
Proof. unfold is_parked, Wth, woken. cbn [status code lo]. destruct (status wt); try discriminate. auto. Qed.

(* notify_one *)
Lemma perform_notify t fuel sh ths th rest :
  KG sh ths -> KW sh ths -> Stopped ths ->
  nth_error ths t = Some th -> status th = TRun -> code th = INotify :: rest ->
  KG (fst (advance fuel t (sh_log sh (CNotify t)) (mkTh rest (calls th) (lo th) TRun)))
     (set_th (notify_others ths) t (snd (advance fuel t (sh_log sh (CNotify t)) (mkTh rest (calls th) (lo th) TRun)))) /\
  KW (fst (advance fuel t (sh_log sh (CNotify t)) (mkTh rest (calls th) (lo th) TRun)))
     (set_th (notify_others ths) t (snd (advance fuel t (sh_log sh (CNotify t)) (mkTh rest (calls th) (lo th) TRun)))).
Proof.
  intros HG HW HS HN St Ec.
  pose proof (HW t th HN) as Wt. unfold Wth in Wt. rewrite St, Ec in Wt. cbn [wkl wki] in Wt.
  destruct (Wt sh (Rely_refl t sh) (kg_good _ _ HG)) as [_ Hk]. cbn [eff fst snd] in Hk.
  set (th_e := mkTh rest (calls th) (lo th) TRun).
  assert (Hwit : witness th -> witness th_e).
  { unfold witness. rewrite St. cbn [status lo th_e]. intros [X|X]; [discriminate X|right; exact X]. }
  unfold notify_others. destruct (first_parked ths 0 is_parked) as [w|] eqn:EP.
  - destruct (first_parked_some _ _ _ _ EP) as (wt & Nw & Pw & _). rewrite Nat.sub_0_r in Nw. rewrite Nw.
    assert (Hwt : w <> t).
    { intros ->. rewrite HN in Nw. injection Nw as <-. unfold is_parked in Pw. rewrite St in Pw. discriminate Pw. }
    assert (HN' : nth_error (set_th ths w (woken wt)) t = Some th).
    { rewrite (nth_set _ _ _ _ _ Nw). assert (X : Nat.eqb t w = false) by (apply Nat.eqb_neq; auto). rewrite X. exact HN. }
    apply (finish_k t fuel _ th); [exact HN'| |exact Hk|].
    + destruct HG as [A B C D AW]. constructor.
      5: { intros u Hu. sh_simpl. destruct (AW u Hu) as (x & Nx & Ox).
           rewrite (nth_set _ _ _ _ _ HN'). destruct (Nat.eqb_spec u t) as [->|Hut]; [exists th_e; split; [reflexivity|left; reflexivity]|].
           rewrite (nth_set _ _ _ _ _ Nw). destruct (Nat.eqb_spec u w) as [->|Huw]; [|exists x; auto].
           exfalso. rewrite Nw in Nx. injection Nx as <-. unfold is_parked in Pw. destruct Ox as [X|X]; rewrite X in Pw; discriminate Pw. }
      * exact A.
      * eapply J_sheq; [| | | |eapply (J_mono sh ths); [exact B| |]]; sh_simpl; auto.
        -- intros x' Hx' Px'. destruct (In_set_th _ _ _ _ _ HN' Hx') as [->|(u & Hu & Nu)]; [discriminate Px'|].
           rewrite (nth_set _ _ _ _ _ Nw) in Nu. destruct (Nat.eqb u w).
           ++ injection Nu as <-. discriminate Px'.
           ++ exists x'. split; [eapply nth_error_In; eauto|exact Px'].
        -- intros x Hx Wx. destruct (In_nth_error _ _ Hx) as (u & Nu).
           destruct (Nat.eq_dec u t) as [->|Hut].
           ++ rewrite HN in Nu. injection Nu as <-. exists th_e. split; [eapply In_set_th_self; eauto|auto].
           ++ destruct (Nat.eq_dec u w) as [->|Huw].
              ** rewrite Nw in Nu. injection Nu as <-. exfalso. unfold is_parked in Pw. destruct Wx as [X|[X _]]; rewrite X in Pw; discriminate Pw.
              ** exists x. split; [|exact Wx]. eapply In_set_th_other; [exact HN'| |exact Hut].
                 rewrite (nth_set _ _ _ _ _ Nw). assert (X : Nat.eqb u w = false) by (apply Nat.eqb_neq; auto). rewrite X. exact Nu.
      * intros _ _ _. left. exists (woken wt). split; [|reflexivity].
        eapply In_set_th_other; [exact HN'| |exact Hwt]. rewrite (nth_set _ _ _ _ _ Nw). rewrite Nat.eqb_refl. reflexivity.
      * intros o H. sh_simpl. rewrite !set_th_length. apply D. exact H.
    + intros u thu Hu Nu. rewrite (nth_set _ _ _ _ _ Nw) in Nu. destruct (Nat.eqb u w) eqn:E.
      * apply Nat.eqb_eq in E. subst u. injection Nu as <-. split.
        -- apply Wth_woken; [exact Pw|]. eapply Wth_stable; [eapply Stopped_nth; eauto|apply Rely_log_any|apply HW; exact Nw].
        -- unfold stopped, woken. cbn [status]. exact I.
      * split; [|eapply Stopped_nth; eauto].
        eapply Wth_stable; [eapply Stopped_nth; eauto|apply Rely_log_any|apply HW; exact Nu].
  - pose proof (first_parked_none _ _ _ EP) as Pn.
    apply (finish_k t fuel _ th); [exact HN| |exact Hk|].
    + destruct HG as [A B C D AW]. constructor.
      5: { intros u Hu. sh_simpl. destruct (AW u Hu) as (x & Nx & Ox).
           rewrite (nth_set _ _ _ _ _ HN). destruct (Nat.eqb_spec u t) as [->|Hut]; [exists th_e; split; [reflexivity|left; reflexivity]|exists x; auto]. }
      * exact A.
      * eapply J_sheq; [| | | |eapply (J_mono sh ths); [exact B| |]]; sh_simpl; auto.
        -- intros x' Hx' Px'. destruct (In_set_th _ _ _ _ _ HN Hx') as [->|(u & Hu & Nu)]; [discriminate Px'|].
           exists x'. split; [eapply nth_error_In; eauto|exact Px'].
        -- intros x Hx Wx. destruct (In_nth_error _ _ Hx) as (u & Nu).
           destruct (Nat.eq_dec u t) as [->|Hut].
           ++ rewrite HN in Nu. injection Nu as <-. exists th_e. split; [eapply In_set_th_self; eauto|auto].
           ++ exists x. split; [|exact Wx]. eapply In_set_th_other; eauto.
      * intros _ _ _. right. intros x Hx Px. destruct (In_set_th _ _ _ _ _ HN Hx) as [->|(u & Hu & Nu)]; [discriminate Px|].
        specialize (Pn x (nth_error_In _ _ Nu)). unfold is_parked in Pn. rewrite Px in Pn. discriminate Pn.
      * intros o H. sh_simpl. rewrite set_th_length. apply D. exact H.
    + intros u thu Hu Nu. split; [|eapply Stopped_nth; eauto].
      eapply Wth_stable; [eapply Stopped_nth; eauto|apply Rely_log_any|apply HW; exact Nu].
Qed.

Lemma pair_let {A B C} (p : A * B) (f : A -> B -> C) : (let '(a, b) := p in f a b) = f (fst p) (snd p).
Proof. destruct p; reflexivity. Qed.

(* ---------- one step of the chosen thread ---------- *)
Lemma perform_k t cfg :
  KG (shs cfg) (ths cfg) -> KW (shs cfg) (ths cfg) -> Stopped (ths cfg) -> th_enabled cfg t = true ->
  KG (shs (perform t cfg)) (ths (perform t cfg)) /\ KW (shs (perform t cfg)) (ths (perform t cfg)).
Proof.
  intros HG HW HS En. unfold th_enabled in En. unfold perform. generalize ADV_FUEL. intros fuel.
  destruct (nth_error (ths cfg) t) as [th|] eqn:HN; [|discriminate En].
  unfold enabled in En. destruct (status th) eqn:St; try discriminate En.
  - (* TRun *)
    destruct (code th) as [|i rest] eqn:Ec; [discriminate En|].
    pose proof (Stopped_nth _ _ _ HS HN) as Sy. unfold stopped in Sy. rewrite St, Ec in Sy.
    destruct i as [m|m|x|x|x| |timed|tt f|r c u v|timed| | | |rr]; try discriminate Sy.
    all: try (destruct m); try (destruct x).
    all: cbv beta iota zeta; cbn [status].
    all: try (rewrite pair_let; cbn [shs ths];
              first [ apply (perform_generic t fuel (shs cfg) (ths cfg) th _ rest HG HW HS HN St Ec Sy);
                      [intros; discriminate | discriminate | intros m0 Hm; injection Hm as <-; cbn [owner_of]; destruct (oqm (shs cfg)), (ofm (shs cfg)); try reflexivity; discriminate En]
                    | apply (perform_generic t fuel (shs cfg) (ths cfg) th _ rest HG HW HS HN St Ec Sy);
                      [intros; discriminate | discriminate | intros m0 Hm; discriminate Hm] ]).
    + rewrite pair_let; cbn [shs ths]. apply (perform_generic t fuel (shs cfg) (ths cfg) th _ rest HG HW HS HN St Ec Sy);
        [intros; discriminate | discriminate | intros m0 Hm; injection Hm as <-; destruct (owner_of (shs cfg) QM); [discriminate En|reflexivity]].
    + rewrite pair_let; cbn [shs ths]. apply (perform_generic t fuel (shs cfg) (ths cfg) th _ rest HG HW HS HN St Ec Sy);
        [intros; discriminate | discriminate | intros m0 Hm; injection Hm as <-; destruct (owner_of (shs cfg) FM); [discriminate En|reflexivity]].
    + rewrite pair_let; cbn [shs ths]. exact (perform_notify t fuel (shs cfg) (ths cfg) th rest HG HW HS HN St Ec).
    + cbn [shs ths]. exact (perform_cvwait t (shs cfg) (ths cfg) th timed rest HG HW HS HN St Ec).
  - (* TWoken *)
    rewrite pair_let; cbn [shs ths].
    apply (perform_woken t fuel (shs cfg) (ths cfg) th HG HW HS HN St).
    destruct (oqm (shs cfg)); [discriminate En|reflexivity].
Qed.

Lemma next_from_schedule_enabled cfg : forall s t r, next_from_schedule cfg s = (Some t, r) -> th_enabled cfg t = true.
Proof.
  induction s as [|x s IH]; intros t r H; cbn [next_from_schedule] in H; [discriminate|].
  destruct (th_enabled cfg x) eqn:E; [injection H as <- _; exact E|eapply IH; eauto].
Qed.

Definition KInv (cfg : config) : Prop := KG (shs cfg) (ths cfg) /\ KW (shs cfg) (ths cfg) /\ Stopped (ths cfg).

(* a timed wait times out *)
Lemma timeout_k sh ths w wt :
  KG sh ths -> KW sh ths -> Stopped ths -> nth_error ths w = Some wt -> status wt = TParked true ->
  KG (sh_log sh (CTimeout w)) (set_th ths w (mkTh (code wt) (calls wt) (lo_to (lo wt) true) TWoken)) /\
  KW (sh_log sh (CTimeout w)) (set_th ths w (mkTh (code wt) (calls wt) (lo_to (lo wt) true) TWoken)) /\
  Stopped (set_th ths w (mkTh (code wt) (calls wt) (lo_to (lo wt) true) TWoken)).
Proof.
  intros HG HW HS HN St. set (wt' := mkTh (code wt) (calls wt) (lo_to (lo wt) true) TWoken).
  split; [|split].
  - destruct (nth_error_split _ _ HN) as (a & b & E & La). subst ths. rewrite <- La. rewrite set_th_mid.
    destruct HG as [A B C D AW]. constructor.
    + exact A.
    + eapply J_sheq; [| | | |eapply J_replace; [exact B| |]]; sh_simpl; auto; cbn [status wt'].
      * discriminate.
      * intros _. left. reflexivity.
    + intros t0 rs E. discriminate E.
    + intros o H. sh_simpl. rewrite (mid_length a _ wt). apply D. exact H.
    + eapply AWs_sheq; [reflexivity|]. eapply AWs_replace; [exact AW|]. unfold okst. rewrite St. intros [X|X]; discriminate X.
  - intros u x Hu. rewrite (nth_set _ _ _ _ _ HN) in Hu. destruct (Nat.eqb u w) eqn:E.
    + apply Nat.eqb_eq in E. subst u. injection Hu as <-.
      pose proof (HW w wt HN) as Ww. unfold Wth in *. rewrite St in Ww. cbn [status code lo wt']. sh_simpl. lo_simpl.
      destruct Ww as (W1 & W2 & W3 & W4). repeat split; auto.
    + eapply Wth_stable; [eapply Stopped_nth; eauto|apply Rely_log_any|apply HW; exact Hu].
  - intros x Hx. destruct (In_set_th _ _ _ _ _ HN Hx) as [->|(u & _ & Nu)].
    + unfold stopped. cbn [status wt']. exact I.
    + eapply Stopped_nth; eauto.
Qed.

Lemma spurious_k sh ths w wt timed :
  KG sh ths -> KW sh ths -> Stopped ths -> nth_error ths w = Some wt -> status wt = TParked timed ->
  KG sh (set_th ths w (mkTh (code wt) (calls wt) (lo_to (lo wt) false) TWoken)) /\
  KW sh (set_th ths w (mkTh (code wt) (calls wt) (lo_to (lo wt) false) TWoken)) /\
  Stopped (set_th ths w (mkTh (code wt) (calls wt) (lo_to (lo wt) false) TWoken)).
Proof.
  intros HG HW HS HN St. set (wt' := mkTh (code wt) (calls wt) (lo_to (lo wt) false) TWoken).
  split; [|split].
  - destruct (nth_error_split _ _ HN) as (a & b & E & La). subst ths. rewrite <- La. rewrite set_th_mid.
    destruct HG as [A B C D AW]. constructor.
    + exact A.
    + eapply J_sheq; [| | | |eapply J_replace; [exact B| |]]; sh_simpl; auto; cbn [status wt'].
      * discriminate.
      * intros _. left. reflexivity.
    + intros t0 rs E. eapply Nfact_replace; [exact (C _ _ E)| |]; cbn [status wt']; [rewrite St; discriminate|discriminate].
    + intros o H. sh_simpl. rewrite (mid_length a _ wt). apply D. exact H.
    + eapply AWs_sheq; [reflexivity|]. eapply AWs_replace; [exact AW|]. unfold okst. rewrite St. intros [X|X]; discriminate X.
  - intros u x Hu. rewrite (nth_set _ _ _ _ _ HN) in Hu. destruct (Nat.eqb u w) eqn:E.
    + apply Nat.eqb_eq in E. subst u. injection Hu as <-.
      pose proof (HW w wt HN) as Ww. unfold Wth in *. rewrite St in Ww. cbn [status code lo wt']. sh_simpl. lo_simpl.
      destruct Ww as (W1 & W2 & W3 & W4). repeat split; auto.
    + eapply Wth_stable; [eapply Stopped_nth; eauto|apply Rely_refl|apply HW; exact Hu].
  - intros x Hx. destruct (In_set_th _ _ _ _ _ HN Hx) as [->|(u & _ & Nu)].
    + unfold stopped. cbn [status wt']. exact I.
    + eapply Stopped_nth; eauto.
Qed.

Lemma unnotified_k cfg tok c : KInv cfg -> unnotified cfg tok = Some c -> KInv c.
Proof.
  intros (HG & HW & HS) H. unfold unnotified in H.
  destruct (Nat.leb 2000 tok).
  - destruct (nth_error (ths cfg) (tok - 2000)) as [wt|] eqn:EN; [|discriminate].
    destruct (status wt) as [|timed| |] eqn:Est; try discriminate. injection H as <-. unfold KInv. cbn [shs ths].
    apply (spurious_k (shs cfg) (ths cfg) (tok - 2000) wt timed HG HW HS EN Est).
  - destruct (Nat.leb 1000 tok); [|discriminate].
    destruct (nth_error (ths cfg) (tok - 1000)) as [wt|] eqn:EN; [|discriminate].
    destruct (status wt) as [|timed| |] eqn:Est; try discriminate. destruct timed; [|discriminate]. injection H as <-. unfold KInv. cbn [shs ths].
    apply (timeout_k (shs cfg) (ths cfg) (tok - 1000) wt HG HW HS EN Est).
Qed.

Lemma sched_step0_k cfg cfg' : KInv cfg -> sched_step0 cfg = Some cfg' -> Stopped (ths cfg') -> KInv cfg'.
Proof.
  intros (HG & HW & HS) H S'. split; [|split; [|exact S']]; revert H; unfold sched_step0.
  all: destruct (dead cfg); [discriminate|].
  all: destruct (next_from_schedule cfg (sched cfg)) as [pick rest] eqn:EN.
  all: set (cfg1 := mkCfg (shs cfg) (ths cfg) rest false).
  all: assert (En1 : forall t, th_enabled cfg1 t = th_enabled cfg t) by reflexivity.
  all: destruct pick as [t|].
  all: try (intros E; injection E as <-;
            apply (perform_k t cfg1); auto; rewrite En1; eapply next_from_schedule_enabled; eauto).
  all: destruct (lowest_enabled cfg1) as [t|] eqn:EL.
  all: try (intros E; injection E as <-;
            apply (perform_k t cfg1); auto; unfold lowest_enabled in EL;
            destruct (first_parked_some _ _ _ _ EL) as (x & Nx & Px & _); rewrite Nat.sub_0_r in Nx;
            unfold th_enabled; rewrite Nx; exact Px).
  all: destruct (first_parked (ths cfg1) 0 _) as [w|] eqn:EP.
  all: try (destruct (first_parked_some _ _ _ _ EP) as (wt & Nw & Pw & _); rewrite Nat.sub_0_r in Nw; rewrite Nw;
            assert (Sw : status wt = TParked true) by (destruct (status wt) as [|[|]| |]; try discriminate Pw; reflexivity);
            destruct (timeout_k (shs cfg1) (ths cfg1) w wt HG HW HS Nw Sw) as (G2 & W2 & S2);
            match goal with |- context[th_enabled ?c ?ww] => destruct (th_enabled c ww) eqn:E2 end;
            intros E; injection E as <-;
            [apply perform_k; auto | cbn [shs ths]; assumption]).
  all: destruct (all_finished cfg1); [discriminate|]; intros E; injection E as <-; cbn [shs ths].
  - apply KG_log; [discriminate|exact HG].
  - intros u x Hu. eapply Wth_stable; [eapply Stopped_nth; eauto|apply Rely_log_any|apply HW; exact Hu].
Qed.

Lemma sched_step_k cfg cfg' : KInv cfg -> sched_step cfg = Some cfg' -> Stopped (ths cfg') -> KInv cfg'.
Proof.
  intros HK. unfold sched_step. destruct (dead cfg) eqn:Ed; [discriminate|].
  assert (H0 : sched_step0 cfg = Some cfg' -> Stopped (ths cfg') -> KInv cfg') by (apply sched_step0_k; exact HK).
  destruct (sched cfg) as [|tok rest]; [exact H0|].
  destruct (unnotified _ tok) as [c|] eqn:EU; [|exact H0].
  intros E _. injection E as <-. eapply unnotified_k; [|exact EU]. exact HK.
Qed.

(* ---------- every reachable configuration ---------- *)
Lemma init_k progs schedule : KInv (mkCfg sh0 (start_threads progs) schedule false).
Proof.
  unfold KInv. cbn [shs ths]. split; [|split].
  - constructor.
    + intros _. cbn. lia.
    + intros _ (th & Hin & St). exfalso. unfold start_threads in Hin. apply in_map_iff in Hin.
      destruct Hin as (p & <- & _). discriminate St.
    + intros t0 rs E. discriminate E.
    + intros o [H|H]; discriminate H.
    + intros u Hu. destruct Hu.
  - intros u th Hu. unfold start_threads in Hu. apply nth_error_In in Hu. apply in_map_iff in Hu. destruct Hu as (p & <- & _).
    unfold Wth. cbn [status code lo wkl wki]. intros sh1 (Rq & Rf & _) _. split; [exact I|]. cbn [eff fst snd].
    unfold Post. split; [reflexivity|]. cbn [oqm ofm sh0] in *. split; intros X; [apply Rq in X|apply Rf in X]; discriminate X.
  - intros th Hin. unfold start_threads in Hin. apply in_map_iff in Hin. destruct Hin as (p & <- & _). reflexivity.
Qed.

(* the runs in which no block of local code was cut short by the fuel of QConc.advance *)
Fixpoint stopped_along (n : nat) (cfg : config) : Prop :=
  match n with
  | 0 => True
  | S f => match sched_step cfg with Some c => Stopped (ths c) /\ stopped_along f c | None => True end
  end.

Lemma run_k n : forall cfg, KInv cfg -> stopped_along n cfg -> KInv (run_sched n cfg).
Proof.
  induction n as [|f IH]; intros cfg HK HS; cbn [run_sched stopped_along] in *; [exact HK|].
  destruct (sched_step cfg) as [c|] eqn:E; [|exact HK]. destruct HS as [S1 S2].
  apply IH; [|exact S2]. eapply sched_step_k; eauto.
Qed.

Theorem wake_invariant_every_schedule progs schedule n :
  stopped_along n (mkCfg sh0 (start_threads progs) schedule false) ->
  KInv (run_sched n (mkCfg sh0 (start_threads progs) schedule false)).
Proof. intros H. apply run_k; [apply init_k|exact H]. Qed.

(* a thread that holds a mutex can run *)
Lemma holder_enabled cfg o :
  KInv cfg -> oqm (shs cfg) = Some o \/ ofm (shs cfg) = Some o -> th_enabled cfg o = true.
Proof.
  intros (HG & HW & HS) Ho.
  pose proof (kg_own _ _ HG o Ho) as Lt. destruct (nth_error (ths cfg) o) as [th|] eqn:HN; [|apply nth_error_None in HN; lia].
  pose proof (HW o th HN) as W. pose proof (Stopped_nth _ _ _ HS HN) as S.
  unfold th_enabled. rewrite HN. unfold enabled, Wth, stopped in *.
  destruct (status th).
  - destruct (code th) as [|i r]; cbn [wkl] in W.
    + exfalso. unfold Post in W. tauto.
    + destruct i as [m|m|x|x|x| |timed|tt f|rr c u v|timed| | | |rr]; try discriminate S; try reflexivity.
      exfalso. cbn [wki] in W. destruct (W _ (Rely_refl o _) (kg_good _ _ HG)) as [(P1 & P2) _]. tauto.
  - exfalso. tauto.
  - exfalso. tauto.
  - exfalso. tauto.
Qed.

(* ---------- no wake-up is lost ---------- *)
Theorem no_lost_wakeup cfg :
  KInv cfg ->
  (forall t, th_enabled cfg t = false) ->                          (* nobody can run *)
  (exists th, In th (ths cfg) /\ status th = TParked false) ->      (* a thread is blocked in wait() *)
  ql (shs cfg) <> [] ->                                            (* events are pending *)
  cnc (shs cfg) = 0%Z ->                                           (* notification is enabled *)
  g_under (shs cfg) = false ->                                     (* no DisableQueueNotify destroyed that was not constructed *)
  g_awake (shs cfg) <> [].                                         (* then a woken consumer did not drain the queue *)
Proof.
  intros HK Hdead HP HQ HC HU. pose proof HK as (HG & HW & HS).
  destruct (kg_j _ _ HG HU HP HQ HC) as [(w & Hin & Hw)|X]; [exfalso|exact X].
  destruct (In_nth_error _ _ Hin) as (u & Nu).
  pose proof (Hdead u) as Eu. unfold th_enabled in Eu. rewrite Nu in Eu. unfold enabled in Eu.
  pose proof (HW u w Nu) as W. pose proof (Stopped_nth _ _ _ HS Nu) as S. unfold Wth, stopped in *.
  destruct Hw as [St|[St Lw]]; rewrite St in *.
  - destruct (oqm (shs cfg)) as [o|] eqn:Eo; [|discriminate Eu].
    pose proof (holder_enabled cfg o HK (or_introl Eo)) as X. rewrite Hdead in X. discriminate X.
  - destruct (code w) as [|i r]; cbn [wkl] in W.
    + unfold Post in W. destruct W as (X & _). congruence.
    + destruct i as [m|m|x|x|x| |timed|tt f|rr c v v'|timed| | | |rr]; try discriminate S; try discriminate Eu.
      destruct (owner_of (shs cfg) m) as [o|] eqn:Eo; [|discriminate Eu].
      assert (Ho : oqm (shs cfg) = Some o \/ ofm (shs cfg) = Some o) by (destruct m; cbn [owner_of] in Eo; auto).
      pose proof (holder_enabled cfg o HK Ho) as X. rewrite Hdead in X. discriminate X.
Qed.

(* a running thread can run, or the owner of the mutex it waits for can *)
Lemma running_means_someone_enabled cfg u th :
  KInv cfg -> nth_error (ths cfg) u = Some th -> status th = TRun -> exists v, th_enabled cfg v = true.
Proof.
  intros HK Nu St. pose proof HK as (HG & HW & HS).
  pose proof (Stopped_nth _ _ _ HS Nu) as S. unfold stopped in S. rewrite St in S.
  destruct (code th) as [|i r] eqn:Ec; [contradiction|].
  assert (Hen : th_enabled cfg u = enabled (shs cfg) th) by (unfold th_enabled; rewrite Nu; reflexivity).
  unfold enabled in Hen. rewrite St, Ec in Hen.
  destruct i as [m|m|x|x|x| |timed|tt f|rr c v v'|timed| | | |rr]; try discriminate S; try (exists u; exact Hen).
  destruct (owner_of (shs cfg) m) as [o|] eqn:Eo; [|exists u; exact Hen].
  exists o. apply (holder_enabled cfg o HK). destruct m; cbn [owner_of] in Eo; auto.
Qed.

(* the sharper form: the thread that did not drain the queue has FINISHED its program (a thread in g_awake is never one
   that waits again) *)
Theorem no_lost_wakeup_names_a_finished_thread cfg :
  KInv cfg ->
  (forall t, th_enabled cfg t = false) ->
  (exists th, In th (ths cfg) /\ status th = TParked false) ->
  ql (shs cfg) <> [] -> cnc (shs cfg) = 0%Z -> g_under (shs cfg) = false ->
  exists u th, In u (g_awake (shs cfg)) /\ nth_error (ths cfg) u = Some th /\ status th = TFinished.
Proof.
  intros HK Hdead HP HQ HC HU. pose proof (no_lost_wakeup cfg HK Hdead HP HQ HC HU) as NE.
  destruct (g_awake (shs cfg)) as [|u r] eqn:E; [contradiction|].
  destruct HK as (HG & HW & HS).
  destruct (kg_aw _ _ HG u) as (th & Nu & [St|St]); [rewrite E; left; reflexivity| |].
  - exfalso. destruct (running_means_someone_enabled cfg u th (conj HG (conj HW HS)) Nu St) as (v & Ev).
    rewrite Hdead in Ev. discriminate Ev.
  - exists u, th. split; [left; reflexivity|]. split; assumption.
Qed.

(* ---------- the side condition, decided on concrete runs ---------- *)
Definition stoppedb (th : thread) : bool :=
  match status th with
  | TRun => match code th with [] => false | i :: _ => is_sync i end
  | _ => true
  end.

Fixpoint stopped_alongb (n : nat) (cfg : config) : bool :=
  match n with
  | 0 => true
  | S f => match sched_step cfg with Some c => forallb stoppedb (ths c) && stopped_alongb f c | None => true end
  end.

Lemma stopped_alongb_ok n : forall cfg, stopped_alongb n cfg = true -> stopped_along n cfg.
Proof.
  induction n as [|f IH]; intros cfg H; cbn [stopped_along stopped_alongb] in *; [exact I|].
  destruct (sched_step cfg) as [c|]; [|exact I]. apply andb_true_iff in H. destruct H as [H1 H2].
  split; [|apply IH; exact H2]. intros th Hin. rewrite forallb_forall in H1. specialize (H1 th Hin).
  unfold stopped, stoppedb in *. destruct (status th); try exact I. destruct (code th); [discriminate H1|exact H1].
Qed.

(* the hypotheses of the two theorems are met by actual runs, and the last disjunct of no_lost_wakeup is needed:
   two threads wait, one event arrives, the waiter that is released returns without processing it — the other
   waiter sleeps on a non-empty queue, and g_awake names the thread that did not drain it *)
Definition undrained_cfg : config :=
  run_sched 60 (mkCfg sh0 (start_threads [[AWait]; [AWait]; [AEnqueue 1 11%Z]]) [0; 0; 0; 0; 0; 1; 1; 1; 1; 1; 2; 2; 2; 2; 2; 2; 2; 2; 0; 0; 0; 0] false).

Example undrained_consumer_is_named :
  stopped_alongb 60 (mkCfg sh0 (start_threads [[AWait]; [AWait]; [AEnqueue 1 11%Z]]) [0; 0; 0; 0; 0; 1; 1; 1; 1; 1; 2; 2; 2; 2; 2; 2; 2; 2; 0; 0; 0; 0] false) = true /\
  forallb (fun t => negb (th_enabled undrained_cfg t)) [0; 1; 2] = true /\
  existsb (fun th => match status th with TParked false => true | _ => false end) (ths undrained_cfg) = true /\
  length (ql (shs undrained_cfg)) = 1 /\ cnc (shs undrained_cfg) = 0%Z /\ g_under (shs undrained_cfg) = false /\
  g_awake (shs undrained_cfg) = [0].
Proof. vm_compute. repeat split; reflexivity. Qed.

(* the headline form: when everybody who was released from wait has drained the queue, nobody is left waiting on work *)
Corollary no_waiter_left_behind cfg :
  KInv cfg -> (forall t, th_enabled cfg t = false) -> g_under (shs cfg) = false -> g_awake (shs cfg) = [] ->
  ql (shs cfg) <> [] -> cnc (shs cfg) = 0%Z ->
  forall th, In th (ths cfg) -> status th <> TParked false.
Proof.
  intros HK Hd HU HA HQ HC th Hin St. apply (no_lost_wakeup cfg HK Hd); eauto.
Qed.

(* the schedule of corpus/qconc/p13_putback_lost_wakeup.case (wait | enqueue | processIf refusing everything): the side
   condition holds along the run and the run ends with every thread finished *)
Example p13_run_meets_the_side_condition :
  let c0 := mkCfg sh0 (start_threads [[AWait]; [AEnqueue 1 11%Z]; [AProcessIf 0]])
                  [0; 0; 0; 0; 0; 0; 1; 2; 0; 1; 1; 2; 1; 2; 2; 1; 2; 0; 2; 2; 2; 1; 2; 1; 0; 2; 2; 2; 1; 0; 1; 2; 2; 2] false in
  stopped_alongb 100 c0 = true /\ all_finished (run_sched 100 c0) = true.
Proof. vm_compute. split; reflexivity. Qed.

(* ---------- waitFor returning false (C11, second half) ---------- *)
(* under the interference the other threads can exert (Rely), for every state in which the call begins: when waitFor
   returns false it has timed out, and its last evaluation of doCanProcess() either read the list empty and then the
   in-dispatch counter 0 — emptyQueue() answered true: lseen is the ghost QConcEmpty's cross-thread theorem speaks
   about — or loaded a non-zero queueNotifyCounter (a DisableQueueNotify object existed) *)
Theorem waitfor_false_means t sh :
  oqm sh <> Some t -> ofm sh <> Some t ->
  wkl t (code_of AWaitFor)
      (fun _ lo => lres lo = false ->
                   ltimedout lo = true /\
                   ((lbe lo = true /\ lseen lo = true) \/ (lbe lo = false /\ GenQ.can_notify (lreg lo) = false)))
      sh lo0.
Proof.
  intros Hq Hf. cbn [code_of]. repeat wk2; try exact I; try ks_auto; try solve [own].
  split; [reflexivity|]. split; [own|]. intros sh' lo' X Y Z V. repeat wk2; try exact I; try solve [own].
  exact V.
Qed.

(* ---------- no call deadlocks on the two mutexes (C06, last clause) ---------- *)
(* whenever a thread is inside a call and not parked in wait / waitFor, some thread can run: either that thread itself,
   or the thread that owns the mutex it is waiting for (which never waits for a mutex itself: no nested locks) *)
Theorem no_mutex_deadlock cfg u th :
  KInv cfg -> nth_error (ths cfg) u = Some th -> status th = TRun -> code th <> [] ->
  exists v, th_enabled cfg v = true.
Proof.
  intros HK Nu St Hc. pose proof HK as (HG & HW & HS).
  pose proof (Stopped_nth _ _ _ HS Nu) as S. unfold stopped in S. rewrite St in S.
  destruct (code th) as [|i r] eqn:Ec; [contradiction|].
  assert (Hen : th_enabled cfg u = enabled (shs cfg) th) by (unfold th_enabled; rewrite Nu; reflexivity).
  unfold enabled in Hen. rewrite St, Ec in Hen.
  destruct i as [m|m|x|x|x| |timed|tt f|rr c v v'|timed| | | |rr]; try discriminate S; try (exists u; exact Hen).
  destruct (owner_of (shs cfg) m) as [o|] eqn:Eo; [|exists u; exact Hen].
  exists o. apply (holder_enabled cfg o HK). destruct m; cbn [owner_of] in Eo; auto.
Qed.

Theorem no_mutex_deadlock_every_schedule progs schedule n u th :
  let cfg := run_sched n (mkCfg sh0 (start_threads progs) schedule false) in
  stopped_along n (mkCfg sh0 (start_threads progs) schedule false) ->
  nth_error (ths cfg) u = Some th -> status th = TRun -> code th <> [] ->
  exists v, th_enabled cfg v = true.
Proof. intros cfg HS. apply no_mutex_deadlock. apply wake_invariant_every_schedule. exact HS. Qed.

(* ---------- waits that end without a notification ---------- *)
(* schedule token 2000 + w: the wait of thread w wakes up spuriously.  Here thread 0 parks, is woken with no
   notification and no timeout, re-acquires the mutex, evaluates the predicate again (queue still empty), parks again, and
   is released by the enqueue of thread 1 — the theorems above quantify over every schedule, these tokens included *)
Example spurious_wake_run :
  let c0 := mkCfg sh0 (start_threads [[AWait]; [AEnqueue 1 11%Z]])
                  ([0; 0; 0; 0; 0; 2000; 0; 0; 0; 0; 0; 0; 0] ++ repeat 1 12 ++ repeat 0 10) false in
  map status (ths (run_sched 5 c0)) = [TParked false; TRun] /\
  map status (ths (run_sched 6 c0)) = [TWoken; TRun] /\
  map status (ths (run_sched 10 c0)) = [TParked false; TRun] /\
  stopped_alongb 100 c0 = true /\ all_finished (run_sched 100 c0) = true.
Proof. vm_compute. repeat split; reflexivity. Qed.

(* schedule token 1000 + w: the timed wait of thread w times out now, although another thread can run *)
Example timeout_while_others_run :
  let c1 := mkCfg sh0 (start_threads [[AWaitFor]; [AEnqueue 1 11%Z]])
                  ([0; 0; 0; 0; 0; 1; 1; 1000] ++ repeat 0 10 ++ repeat 1 12) false in
  map status (ths (run_sched 7 c1)) = [TParked true; TRun] /\
  th_enabled (run_sched 7 c1) 1 = true /\
  map status (ths (run_sched 8 c1)) = [TWoken; TRun] /\
  In (CRes 0 false) (clog (shs (run_sched 100 c1))) /\
  stopped_alongb 100 c1 = true /\ all_finished (run_sched 100 c1) = true.
Proof. vm_compute. repeat split; try reflexivity. tauto. Qed.
