(* CLMain.v — the initial states are related; the refinement theorem for whole programs. *)
From Coq Require Import List Arith NArith ZArith Bool Lia.
From EV Require Import CLModel CLSpec CLHeap CLOps CLRefine CLSim.
From EV.gen Require GenCL.
Import ListNotations.
Local Open Scope nat_scope.

Lemma init_shape nl :
  groups (init nl) = repeat empty_group nl /\
  lists (init nl) = map (fun i => Some (mkLobj i 0%N)) (seq 0 nl) /\
  regs (init nl) = [] /\ acts (init nl) = [] /\ pins (init nl) = [] /\ wrapped (init nl) = false /\ trace (init nl) = [].
Proof.
  unfold init. induction nl as [|k IH]; [simpl; auto 10|].
  rewrite seq_S, map_app. simpl.
  destruct IH as [A [B _]]. rewrite A, B. rewrite repeat_length.
  split; [|split; [reflexivity|auto 10]].
  clear. induction k; simpl; [reflexivity|]. f_equal. exact IHk.
Qed.

Lemma s_init_shape nl :
  sgroups (s_init nl) = repeat empty_sgroup nl /\
  slists (s_init nl) = map (fun i => Some i) (seq 0 nl) /\
  sregs (s_init nl) = [] /\ sacts (s_init nl) = [] /\ spins (s_init nl) = [] /\ strace (s_init nl) = [].
Proof.
  unfold s_init. induction nl as [|k IH]; [simpl; auto 10|].
  rewrite seq_S, map_app. simpl.
  destruct IH as [A [B _]]. rewrite A, B. rewrite repeat_length.
  split; [|split; [reflexivity|auto 10]].
  clear. induction k; simpl; [reflexivity|]. f_equal. exact IHk.
Qed.

Lemma nth_error_repeat {A} (x : A) n i : i < n -> nth_error (repeat x n) i = Some x.
Proof.
  revert i; induction n as [|n IH]; intros i H; [lia|]. destruct i; simpl; [reflexivity|]. apply IH; lia.
Qed.

Lemma nth_error_map_seq {A} (f : nat -> A) n i : nth_error (map f (seq 0 n)) i = if Nat.ltb i n then Some (f i) else None.
Proof.
  rewrite nth_error_map. destruct (Nat.ltb_spec i n) as [H|H].
  - rewrite (nth_error_nth' _ 0) by (rewrite seq_length; exact H). rewrite seq_nth by exact H. reflexivity.
  - rewrite (proj2 (nth_error_None _ _)); [reflexivity|]. rewrite seq_length. exact H.
Qed.

Lemma init_R W nl : (0 < W)%N -> R W (init nl) (s_init nl).
Proof.
  intros HW.
  destruct (init_shape nl) as [A1 [A2 [A3 [A4 [A5 [A6 A7]]]]]].
  destruct (s_init_shape nl) as [B1 [B2 [B3 [B4 [B5 B6]]]]].
  assert (GL : forall l o, get_list (init nl) l = Some o -> l < nl /\ o = mkLobj l 0%N).
  { intros l o H. unfold get_list in H. rewrite A2, nth_error_map_seq in H.
    destruct (Nat.ltb_spec l nl); [|discriminate]. inversion H; auto. }
  constructor.
  - rewrite A2, B2, map_map. reflexivity.
  - rewrite A1, B1, !repeat_length. reflexivity.
  - intros l1 l2 o1 o2 H1 H2 E. destruct (GL _ _ H1) as [_ ->]. destruct (GL _ _ H2) as [_ ->]. exact E.
  - intros l o H. destruct (GL _ _ H) as [Hl ->]. simpl. exists empty_group, empty_sgroup.
    unfold get_group, s_get_group. rewrite A1, B1, !nth_error_repeat by exact Hl.
    split; [reflexivity|]. split; [reflexivity|]. split; [|split; [exact HW|reflexivity]].
    constructor.
    + apply ginv_empty.
    + intros e c [].
    + intros e nd X. destruct e; discriminate.
  - intros g gr sgr H1 H2. unfold get_group, s_get_group in *. rewrite A1 in H1. rewrite B1 in H2.
    assert (g < nl). { assert (X : g < length (repeat empty_group nl)) by (apply nth_error_Some; rewrite H1; discriminate). rewrite repeat_length in X; exact X. }
    rewrite nth_error_repeat in H1 by assumption. rewrite nth_error_repeat in H2 by assumption. inversion H1; inversion H2; subst. auto.
  - rewrite A5. intros g n [].
  - rewrite A5, B5. reflexivity.
  - rewrite A3, B3. reflexivity.
  - rewrite A4, B4. reflexivity.
  - rewrite A7, B6. reflexivity.
Qed.

Notation chkR := GenCL.remove_checks_removed.
Notation chkI := GenCL.insert_checks_removed.
Notation chkO := GenCL.owns_checks_removed.

(* The re-entrant pointer-level run refines the snapshot specification. *)
Theorem cl_run_refines W behav fuel nl prog st' :
  (0 < W)%N -> core_behav behav -> core_prog prog ->
  run W chkR chkI chkO behav fuel (init nl) prog = Some st' -> wrapped st' = false ->
  exists sst', s_run behav fuel (s_init nl) prog = Some sst' /\ strace sst' = trace st' /\ R W st' sst'.
Proof.
  intros HW Hb Hp H Hw.
  destruct (run_sim W behav Hb fuel (init nl) (s_init nl) prog st' Hp (init_R W nl HW) H Hw) as [sst' [A [B C]]].
  exists sst'. split; [exact A|]. split; [apply (r_trace _ _ _ B)|exact B].
Qed.

(* … and from any related pair of states (used after copies, moves and swaps, C10) *)
Theorem cl_run_refines_from W behav fuel st sst prog st' :
  core_behav behav -> core_prog prog -> R W st sst ->
  run W chkR chkI chkO behav fuel st prog = Some st' -> wrapped st' = false ->
  exists sst', s_run behav fuel sst prog = Some sst' /\ strace sst' = trace st' /\ R W st' sst'.
Proof.
  intros Hb Hp HR H Hw.
  destruct (run_sim W behav Hb fuel st sst prog st' Hp HR H Hw) as [sst' [A [B C]]].
  exists sst'. split; [exact A|]. split; [apply (r_trace _ _ _ B)|exact B].
Qed.

(* what R says about the final content: the linked chain is the spec's list *)
Theorem R_content W st sst l o :
  R W st sst -> get_list st l = Some o ->
  exists gr sgr, get_group st (lg o) = Some gr /\ s_get_group sst (lg o) = Some sgr /\
                 GInv gr (map fst (ents sgr)) /\
                 (forall e c, In (e, c) (ents sgr) -> exists nd, nth_error (heap gr) e = Some nd /\ cb nd = c).
Proof.
  intros HR Hl. destruct (r_grp _ _ _ HR l o Hl) as [gr [sgr [A [B [C _]]]]].
  exists gr, sgr. split; [exact A|]. split; [exact B|]. split; [apply (gr_inv _ _ _ C)|apply (gr_cb _ _ _ C)].
Qed.

(* handles of removed callbacks are inert, whether the node is destroyed or still pinned *)
Theorem stale_handle_inert W st l o gr n nd c hb h :
  get_list st l = Some o -> get_group st (lg o) = Some gr ->
  nth_error (heap gr) n = Some nd -> ctr nd = GenCL.removed_marker ->
  do_remove_handle chkR chkI chkO st l (Some (lg o, n)) = Some (st, false) /\
  do_owns chkR chkI chkO st l (Some (lg o, n)) = Some false /\
  (get_reg st hb = Some (lg o, n) ->
   (forall st1 g1 n1 gr1, alloc_node W st l c = Some (st1, g1, n1) -> get_group st1 g1 = Some gr1 ->
                          exists nd1, nth_error (heap gr1) n = Some nd1 /\ ctr nd1 = GenCL.removed_marker) ->
   do_insert W chkR chkI chkO st l c hb h = do_append W st l c h).
Proof.
  intros Hl Hg Hn Hc.
  assert (Hcl : classify chkR chkI chkO st o (Some (lg o, n)) = HLocal n nd).
  { unfold classify. rewrite Hg, Nat.eqb_refl, Hn. reflexivity. }
  assert (Hu : forall b, usable b nd = negb b).
  { intros b. unfold usable. rewrite Hc, N.eqb_refl. destruct b; reflexivity. }
  split; [|split].
  - unfold do_remove_handle. rewrite Hl, Hcl, Hu. reflexivity.
  - unfold do_owns. rewrite Hl, Hcl, Hu. reflexivity.
  - intros Hr Hstable. unfold do_insert. rewrite Hl, Hr, Hcl. unfold do_append.
    destruct (alloc_node W st l c) as [[[st1 g1] n1]|] eqn:Ea; [|reflexivity].
    destruct (get_group st1 g1) as [gr1|] eqn:Eg1.
    + destruct (Hstable st1 g1 n1 gr1 eq_refl Eg1) as [nd1 [A B]]. rewrite A.
      unfold usable. rewrite B, N.eqb_refl. reflexivity.
    + unfold with_group. rewrite Eg1. reflexivity.
Qed.
