(* Properties_C03.v — C03: listener management and dispatch are thread-safe and linearizable.

   PARTIAL (see the end of this comment).  Proved (CLConcProofs.v, on the very group operations of the sequential proofs):
   every adding / removing / querying call has ONE critical section that reads and writes all
   that determines its result; for EVERY order in which the threads' sections execute, with
   ARBITRARY non-zero counters (they are drawn before the mutex is taken), the list stays well
   formed and its content and all results equal those of the sequential list specification run
   in that order — which respects program order and real-time order since each section lies
   inside its call.  Hence a callback is removed successfully at most once, none is lost or
   duplicated, and the final order is that sequential execution's.
   A traversal running while other threads execute such sections is proved correct for EVERY
   interleaving of its own steps (look at the current node; node = node->next under the mutex)
   with the other threads' sections (CLTrav.v, theorem C03_traversal_under_interference below):
   nothing is visited twice, and whatever was in the list at the start, passes the visit test and
   is not removed meanwhile has been visited at the end; visits follow list order.
   The thread-level model CLConc.v (visible actions on the list mutex and currentCounter; the
   traversal steps node = node->next under the mutex and reads the visited node's fields
   outside it) is replayed step for step against the real CallbackList under the cooperative
   scheduler, and every execution of that machine is proved to be such a sequence of sections
   (CLConcProj.v, theorems C03_every_execution_* below): for every set of thread programs, every schedule and every number
   of steps, the machine's list is the run of the sections it executed, in the order in which it executed them; unless the
   32-bit counter wrapped to zero (C19), content and results are those of the sequential specification in that order; the
   order contains the calls of every finished thread in program order, and what a thread reported are the results of its
   own sections; no configuration is reached in which unfinished threads all wait for the mutex (C03_no_call_blocks_for_ever),
   and code that touches the links runs only under the mutex (C03_sections_run_under_the_mutex).  Traversals of the machine are covered too (C03_finished_traversals_visit_what_stayed:
   CLTrav's invariant carried along every run).  The visits follow list order (C03_visits_follow_list_order).  The order respects real time (C03_real_time_order_is_respected).  The dispatcher is a family of such lists, one per event
   (C03_dispatcher_is_a_family_of_lists: at the granularity of its sections; the instruction-level machine is for one list).
   NOT mechanised: an instruction-level machine for the dispatcher's two-level locking (listenerMutex, then the list's mutex:
   tie A lists the scopes), and data-race freedom of the real code (ThreadSanitizer in the thorough tier). *)
From Coq Require Import List Arith NArith ZArith Bool.
From EV Require Import CLModel CLHeap CLConcProofs CLConc CLConcTrav CLConcProj.
From EV.gen Require GenCL.
Import ListNotations.

Theorem C03_sections_in_any_order_refine_list_spec :
  forall l g ids,
    GInv g ids -> Forall sec_counter_ok l ->
    GInv (fst (run_secs g l)) (fst (spec_secs (length (heap g)) ids l)) /\
    snd (run_secs g l) = snd (spec_secs (length (heap g)) ids l).
Proof. exact sections_in_any_order_refine_list_spec. Qed.
Print Assumptions C03_sections_in_any_order_refine_list_spec.

Theorem C03_one_section_refines :
  forall g ids s,
    GInv g ids -> sec_counter_ok s ->
    GInv (fst (sec_step g s)) (fst (sec_spec (length (heap g)) ids s)) /\
    snd (sec_step g s) = snd (sec_spec (length (heap g)) ids s).
Proof. exact section_refines. Qed.
Print Assumptions C03_one_section_refines.

(* ---------- every execution of the thread-level machine is a sequence of sections (CLConcProj.v) ---------- *)
(* for every set of thread programs, every schedule, every number of steps: the list the machine holds is what the
   sections it executed (recorded in the ghost lsecs), run one after the other in the order in which they were executed,
   make of the empty list, and the recorded results are the results of that run *)
Theorem C03_every_execution_is_the_run_of_its_sections :
  forall progs sch fuel,
    let s := fst (lrun fuel ls0 (lstart progs) sch) in
    run_secs empty_group (secs_of s) = (lgrp s, results_of s).
Proof. exact machine_list_is_the_run_of_its_sections. Qed.
Print Assumptions C03_every_execution_is_the_run_of_its_sections.

(* unless the 32-bit counter wrapped to zero, the list is well formed and content and results are those of the sequential
   list specification executed in the order of the sections: each callback removed successfully at most once, none lost
   or duplicated, final order that of the sequential execution *)
Theorem C03_every_execution_linearizes :
  forall progs sch fuel,
    let s := fst (lrun fuel ls0 (lstart progs) sch) in
    ~ wrapped s ->
    GInv (lgrp s) (fst (spec_secs 0 [] (secs_of s))) /\ results_of s = snd (spec_secs 0 [] (secs_of s)).
Proof. exact every_execution_linearizes. Qed.
Print Assumptions C03_every_execution_linearizes.

(* the order of the sections contains the calls of every finished thread in program order — one section per adding /
   removing / querying call, of the call's kind and callback — and the results the thread reported are, in order, the
   results of its removing / querying sections *)
Theorem C03_sections_follow_program_order :
  forall progs sch fuel t th,
    let s := fst (lrun fuel ls0 (lstart progs) sch) in
    nth_error (snd (lrun fuel ls0 (lstart progs) sch)) t = Some th -> lfin th = true ->
    Forall2 call_sec (filter has_sec (prog progs t)) (rev (map esec (tsecs t s))) /\
    rl t s = map eres (filter (fun e => negb (adds (esec e))) (tsecs t s)).
Proof. exact sections_of_a_finished_thread_are_its_calls_in_program_order. Qed.
Print Assumptions C03_sections_follow_program_order.

(* no deadlock on the list's mutex: in the configuration any run ends in, either every thread has finished its program or
   the scheduler finds a thread that can take a step (whoever holds the mutex has not finished and is not waiting for it) *)
Theorem C03_no_call_blocks_for_ever :
  forall progs sch fuel,
    let s := fst (lrun fuel ls0 (lstart progs) sch) in
    let ths := snd (lrun fuel ls0 (lstart progs) sch) in
    forallb lfin ths = true \/ exists t, lfirst ths 0 (lenabled s) = Some t.
Proof. exact no_call_blocks_for_ever. Qed.
Print Assumptions C03_no_call_blocks_for_ever.

(* lock discipline: code that touches the links never ran while its thread did not hold the mutex (the ghost flag the
   machine sets in that case stays false; lock_discipline_flag_can_be_set shows it can be set) *)
Theorem C03_sections_run_under_the_mutex :
  forall progs sch fuel, lbad (fst (lrun fuel ls0 (lstart progs) sch)) = false.
Proof. exact sections_run_under_the_mutex. Qed.
Print Assumptions C03_sections_run_under_the_mutex.

Example C03_lock_discipline_flag_can_be_set :
  lbad (fst (ladvance 5 0 ls0 (mkLT [do_sec true (fun _ _ => SRemove None)] [] ll0 false None))) = true /\
  lbad (fst (ladvance 5 0 (ls_own ls0 (Some 0)) (mkLT [do_sec true (fun _ _ => SRemove None)] [] ll0 false None))) = false.
Proof. exact lock_discipline_flag_can_be_set. Qed.

(* traversals of the machine (invocations, enumerations) under interference, for every program, schedule and number of
   steps: a traversal that has ended is recorded by the ghost ltravs as (thread, p0, p1, visited nodes), p0 / p1 being the
   number of sections executed when it read head / when it ended.  Unless the counter wrapped: it visited no node twice,
   and it visited every node that was in the list after the first p0 sections and that none of the sections p0+1 .. p1
   removed — in the machine itself, with the captured counter and the unlocked look at the node as in the header
   (GenCL.visit_cond); CLTrav's invariant is carried along the run (CLConcTrav.v, CLConcProj.v) *)
Theorem C03_finished_traversals_visit_what_stayed :
  forall progs sch fuel t p0 p1 vis,
    let s := fst (lrun fuel ls0 (lstart progs) sch) in
    ~ wrapped s -> In (t, p0, p1, vis) (ltravs s) ->
    p0 <= p1 /\ p1 <= length (lsecs s) /\
    NoDup vis /\
    forall z, In z (ids_rec (old_rec (lsecs s) p0)) -> ~ In z (gone_rec (new_rec (old_rec (lsecs s) p1) p0)) -> In z vis.
Proof. exact finished_traversals_visit_what_stayed. Qed.
Print Assumptions C03_finished_traversals_visit_what_stayed.

(* list order of the visits, in the machine: at every visit the machine checks (ghost) that every node the traversal
   visited earlier and that is still in the list — as a walk from head through next finds it — stands before the node it
   is visiting now, and raises lunord otherwise; unless the counter wrapped the flag is never raised *)
Theorem C03_visits_follow_list_order :
  forall progs sch fuel,
    let s := fst (lrun fuel ls0 (lstart progs) sch) in
    ~ wrapped s -> lunord s = false.
Proof. exact visits_follow_list_order. Qed.
Print Assumptions C03_visits_follow_list_order.

Example C03_order_flag_can_be_set :
  list_ids (lgrp two_appends) = [0; 1] /\
  lunord (fst (ladvance 3 0 two_appends (mkLT (loop_body None) [] (mkLL None 0 None (Some 0) 5%N false [1] false 2 0 0) false None))) = true /\
  lunord (fst (ladvance 3 0 two_appends (mkLT (loop_body None) [] (mkLL None 0 None (Some 1) 5%N false [0] false 2 0 0) false None))) = false.
Proof. exact order_flag_can_be_set. Qed.

Example C03_traversal_in_the_machine_example :
  let r := lrun 600 ls0 (lstart trav_progs) trav_sched in
  let s := fst r in
  forallb lfin (snd r) = true /\
  ltravs s = [(0, 3, 5, [0; 2])] /\
  ids_rec (old_rec (lsecs s) 3) = [0; 1; 2] /\
  gone_rec (new_rec (old_rec (lsecs s) 5) 3) = [1] /\
  secs_of s = [SBack 1 1; SBack 2 2; SBack 3 3; SRemove (Some 1); SBack 4 4] /\
  filter (fun a => match a with LaCall _ _ _ => true | _ => false end) (rev (llog s)) = [LaCall 0 1 7; LaCall 0 3 7].
Proof. exact traversal_example. Qed.

(* real-time order.  Every finished call is recorded by the ghost lcrec as (thread, b, i, e): b / e = the number of sections
   executed when the call began / when it ended, i = the position of the call's own section in the order of sections
   (0: the call has none).  The section is executed after the call began and before it ended, and it is the calling
   thread's; hence of two finished calls, the one that had ended when the other began has its section earlier — the
   order of C03_every_execution_linearizes respects the real-time order of non-overlapping calls *)
Theorem C03_calls_take_effect_between_their_ends :
  forall progs sch fuel t b i e,
    let s := fst (lrun fuel ls0 (lstart progs) sch) in
    In (t, b, i, e) (lcrec s) -> i <> 0 ->
    b < i /\ i <= e /\ e <= length (lsecs s) /\
    exists sc r, nth_error (secs_of s) (i - 1) = Some sc /\ nth_error (rev (lsecs s)) (i - 1) = Some (t, sc, r).
Proof. exact calls_take_effect_between_their_ends. Qed.
Print Assumptions C03_calls_take_effect_between_their_ends.

Theorem C03_real_time_order_is_respected :
  forall progs sch fuel t1 b1 i1 e1 t2 b2 i2 e2,
    let s := fst (lrun fuel ls0 (lstart progs) sch) in
    In (t1, b1, i1, e1) (lcrec s) -> In (t2, b2, i2, e2) (lcrec s) -> i1 <> 0 -> i2 <> 0 ->
    e1 <= b2 -> i1 < i2.
Proof. exact real_time_order_is_respected. Qed.
Print Assumptions C03_real_time_order_is_respected.

Example C03_call_record_example :
  rev (lcrec (fst (lrun 600 ls0 (lstart trav_progs) trav_sched))) =
  [(0, 0, 1, 1); (0, 1, 2, 2); (0, 2, 3, 3); (1, 3, 4, 4); (1, 4, 5, 5); (0, 3, 0, 5)].
Proof. vm_compute. reflexivity. Qed.

(* a call's section stands between the call's first action and its end marker *)
Theorem C03_section_inside_call :
  forall c, has_sec c = true ->
    exists pre b x post, lcode_of c = pre ++ do_sec b x :: post /\
                         existsb ends_call pre = false /\ existsb ends_call post = true.
Proof. exact section_inside_call. Qed.
Print Assumptions C03_section_inside_call.

(* the invariant behind these statements, for reference: GI (list = replay of the record, results, counters) and, per
   thread, the rely/guarantee assertion in front of its next instruction *)
Theorem C03_projection_invariant_every_schedule :
  forall progs fuel sch,
    Inv progs (fst (lrun fuel ls0 (lstart progs) sch)) (snd (lrun fuel ls0 (lstart progs) sch)).
Proof. exact projection_every_schedule. Qed.
Print Assumptions C03_projection_invariant_every_schedule.

Example C03_projection_example :
  let r := lrun 400 ls0 (lstart proj_progs) proj_sched in
  forallb lfin (snd r) = true /\
  existsb (fun a => match a with LaInc _ 0%N => true | _ => false end) (llog (fst r)) = false /\
  secs_of (fst r) = [SBack 1 1; SRemove (Some 0); SBefore 4 2 None; SBack 2 3; SBack 3 4; SOwns (Some 0); SEmpty; SRemove (Some 0)] /\
  results_of (fst r) = [true; true; true; true; true; false; false; false] /\
  fst (spec_secs 0 [] (secs_of (fst r))) = [1; 2; 3] /\
  snd (lc_run_case 400 proj_progs proj_sched) = [4; 2; 3].
Proof. exact projection_example. Qed.

(* ---------- the dispatcher: a family of lists (CLDisp.v) ---------- *)
(* for EVERY sequence of dispatcher sections — appendListener & co. under listenerMutex (creating the event's list if there
   is none), removeListener / ownsHandle / hasAnyListener on the list found — the list of every event is what the list
   sections addressed to that event, in their order, make of the empty list (an absent list and an empty one cannot be
   told apart), and the results are the list sections' results; so each event's list refines its own sequential
   specification, whatever is done to the other events' lists *)
From EV Require CLDisp.

Theorem C03_dispatcher_is_a_family_of_lists :
  forall l d e,
    Forall CLDisp.dsec_wf l ->
    CLDisp.dget (fst (CLDisp.drun d l)) e = fst (run_secs (CLDisp.dget d e) (CLDisp.secs_for e l)) /\
    CLDisp.results_for e l (snd (CLDisp.drun d l)) = snd (run_secs (CLDisp.dget d e) (CLDisp.secs_for e l)).
Proof. exact CLDisp.dispatcher_is_a_family_of_lists. Qed.
Print Assumptions C03_dispatcher_is_a_family_of_lists.

Theorem C03_every_event_list_refines_its_spec :
  forall l e,
    Forall CLDisp.dsec_wf l -> Forall sec_counter_ok (CLDisp.secs_for e l) ->
    GInv (CLDisp.dget (fst (CLDisp.drun CLDisp.d0 l)) e) (fst (spec_secs 0 [] (CLDisp.secs_for e l))) /\
    CLDisp.results_for e l (snd (CLDisp.drun CLDisp.d0 l)) = snd (spec_secs 0 [] (CLDisp.secs_for e l)).
Proof. exact CLDisp.every_event_list_refines_its_spec. Qed.
Print Assumptions C03_every_event_list_refines_its_spec.

Example C03_dispatcher_example :
  let l := [CLDisp.DAdd 7 (SBack 1 1%N); CLDisp.DAdd 9 (SBack 2 2%N); CLDisp.DAdd 7 (SFront 3 3%N); CLDisp.DOn 7 (SRemove (Some 0));
            CLDisp.DOn 4 (SRemove (Some 0)); CLDisp.DOn 9 (SEmpty); CLDisp.DOn 4 (SEmpty)] in
  snd (CLDisp.drun CLDisp.d0 l) = [true; true; true; true; false; false; true] /\
  CLDisp.secs_for 7 l = [SBack 1 1%N; SFront 3 3%N; SRemove (Some 0)] /\
  fst (spec_secs 0 [] (CLDisp.secs_for 7 l)) = [1] /\ fst (spec_secs 0 [] (CLDisp.secs_for 9 l)) = [0] /\
  fst (CLDisp.drun CLDisp.d0 l) 4 = None.
Proof. exact CLDisp.dispatcher_example. Qed.

(* THE DISPATCHER WITH ITS TWO KINDS OF MUTEX (CLDispConc.v): listenerMutex (L) around every access to the map, the
   list's own mutex (M_e) around every list section except empty()'s read; one machine step per lock, unlock, map
   access and list section; any number of threads with any sequence of calls; per call a flag whether L is kept across
   the list section (the adders do, the others release it first — the theorems hold for every assignment of the flag).
   A call may also be a WALK (dispatch, forEach): the list is looked up under L, L is released, and the list found is
   traversed as doForEachIf does — head read under M_e, the generation counter loaded, then a look at each node (its
   callback is called when the node is neither removed nor younger than the walk) alternating with the step to the next
   node under M_e.  The invariant says in particular that the list a walk has found is still in the map whenever the
   walk is about to lock its mutex (DInv's i_entry; tie A: no member function takes entries out of the map).
   For every schedule: the map and the reported results are those of the sequential run of one section per call in the
   order in which the sections (or the lookups that found nothing) were executed; the map was only touched under L and
   the links only under M_e; every event's list is the run of its own sections; no configuration is stuck. *)
From EV Require CLDispConc.

Theorem C03_dispatcher_machine_linearizes :
  forall prog sched,
    (forall t, Forall CLDispConc.call_wf (prog t)) ->
    let c := CLDispConc.dcrun (CLDispConc.dinit prog) sched in
    (forall e, CLDisp.dget (CLDispConc.dmap c) e
               = CLDisp.dget (fst (CLDisp.drun CLDisp.d0 (map CLDispConc.sec3 (CLDispConc.dlog c)))) e) /\
    map CLDispConc.res3 (CLDispConc.dlog c) = snd (CLDisp.drun CLDisp.d0 (map CLDispConc.sec3 (CLDispConc.dlog c))) /\
    Forall CLDisp.dsec_wf (map CLDispConc.sec3 (CLDispConc.dlog c)) /\
    CLDispConc.dbad c = false.
Proof. exact CLDispConc.dispatcher_machine_linearizes. Qed.
Print Assumptions C03_dispatcher_machine_linearizes.

Theorem C03_dispatcher_machine_lists :
  forall prog sched e,
    (forall t, Forall CLDispConc.call_wf (prog t)) ->
    let c := CLDispConc.dcrun (CLDispConc.dinit prog) sched in
    CLDisp.dget (CLDispConc.dmap c) e
    = fst (run_secs empty_group (CLDisp.secs_for e (map CLDispConc.sec3 (CLDispConc.dlog c)))).
Proof. exact CLDispConc.dispatcher_machine_lists. Qed.
Print Assumptions C03_dispatcher_machine_lists.

(* the lock variables agree with where the threads are (mutual exclusion on L and on every M_e), entries that a thread
   has found stay in the map, in every configuration every schedule reaches *)
Theorem C03_dispatcher_machine_invariant :
  forall prog sched,
    (forall t, Forall CLDispConc.call_wf (prog t)) -> CLDispConc.DInv (CLDispConc.dcrun (CLDispConc.dinit prog) sched).
Proof. exact CLDispConc.dispatcher_machine_invariant. Qed.
Print Assumptions C03_dispatcher_machine_invariant.

(* no deadlock between L and the lists' mutexes: while some thread has not finished, some thread can take a step (and a
   thread that can, does: C03_dispatcher_step_moves) *)
Theorem C03_dispatcher_machine_never_stuck :
  forall c t, CLDispConc.DInv c -> ~ CLDispConc.finished c t -> exists u, CLDispConc.can_step c u = true.
Proof. exact CLDispConc.dispatcher_machine_never_stuck. Qed.
Print Assumptions C03_dispatcher_machine_never_stuck.

Theorem C03_dispatcher_step_moves :
  forall c t, CLDispConc.can_step c t = true -> CLDispConc.thr (CLDispConc.dcstep c t) t <> CLDispConc.thr c t.
Proof. exact CLDispConc.can_step_moves. Qed.

(* program order on the dispatcher machine (CLDispOrder.v): for every schedule, the sections logged for a thread, then the
   section of the call it is in, then those of the calls it has still to make, are the sections of its program in program
   order (generations aside: an adder's section is logged with the generation it drew); a finished thread has logged exactly
   one section per listener-management call, in the order of its program — so the sequential run that explains an
   execution (C03_dispatcher_machine_linearizes) contains every thread's calls in the order the thread made them *)
From EV Require CLDispOrder.

Theorem C03_dispatcher_sections_follow_program_order :
  forall prog sched t,
    let c := CLDispConc.dcrun (CLDispConc.dinit prog) sched in
    CLDispOrder.logged_by t (CLDispConc.dlog c) ++ CLDispOrder.pending_sec (fst (CLDispConc.thr c t))
      ++ CLDispOrder.secs_of (snd (CLDispConc.thr c t)) = CLDispOrder.secs_of (prog t).
Proof. exact CLDispOrder.dispatcher_sections_follow_program_order. Qed.
Print Assumptions C03_dispatcher_sections_follow_program_order.

Theorem C03_dispatcher_finished_thread_logged_its_program :
  forall prog sched t,
    let c := CLDispConc.dcrun (CLDispConc.dinit prog) sched in
    CLDispConc.finished c t -> CLDispOrder.logged_by t (CLDispConc.dlog c) = CLDispOrder.secs_of (prog t).
Proof. exact CLDispOrder.finished_thread_logged_its_program. Qed.
Print Assumptions C03_dispatcher_finished_thread_logged_its_program.

(* real-time order on the dispatcher machine (CLDispTime.v): a ghost beside the machine stamps every listener-management call
   with the length of the section log when the call begins, when its section is logged and when the call ends; for every
   schedule the section of a finished call lies between the call's ends and is its thread's, so a call that had ended when
   another began precedes it in the log: the explaining sequential run respects the real-time order of the calls.  With
   linearization (results = the sequential run's) and program order this is linearizability of the listener-management
   calls of the dispatcher machine *)
From EV Require CLDispTime CLDispLin.

Theorem C03_dispatcher_calls_take_effect_between_their_ends :
  forall prog sched,
    let c := CLDispConc.dcrun (CLDispConc.dinit prog) sched in
    let G := snd (CLDispTime.trun_g (CLDispConc.dinit prog) CLDispTime.tg0 sched) in
    Forall (CLDispTime.call_ok (CLDispConc.dlog c)) (CLDispTime.tcalls G).
Proof. exact CLDispTime.dispatcher_calls_take_effect_between_their_ends. Qed.
Print Assumptions C03_dispatcher_calls_take_effect_between_their_ends.

Theorem C03_dispatcher_real_time_order_is_respected :
  forall prog sched t1 b1 p1 e1 t2 b2 p2 e2,
    let G := snd (CLDispTime.trun_g (CLDispConc.dinit prog) CLDispTime.tg0 sched) in
    In (t1, b1, p1, e1) (CLDispTime.tcalls G) -> In (t2, b2, p2, e2) (CLDispTime.tcalls G) -> e1 <= b2 -> p1 < p2.
Proof. exact CLDispTime.dispatcher_real_time_order_is_respected. Qed.
Print Assumptions C03_dispatcher_real_time_order_is_respected.

(* what call_ok says; and the stamping ghost does not steer the machine *)
Theorem C03_dispatcher_call_ok_means :
  forall l t b p e, CLDispTime.call_ok l (t, b, p, e) <-> (b <= p /\ p < e /\ e <= length l /\ CLDispTime.thread_at p l = Some t).
Proof. intros; reflexivity. Qed.
Theorem C03_dispatcher_stamps_do_not_steer_the_machine :
  forall sched c G, fst (CLDispTime.trun_g c G sched) = CLDispConc.dcrun c sched.
Proof. exact CLDispTime.trun_machine. Qed.

(* non-vacuity: the run of C03_dispatcher_machine_example has five finished calls with these stamps *)
Example C03_dispatcher_stamps_example :
  let prog := fun t => match t with
                       | 0 => [CLDispConc.KSec true (CLDisp.DAdd 7 (SBack 1 0%N)); CLDispConc.KSec false (CLDisp.DOn 7 (SRemove (Some 0)))]
                       | 1 => [CLDispConc.KSec true (CLDisp.DAdd 7 (SFront 2 0%N))]
                       | 2 => [CLDispConc.KSec false (CLDisp.DOn 7 (SRemove (Some 0))); CLDispConc.KSec false (CLDisp.DOn 4 SEmpty)]
                       | _ => []
                       end in
  let sched := [2; 2; 2;  0; 0; 0; 0; 0; 0; 0;  0; 0; 0;  1; 1; 1; 1; 1;  0;  1;  0;  1;  0; 0; 0;  2; 2; 2] in
  rev (CLDispTime.tcalls (snd (CLDispTime.trun_g (CLDispConc.dinit prog) CLDispTime.tg0 sched)))
  = [(2, 0, 0, 1); (0, 1, 1, 2); (1, 2, 2, 3); (0, 2, 3, 4); (2, 4, 4, 5)].
Proof. vm_compute. reflexivity. Qed.

(* in one statement: every execution of the dispatcher machine is linearizable.  There is a sequential run (the logged
   sections, in log order, from the empty map) such that (1) the map the machine ends with and every result a call reported
   are that run's, (2) it contains the calls of every finished thread in program order, one section per call, (3) it respects
   real time: the section of a finished call lies between the call's ends, so a call that had ended when another began comes
   first *)
Theorem C03_dispatcher_machine_is_linearizable :
  forall prog sched,
    (forall t, Forall CLDispConc.call_wf (prog t)) ->
    let c := CLDispConc.dcrun (CLDispConc.dinit prog) sched in
    let seq := map CLDispConc.sec3 (CLDispConc.dlog c) in
    let G := snd (CLDispTime.trun_g (CLDispConc.dinit prog) CLDispTime.tg0 sched) in
    ((forall e, CLDisp.dget (CLDispConc.dmap c) e = CLDisp.dget (fst (CLDisp.drun CLDisp.d0 seq)) e) /\
     map CLDispConc.res3 (CLDispConc.dlog c) = snd (CLDisp.drun CLDisp.d0 seq)) /\
    (forall t, CLDispConc.finished c t -> CLDispOrder.logged_by t (CLDispConc.dlog c) = CLDispOrder.secs_of (prog t)) /\
    (Forall (CLDispTime.call_ok (CLDispConc.dlog c)) (CLDispTime.tcalls G) /\
     forall t1 b1 p1 e1 t2 b2 p2 e2,
       In (t1, b1, p1, e1) (CLDispTime.tcalls G) -> In (t2, b2, p2, e2) (CLDispTime.tcalls G) -> e1 <= b2 -> p1 < p2).
Proof. exact CLDispLin.dispatcher_machine_is_linearizable. Qed.
Print Assumptions C03_dispatcher_machine_is_linearizable.

(* WHAT A WALK CALLS (CLDispWalk.v).  A ghost runs beside the machine (CLDispWalk.gstep reads the configuration and never
   changes it: CLDispWalk.grun_machine) and projects the machine's steps onto the events of CLTrav: the head read of a walk
   is tinit, its look at a node TVisit, its step to the next node TAdvance, a list section executed by ANY thread on the same
   event TOther.  For EVERY set of thread programs and EVERY schedule: every walk that has ended called no callback twice
   and called every callback whose node was in the event's list when the walk read head and was not removed before the
   walk ended (walk_ok of the record (thread, event, content at the head read, removed meanwhile, visited)); and the
   ghost's record of a walk in progress is the machine's own: the nodes the machine logged in dvis for this walk, on the
   list the machine holds for the event *)
From EV Require CLTrav CLDispWalk.

Theorem C03_dispatcher_walks_visit_what_stayed :
  forall prog sched,
    (forall t, Forall CLDispConc.call_wf (prog t)) ->
    let G := snd (CLDispWalk.grun (CLDispConc.dinit prog) CLDispWalk.ginit sched) in
    Forall CLDispWalk.walk_ok (CLDispWalk.gdone G).
Proof. exact CLDispWalk.dispatcher_walks_visit_what_stayed. Qed.
Print Assumptions C03_dispatcher_walks_visit_what_stayed.

Theorem C03_dispatcher_walk_record_is_the_machines :
  forall prog sched t w,
    (forall t, Forall CLDispConc.call_wf (prog t)) ->
    let c := CLDispConc.dcrun (CLDispConc.dinit prog) sched in
    let G := snd (CLDispWalk.grun (CLDispConc.dinit prog) CLDispWalk.ginit sched) in
    CLDispWalk.gw G t = Some w ->
    skipn (CLDispWalk.wbase w) (CLDispWalk.vis_by t (CLDispConc.dvis c)) = CLTrav.tvis (CLDispWalk.wst w) /\
    CLTrav.tg (CLDispWalk.wst w) = CLDisp.dget (CLDispConc.dmap c) (CLDispWalk.we w).
Proof. exact CLDispWalk.dispatcher_walk_record_is_the_machines. Qed.
Print Assumptions C03_dispatcher_walk_record_is_the_machines.

(* list order of a dispatch: whenever a walk is about to call the callback of the node it stands on, every node it called
   earlier (the machine's own record, dvis) that is still in the list stands before that node in the list *)
Theorem C03_dispatcher_walk_visits_in_list_order :
  forall prog sched t e n capt r w nd,
    (forall t, Forall CLDispConc.call_wf (prog t)) ->
    let c := CLDispConc.dcrun (CLDispConc.dinit prog) sched in
    let G := snd (CLDispWalk.grun (CLDispConc.dinit prog) CLDispWalk.ginit sched) in
    CLDispConc.thr c t = (CLDispConc.WalkAt e (Some n) capt, r) -> CLDispWalk.gw G t = Some w -> CLDispConc.node_of c e n = Some nd ->
    GenCL.visit_cond (ctr nd) (match capt with Some k => k | None => CLDispConc.dcnt c e end) = true ->
    ordered_visit (CLDisp.dget (CLDispConc.dmap c) e) (CLTrav.tvis (CLDispWalk.wst w)) n = true /\
    skipn (CLDispWalk.wbase w) (CLDispWalk.vis_by t (CLDispConc.dvis c)) = CLTrav.tvis (CLDispWalk.wst w).
Proof. exact CLDispWalk.dispatcher_walk_visits_in_list_order. Qed.
Print Assumptions C03_dispatcher_walk_visits_in_list_order.

Theorem C03_dispatcher_ghost_does_not_steer_the_machine :
  forall sched c G, fst (CLDispWalk.grun c G sched) = CLDispConc.dcrun c sched.
Proof. exact CLDispWalk.grun_machine. Qed.

(* what walk_ok says, spelled out *)
Theorem C03_walk_ok_means :
  forall t e ids0 gone vis,
    CLDispWalk.walk_ok (t, e, ids0, gone, vis) <-> (NoDup vis /\ forall z, In z ids0 -> ~ In z gone -> In z vis).
Proof. intros; reflexivity. Qed.

(* non-vacuity: thread 0 registers three listeners for event 5 and walks; while it stands on the first node thread 1
   removes the second and adds a fourth; the walk calls the first and the third (nodes 0 and 2), the record says so *)
Example C03_dispatcher_walk_example :
  let prog := fun t => match t with
                       | 0 => [CLDispConc.KSec true (CLDisp.DAdd 5 (SBack 10 0%N)); CLDispConc.KSec true (CLDisp.DAdd 5 (SBack 11 0%N));
                               CLDispConc.KSec true (CLDisp.DAdd 5 (SBack 12 0%N)); CLDispConc.KWalk 5]
                       | 1 => [CLDispConc.KSec false (CLDisp.DOn 5 (SRemove (Some 1))); CLDispConc.KSec true (CLDisp.DAdd 5 (SBack 13 0%N))]
                       | _ => []
                       end in
  let sched := repeat 0 21 ++ [0; 0; 0; 0; 0; 0; 0] ++ repeat 1 14 ++ repeat 0 30 in
  let c := CLDispConc.dcrun (CLDispConc.dinit prog) sched in
  let G := snd (CLDispWalk.grun (CLDispConc.dinit prog) CLDispWalk.ginit sched) in
  CLDispConc.dvis c = [(0, 5, 0); (0, 5, 2)] /\
  CLDispWalk.gdone G = [(0, 5, [0; 1; 2], [1], [0; 2])] /\
  CLDispWalk.gids G 5 = [0; 2; 3].
Proof. vm_compute. repeat split. Qed.

(* WHICH callbacks: in every configuration every schedule reaches, an event's list has exactly as many nodes as adding
   sections were logged for the event, and its n-th node carries the callback the n-th of them registered — sections never
   rewrite the callback of a node (CLDispCb.v).  With the walks' theorem (nodes): a dispatch calls exactly the callbacks
   that were registered for the event, were in the list when it read head and were not removed before it ended *)
From EV Require CLDispCb.
Theorem C03_dispatcher_nodes_carry_the_registered_callbacks :
  forall prog sched,
    (forall t, Forall CLDispConc.call_wf (prog t)) ->
    let c := CLDispConc.dcrun (CLDispConc.dinit prog) sched in
    forall e, length (heap (CLDisp.dget (CLDispConc.dmap c) e)) = length (CLDispCb.adds_for e (CLDispConc.dlog c)) /\
              forall n nd, nth_error (heap (CLDisp.dget (CLDispConc.dmap c) e)) n = Some nd ->
                           option_map CLDispCb.cb_of_sec (nth_error (CLDispCb.adds_for e (CLDispConc.dlog c)) n) = Some (cb nd).
Proof. exact CLDispCb.dispatcher_nodes_carry_the_registered_callbacks. Qed.
Print Assumptions C03_dispatcher_nodes_carry_the_registered_callbacks.

Example C03_dispatcher_machine_example :
  let prog := fun t => match t with
                       | 0 => [CLDispConc.KSec true (CLDisp.DAdd 7 (SBack 1 0%N)); CLDispConc.KSec false (CLDisp.DOn 7 (SRemove (Some 0)))]
                       | 1 => [CLDispConc.KSec true (CLDisp.DAdd 7 (SFront 2 0%N))]
                       | 2 => [CLDispConc.KSec false (CLDisp.DOn 7 (SRemove (Some 0))); CLDispConc.KSec false (CLDisp.DOn 4 SEmpty)]
                       | 3 => [CLDispConc.KWalk 7]
                       | _ => []
                       end in
  let c := CLDispConc.dcrun (CLDispConc.dinit prog)
             ([2; 2; 2;  0; 0; 0; 0; 0; 0; 0;  0; 0; 0;  1; 1; 1; 1; 1;  0;  1;  0;  1;  0; 0; 0;  2; 2; 2] ++ repeat 3 20) in
  map CLDispConc.res3 (CLDispConc.dlog c) = [false; true; true; true; true] /\
  map CLDispConc.sec3 (CLDispConc.dlog c)
  = [CLDisp.DOn 7 (SRemove (Some 0)); CLDisp.DAdd 7 (SBack 1 1%N); CLDisp.DAdd 7 (SFront 2 2%N); CLDisp.DOn 7 (SRemove (Some 0)); CLDisp.DOn 4 SEmpty] /\
  map (fun y => fst (fst y)) (CLDispConc.dlog c) = [2; 0; 1; 0; 2] /\
  CLDispConc.dbad c = false /\ CLDispConc.lkL c = None /\
  map (CLDispConc.thr c) [0; 1; 2; 3] = [(CLDispConc.Idle, []); (CLDispConc.Idle, []); (CLDispConc.Idle, []); (CLDispConc.Idle, [])] /\
  CLDisp.dget (CLDispConc.dmap c) 7 = fst (run_secs empty_group [SBack 1 1%N; SFront 2 2%N; SRemove (Some 0)]) /\
  CLDispConc.dmap c 4 = None /\
  CLDispConc.dvis c = [(3, 7, 1)] /\ CLDispConc.dcnt c 7 = 2%N.
Proof. exact CLDispConc.dispatcher_machine_example. Qed.

(* non-vacuity: an interleaving in which thread 1 removes the node thread 0's traversal stands on *)
Example C03_example :
  let '(tr, fin) := lc_run_case 600 [[LAppend 1 0; LAppend 2 1; LInvoke 7%Z]; [LRemove 0; LAppend 3 2; LRemove 0]]
                                [0; 0; 0; 0; 0; 0; 0; 0; 0; 0; 0; 1; 1; 1; 0; 0; 0; 1; 1; 1; 1; 1; 1; 1; 1; 0; 0; 0; 0; 0; 0; 0] in
  fin = [2; 3] /\ existsb (fun a => match a with LaRes 1 false => true | _ => false end) tr = true.
Proof. vm_compute. split; reflexivity. Qed.

(* Lock scopes read off the headers (tie A, tools/leaves/locks.py): the member functions that reach the shared
   structure OUTSIDE the scope of a named guard on its mutex.  "f#*": f never takes the mutex; "f#n": f takes it and
   still reaches the member n times outside its guards.  A non-public member function that takes no lock itself and
   is called by other member functions (the link helpers doAppend / doInsert / doFreeNode, cloneFrom, doFreeAllNodes, or
   one a refactoring introduces) is not listed: it runs under its caller's lock, and each call of it made outside a
   guard is counted as an access of the caller.
   What is listed is, entry by entry:
   * constructor / destructor / operator= / swap: construction, assignment, swap and destruction of a whole list or
     dispatcher — not among the operations C03 names (an object must not be assigned or destroyed while other threads
     use it);
   * empty: `empty()` reads `head` without the mutex (a single shared_ptr read; CLSec.SEmpty models it as one read).
   append, prepend, insert, remove, ownsHandle, the traversals, and every lookup in the dispatcher's map (dispatch,
   removeListener, hasAnyListener, ownsHandle, forEach) and every registration do not appear: all they do to the
   structure, directly or through a helper, is inside a guard. *)
From Coq Require Import String.
From EV.gen Require GenLocks.
Local Open Scope string_scope.

Theorem C03_lock_scopes_are_the_reviewed_ones :
  GenLocks.dispatcher_map_unguarded = ["constructor#*"; "operator=#*"; "swap#*"] /\
  GenLocks.heter_dispatcher_map_unguarded = ["constructor#*"; "operator=#*"; "swap#*"] /\
  GenLocks.list_head_unguarded = ["constructor#*"; "destructor#*"; "empty#*"; "operator=#*"; "swap#*"] /\
  GenLocks.list_tail_unguarded = ["constructor#*"; "operator=#*"; "swap#*"] /\
  GenLocks.list_next_unguarded = ["constructor#*"; "destructor#*"; "operator=#*"] /\
  GenLocks.list_previous_unguarded = ["constructor#*"; "destructor#*"; "operator=#*"].
Proof. repeat split; reflexivity. Qed.
Print Assumptions C03_lock_scopes_are_the_reviewed_ones.

(* the SpinLock mutex policy (eventpolicies.h): with lock()/unlock() as they are in the header (tie A,
   GenSpin), any number of threads, every schedule: at most one thread holds the lock *)
(* the dispatcher machine relies on: a list that a lookup has found stays where it is.  Tie A: no member function of
   the dispatchers (construction, assignment, swap and destruction of the whole object aside) takes an entry out of
   eventCallbackListMap — no erase / clear / extract / merge on it, no assignment to it, no swap of it *)
Theorem C03_dispatcher_entries_are_never_erased :
  GenLocks.dispatcher_map_erasers = [] /\ GenLocks.heter_dispatcher_map_erasers = [].
Proof. split; reflexivity. Qed.

(* which dispatcher calls keep listenerMutex across the list's own section: read off the header (tie A), and the flags the
   schedule layer of tie B gives the machine's calls (CLDispRun.resolve) are these — the adders do, nobody else does
   (the machine's theorems hold for every assignment of the flag; this pins the one the code has) *)
From EV Require CLDispRun.
Theorem C03_dispatcher_calls_that_keep_listener_mutex :
  GenLocks.dispatcher_list_ops_under_listener_mutex = ["appendListener"; "insertListener"; "prependListener"] /\
  (forall regs a,
     match CLDispRun.resolve regs a with
     | CLDispConc.KSec n _ =>
         n = match a with CLDispRun.DAppend _ _ _ | CLDispRun.DPrepend _ _ _ | CLDispRun.DInsert _ _ _ _ => true | _ => false end
     | CLDispConc.KWalk _ => True
     end).
Proof. split; [reflexivity|]. intros regs a. destruct a; reflexivity. Qed.

From EV Require SpinModel.
From EV.gen Require GenSpin.

Theorem C03_spinlock_as_in_the_header_excludes :
  forall n sched,
    SpinModel.ncs (SpinModel.pcs (SpinModel.srun GenSpin.lock_spins_while_set GenSpin.unlock_clears
                                                 (SpinModel.sinit n (negb GenSpin.flag_starts_clear)) sched)) <= 1.
Proof. exact SpinModel.spinlock_as_in_the_header_excludes. Qed.
Print Assumptions C03_spinlock_as_in_the_header_excludes.

Theorem C03_spinlock_memory_orders : GenSpin.lock_order = GenSpin.acquire /\ GenSpin.unlock_order = GenSpin.release.
Proof. split; reflexivity. Qed.

(* a traversal (invocation / enumeration) interleaved with other threads' sections — for EVERY
   sequence of events TOther s | TVisit | TAdvance, any length and any mix, other threads' counters
   arbitrary (CLTrav.v): no callback is visited twice, and every callback that was in the list when
   the traversal started, passes the visit test against the captured counter, and is not removed
   while the traversal runs, has been visited when the traversal ends *)
From EV Require Import CLTrav.

Theorem C03_traversal_under_interference :
  forall capt g ids evs,
    GInv g ids ->
    (forall z, In z ids -> exists nd, nth_error (heap g) z = Some nd /\ GenCL.visit_cond (ctr nd) capt = true) ->
    Forall ev_ok evs ->
    let st := trun capt (tinit g ids) evs in
    NoDup (tvis st) /\
    (tcur st = None -> forall z, In z ids -> ~ In z (tgone st) -> In z (tvis st)).
Proof. exact traversal_under_interference. Qed.
Print Assumptions C03_traversal_under_interference.

(* non-vacuity: list [0;1;2]; while the traversal stands on node 0 another thread removes node 1 and
   inserts a new node (counter 9 > captured 5) before node 2; nodes 0 and 2 are visited, once each *)
Example C03_traversal_example :
  let g := fst (run_secs empty_group [SBack 10 1%N; SBack 11 2%N; SBack 12 3%N]) in
  let st := trun 5%N (tinit g [0; 1; 2])
                 [TVisit; TOther (SRemove (Some 1)); TAdvance; TOther (SBefore 13 9%N (Some 2)); TVisit; TAdvance; TVisit; TAdvance] in
  tvis st = [0; 2] /\ tcur st = None /\ tgone st = [1] /\ tids st = [0; 3; 2].
Proof. vm_compute. repeat split; reflexivity. Qed.

(* list order under interference: whenever the traversal is about to visit w, every callback it
   visited earlier and that is still in the list stands before w in the list *)
Theorem C03_traversal_visits_in_list_order :
  forall capt g ids evs w nd,
    GInv g ids ->
    (forall z, In z ids -> exists nd, nth_error (heap g) z = Some nd /\ GenCL.visit_cond (ctr nd) capt = true) ->
    Forall ev_ok evs ->
    let st := trun capt (tinit g ids) evs in
    tph st = false -> tcur st = Some w -> nth_error (heap (tg st)) w = Some nd -> GenCL.visit_cond (ctr nd) capt = true ->
    tvis (tstep capt st TVisit) = (tvis st ++ [w])%list /\
    forall v, In v (tvis st) -> In v (tids st) -> precedes (tids st) v w.
Proof. exact traversal_visits_in_list_order. Qed.
Print Assumptions C03_traversal_visits_in_list_order.
