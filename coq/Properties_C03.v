(* Properties_C03.v — C03: listener management and dispatch are thread-safe and linearizable.

   PARTIAL (see the end of this comment).  Proved (CLConcProofs.v, on the very group operations of the sequential proofs):
   every adding / removing / querying call has ONE critical section that reads and writes all
   that determines its result; for EVERY order in which the threads' sections execute, with
   ARBITRARY non-zero counters (they are drawn before the mutex is taken), the list stays well
   formed and its content and all results equal those of the sequential list specification run
   in that order — which respects program order and real-time order since each section lies
   inside its call.  Hence a callback is removed successfully at most once, none is lost or
   duplicated, and the final order is that sequential execution's.
   A traversal running while other threads execute such sections is proved correct for EVERY
   interleaving of its own steps (look at the current node; node = node->next under the mutex)
   with the other threads' sections (CLTrav.v, theorem C03_traversal_under_interference below):
   nothing is visited twice, and whatever was in the list at the start, passes the visit test and
   is not removed meanwhile has been visited at the end; visits follow list order.
   The thread-level model CLConc.v (visible actions on the list mutex and currentCounter; the
   traversal steps node = node->next under the mutex and reads the visited node's fields
   outside it) is replayed step for step against the real CallbackList under the cooperative
   scheduler.  NOT mechanised: that every execution of the instruction machine CLConc projects to
   such a sequence of sections and traversal steps (it does because the sections are mutually
   exclusive and everything else a call does is thread-local), the EventDispatcher's map of lists (tie A: lock scopes), and
   data-race freedom of the real code (ThreadSanitizer in the thorough tier). *)
From Coq Require Import List Arith NArith ZArith Bool.
From EV Require Import CLModel CLHeap CLConcProofs CLConc.
From EV.gen Require GenCL.
Import ListNotations.

Theorem C03_sections_in_any_order_refine_list_spec :
  forall l g ids,
    GInv g ids -> Forall sec_counter_ok l ->
    GInv (fst (run_secs g l)) (fst (spec_secs (length (heap g)) ids l)) /\
    snd (run_secs g l) = snd (spec_secs (length (heap g)) ids l).
Proof. exact sections_in_any_order_refine_list_spec. Qed.
Print Assumptions C03_sections_in_any_order_refine_list_spec.

Theorem C03_one_section_refines :
  forall g ids s,
    GInv g ids -> sec_counter_ok s ->
    GInv (fst (sec_step g s)) (fst (sec_spec (length (heap g)) ids s)) /\
    snd (sec_step g s) = snd (sec_spec (length (heap g)) ids s).
Proof. exact section_refines. Qed.
Print Assumptions C03_one_section_refines.

(* non-vacuity: an interleaving in which thread 1 removes the node thread 0's traversal stands on *)
Example C03_example :
  let '(tr, fin) := lc_run_case 600 [[LAppend 1 0; LAppend 2 1; LInvoke 7%Z]; [LRemove 0; LAppend 3 2; LRemove 0]]
                                [0; 0; 0; 0; 0; 0; 0; 0; 0; 0; 0; 1; 1; 1; 0; 0; 0; 1; 1; 1; 1; 1; 1; 1; 1; 0; 0; 0; 0; 0; 0; 0] in
  fin = [2; 3] /\ existsb (fun a => match a with LaRes 1 false => true | _ => false end) tr = true.
Proof. vm_compute. split; reflexivity. Qed.

(* Lock scopes read off the headers (tie A, tools/leaves/locks.py): for every member function, the
   accesses to the shared structure made OUTSIDE the scope of a named guard on its mutex.
   What is listed is, entry by entry:
   * constructor / operator= / swap / cloneFrom / doFreeAllNodes: construction, assignment, swap and
     destruction of a whole list or dispatcher — not among the operations C03 names (an object must
     not be assigned or destroyed while other threads use it);
   * doAppend / doInsert / doFreeNode: the private link helpers; they are entered with the caller's
     lock held — the last three lists say that NO call to them is outside a guard;
   * empty#1: `empty()` reads `head` without the mutex (a single shared_ptr read; a racy answer is
     allowed by the sequential-execution reading only in that it is the answer of SOME instant —
     recorded here as it is in the header).
   Every lookup in the dispatcher's map (dispatch, removeListener, hasAnyListener, ownsHandle,
   forEach) and every registration is inside a guard: none of them appears. *)
From Coq Require Import String.
From EV.gen Require GenLocks.
Local Open Scope string_scope.

Theorem C03_lock_scopes_are_the_reviewed_ones :
  GenLocks.dispatcher_map_unguarded = ["constructor#2"; "operator=#4"; "swap#2"] /\
  GenLocks.heter_dispatcher_map_unguarded = ["constructor#2"; "operator=#4"; "swap#2"] /\
  GenLocks.list_head_unguarded = ["cloneFrom#1"; "constructor#1"; "doAppend#2"; "doFreeAllNodes#2"; "doFreeNode#2"; "doInsert#2"; "empty#1"; "operator=#2"; "swap#2"] /\
  GenLocks.list_tail_unguarded = ["cloneFrom#1"; "doAppend#4"; "doFreeNode#2"; "operator=#2"; "swap#2"] /\
  GenLocks.list_next_unguarded = ["cloneFrom#2"; "doAppend#1"; "doFreeAllNodes#2"; "doFreeNode#5"; "doInsert#2"] /\
  GenLocks.list_previous_unguarded = ["cloneFrom#1"; "doAppend#1"; "doFreeAllNodes#1"; "doFreeNode#5"; "doInsert#5"] /\
  GenLocks.list_doappend_calls_unguarded = [] /\
  GenLocks.list_doinsert_calls_unguarded = [] /\
  GenLocks.list_dofreenode_calls_unguarded = [].
Proof. repeat split; reflexivity. Qed.
Print Assumptions C03_lock_scopes_are_the_reviewed_ones.

(* the SpinLock mutex policy (eventpolicies.h): with lock()/unlock() as they are in the header (tie A,
   GenSpin), any number of threads, every schedule: at most one thread holds the lock *)
From EV Require SpinModel.
From EV.gen Require GenSpin.

Theorem C03_spinlock_as_in_the_header_excludes :
  forall n sched,
    SpinModel.ncs (SpinModel.pcs (SpinModel.srun GenSpin.lock_spins_while_set GenSpin.unlock_clears
                                                 (SpinModel.sinit n (negb GenSpin.flag_starts_clear)) sched)) <= 1.
Proof. exact SpinModel.spinlock_as_in_the_header_excludes. Qed.
Print Assumptions C03_spinlock_as_in_the_header_excludes.

Theorem C03_spinlock_memory_orders : GenSpin.lock_order = GenSpin.acquire /\ GenSpin.unlock_order = GenSpin.release.
Proof. split; reflexivity. Qed.

(* a traversal (invocation / enumeration) interleaved with other threads' sections — for EVERY
   sequence of events TOther s | TVisit | TAdvance, any length and any mix, other threads' counters
   arbitrary (CLTrav.v): no callback is visited twice, and every callback that was in the list when
   the traversal started, passes the visit test against the captured counter, and is not removed
   while the traversal runs, has been visited when the traversal ends *)
From EV Require Import CLTrav.

Theorem C03_traversal_under_interference :
  forall capt g ids evs,
    GInv g ids ->
    (forall z, In z ids -> exists nd, nth_error (heap g) z = Some nd /\ GenCL.visit_cond (ctr nd) capt = true) ->
    Forall ev_ok evs ->
    let st := trun capt (tinit g ids) evs in
    NoDup (tvis st) /\
    (tcur st = None -> forall z, In z ids -> ~ In z (tgone st) -> In z (tvis st)).
Proof. exact traversal_under_interference. Qed.
Print Assumptions C03_traversal_under_interference.

(* non-vacuity: list [0;1;2]; while the traversal stands on node 0 another thread removes node 1 and
   inserts a new node (counter 9 > captured 5) before node 2; nodes 0 and 2 are visited, once each *)
Example C03_traversal_example :
  let g := fst (run_secs empty_group [SBack 10 1%N; SBack 11 2%N; SBack 12 3%N]) in
  let st := trun 5%N (tinit g [0; 1; 2])
                 [TVisit; TOther (SRemove (Some 1)); TAdvance; TOther (SBefore 13 9%N (Some 2)); TVisit; TAdvance; TVisit; TAdvance] in
  tvis st = [0; 2] /\ tcur st = None /\ tgone st = [1] /\ tids st = [0; 3; 2].
Proof. vm_compute. repeat split; reflexivity. Qed.

(* list order under interference: whenever the traversal is about to visit w, every callback it
   visited earlier and that is still in the list stands before w in the list *)
Theorem C03_traversal_visits_in_list_order :
  forall capt g ids evs w nd,
    GInv g ids ->
    (forall z, In z ids -> exists nd, nth_error (heap g) z = Some nd /\ GenCL.visit_cond (ctr nd) capt = true) ->
    Forall ev_ok evs ->
    let st := trun capt (tinit g ids) evs in
    tph st = false -> tcur st = Some w -> nth_error (heap (tg st)) w = Some nd -> GenCL.visit_cond (ctr nd) capt = true ->
    tvis (tstep capt st TVisit) = (tvis st ++ [w])%list /\
    forall v, In v (tvis st) -> In v (tids st) -> precedes (tids st) v w.
Proof. exact traversal_visits_in_list_order. Qed.
Print Assumptions C03_traversal_visits_in_list_order.
