(* AutoRemoveModel.v — executable model of eventpp::CounterRemover and eventpp::ConditionalRemover
   (include/eventpp/utilities/counterremover.h, conditionalremover.h) on top of the snapshot-rule
   specification of listener lists (CLSpec / QModel: the entries present when an invocation
   starts are called in order, each one only if it is still attached when its turn comes;
   entries added meanwhile are not called by that invocation; nested invocations obey the
   same rule).

   A target is a family of listener lists indexed by a key (a CallbackList has the single key
   0; EventDispatcher / EventQueue: the event; heterogeneous targets: event and prototype).
   An entry of a list is a plain listener, or the callable a remover helper installs:

     CounterRemover wrapper      operator(): `if(--data->triggerCount <= 0) remove own handle;
                                              data->listener(args...)`
     ConditionalRemover wrapper  operator(): `if(data->shouldRemove([args...])) remove own handle;
                                              data->listener(args...)`

   The test of the counter wrapper, the order "remove own handle" / "call the wrapped
   listener", whether the condition receives the arguments and whether the wrapper's state
   is reached only through the shared Data are GENERATED from the headers (GenAutoRemove.v);
   the model follows whatever they say (both orders are executable).
   `triggerCount` is a machine int: Z with explicit wrap-around; a decrement that leaves the
   int range is recorded in `ovfs` (undefined behaviour in C++).
   Ghost parts of the state (not printed by the driver): ATrig events (a wrapper's turn came
   while it was attached = a trigger reached it), the handle id inside ACond/ACall, `xrem`
   (handles detached by an explicit remove command).  Definitions only. *)
From Coq Require Import List Arith NArith ZArith Bool.
From EV.gen Require GenAutoRemove.
Import ListNotations.
Local Open Scope nat_scope.

Inductive place := PAppend | PPrepend | PInsert (hb : nat).      (* hb: register of the handle to insert before *)

Inductive espec :=
| SPlain (c : nat)                         (* listener c added directly *)
| SCounter (c : nat) (n : Z)               (* counterRemover(target).add(listener c, n) *)
| SCond (c p : nat) (wa : bool).           (* conditionalRemover(target).add(listener c, condition p); wa: p accepts the arguments *)

Inductive acmd :=
| AAdd (pl : place) (k : nat) (e : espec) (h : nat)     (* the returned handle goes to register h *)
| ARemove (k h : nat)
| ADispatch (k : nat) (a : Z)              (* direct invocation / dispatch *)
| AEnqueue (k : nat) (a : Z)
| AProcess
| ADropHelper (h : nat).                   (* the helper object that added register h's entry is destroyed *)

Inductive aev :=
| ATrig (h : nat) (a : Z)                          (* ghost: wrapper h activated with argument a *)
| ACond (h p : nat) (oa : option Z) (v : bool)     (* condition p evaluated by wrapper h with / without the argument: verdict *)
| ACall (h c k : nat) (a : Z)                      (* listener c called through entry h for key k *)
| ARet (b : bool).

Record astate := mkA {
  lsts : list (nat * list nat);            (* per key: attached handle ids, in list order *)
  ents : list (nat * (nat * espec));       (* handle id -> key and what was added (never shrinks) *)
  cells : list (nat * Z);                  (* Data::triggerCount of counter wrapper h *)
  nexth : nat;
  xrem : list nat;                         (* ghost: ids detached by an explicit ARemove *)
  ovfs : list nat;                         (* wrappers whose decrement overflowed *)
  atrace : list aev;                       (* newest first *)
  hregs : list (nat * nat);                (* register -> handle id *)
  pend : list (nat * Z);                   (* queued events *)
  lacts : list (nat * nat);                (* activations of listener c so far *)
  pacts : list (nat * nat);                (* evaluations of condition p so far *)
  dead : list nat;                         (* ids whose helper object has been destroyed *)
  uaf : bool                               (* a wrapper touched state of a destroyed helper *)
}.

Fixpoint alookup {A} (k : nat) (l : list (nat * A)) : option A :=
  match l with [] => None | (k', v) :: t => if Nat.eqb k k' then Some v else alookup k t end.

Fixpoint aset {A} (k : nat) (v : A) (l : list (nat * A)) : list (nat * A) :=
  match l with
  | [] => [(k, v)]
  | (k', v') :: t => if Nat.eqb k k' then (k, v) :: t else (k', v') :: aset k v t
  end.

Definition lstk (ls : list (nat * list nat)) (k : nat) : list nat :=
  match alookup k ls with Some l => l | None => [] end.
Definition lst_of (st : astate) (k : nat) : list nat := lstk (lsts st) k.

Definition cellk (ce : list (nat * Z)) (h : nat) : Z := match alookup h ce with Some z => z | None => 0%Z end.
Definition act_of (l : list (nat * nat)) (c : nat) : nat := match alookup c l with Some n => n | None => 0 end.

Fixpoint has_l (h : nat) (l : list nat) : bool :=
  match l with [] => false | x :: t => Nat.eqb h x || has_l h t end.
Fixpoint del_l (h : nat) (l : list nat) : list nat :=
  match l with [] => [] | x :: t => if Nat.eqb h x then t else x :: del_l h t end.
Fixpoint ins_l (b new : nat) (l : list nat) : list nat :=
  match l with
  | [] => [new]
  | x :: t => if Nat.eqb b x then new :: x :: t else x :: ins_l b new t
  end.

(* is entry h attached to the list it was added to? *)
Definition attachedk (ls : list (nat * list nat)) (en : list (nat * (nat * espec))) (h : nat) : bool :=
  match alookup h en with Some (k, _) => has_l h (lstk ls k) | None => false end.
Definition attached (st : astate) (h : nat) : bool := attachedk (lsts st) (ents st) h.

Definition upd_core st ls en ce nh := mkA ls en ce nh (xrem st) (ovfs st) (atrace st) (hregs st) (pend st) (lacts st) (pacts st) (dead st) (uaf st).
Definition upd_lsts st ls := upd_core st ls (ents st) (cells st) (nexth st).
Definition upd_cells st ce := upd_core st (lsts st) (ents st) ce (nexth st).
Definition upd_xrem st x := mkA (lsts st) (ents st) (cells st) (nexth st) x (ovfs st) (atrace st) (hregs st) (pend st) (lacts st) (pacts st) (dead st) (uaf st).
Definition upd_ovfs st o := mkA (lsts st) (ents st) (cells st) (nexth st) (xrem st) o (atrace st) (hregs st) (pend st) (lacts st) (pacts st) (dead st) (uaf st).
Definition alog st e := mkA (lsts st) (ents st) (cells st) (nexth st) (xrem st) (ovfs st) (e :: atrace st) (hregs st) (pend st) (lacts st) (pacts st) (dead st) (uaf st).
Definition upd_hregs st r := mkA (lsts st) (ents st) (cells st) (nexth st) (xrem st) (ovfs st) (atrace st) r (pend st) (lacts st) (pacts st) (dead st) (uaf st).
Definition upd_pend st p := mkA (lsts st) (ents st) (cells st) (nexth st) (xrem st) (ovfs st) (atrace st) (hregs st) p (lacts st) (pacts st) (dead st) (uaf st).
Definition upd_lacts st a := mkA (lsts st) (ents st) (cells st) (nexth st) (xrem st) (ovfs st) (atrace st) (hregs st) (pend st) a (pacts st) (dead st) (uaf st).
Definition upd_pacts st a := mkA (lsts st) (ents st) (cells st) (nexth st) (xrem st) (ovfs st) (atrace st) (hregs st) (pend st) (lacts st) a (dead st) (uaf st).
Definition upd_dead st d := mkA (lsts st) (ents st) (cells st) (nexth st) (xrem st) (ovfs st) (atrace st) (hregs st) (pend st) (lacts st) (pacts st) d (uaf st).
Definition set_uaf st := mkA (lsts st) (ents st) (cells st) (nexth st) (xrem st) (ovfs st) (atrace st) (hregs st) (pend st) (lacts st) (pacts st) (dead st) true.

(* ---------- the machine int of Data::triggerCount ---------- *)

Definition int_min : Z := (- 2 ^ (GenAutoRemove.counter_bits - 1))%Z.
Definition int_max : Z := (2 ^ (GenAutoRemove.counter_bits - 1) - 1)%Z.

(* two's complement wrap-around of a value at most one step outside the range *)
Definition wrap (z : Z) : Z :=
  if (z <? int_min)%Z then (z + 2 ^ GenAutoRemove.counter_bits)%Z
  else if (int_max <? z)%Z then (z - 2 ^ GenAutoRemove.counter_bits)%Z else z.
Definition int_dec (z : Z) : Z := wrap (z - 1).
Definition dec_overflows (z : Z) : bool := (z - 1 <? int_min)%Z.
(* the wrapper went from n to n': a decrement was executed (n' differs from n) and it left the range *)
Definition counter_overflowed (bounded : bool) (n n' : Z) : bool := bounded && dec_overflows n && negb (n' =? n)%Z.

(* ---------- what the interpreter takes from the headers ---------- *)

Record leafs := mkLeafs {
  lf_step : (Z -> Z) -> Z -> Z * bool;     (* decrement-and-test of the counter wrapper: (new value, remove?) *)
  lf_bounded : bool;                       (* the counter is a machine int (overflow is recorded) *)
  lf_counter_rbc : bool;                   (* counter wrapper: removal precedes the call of the wrapped listener *)
  lf_cond_rbc : bool;                      (* conditional wrapper: likewise *)
  lf_pass : bool -> bool;                  (* is the condition given the arguments, as a function of "accepts them" *)
  lf_counter_shared : bool;                (* the wrapper's state is reached only through the shared Data *)
  lf_cond_shared : bool
}.

(* MECHANISM: the wrappers as the headers define them now (tie A) *)
Definition gen_leafs (islist : bool) : leafs :=
  mkLeafs (GenAutoRemove.counter_step islist) true
          (GenAutoRemove.counter_removes_before_call islist) (GenAutoRemove.cond_removes_before_call islist)
          (GenAutoRemove.cond_passes_args islist)
          (GenAutoRemove.counter_state_shared islist) (GenAutoRemove.cond_state_shared islist).

(* the counter wrapper of the tree this development started from, written out by hand:
   `if(--data->triggerCount <= 0)` on a machine int, removal before the call
   (kept so that the INT_MIN witness survives a repair of the header) *)
Definition legacy_leafs : leafs :=
  mkLeafs (fun dec n => (dec n, (dec n <=? 0)%Z)) true true true (fun w => w) true true.

(* SPECIFICATION: the wrappers as C16 promises them, independent of the headers: an ideal
   counter (no overflow) that detaches with the max(n,1)-th trigger, detach before the call,
   the condition evaluated once with the arguments iff it accepts them, no state in the helper *)
Definition spec_leafs : leafs :=
  mkLeafs (fun _ n => ((n - 1)%Z, (n - 1 <=? 0)%Z)) false true true (fun w => w) true true.

(* ---------- traces: what concerns one entry (newest first) ---------- *)

Fixpoint trigs_of (h : nat) (tr : list aev) : list Z :=
  match tr with
  | [] => []
  | ATrig h' a :: r => if Nat.eqb h' h then a :: trigs_of h r else trigs_of h r
  | _ :: r => trigs_of h r
  end.
Fixpoint calls_of (h : nat) (tr : list aev) : list (nat * nat * Z) :=
  match tr with
  | [] => []
  | ACall h' c k a :: r => if Nat.eqb h' h then (c, k, a) :: calls_of h r else calls_of h r
  | _ :: r => calls_of h r
  end.
Fixpoint evals_of (h : nat) (tr : list aev) : list (nat * option Z * bool) :=
  match tr with
  | [] => []
  | ACond h' p oa v :: r => if Nat.eqb h' h then (p, oa, v) :: evals_of h r else evals_of h r
  | _ :: r => evals_of h r
  end.

Section AInterp.
  Variable lf : leafs.                                 (* gen_leafs islist (the code) or spec_leafs (the promise) *)
  Variable behav : nat -> nat -> list acmd.            (* listener c, n-th activation: what it does *)
  Variable cverdict : nat -> nat -> bool.              (* condition p, n-th evaluation: verdict *)

  Definition self_remove (st : astate) (k h : nat) : astate :=
    upd_lsts st (aset k (del_l h (lst_of st k)) (lsts st)).

  (* a wrapper whose state is NOT held by the shared Data reads a destroyed helper *)
  Definition touch_helper (shared : bool) (st : astate) (h : nat) : astate :=
    if shared then st else if has_l h (dead st) then set_uaf st else st.

  Definition helper_unreferenced (st : astate) (b : nat) : bool :=
    match alookup b (ents st) with
    | Some (_, SCounter _ _) => lf_counter_shared lf
    | Some (_, SCond _ _ _) => lf_cond_shared lf
    | _ => true
    end.

  Section WithRec.
    Variable rec : astate -> list acmd -> option astate.

    Definition run_inner (st : astate) (h c k : nat) (a : Z) : option astate :=
      let st1 := alog st (ACall h c k a) in
      let st2 := upd_lacts st1 (aset c (S (act_of (lacts st1) c)) (lacts st1)) in
      rec st2 (behav c (act_of (lacts st2) c)).

    (* `if(due) remove own handle` and `data->listener(args...)` in the header's order;
       k0 = data->event (the key given when the entry was added) *)
    Definition finish_wrapper (rbc due : bool) (st : astate) (h c k0 k : nat) (a : Z) : option astate :=
      if rbc then run_inner (if due then self_remove st k0 h else st) h c k a
      else match run_inner st h c k a with
           | Some st1 => Some (if due then self_remove st1 k0 h else st1)
           | None => None
           end.

    (* entry h of the list of key k is invoked with argument a *)
    Definition activate (st : astate) (h k : nat) (a : Z) : option astate :=
      match alookup h (ents st) with
      | None => Some st
      | Some (_, SPlain c) => run_inner st h c k a
      | Some (k0, SCounter c _) =>
          let st0 := touch_helper (lf_counter_shared lf) (alog st (ATrig h a)) h in
          let n := cellk (cells st0) h in
          let '(n', due) := lf_step lf int_dec n in
          let st1 := upd_cells (if counter_overflowed (lf_bounded lf) n n' then upd_ovfs st0 (h :: ovfs st0) else st0) (aset h n' (cells st0)) in
          finish_wrapper (lf_counter_rbc lf) due st1 h c k0 k a
      | Some (k0, SCond c p wa) =>
          let st0 := touch_helper (lf_cond_shared lf) (alog st (ATrig h a)) h in
          let st1 := upd_pacts st0 (aset p (S (act_of (pacts st0) p)) (pacts st0)) in
          let v := cverdict p (act_of (pacts st1) p) in
          let st2 := alog st1 (ACond h p (if lf_pass lf wa then Some a else None) v) in
          finish_wrapper (lf_cond_rbc lf) v st2 h c k0 k a
      end.

    (* the snapshot rule on the list of key k *)
    Fixpoint call_all (st : astate) (k : nat) (todo : list nat) (a : Z) : option astate :=
      match todo with
      | [] => Some st
      | h :: rest =>
          if has_l h (lst_of st k) then
            match activate st h k a with
            | Some st1 => call_all st1 k rest a
            | None => None
            end
          else call_all st k rest a
      end.

    Definition dispatch (st : astate) (k : nat) (a : Z) : option astate := call_all st k (lst_of st k) a.

    Fixpoint process_loop (st : astate) (evs : list (nat * Z)) : option astate :=
      match evs with
      | [] => Some st
      | (k, a) :: rest =>
          match dispatch st k a with
          | Some st1 => process_loop st1 rest
          | None => None
          end
      end.

    Definition add_entry (st : astate) (k : nat) (e : espec) (h : nat) (placef : nat -> list nat -> list nat) : astate :=
      let id := nexth st in
      let ce := match e with SCounter _ n => aset id n (cells st) | _ => cells st end in
      upd_hregs (upd_core st (aset k (placef id (lst_of st k)) (lsts st)) (aset id (k, e) (ents st)) ce (S id))
                (aset h id (hregs st)).

    Definition a_step (st : astate) (c : acmd) : option astate :=
      match c with
      | AAdd PAppend k e h => Some (add_entry st k e h (fun n l => l ++ [n]))
      | AAdd PPrepend k e h => Some (add_entry st k e h (fun n l => n :: l))
      | AAdd (PInsert hb) k e h =>
          match alookup hb (hregs st) with
          | Some b =>
              match alookup b (ents st) with
              | Some (k', _) =>
                  if Nat.eqb k' k then
                    if has_l b (lst_of st k) then Some (add_entry st k e h (fun n l => ins_l b n l))
                    else Some (add_entry st k e h (fun n l => l ++ [n]))
                  else None                  (* a handle of another list: misuse, excluded *)
              | None => Some (add_entry st k e h (fun n l => l ++ [n]))
              end
          | None => Some (add_entry st k e h (fun n l => l ++ [n]))
          end
      | ARemove k h =>
          match alookup h (hregs st) with
          | Some b =>
              match alookup b (ents st) with
              | Some (k', _) =>
                  if Nat.eqb k' k then
                    if has_l b (lst_of st k)
                    then Some (alog (upd_xrem (upd_lsts st (aset k (del_l b (lst_of st k)) (lsts st))) (b :: xrem st)) (ARet true))
                    else Some (alog st (ARet false))
                  else None
              | None => Some (alog st (ARet false))
              end
          | None => Some (alog st (ARet false))
          end
      | ADispatch k a => dispatch st k a
      | AEnqueue k a => Some (upd_pend st (pend st ++ [(k, a)]))
      | AProcess =>
          match pend st with
          | [] => Some (alog st (ARet false))
          | evs =>
              match process_loop (upd_pend st []) evs with
              | Some st1 => Some (alog st1 (ARet true))
              | None => None
              end
          end
      | ADropHelper h =>
          (* nothing happens unless the wrapper keeps state in the helper object *)
          match alookup h (hregs st) with
          | Some b => if helper_unreferenced st b then Some st else Some (upd_dead st (b :: dead st))
          | None => Some st
          end
      end.

    Fixpoint a_seq (st : astate) (cs : list acmd) : option astate :=
      match cs with
      | [] => Some st
      | c :: r => match a_step st c with Some st1 => a_seq st1 r | None => None end
      end.
  End WithRec.

  Fixpoint a_run (fuel : nat) : astate -> list acmd -> option astate :=
    match fuel with
    | 0 => fun _ _ => None
    | S f => a_seq (a_run f)
    end.

  Definition a_init : astate := mkA [] [] [] 0 [] [] [] [] [] [] [] [] false.

  (* what the driver prints: the trace oldest first, "some decrement overflowed", "use after free" *)
  Definition a_run_case (fuel : nat) (main : list acmd) : option (list aev * bool * bool) :=
    match a_run fuel a_init main with
    | Some st => Some (rev (atrace st), match ovfs st with [] => false | _ => true end, uaf st)
    | None => None
    end.
End AInterp.

(* mech = true: the code (for the specialisation islist); false: the specification *)
Definition a_case (mech islist : bool) := a_run_case (if mech then gen_leafs islist else spec_leafs).
