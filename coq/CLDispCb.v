(* CLDispCb.v — C03, dispatcher machine: no callback is lost or confused.  In every configuration every schedule reaches, the
   n-th node of an event's list is the node the n-th adding section logged for that event created, and it still carries the
   callback that section registered: sections never rewrite the callback of an existing node, and a new node gets the
   callback of its section.  Together with CLDispWalk (what a walk visits, as nodes) this says WHICH callbacks a dispatch
   calls. *)
From Coq Require Import List Arith NArith Bool Lia.
From EV Require Import CLModel CLHeap CLOps CLRefine CLSec CLConcProofs CLTrav CLConcTrav CLDisp CLDispConc CLDispWalk.
From EV.gen Require GenCL.
Import ListNotations.
Local Open Scope nat_scope.

Definition cb_of_sec (s : sec) : nat := match s with SBack c _ | SFront c _ | SBefore c _ _ => c | _ => 0 end.

(* what one section does to the callbacks in the heap *)
Lemma sec_step_callbacks g ids s :
  GInv g ids -> sec_counter_ok s ->
  let g' := fst (sec_step g s) in
  (forall j nd, nth_error (heap g) j = Some nd -> exists nd', nth_error (heap g') j = Some nd' /\ cb nd' = cb nd) /\
  (adds s = true -> length (heap g') = S (length (heap g)) /\
                    exists nn, nth_error (heap g') (length (heap g)) = Some nn /\ cb nn = cb_of_sec s) /\
  (adds s = false -> length (heap g') = length (heap g)).
Proof.
  intros G Hk. cbv zeta.
  assert (Ext : forall g2 (c : nat), extends (heap g) (heap g2) ->
                forall j nd, nth_error (heap g) j = Some nd -> exists nd', nth_error (heap g2) j = Some nd' /\ cb nd' = cb nd).
  { intros g2 c E j nd H. destruct (E j nd H) as (nd' & A & B & _). exists nd'. split; assumption. }
  destruct s as [c k|c k|c k [b|]|[x|]|[x|]|]; cbn [sec_step fst adds cb_of_sec sec_counter_ok] in *.
  - destruct (link_back_inv g ids c k G Hk) as (_ & _ & E & (nn & A & B & _) & L & _). cbv zeta in *.
    split; [apply (Ext _ c E)|]. split; [intros _; split; [exact L|exists nn; split; assumption]|discriminate].
  - destruct (link_front_inv g ids c k G Hk) as (_ & _ & E & (nn & A & B & _) & L & _). cbv zeta in *.
    split; [apply (Ext _ c E)|]. split; [intros _; split; [exact L|exists nn; split; assumption]|discriminate].
  - rewrite (is_live_iff g ids b G). destruct (existsb (Nat.eqb b) ids) eqn:Eb; cbn [fst].
    + apply existsb_exists in Eb. destruct Eb as [b' [Hb Eb]]. apply Nat.eqb_eq in Eb. subst b'.
      destruct (in_split _ _ Hb) as [a [r Eids]]. subst ids.
      destruct (link_before_inv g a b r c k G Hk) as (_ & _ & E & (nn & A & B & _) & L & _). cbv zeta in *.
      split; [apply (Ext _ c E)|]. split; [intros _; split; [exact L|exists nn; split; assumption]|discriminate].
    + destruct (link_back_inv g ids c k G Hk) as (_ & _ & E & (nn & A & B & _) & L & _). cbv zeta in *.
      split; [apply (Ext _ c E)|]. split; [intros _; split; [exact L|exists nn; split; assumption]|discriminate].
  - destruct (link_back_inv g ids c k G Hk) as (_ & _ & E & (nn & A & B & _) & L & _). cbv zeta in *.
    split; [apply (Ext _ c E)|]. split; [intros _; split; [exact L|exists nn; split; assumption]|discriminate].
  - rewrite (is_live_iff g ids x G). destruct (existsb (Nat.eqb x) ids) eqn:Ex; cbn [fst].
    + apply existsb_exists in Ex. destruct Ex as [x' [Hx Ex]]. apply Nat.eqb_eq in Ex. subst x'.
      destruct (in_split _ _ Hx) as [a [r Eids]]. subst ids.
      destruct (unlink_inv g a x r G) as (_ & _ & K & L & _).
      split; [|split; [discriminate|intros _; exact L]].
      intros j nd H. destruct (K j nd H) as (nd' & A & B & _). exists nd'. split; assumption.
    + split; [intros j nd H; exists nd; auto|]. split; [discriminate|reflexivity].
  - split; [intros j nd H; exists nd; auto|]. split; [discriminate|reflexivity].
  - split; [intros j nd H; exists nd; auto|]. split; [discriminate|reflexivity].
  - split; [intros j nd H; exists nd; auto|]. split; [discriminate|reflexivity].
  - split; [intros j nd H; exists nd; auto|]. split; [discriminate|reflexivity].
Qed.

(* the adding sections logged for event e, oldest first *)
Definition adds_for (e : nat) (l : list (nat * dsec * bool)) : list sec :=
  filter adds (map sec_of (filter (fun x => Nat.eqb (ev_of x) e) (map sec3 l))).

Definition CB (c : dconf) : Prop :=
  forall e, length (heap (dget (dmap c) e)) = length (adds_for e (dlog c)) /\
            forall n nd, nth_error (heap (dget (dmap c) e)) n = Some nd ->
                         option_map cb_of_sec (nth_error (adds_for e (dlog c)) n) = Some (cb nd).

Lemma cb_init prog : CB (dinit prog).
Proof. intros e. split; [reflexivity|]. intros n nd H. destruct n; discriminate. Qed.

Lemma adds_for_app e l y :
  adds_for e (l ++ [y]) = adds_for e l ++ (if Nat.eqb (ev_of (sec3 y)) e && adds (sec_of (sec3 y)) then [sec_of (sec3 y)] else []).
Proof.
  unfold adds_for. rewrite map_app, filter_app, map_app, filter_app. cbn [map filter].
  destruct (Nat.eqb (ev_of (sec3 y)) e); cbn [map filter andb]; [|rewrite app_nil_r; reflexivity].
  destruct (adds (sec_of (sec3 y))); reflexivity.
Qed.

(* a step that leaves the lists and the log alone *)
Lemma cb_quiet c c' : CB c -> (forall e, dget (dmap c') e = dget (dmap c) e) -> dlog c' = dlog c -> CB c'.
Proof. intros H Hd Hl e. rewrite Hd, Hl. apply H. Qed.

(* a lookup that found nothing logs a non-adding section and changes no list *)
Lemma cb_absent c c' t e s : CB c -> adds s = false -> (forall e', dget (dmap c') e' = dget (dmap c) e') ->
  dlog c' = dlog c ++ [(t, DOn e s, absent_answer s)] -> CB c'.
Proof.
  intros H Ha Hd Hl e'. rewrite Hd, Hl, adds_for_app. cbn [sec3 fst snd ev_of sec_of]. rewrite Ha, andb_false_r, app_nil_r. apply H.
Qed.

(* a list section *)
Lemma cb_section c t x G :
  WI c G -> CB c -> sec_counter_ok (sec_of x) ->
  forall c', (forall e', dget (dmap c') e' = if Nat.eqb e' (ev_of x) then fst (sec_step (dget (dmap c) (ev_of x)) (sec_of x)) else dget (dmap c) e') ->
  dlog c' = dlog c ++ [(t, x, snd (sec_step (dget (dmap c) (ev_of x)) (sec_of x)))] -> CB c'.
Proof.
  intros W H Hk c' Hd Hl e'. rewrite (Hd e'), Hl, adds_for_app. cbn [sec3 fst snd].
  destruct (Nat.eqb_spec e' (ev_of x)) as [->|Hne].
  - rewrite Nat.eqb_refl. cbn [andb].
    destruct (w_lists c G W (ev_of x)) as [Ge _].
    destruct (sec_step_callbacks _ _ (sec_of x) Ge Hk) as (Old & New & Same). cbv zeta in *.
    destruct (H (ev_of x)) as [HL HC].
    destruct (adds (sec_of x)) eqn:Ea.
    + destruct (New eq_refl) as (L & nn & Hnn & Cnn). split; [rewrite L, app_length, HL; cbn; lia|].
      intros n nd Hn.
      destruct (Nat.lt_ge_cases n (length (heap (dget (dmap c) (ev_of x))))) as [Hlt|Hge].
      * destruct (nth_error (heap (dget (dmap c) (ev_of x))) n) as [nd0|] eqn:E0; [|apply nth_error_None in E0; lia].
        destruct (Old n nd0 E0) as (nd' & A & B). rewrite Hn in A. inversion A; subst nd'.
        rewrite nth_error_app1 by (rewrite <- HL; exact Hlt). rewrite (HC n nd0 E0), B. reflexivity.
      * assert (n = length (heap (dget (dmap c) (ev_of x)))).
        { assert (n < length (heap (fst (sec_step (dget (dmap c) (ev_of x)) (sec_of x))))) by (apply nth_error_Some; rewrite Hn; discriminate). lia. }
        subst n. rewrite Hnn in Hn. inversion Hn; subst nd. rewrite HL, nth_error_app2 by apply Nat.le_refl. rewrite Nat.sub_diag. cbn. rewrite Cnn. reflexivity.
    + rewrite app_nil_r. split; [rewrite (Same eq_refl); exact HL|].
      intros n nd Hn. destruct (nth_error (heap (dget (dmap c) (ev_of x))) n) as [nd0|] eqn:E0.
      * destruct (Old n nd0 E0) as (nd' & A & B). rewrite Hn in A. inversion A; subst nd'. rewrite (HC n nd0 E0), B. reflexivity.
      * apply nth_error_None in E0. assert (n < length (heap (fst (sec_step (dget (dmap c) (ev_of x)) (sec_of x))))) by (apply nth_error_Some; rewrite Hn; discriminate).
        rewrite (Same eq_refl) in H0. lia.
  - destruct (Nat.eqb_spec (ev_of x) e') as [E|_]; [symmetry in E; contradiction|]. cbn [andb]. rewrite app_nil_r. apply H.
Qed.

Theorem cb_step c t G : DInv c -> WI c G -> CB c -> CB (dcstep c t).
Proof.
  intros D W H. unfold dcstep. destruct (thr c t) as [p r] eqn:Et.
  assert (Pt : forall x, pend p = Some x -> sec_counter_ok (sec_of x)).
  { intros x Hx. apply (w_pend c G W t x). rewrite Et. exact Hx. }
  pose proof (i_wf c D t) as [Wp _]. rewrite Et in Wp. cbn [fst] in Wp.
  destruct p as [|n x|n x| |n x|n x|n m|e|e|e cur capt|e cur capt|e node capt|e node capt].
  - destruct r as [|k r']; [exact H|]. destruct (is_none (lkL c)); [|exact H]. apply (cb_quiet c); [exact H|intros; reflexivity|reflexivity].
  - destruct x as [e s|e s].
    + apply (cb_quiet c); [exact H| |reflexivity]. intros e'. flat. destruct (dmap c e) eqn:Ee; [reflexivity|apply dget_create; exact Ee].
    + destruct (dmap c e).
      * apply (cb_quiet c); [exact H|intros; reflexivity|reflexivity].
      * apply (cb_absent c _ t e s); [exact H|exact Wp|intros; reflexivity|reflexivity].
  - destruct n; apply (cb_quiet c); try exact H; try (intros; unfold draw; destruct (adds (sec_of x)); reflexivity);
      unfold draw; destruct (adds (sec_of x)); reflexivity.
  - apply (cb_quiet c); [exact H|intros; reflexivity|reflexivity].
  - destruct (needsM (sec_of x)).
    + destruct (is_none (lkM c (ev_of x))); [|exact H]. apply (cb_quiet c); [exact H|intros; reflexivity|reflexivity].
    + destruct (do_section_fields c t x) as (F1 & _ & _ & _ & F5 & _). cbv zeta in *.
      apply (cb_section c t x G W H (Pt x eq_refl)).
      * intros e'. unfold set_thr. cbn [dmap]. rewrite F1, dget_dset. reflexivity.
      * unfold set_thr. cbn [dlog]. exact F5.
  - destruct (do_section_fields c t x) as (F1 & _ & _ & _ & F5 & _). cbv zeta in *.
    apply (cb_section c t x G W H (Pt x eq_refl)).
    + intros e'. unfold set_thr. cbn [dmap]. rewrite F1, dget_dset. reflexivity.
    + unfold set_thr. cbn [dlog]. exact F5.
  - destruct m as [e|]; [|destruct n]; apply (cb_quiet c); try exact H; try (intros; reflexivity); reflexivity.
  - destruct (dmap c e); apply (cb_quiet c); try exact H; try (intros; reflexivity); reflexivity.
  - apply (cb_quiet c); [exact H|intros; reflexivity|reflexivity].
  - destruct (is_none (lkM c e)); [|exact H]. apply (cb_quiet c); [exact H|intros; reflexivity|reflexivity].
  - apply (cb_quiet c); [exact H|intros; reflexivity|reflexivity].
  - apply (cb_quiet c); [exact H|intros; reflexivity|reflexivity].
  - destruct node; apply (cb_quiet c); try exact H; try (intros; reflexivity); reflexivity.
Qed.

Theorem cb_run sched : forall c G, DInv c -> WI c G -> CB c -> CB (fst (grun c G sched)).
Proof.
  induction sched as [|t r IH]; intros c G D W H; cbn [grun fst]; [exact H|].
  apply IH; [apply dcstep_inv; exact D|apply wi_step; assumption|apply (cb_step c t G); assumption].
Qed.

(* EVERY SCHEDULE: the n-th node of an event's list carries the callback the n-th adding section logged for the event
   registered; there are exactly as many nodes as adding sections *)
Theorem dispatcher_nodes_carry_the_registered_callbacks prog sched :
  (forall t, Forall call_wf (prog t)) -> CB (dcrun (dinit prog) sched).
Proof.
  intros Hw. rewrite <- (grun_machine sched (dinit prog) ginit).
  apply cb_run; [apply init_inv; exact Hw|apply wi_init|apply cb_init].
Qed.
