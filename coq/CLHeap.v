(* CLHeap.v — the pointer level of callbacklist.h.

   GInv g ids : the group's linked nodes form a proper doubly linked list whose live
   members, in order, are ids; every REMOVED node still in the heap stands on stale links
   whose forward chain of removed nodes ends at a live member of the list (or at null).
   first_live h c m : following next from c over removed nodes first reaches the live
   node m.  A traversal standing on a node that was removed under it continues at
   exactly that member.

   For each critical section (append / prepend / doInsert / doFreeNode) we prove that
   GInv is preserved with the expected new content and how first_live changes for EVERY
   start node — which is what keeps all running traversals (to any nesting depth)
   correct. *)
From Coq Require Import List Arith NArith ZArith Bool Lia.
From EV Require Import CLModel.
From EV.gen Require GenCL.
Import ListNotations.
Local Open Scope nat_scope.

(* ---------- lists ---------- *)

Lemma nth_error_upd {A} (l : list A) i j f :
  nth_error (upd l i f) j = if Nat.eqb j i then option_map f (nth_error l j) else nth_error l j.
Proof.
  revert i j; induction l as [|x t IH]; intros i j; simpl.
  - destruct j, i; simpl; try reflexivity; destruct (Nat.eqb _ _); reflexivity.
  - destruct i, j; simpl; try reflexivity.
    + rewrite IH. reflexivity.
Qed.

Lemma nth_error_upd_same {A} (l : list A) i f x :
  nth_error l i = Some x -> nth_error (upd l i f) i = Some (f x).
Proof. intros H. rewrite nth_error_upd, Nat.eqb_refl, H. reflexivity. Qed.

Lemma nth_error_upd_other {A} (l : list A) i j f : j <> i -> nth_error (upd l i f) j = nth_error l j.
Proof. intros H. rewrite nth_error_upd. destruct (Nat.eqb_spec j i); [contradiction|reflexivity]. Qed.

Lemma length_upd {A} (l : list A) i f : length (upd l i f) = length l.
Proof. revert i; induction l as [|x t IH]; intros [|i]; simpl; auto. Qed.

Lemma nth_error_upd_o (h : list node) o f j :
  nth_error (upd_o h o f) j =
  match o with Some i => if Nat.eqb j i then option_map f (nth_error h j) else nth_error h j | None => nth_error h j end.
Proof. destruct o; simpl; [apply nth_error_upd|reflexivity]. Qed.

Lemma length_upd_o (h : list node) o f : length (upd_o h o f) = length h.
Proof. destruct o; simpl; [apply length_upd|reflexivity]. Qed.

Lemma nth_error_snoc {A} (l : list A) x j :
  nth_error (l ++ [x]) j = if Nat.eqb j (length l) then Some x else nth_error l j.
Proof.
  destruct (Nat.eqb_spec j (length l)) as [->|Hne].
  - rewrite nth_error_app2 by lia. rewrite Nat.sub_diag. reflexivity.
  - destruct (Nat.lt_ge_cases j (length l)) as [Hlt|Hge].
    + apply nth_error_app1; exact Hlt.
    + rewrite (proj2 (nth_error_None l j)) by lia.
      apply nth_error_None. rewrite app_length; simpl; lia.
Qed.

Definition last_opt (l : list nid) : option nid :=
  match rev l with [] => None | x :: _ => Some x end.

Lemma last_opt_app l x : last_opt (l ++ [x]) = Some x.
Proof. unfold last_opt. rewrite rev_app_distr. reflexivity. Qed.

Lemma last_opt_cons x y l : last_opt (x :: y :: l) = last_opt (y :: l).
Proof.
  unfold last_opt. simpl. destruct (rev l ++ [y]) eqn:E.
  - destruct (rev l); discriminate.
  - reflexivity.
Qed.

Lemma last_opt_in l x : last_opt l = Some x -> In x l.
Proof.
  unfold last_opt. intros H. apply in_rev. destruct (rev l); [discriminate|]. inversion H; left; reflexivity.
Qed.

Lemma last_opt_app2 a b : b <> [] -> last_opt (a ++ b) = last_opt b.
Proof.
  intros Hb. unfold last_opt. rewrite rev_app_distr. destruct (rev b) eqn:E.
  - exfalso. apply Hb. rewrite <- (rev_involutive b), E. reflexivity.
  - reflexivity.
Qed.

Lemma split_unique (a p : list nid) n b l :
  NoDup (a ++ n :: b) -> a ++ n :: b = p ++ n :: l -> a = p /\ b = l.
Proof.
  revert p; induction a as [|x a IH]; intros p Hnd Hs; simpl in *.
  - destruct p as [|y p]; simpl in Hs.
    + inversion Hs; auto.
    + injection Hs as E1 E2. subst y. exfalso. apply NoDup_cons_iff in Hnd as [Hni _].
      apply Hni. rewrite E2. apply in_or_app; right; left; reflexivity.
  - destruct p as [|y p]; simpl in Hs.
    + injection Hs as E1 E2. subst x. exfalso. apply NoDup_cons_iff in Hnd as [Hni _].
      apply Hni. apply in_or_app; right; left; reflexivity.
    + injection Hs as E1 E2. subst y. apply NoDup_cons_iff in Hnd as [_ Hnd'].
      destruct (IH p Hnd' E2) as [-> ->]. auto.
Qed.

Definition live (nd : node) : Prop := ctr nd <> GenCL.removed_marker.

Lemma live_dec nd : {live nd} + {~ live nd}.
Proof. unfold live. destruct (N.eq_dec (ctr nd) GenCL.removed_marker); [right|left]; auto. Qed.

(* ---------- the live chain ---------- *)

Fixpoint lchain (h : list node) (p : option nid) (ids : list nid) : Prop :=
  match ids with
  | [] => True
  | n :: r => exists nd, nth_error h n = Some nd /\ live nd /\ prv nd = p /\ nxt nd = hd_error r
                         /\ lchain h (Some n) r
  end.

Lemma lchain_in h p ids : lchain h p ids -> forall n, In n ids -> exists nd, nth_error h n = Some nd /\ live nd.
Proof.
  revert p; induction ids as [|x r IH]; intros p H n Hn; simpl in *.
  - destruct Hn.
  - destruct H as [nd [H1 [H2 [H3 [H4 H5]]]]]. destruct Hn as [<-|Hn]; eauto.
Qed.

Lemma lchain_bound h p ids : lchain h p ids -> forall n, In n ids -> n < length h.
Proof.
  intros H n Hn. destruct (lchain_in _ _ _ H n Hn) as [nd [H1 _]].
  apply nth_error_Some. rewrite H1. discriminate.
Qed.

Lemma lchain_frame h h' p ids :
  lchain h p ids -> (forall x, In x ids -> nth_error h' x = nth_error h x) -> lchain h' p ids.
Proof.
  revert p; induction ids as [|x r IH]; intros p H Hf; simpl in *; [exact I|].
  destruct H as [nd [H1 [H2 [H3 [H4 H5]]]]]. exists nd. rewrite Hf by (left; reflexivity).
  repeat split; auto.
Qed.

(* the node after a member, and the node before it *)
Lemma lchain_split h p a x b :
  lchain h p (a ++ x :: b) ->
  exists nd, nth_error h x = Some nd /\ live nd /\ nxt nd = hd_error b /\
             prv nd = (match last_opt a with Some y => Some y | None => p end).
Proof.
  revert p; induction a as [|y a IH]; intros p H; simpl in *.
  - destruct H as [nd [H1 [H2 [H3 [H4 H5]]]]]. exists nd. auto.
  - destruct H as [nd [H1 [H2 [H3 [H4 H5]]]]].
    destruct (IH _ H5) as [nd' [G1 [G2 [G3 G4]]]]. exists nd'. repeat split; auto.
    rewrite G4. destruct a as [|z a]; [reflexivity|].
    rewrite last_opt_cons. destruct (last_opt (z :: a)) eqn:E; [reflexivity|].
    exfalso. unfold last_opt in E. simpl in E. destruct (rev a ++ [z]) eqn:E2; [destruct (rev a); discriminate|discriminate].
Qed.

(* ---------- first live node reached over removed nodes ---------- *)

Inductive first_live (h : list node) : option nid -> option nid -> Prop :=
| fl_none : first_live h None None
| fl_live n nd : nth_error h n = Some nd -> live nd -> first_live h (Some n) (Some n)
| fl_dead n nd m : nth_error h n = Some nd -> ~ live nd -> first_live h (nxt nd) m -> first_live h (Some n) m.

Lemma first_live_fun h c m1 : first_live h c m1 -> forall m2, first_live h c m2 -> m1 = m2.
Proof.
  induction 1 as [|n nd Hn Hl|n nd m Hn Hl Hw IH]; intros m2 H2; inversion H2; subst; try reflexivity;
    match goal with H : nth_error h n = Some ?x |- _ => rewrite Hn in H; inversion H; subst end;
    try contradiction.
  apply IH; assumption.
Qed.

Lemma first_live_some h c y : first_live h c (Some y) -> exists nd, nth_error h y = Some nd /\ live nd.
Proof.
  intros H. remember (Some y) as m eqn:E. induction H as [|n nd Hn Hl|n nd m Hn Hl Hw IH].
  - discriminate.
  - inversion E; subst. eauto.
  - auto.
Qed.

(* ---------- the group invariant ---------- *)

Record GInv (g : group) (ids : list nid) : Prop := {
  gi_chain : lchain (heap g) None ids;
  gi_head : ghead g = hd_error ids;
  gi_tail : gtail g = last_opt ids;
  gi_nodup : NoDup ids;
  gi_dead : forall n nd, nth_error (heap g) n = Some nd -> ~ live nd ->
            exists m, first_live (heap g) (nxt nd) m /\ (forall x, m = Some x -> In x ids);
  gi_live : forall n nd, nth_error (heap g) n = Some nd -> live nd -> In n ids
}.

Lemma ginv_empty : GInv empty_group [].
Proof.
  constructor; simpl; auto.
  - constructor.
  - intros n nd H. destruct n; discriminate.
  - intros n nd H. destruct n; discriminate.
Qed.

Lemma ginv_first_live g ids : GInv g ids -> forall n nd, nth_error (heap g) n = Some nd ->
  exists m, first_live (heap g) (Some n) m /\ (forall x, m = Some x -> In x ids).
Proof.
  intros G n nd Hn. destruct (live_dec nd) as [Hl|Hd].
  - exists (Some n). split; [econstructor; eauto|]. intros x E; inversion E; subst. eapply gi_live; eauto.
  - destruct (gi_dead _ _ G n nd Hn Hd) as [m [H1 H2]]. exists m. split; [eapply fl_dead; eauto|exact H2].
Qed.

Lemma ginv_in_heap g ids : GInv g ids -> forall n, In n ids -> exists nd, nth_error (heap g) n = Some nd.
Proof. intros G n Hn. destruct (lchain_in _ _ _ (gi_chain _ _ G) n Hn) as [nd [H _]]. eauto. Qed.

Lemma ginv_member g ids : GInv g ids -> forall a x b, ids = a ++ x :: b ->
  exists nd, nth_error (heap g) x = Some nd /\ live nd /\ nxt nd = hd_error b /\ prv nd = last_opt a.
Proof.
  intros G a x b E. assert (C := gi_chain _ _ G). rewrite E in C.
  destruct (lchain_split _ _ _ _ _ C) as [nd [H1 [H2 [H3 H4]]]]. exists nd. repeat split; auto.
  rewrite H4. destruct (last_opt a); reflexivity.
Qed.

Lemma ginv_length g ids : GInv g ids -> length ids <= length (heap g).
Proof.
  intros G. rewrite <- (seq_length (length (heap g)) 0).
  apply NoDup_incl_length; [apply (gi_nodup _ _ G)|].
  intros x Hx. apply in_seq. split; [lia|]. simpl. eapply lchain_bound; [apply (gi_chain _ _ G)|exact Hx].
Qed.

(* the suffix of the list starting at a member *)
Fixpoint sfrom (x : nid) (ids : list nid) : list nid :=
  match ids with
  | [] => []
  | y :: r => if Nat.eqb x y then y :: r else sfrom x r
  end.

Definition sfrom_o (m : option nid) (ids : list nid) : list nid :=
  match m with Some x => sfrom x ids | None => [] end.

Lemma sfrom_split a x b : ~ In x a -> sfrom x (a ++ x :: b) = x :: b.
Proof.
  induction a as [|y a IH]; intros H; simpl.
  - rewrite Nat.eqb_refl. reflexivity.
  - destruct (Nat.eqb_spec x y) as [->|Hne]; [exfalso; apply H; left; reflexivity|].
    apply IH. intro X; apply H; right; exact X.
Qed.

Lemma sfrom_notin x ids : ~ In x ids -> sfrom x ids = [].
Proof.
  induction ids as [|y r IH]; intros H; simpl; [reflexivity|].
  destruct (Nat.eqb_spec x y) as [->|Hne]; [exfalso; apply H; left; reflexivity|].
  apply IH. intro X; apply H; right; exact X.
Qed.

Lemma nodup_app_r {A} (a b : list A) : NoDup (a ++ b) -> NoDup b.
Proof. induction a as [|x a IH]; simpl; intro H; [exact H|]. apply NoDup_cons_iff in H as [_ H]. auto. Qed.

Lemma nodup_split_notin (a : list nid) x b : NoDup (a ++ x :: b) -> ~ In x a /\ ~ In x b.
Proof.
  intros H. apply NoDup_remove_2 in H. split; intro X; apply H; apply in_or_app; auto.
Qed.
