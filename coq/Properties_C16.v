(* Properties_C16.v — C16: CounterRemover and ConditionalRemover detach listeners exactly when promised.
   Model: AutoRemoveModel.v (listener lists with the snapshot rule; the wrappers' test, the order
   "remove own handle" / "call the wrapped listener", the condition's arguments and where the
   wrappers keep their state are generated from counterremover.h / conditionalremover.h:
   coq/gen/GenAutoRemove.v).  Proofs: AutoRemoveProofs.v.  Only statements, examples and
   Print Assumptions here.

   Vocabulary.  An entry of a listener list has an id h.  The trace (newest first) is projected on h:
     trigs_of h   arguments of the TRIGGERS of wrapper h = invocations (outermost or nested, direct or by a
                  processing call) of the wrapper's list in which the wrapper was still attached at its turn
     calls_of h   calls (listener, key, argument) of the wrapped listener made through h
     evals_of h   evaluations (condition, argument given or not, verdict) of the condition of h
   xrem: entries detached by an explicit remove command (somebody else removed the handle). *)
From Coq Require Import List Arith NArith ZArith Bool.
From EV Require Import AutoRemoveModel AutoRemoveProofs.
From EV.gen Require GenAutoRemove.
Import ListNotations.

(* The statements are parametric in `lf`, the header-dependent ingredients of the wrappers:
   gen_leafs islist = what counterremover.h / conditionalremover.h say now (islist: the
   specialisation for CallbackList-like targets, otherwise the one for EventDispatcher /
   EventQueue-like targets; heterogeneous targets use the same two), spec_leafs = the promise
   (ideal counter detaching with the max(n,1)-th trigger), used as oracle by tie B. *)

(* For every re-entrant program (listeners running any command, including dispatching their own
   event again, to any depth), every condition table and every fuel: after ANY history, a listener
   added through CounterRemover with count n in the covered range rng (below: full_range, i.e. EVERY
   count an int can hold, INT_MIN <= n <= INT_MAX, for the code as generated from the headers, for the
   specification and for the hand-written guarded wrapper; in_range, INT_MIN < n, for the legacy wrapper),
   (1) has been called exactly once per trigger, with that trigger's key and argument, in order;
   (2) has seen at most max(n,1) triggers;
   (3) is attached iff it has seen fewer than max(n,1) triggers — unless someone removed its handle
       explicitly, (4) in which case it is detached;
   (5) while attached its counter is n minus the number of triggers and (6) no decrement left the int range.
   Since this holds after every history, no call can follow the max(n,1)-th trigger. *)
Definition counter_exact (rng : Z -> Prop) (lf : leafs) : Prop :=
  forall behav cverdict fuel prog st h k c n,
    a_run lf behav cverdict fuel a_init prog = Some st ->
    alookup h (ents st) = Some (k, SCounter c n) -> rng n ->
    let t := Z.of_nat (length (trigs_of h (atrace st))) in
    calls_of h (atrace st) = map (fun a => (c, k, a)) (trigs_of h (atrace st))
    /\ (t <= Z.max n 1)%Z
    /\ (has_l h (xrem st) = false -> (attached st h = true <-> (t < Z.max n 1)%Z))
    /\ (has_l h (xrem st) = true -> attached st h = false)
    /\ (attached st h = true -> cellk (cells st) h = (n - t)%Z)
    /\ has_l h (ovfs st) = false.

(* A listener added through ConditionalRemover with condition p:
   (1) called exactly once per trigger with the trigger's key and argument;
   (2) the condition was evaluated exactly once per trigger, with the argument iff it accepts it;
   (3) every verdict except the latest was false (no trigger follows a true verdict);
   (4) attached iff all verdicts so far were false — unless removed explicitly, (5) then detached. *)
Definition conditional_exact (lf : leafs) : Prop :=
  forall behav cverdict fuel prog st h k c p wa,
    a_run lf behav cverdict fuel a_init prog = Some st ->
    alookup h (ents st) = Some (k, SCond c p wa) ->
    let verdicts := map snd (evals_of h (atrace st)) in
    calls_of h (atrace st) = map (fun a => (c, k, a)) (trigs_of h (atrace st))
    /\ map fst (evals_of h (atrace st)) = map (fun a => (p, if wa then Some a else None)) (trigs_of h (atrace st))
    /\ all_false (tl verdicts)
    /\ (has_l h (xrem st) = false -> (attached st h = true <-> all_false verdicts))
    /\ (has_l h (xrem st) = true -> attached st h = false).

(* Exactness from below: whenever the event of an attached wrapper is dispatched (the listeners
   running anything, nested dispatches included), the wrapper is triggered by that dispatch —
   unless its handle is removed explicitly meanwhile.  With the two statements above: the wrapped
   listener runs on the first max(n,1) triggers / on every trigger up to the first true verdict. *)
Definition attached_is_triggered (rng : Z -> Prop) (lf : leafs) : Prop :=
  forall behav cverdict fuel prog st fuel' k a st' h e,
    a_run lf behav cverdict fuel a_init prog = Some st ->
    a_run lf behav cverdict (S fuel') st [ADispatch k a] = Some st' ->
    alookup h (ents st) = Some (k, e) ->
    match e with SPlain _ => False | SCounter _ n => rng n | SCond _ _ _ => True end ->
    attached st h = true -> has_l h (xrem st') = false ->
    length (trigs_of h (atrace st)) < length (trigs_of h (atrace st')).

(* Destroying the helper objects (at any moment, also from inside listeners) changes nothing. *)
Definition helper_irrelevant (lf : leafs) : Prop :=
  forall behav cverdict fuel st prog,
    a_run lf behav cverdict fuel st prog
    = a_run lf (fun c n => strip_drops (behav c n)) cverdict fuel st (strip_drops prog).

(* ---- the code, as generated from the headers: every trigger count, zero, negative and INT_MIN included ---- *)

Theorem C16_counter_remover_exact : forall islist, counter_exact full_range (gen_leafs islist).
Proof. exact (fun islist => counter_remover_exact _ _ (gen_leafs_ok_full islist)). Qed.
Print Assumptions C16_counter_remover_exact.

Theorem C16_conditional_remover_exact : forall islist, conditional_exact (gen_leafs islist).
Proof. exact (fun islist => conditional_remover_exact _ _ (gen_leafs_ok_full islist)). Qed.
Print Assumptions C16_conditional_remover_exact.

Theorem C16_attached_wrapper_is_triggered : forall islist, attached_is_triggered full_range (gen_leafs islist).
Proof. exact (fun islist => attached_wrapper_is_triggered _ _ (gen_leafs_ok_full islist)). Qed.
Print Assumptions C16_attached_wrapper_is_triggered.

Theorem C16_helper_lifetime_irrelevant : forall islist, helper_irrelevant (gen_leafs islist).
Proof. exact (fun islist => helper_lifetime_irrelevant _ _ (gen_leafs_ok_full islist)). Qed.
Print Assumptions C16_helper_lifetime_irrelevant.

(* ---- the specification used as oracle satisfies the same statements, for EVERY count an int can hold ---- *)

Theorem C16_specification_meets_the_statements :
  counter_exact full_range spec_leafs /\ conditional_exact spec_leafs
  /\ attached_is_triggered full_range spec_leafs /\ helper_irrelevant spec_leafs.
Proof.
  exact (conj (counter_remover_exact _ _ spec_leafs_ok_full) (conj (conditional_remover_exact _ _ spec_leafs_ok_full)
        (conj (attached_wrapper_is_triggered _ _ spec_leafs_ok_full) (helper_lifetime_irrelevant _ _ spec_leafs_ok_full)))).
Qed.
Print Assumptions C16_specification_meets_the_statements.

(* ---- a wrapper that does not decrement at or below 1 (`if(data->triggerCount <= 1 || --data->triggerCount <= 0)`,
        guarded_leafs, written out by hand) meets the statements for every count, INT_MIN included:
        the repair of observation P9 (commit bebac6a), independent of tie A ---- *)

Theorem C16_guarded_counter_covers_every_count :
  counter_exact full_range guarded_leafs /\ attached_is_triggered full_range guarded_leafs.
Proof.
  exact (conj (counter_remover_exact _ _ guarded_leafs_ok_full) (attached_wrapper_is_triggered _ _ guarded_leafs_ok_full)).
Qed.
Print Assumptions C16_guarded_counter_covers_every_count.

(* Regression witness of the repaired defect (observation P9).  legacy_leafs is the counter wrapper of the tree this
   development started from, written out by hand: `if(--data->triggerCount <= 0)` on a 32-bit int,
   removal before the call.  Its first decrement at INT_MIN overflows (undefined behaviour in C++);
   under wrap-around semantics the listener, promised max(INT_MIN,1) = 1 call, is still attached after
   three triggers and has been called three times (observation P9), whereas the specification
   detaches it with the first trigger.  (For INT_MIN < n the legacy wrapper is fine: legacy_leafs_ok.) *)
Theorem C16_counter_int_min_refuted :
  (exists fuel st,
    a_run legacy_leafs (fun _ _ => []) (fun _ _ => false) fuel a_init int_min_prog = Some st
    /\ alookup 0 (ents st) = Some (0, SCounter 1 int_min)
    /\ Z.max int_min 1 = 1%Z
    /\ has_l 0 (ovfs st) = true
    /\ attached st 0 = true
    /\ length (calls_of 0 (atrace st)) = 3
    /\ cellk (cells st) 0 = (int_max - 2)%Z)
  /\ (exists st,
    a_run spec_leafs (fun _ _ => []) (fun _ _ => false) 2 a_init int_min_prog = Some st
    /\ attached st 0 = false /\ length (calls_of 0 (atrace st)) = 1 /\ ovfs st = []).
Proof. exact (conj counter_int_min_refuted spec_int_min_detaches). Qed.
Print Assumptions C16_counter_int_min_refuted.

(* ---------- non-vacuity ---------- *)

(* listener 1 (wrapped, count 2) dispatches its own event again on its first activation;
   listener 3 (wrapped, count -3) and the conditional listener 4 (condition 7: false, false, true)
   share the list with the plain listener 2; events are also queued; a helper is dropped *)
Definition ex_behav (c n : nat) : list acmd :=
  match c, n with
  | 1, 1 => [ADispatch 0 9%Z; ADropHelper 0]
  | 2, 2 => [AEnqueue 0 11%Z]
  | _, _ => []
  end.
Definition ex_cverdict (p n : nat) : bool := match p, n with 7, 3 => true | _, _ => false end.
Definition ex_main : list acmd :=
  [AAdd PAppend 0 (SCounter 1 2%Z) 0; AAdd PAppend 0 (SPlain 2) 1; AAdd PPrepend 0 (SCounter 3 (-3)%Z) 2;
   AAdd (PInsert 1) 0 (SCond 4 7 true) 3; ADropHelper 2;
   ADispatch 0 5%Z; AProcess; ADispatch 0 6%Z; AEnqueue 0 12%Z; AProcess].

Example C16_counter_hypotheses_satisfiable :
  exists st, a_run (gen_leafs true) ex_behav ex_cverdict 6 a_init ex_main = Some st
    /\ alookup 0 (ents st) = Some (0, SCounter 1 2%Z) /\ trigs_of 0 (atrace st) = [9%Z; 5%Z] /\ attached st 0 = false
    /\ alookup 2 (ents st) = Some (0, SCounter 3 (-3)%Z) /\ trigs_of 2 (atrace st) = [5%Z] /\ attached st 2 = false
    /\ has_l 0 (xrem st) = false /\ 12 <= length (atrace st).
Proof. eexists. split; [vm_compute; reflexivity|]. vm_compute. repeat split; repeat constructor. Qed.

Example C16_conditional_hypotheses_satisfiable :
  exists st, a_run (gen_leafs false) ex_behav ex_cverdict 6 a_init ex_main = Some st
    /\ alookup 3 (ents st) = Some (0, SCond 4 7 true)
    /\ evals_of 3 (atrace st) = [(7, Some 11%Z, true); (7, Some 5%Z, false); (7, Some 9%Z, false)]
    /\ attached st 3 = false /\ has_l 3 (xrem st) = false.
Proof. eexists. split; [vm_compute; reflexivity|]. vm_compute. repeat split. Qed.

Example C16_trigger_hypotheses_satisfiable :
  exists st st', a_run (gen_leafs true) ex_behav ex_cverdict 6 a_init [AAdd PAppend 0 (SCounter 1 2%Z) 0; AAdd PAppend 0 (SPlain 2) 1] = Some st
    /\ a_run (gen_leafs true) ex_behav ex_cverdict 6 st [ADispatch 0 5%Z] = Some st'
    /\ attached st 0 = true /\ has_l 0 (xrem st') = false
    /\ length (trigs_of 0 (atrace st)) = 0 /\ length (trigs_of 0 (atrace st')) = 2.
Proof. eexists. eexists. split; [vm_compute; reflexivity|]. split; [vm_compute; reflexivity|]. vm_compute. repeat split. Qed.

Example C16_helper_hypotheses_satisfiable :
  exists st, a_run (gen_leafs true) ex_behav ex_cverdict 6 a_init ex_main = Some st
    /\ strip_drops ex_main <> ex_main /\ strip_drops (ex_behav 1 1) <> ex_behav 1 1.
Proof. eexists. split; [vm_compute; reflexivity|]. split; vm_compute; discriminate. Qed.

(* The tree as it is (after the repair): the GENERATED test, given INT_MIN, removes the listener and
   leaves the counter alone — no decrement, hence no overflow; the same at 1, 0 and -3.  Above 1 it
   decrements.  With the legacy test this Example fails ((INT_MAX, false) at INT_MIN). *)
Example C16_generated_counter_at_int_min :
  forall islist,
    GenAutoRemove.counter_step islist int_dec int_min = (int_min, true)
    /\ counter_overflowed true int_min (fst (GenAutoRemove.counter_step islist int_dec int_min)) = false
    /\ GenAutoRemove.counter_step islist int_dec 1%Z = (1%Z, true)
    /\ GenAutoRemove.counter_step islist int_dec 0%Z = (0%Z, true)
    /\ GenAutoRemove.counter_step islist int_dec (-3)%Z = ((-3)%Z, true)
    /\ GenAutoRemove.counter_step islist int_dec 2%Z = (1%Z, false).
Proof. intros []; vm_compute; repeat split; reflexivity. Qed.

(* and the whole INT_MIN program on the generated wrapper: one call, detached, nothing overflowed *)
Example C16_generated_int_min_program :
  forall islist, exists st,
    a_run (gen_leafs islist) (fun _ _ => []) (fun _ _ => false) 2 a_init int_min_prog = Some st
    /\ attached st 0 = false /\ length (calls_of 0 (atrace st)) = 1 /\ ovfs st = [].
Proof. intros []; eexists; (split; [vm_compute; reflexivity|]); vm_compute; repeat split; reflexivity. Qed.
