(* CLModel.v — executable pointer-level model of eventpp::CallbackList
   (include/eventpp/callbacklist.h) and of the re-entrant programs that use it.

   The model mirrors the mechanism of the header: nodes with previous/next/counter,
   head/tail, the generation counter with its wrap branch, removed nodes keeping
   their stale links, a traversal that reads [next] AFTER the callback returned.
   shared_ptr life time is modelled by reachability from the roots (head/tail of
   live list objects and the nodes pinned by running traversals).

   This file contains definitions only (no proofs), so that it still runs when a
   proof is broken.  It is extracted to OCaml (Extract.v) and driven by
   ocaml/driver.ml in the correspondence check against the real C++. *)
From Coq Require Import List Arith NArith ZArith Bool.
From EV.gen Require GenCL.   (* tie A: regenerated from callbacklist.h on every run *)
Import ListNotations.
Local Open Scope nat_scope.

Notation nid := nat (only parsing).   (* node id  = index into its group's heap *)
Notation gid := nat (only parsing).   (* node group id; nodes never migrate between groups *)
Notation lid := nat (only parsing).   (* list-object slot *)
Notation cbid := nat (only parsing).  (* callback identity *)

Record node := mkNode { prv : option nid; nxt : option nid; cb : cbid; ctr : N }.

Record group := mkGroup {
  heap : list node;
  ghead : option nid;
  gtail : option nid;
  gfreed : bool          (* doFreeAllNodes ran on it (owner destroyed / move-assigned over) *)
}.

Record lobj := mkLobj { lg : gid; lcur : N }.

Definition handle := option (gid * nid).   (* None = default-constructed / empty handle *)

Inductive cmd :=
| Append (l : lid) (c : cbid) (h : nat)
| Prepend (l : lid) (c : cbid) (h : nat)
| Insert (l : lid) (c : cbid) (hb h : nat)
| Remove (l : lid) (h : nat)
| Owns (l : lid) (h : nat)
| Empty (l : lid)
| Invoke (l : lid) (a : Z)
| ForEach (l : lid)
| ForEachIf (l : lid) (k : nat)
| HasL (l : lid) (c : cbid)
| HasAny (l : lid)
| RemoveL (l : lid) (c : cbid)
| New (l : lid)
| CopyCtor (src dst : lid)
| CopyAssign (src dst : lid)
| MoveCtor (src dst : lid)
| MoveAssign (src dst : lid)
| Swap (a b : lid)
| Destroy (l : lid)
| SetCur (l : lid) (k : N)      (* harness: currentCounter := max(currentCounter, W-1-k) *)
| Ledger (ncb : nat).           (* log number of live stored callback objects per id < ncb *)

Inductive ev :=
| ERet (b : bool)
| ECall (c : cbid) (a : Z)
| EVisit (c : cbid)
| ELedger (counts : list nat).

Record state := mkState {
  groups : list group;
  lists : list (option lobj);
  regs : list (nat * handle);
  acts : list (cbid * nat);        (* activations so far per callback id *)
  pins : list (gid * nid);         (* nodes held by running traversals *)
  wrapped : bool;                  (* ghost: the wrap branch of getNextCounter was taken *)
  trace : list ev                  (* newest first *)
}.

(* ---------- small helpers ---------- *)

Fixpoint upd {A} (l : list A) (i : nat) (f : A -> A) : list A :=
  match l, i with
  | [], _ => []
  | x :: t, 0 => f x :: t
  | x :: t, S j => x :: upd t j f
  end.

Definition set_prv (p : option nid) (n : node) := mkNode p (nxt n) (cb n) (ctr n).
Definition set_nxt (p : option nid) (n : node) := mkNode (prv n) p (cb n) (ctr n).
Definition set_ctr (k : N) (n : node) := mkNode (prv n) (nxt n) (cb n) k.

Definition upd_o (h : list node) (o : option nid) (f : node -> node) :=
  match o with Some i => upd h i f | None => h end.

Definition oeqb (a b : option nid) : bool :=
  match a, b with
  | Some x, Some y => Nat.eqb x y
  | None, None => true
  | _, _ => false
  end.

Fixpoint lookup {A} (k : nat) (l : list (nat * A)) : option A :=
  match l with
  | [] => None
  | (k', v) :: t => if Nat.eqb k k' then Some v else lookup k t
  end.

Definition get_reg (st : state) (h : nat) : handle :=
  match lookup h (regs st) with Some v => v | None => None end.

Definition get_act (st : state) (c : cbid) : nat :=
  match lookup c (acts st) with Some v => v | None => 0 end.

Definition set_groups st gs := mkState gs (lists st) (regs st) (acts st) (pins st) (wrapped st) (trace st).
Definition set_lists st ls := mkState (groups st) ls (regs st) (acts st) (pins st) (wrapped st) (trace st).
Definition set_reg st h v := mkState (groups st) (lists st) ((h, v) :: regs st) (acts st) (pins st) (wrapped st) (trace st).
Definition bump_act st c := mkState (groups st) (lists st) (regs st) ((c, S (get_act st c)) :: acts st) (pins st) (wrapped st) (trace st).
Definition set_pins st p := mkState (groups st) (lists st) (regs st) (acts st) p (wrapped st) (trace st).
Definition set_wrapped st := mkState (groups st) (lists st) (regs st) (acts st) (pins st) true (trace st).
Definition log st e := mkState (groups st) (lists st) (regs st) (acts st) (pins st) (wrapped st) (e :: trace st).

Definition get_list (st : state) (l : lid) : option lobj :=
  match nth_error (lists st) l with Some (Some o) => Some o | _ => None end.
Definition get_group (st : state) (g : gid) : option group := nth_error (groups st) g.
Definition put_group st g gr := set_groups st (upd (groups st) g (fun _ => gr)).
Definition put_list st l (o : option lobj) := set_lists st (upd (lists st) l (fun _ => o)).

Definition empty_group := mkGroup [] None None false.

(* ---------- the critical sections of callbacklist.h, on one group ---------- *)

(* std::make_shared<Node>(callback, counter) *)
Definition g_alloc (g : group) (c : cbid) (k : N) : group * nid :=
  (mkGroup (heap g ++ [mkNode None None c k]) (ghead g) (gtail g) (gfreed g), length (heap g)).

(* append: if(head){node->previous=tail; tail->next=node; tail=node;} else {head=node; tail=node;} *)
Definition g_link_back (g : group) (n : nid) : group :=
  match ghead g with
  | Some _ =>
      mkGroup (upd_o (upd (heap g) n (set_prv (gtail g))) (gtail g) (set_nxt (Some n)))
              (ghead g) (Some n) (gfreed g)
  | None => mkGroup (heap g) (Some n) (Some n) (gfreed g)
  end.

(* prepend: if(head){node->next=head; head->previous=node; head=node;} else {...} *)
Definition g_link_front (g : group) (n : nid) : group :=
  match ghead g with
  | Some _ =>
      mkGroup (upd_o (upd (heap g) n (set_nxt (ghead g))) (ghead g) (set_prv (Some n)))
              (Some n) (gtail g) (gfreed g)
  | None => mkGroup (heap g) (Some n) (Some n) (gfreed g)
  end.

(* doInsert(node, beforeNode) *)
Definition g_link_before (g : group) (n b : nid) : group :=
  match nth_error (heap g) b with
  | None => g
  | Some bn =>
      let h1 := upd (heap g) n (fun x => set_nxt (Some b) (set_prv (prv bn) x)) in
      let h2 := upd_o h1 (prv bn) (set_nxt (Some n)) in
      let h3 := upd h2 b (set_prv (Some n)) in
      mkGroup h3 (if oeqb (Some b) (ghead g) then Some n else ghead g) (gtail g) (gfreed g)
  end.

(* doFreeNode(node) *)
Definition g_unlink (g : group) (x : nid) : group :=
  match nth_error (heap g) x with
  | None => g
  | Some xn =>
      let h1 := upd_o (heap g) (nxt xn) (set_prv (prv xn)) in
      let h2 := upd_o h1 (prv xn) (set_nxt (nxt xn)) in
      let h3 := upd h2 x (set_ctr GenCL.removed_marker) in
      mkGroup h3 (if oeqb (ghead g) (Some x) then nxt xn else ghead g)
                 (if oeqb (gtail g) (Some x) then prv xn else gtail g) (gfreed g)
  end.

(* doFreeAllNodes(): walk from head cutting both links of every node; afterwards the
   owner's head and tail are gone as well (destructor / overwritten by move assignment) *)
Fixpoint cut_chain (k : nat) (h : list node) (c : option nid) : list node :=
  match k, c with
  | S k', Some n =>
      match nth_error h n with
      | Some nd => cut_chain k' (upd h n (fun x => set_nxt None (set_prv None x))) (nxt nd)
      | None => h
      end
  | _, _ => h
  end.
Definition g_free_all (g : group) : group :=
  mkGroup (cut_chain (length (heap g)) (heap g) (ghead g)) None None true.

(* getNextCounter's overflow loop: every node linked from head gets counter 1 *)
Fixpoint reset_chain (k : nat) (h : list node) (c : option nid) : list node :=
  match k, c with
  | S k', Some n =>
      match nth_error h n with
      | Some nd => reset_chain k' (upd h n (set_ctr GenCL.wrap_rewrite_value)) (nxt nd)
      | None => h
      end
  | _, _ => h
  end.

(* ---------- reachability = shared_ptr life time ---------- *)

Fixpoint mem_nat (x : nat) (l : list nat) : bool :=
  match l with [] => false | y :: t => Nat.eqb x y || mem_nat x t end.

Definition olist (o : option nid) : list nid := match o with Some x => [x] | None => [] end.

(* worklist closure over previous/next; fuel = 2 * heap size + |roots| is enough *)
Fixpoint reach (k : nat) (h : list node) (work seen : list nid) : list nid :=
  match k with
  | 0 => seen
  | S k' =>
      match work with
      | [] => seen
      | n :: w =>
          if mem_nat n seen then reach k' h w seen
          else match nth_error h n with
               | Some nd => reach k' h (olist (prv nd) ++ olist (nxt nd) ++ w) (n :: seen)
               | None => reach k' h w seen
               end
      end
  end.

Definition group_roots (st : state) (g : gid) (gr : group) : list nid :=
  (if existsb (fun o => match o with Some ob => Nat.eqb (lg ob) g | None => false end) (lists st)
   then olist (ghead gr) ++ olist (gtail gr) else [])
  ++ map snd (filter (fun p => Nat.eqb (fst p) g) (pins st)).

Definition alive_nodes (st : state) (g : gid) (gr : group) : list nid :=
  let roots := group_roots st g gr in
  reach (3 * length (heap gr) + length roots + 1) (heap gr) roots [].

Definition count_cb (h : list node) (ns : list nid) (c : cbid) : nat :=
  length (filter (fun n => match nth_error h n with Some nd => Nat.eqb (cb nd) c | None => false end) ns).

Fixpoint sum_list (l : list nat) : nat := match l with [] => 0 | x :: t => x + sum_list t end.

Definition ledger (st : state) (ncb : nat) : list nat :=
  map (fun c => sum_list (map (fun p => count_cb (heap (snd p)) (alive_nodes st (fst p) (snd p)) c)
                              (combine (seq 0 (length (groups st))) (groups st))))
      (seq 0 ncb).

Definition pinned_group (st : state) (g : gid) : bool :=
  existsb (fun p => Nat.eqb (fst p) g) (pins st).

(* ---------- the interpreter ---------- *)

Inductive vmode :=
| VInvoke (a : Z) | VEach | VEachIf (k : nat) | VHas (c : cbid) | VAny | VRemoveL (c : cbid).

Section Interp.
  Variable W : N.                              (* counter modulus; 2^32 for the real code *)
  (* does the source test the removed marker under the lock in remove / insert / ownsHandle?
     The theorems instantiate these with the facts tie A reads off the header
     (GenCL.remove_checks_removed …); the legacy behaviour is all three false. *)
  Variable chk_remove chk_insert chk_owns : bool.
  Variable behav : cbid -> nat -> list cmd.    (* what callback c does on its n-th activation (n = 1, 2, …) *)

  (* Counter getNextCounter() on list object l *)
  Definition next_counter (st : state) (l : lid) : option (state * N) :=
    match get_list st l with
    | None => None
    | Some o =>
        let r := ((lcur o + 1) mod W)%N in
        if GenCL.wrap_test r then
          match get_group st (lg o) with
          | None => None
          | Some gr =>
              let gr' := mkGroup (reset_chain (length (heap gr)) (heap gr) (ghead gr)) (ghead gr) (gtail gr) (gfreed gr) in
              let r2 := if GenCL.wrap_second_draw then ((r + 1) mod W)%N else r in
              Some (set_wrapped (put_list (put_group st (lg o) gr') l (Some (mkLobj (lg o) r2))), r2)
          end
        else Some (put_list st l (Some (mkLobj (lg o) r)), r)
    end.

  (* doAllocateNode on list l: counter first, then the node *)
  Definition alloc_node (st : state) (l : lid) (c : cbid) : option (state * gid * nid) :=
    match next_counter st l with
    | None => None
    | Some (st1, k) =>
        match get_list st1 l with
        | None => None
        | Some o =>
            match get_group st1 (lg o) with
            | None => None
            | Some gr => let (gr', n) := g_alloc gr c k in Some (put_group st1 (lg o) gr', lg o, n)
            end
        end
    end.

  Definition with_group (st : state) (g : gid) (f : group -> group) : option state :=
    match get_group st g with Some gr => Some (put_group st g (f gr)) | None => None end.

  (* classification of a handle presented to list object o *)
  Inductive hkind := HEmpty | HLocal (n : nid) (nd : node) | HExpired | HForeign.

  Definition lockable (st : state) (g : gid) (gr : group) (n : nid) : bool :=
    mem_nat n (alive_nodes st g gr).

  Definition classify (st : state) (o : lobj) (h : handle) : hkind :=
    match h with
    | None => HEmpty
    | Some (g, n) =>
        match get_group st g with
        | None => HForeign
        | Some gr =>
            if Nat.eqb g (lg o) then
              match nth_error (heap gr) n with
              | Some nd =>
                  if chk_remove && chk_insert && chk_owns then HLocal n nd
                  else if lockable st g gr n then HLocal n nd else HExpired
              | None => HForeign
              end
            else if gfreed gr then
              (* nodes of a freed group are destroyed unless a traversal still pins the group
                 (that situation is excluded: destroy/assign over a list being invoked) *)
              if pinned_group st g then HForeign else HExpired
            else HForeign
        end
    end.

  (* the removed-marker test added by the repair; the legacy code has none *)
  Definition usable (chk : bool) (nd : node) : bool :=
    if chk then negb (ctr nd =? GenCL.removed_marker)%N else true.

  Definition do_append (st : state) (l : lid) (c : cbid) (h : nat) : option state :=
    match alloc_node st l c with
    | None => None
    | Some (st1, g, n) =>
        match with_group st1 g (fun gr => g_link_back gr n) with
        | Some st2 => Some (set_reg st2 h (Some (g, n)))
        | None => None
        end
    end.

  Definition do_prepend (st : state) (l : lid) (c : cbid) (h : nat) : option state :=
    match alloc_node st l c with
    | None => None
    | Some (st1, g, n) =>
        match with_group st1 g (fun gr => g_link_front gr n) with
        | Some st2 => Some (set_reg st2 h (Some (g, n)))
        | None => None
        end
    end.

  Definition do_insert (st : state) (l : lid) (c : cbid) (hb h : nat) : option state :=
    match get_list st l with
    | None => None
    | Some o =>
        match classify st o (get_reg st hb) with
        | HForeign => None
        | HLocal b bn =>
            match alloc_node st l c with
            | None => None
            | Some (st1, g, n) =>
                (* re-read the before node: the wrap branch may have rewritten its counter *)
                match get_group st1 g with
                | None => None
                | Some gr1 =>
                    match nth_error (heap gr1) b with
                    | None => None
                    | Some bn1 =>
                        let f := if usable chk_insert bn1 then (fun gr => g_link_before gr n b)
                                 else (fun gr => g_link_back gr n) in
                        match with_group st1 g f with
                        | Some st2 => Some (set_reg st2 h (Some (g, n)))
                        | None => None
                        end
                    end
                end
            end
        | _ => do_append st l c h
        end
    end.

  Definition do_remove_handle (st : state) (l : lid) (hv : handle) : option (state * bool) :=
    match get_list st l with
    | None => None
    | Some o =>
        match classify st o hv with
        | HForeign => None
        | HLocal x xn =>
            if usable chk_remove xn then
              match with_group st (lg o) (fun gr => g_unlink gr x) with
              | Some st1 => Some (st1, true)
              | None => None
              end
            else Some (st, false)
        | _ => Some (st, false)
        end
    end.

  (* ownsHandle: walk previous links up to the first node, compare with head *)
  Fixpoint walk_prev (k : nat) (h : list node) (n : nid) : option nid :=
    match k with
    | 0 => None
    | S k' =>
        match nth_error h n with
        | None => None
        | Some nd => match prv nd with Some p => walk_prev k' h p | None => Some n end
        end
    end.

  Definition do_owns (st : state) (l : lid) (hv : handle) : option bool :=
    match get_list st l with
    | None => None
    | Some o =>
        match classify st o hv with
        | HForeign => None
        | HLocal x xn =>
            if usable chk_owns xn then
              match get_group st (lg o) with
              | None => None
              | Some gr =>
                  match walk_prev (S (length (heap gr))) (heap gr) x with
                  | Some top => Some (oeqb (Some top) (ghead gr))
                  | None => None
                  end
              end
            else Some false
        | _ => Some false
        end
    end.

  Definition do_empty (st : state) (l : lid) : option bool :=
    match get_list st l with
    | None => None
    | Some o =>
        match get_group st (lg o) with
        | Some gr => Some (match ghead gr with Some _ => false | None => true end)
        | None => None
        end
    end.

  Section WithRec.
    Variable rec : state -> list cmd -> option state.    (* runs a callback body *)

    (* what forEachIf's functor does on one visited node; returns the new state,
       the new accumulator, and whether the traversal continues *)
    Definition visit (m : vmode) (st : state) (l : lid) (g : gid) (n : nid) (nd : node) (acc : nat)
      : option (state * nat * bool) :=
      match m with
      | VInvoke a =>
          let st1 := bump_act (log st (ECall (cb nd) a)) (cb nd) in
          match rec st1 (behav (cb nd) (get_act st1 (cb nd))) with
          | Some st2 => Some (st2, acc, true)
          | None => None
          end
      | VEach => Some (log st (EVisit (cb nd)), acc, true)
      | VEachIf k => Some (log st (EVisit (cb nd)), S acc, Nat.ltb (S acc) k)
      | VHas c => if Nat.eqb (cb nd) c then Some (st, 1, false) else Some (st, acc, true)
      | VAny => Some (st, 1, false)
      | VRemoveL c =>
          if Nat.eqb (cb nd) c then
            match do_remove_handle st l (Some (g, n)) with
            | Some (st1, _) => Some (st1, 1, false)
            | None => None
            end
          else Some (st, acc, true)
      end.

    (* the loop of doForEachIf, standing on [c]; returns (state, acc, completed) *)
    Fixpoint trav (k : nat) (m : vmode) (st : state) (l : lid) (g : gid) (c : option nid) (capt : N) (acc : nat)
      : option (state * nat * bool) :=
      match c with
      | None => Some (st, acc, true)
      | Some n =>
          match k with
          | 0 => None
          | S k' =>
              match get_group st g with
              | None => None
              | Some gr =>
                  match nth_error (heap gr) n with
                  | None => None
                  | Some nd =>
                      if GenCL.visit_cond (ctr nd) capt then
                        let saved := pins st in
                        match visit m (set_pins st ((g, n) :: saved)) l g n nd acc with
                        | None => None
                        | Some (st1, acc1, cont) =>
                            let st2 := set_pins st1 saved in
                            if cont then
                              (* node = node->next, read after the callback returned *)
                              match get_group st2 g with
                              | None => None
                              | Some gr2 =>
                                  match nth_error (heap gr2) n with
                                  | None => None
                                  | Some nd2 => trav k' m st2 l g (nxt nd2) capt acc1
                                  end
                              end
                            else Some (st2, acc1, false)
                        end
                      else trav k' m st l g (nxt nd) capt acc
                  end
              end
          end
      end.

    Definition traverse (k : nat) (m : vmode) (st : state) (l : lid) : option (state * nat * bool) :=
      match get_list st l with
      | None => None
      | Some o =>
          match get_group st (lg o) with
          | None => None
          | Some gr => trav k m st l (lg o) (ghead gr) (lcur o) 0
          end
      end.

    (* CallbackListBase(): fresh empty group, counter 0 *)
    Definition new_list (st : state) (l : lid) : option state :=
      match nth_error (lists st) l with
      | Some None =>
          let g := length (groups st) in
          Some (put_list (set_groups st (groups st ++ [empty_group])) l (Some (mkLobj g 0%N)))
      | _ => None
      end.

    (* cloneFrom(other.head): one counter, then one node per linked node of the source *)
    Fixpoint clone_chain (k : nat) (src : list node) (c : option nid) (dst : group) (ctrv : N) : group :=
      match k, c with
      | S k', Some n =>
          match nth_error src n with
          | Some nd =>
              let (d1, m) := g_alloc dst (cb nd) ctrv in
              clone_chain k' src (nxt nd) (g_link_back d1 m) ctrv
          | None => dst
          end
      | _, _ => dst
      end.

    Definition clone_into (st : state) (src dst : lid) : option state :=
      match get_list st src with
      | None => None
      | Some so =>
          match get_group st (lg so) with
          | None => None
          | Some sgr =>
              match next_counter st dst with
              | None => None
              | Some (st1, k) =>
                  match get_list st1 dst with
                  | None => None
                  | Some d =>
                      match get_group st1 (lg d) with
                      | None => None
                      | Some dgr =>
                          Some (put_group st1 (lg d) (clone_chain (length (heap sgr)) (heap sgr) (ghead sgr) dgr k))
                      end
                  end
              end
          end
      end.

    Definition swap_lists (st : state) (a b : lid) : option state :=
      match get_list st a, get_list st b with
      | Some oa, Some ob => Some (put_list (put_list st a (Some ob)) b (Some oa))
      | _, _ => None
      end.

    (* ~CallbackListBase on slot l *)
    Definition destroy_list (st : state) (l : lid) : option state :=
      match get_list st l with
      | None => None
      | Some o =>
          if pinned_group st (lg o) then None      (* destroying a list that is being invoked: excluded *)
          else match with_group st (lg o) g_free_all with
               | Some st1 => Some (put_list st1 l None)
               | None => None
               end
      end.

    (* a scratch slot index for the temporary of copy assignment: one past the end *)
    Definition step (k : nat) (st : state) (c : cmd) : option state :=
      match c with
      | Append l c h => do_append st l c h
      | Prepend l c h => do_prepend st l c h
      | Insert l c hb h => do_insert st l c hb h
      | Remove l h =>
          match do_remove_handle st l (get_reg st h) with
          | Some (st1, b) => Some (log st1 (ERet b))
          | None => None
          end
      | Owns l h =>
          match do_owns st l (get_reg st h) with Some b => Some (log st (ERet b)) | None => None end
      | Empty l =>
          match do_empty st l with Some b => Some (log st (ERet b)) | None => None end
      | Invoke l a =>
          match traverse k (VInvoke a) st l with Some (st1, _, _) => Some st1 | None => None end
      | ForEach l =>
          match traverse k VEach st l with Some (st1, _, _) => Some st1 | None => None end
      | ForEachIf l n =>
          match traverse k (VEachIf n) st l with Some (st1, _, b) => Some (log st1 (ERet b)) | None => None end
      | HasL l c =>
          match traverse k (VHas c) st l with Some (st1, a, _) => Some (log st1 (ERet (Nat.eqb a 1))) | None => None end
      | HasAny l =>
          match traverse k VAny st l with Some (st1, a, _) => Some (log st1 (ERet (Nat.eqb a 1))) | None => None end
      | RemoveL l c =>
          match traverse k (VRemoveL c) st l with Some (st1, a, _) => Some (log st1 (ERet (Nat.eqb a 1))) | None => None end
      | New l => new_list st l
      | CopyCtor src dst =>
          match get_list st src with
          | None => None
          | Some _ => match new_list st dst with Some st1 => clone_into st1 src dst | None => None end
          end
      | CopyAssign src dst =>
          if Nat.eqb src dst then (match get_list st src with Some _ => Some st | None => None end)
          else
            let tmp := length (lists st) in
            let st0 := set_lists st (lists st ++ [None]) in
            match get_list st0 src, get_list st0 dst with
            | Some _, Some _ =>
                match new_list st0 tmp with
                | None => None
                | Some st1 =>
                    match clone_into st1 src tmp with
                    | None => None
                    | Some st2 =>
                        match swap_lists st2 dst tmp with
                        | None => None
                        | Some st3 =>
                            match destroy_list st3 tmp with
                            | Some st4 => Some (set_lists st4 (firstn tmp (lists st4)))
                            | None => None
                            end
                        end
                    end
                end
            | _, _ => None
            end
      | MoveCtor src dst =>
          match get_list st src with
          | None => None
          | Some _ => match new_list st dst with Some st1 => swap_lists st1 dst src | None => None end
          end
      | MoveAssign src dst =>
          if Nat.eqb src dst then (match get_list st src with Some _ => Some st | None => None end)
          else
            match get_list st src, get_list st dst with
            | Some so, Some d =>
                if pinned_group st (lg d) then None
                else match with_group st (lg d) g_free_all with
                     | None => None
                     | Some st1 =>
                         (* head/tail moved out of src: src is left with an empty chain, its counter unchanged *)
                         let g := length (groups st1) in
                         let st2 := set_groups st1 (groups st1 ++ [empty_group]) in
                         Some (put_list (put_list st2 dst (Some (mkLobj (lg so) (lcur so)))) src (Some (mkLobj g (lcur so))))
                     end
            | _, _ => None
            end
      | Swap a b => swap_lists st a b
      | Destroy l => destroy_list st l
      | SetCur l kk =>
          match get_list st l with
          | Some o => Some (put_list st l (Some (mkLobj (lg o) (N.max (lcur o) (W - 1 - kk))%N)))
          | None => None
          end
      | Ledger ncb => Some (log st (ELedger (ledger st ncb)))
      end.

    Fixpoint seqx (k : nat) (st : state) (cs : list cmd) : option state :=
      match cs with
      | [] => Some st
      | c :: r => match step k st c with Some st1 => seqx k st1 r | None => None end
      end.
  End WithRec.

  Fixpoint run (fuel : nat) : state -> list cmd -> option state :=
    match fuel with
    | 0 => fun _ _ => None
    | S f => seqx (run f) (S f)
    end.

  (* nl list slots, all default-constructed *)
  Fixpoint init_lists (nl : nat) (st : state) : state :=
    match nl with
    | 0 => st
    | S k =>
        let st1 := init_lists k st in
        let g := length (groups st1) in
        mkState (groups st1 ++ [empty_group]) (lists st1 ++ [Some (mkLobj g 0%N)]) [] [] [] false []
    end.

  Definition init (nl : nat) : state := init_lists nl (mkState [] [] [] [] [] false []).

  Definition run_case (fuel nl : nat) (main : list cmd) : option (list ev) :=
    match run fuel (init nl) main with
    | Some st => Some (rev (trace st))
    | None => None
    end.
End Interp.
