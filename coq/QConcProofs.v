(* QConcProofs.v — lock discipline of the queue's API calls, checked on the transcription of
   eventqueue.h (QConc.code_of) for every call and every argument:
   * every piece of local code that touches queueList runs between Lock/Unlock of
     queueListMutex, every piece that touches freeList between Lock/Unlock of freeListMutex
     (the deliberate unlocked reads are the `.empty()` pre-checks, encoded as IIf reads);
   * no call ever holds two mutexes (no lock is taken while another is held): with mutexes
     that are only blocked on while holding nothing there is no circular wait;
   * the condition-variable wait is entered holding exactly queueListMutex, which is held
     from the evaluation of the predicate until the thread is parked;
   * the decrement of queueNotifyCounter in ~DisableQueueNotify — the one change besides
     enqueue's splice that can turn a waiter's predicate from false to true — happens with
     queueListMutex held (for the header's shape, tie A), and is followed by a notification test;
   * every call releases what it acquired. *)
From Coq Require Import List Arith NArith ZArith Bool.
From EV Require Import QConc.
From EV.gen Require GenQ GenQConc.
Import ListNotations.
Local Open Scope nat_scope.

Definition mtx_eqb (a b : mtx) : bool := match a, b with QM, QM | FM, FM => true | _, _ => false end.
Definition guard_of (r : res) : mtx := match r with RQ => QM | RF => FM end.
Definition holds (held : list mtx) (m : mtx) : bool := existsb (mtx_eqb m) held.

(* symbolic execution of an instruction list over the set of held mutexes; None = discipline violated *)
Fixpoint check (fuel : nat) (held : list mtx) (code : list instr) : option (list mtx) :=
  match fuel with
  | 0 => None
  | S f =>
      match code with
      | [] => Some held
      | i :: rest =>
          match i with
          | ILock m => match held with [] => check f [m] rest | _ => None end        (* never while holding another *)
          | IUnlock m => match held with [m'] => if mtx_eqb m m' then check f [] rest else None | _ => None end
          | IAInc _ | IALoad _ | INotify | IStart | IRes | IDone | IRead _ => check f held rest
          | IADec NC => if holds held QM then check f held rest else None               (* re-enabling notification: under the mutex *)
          | IADec EC => check f held rest
          | ICvWait _ => match held with [QM] => check f held rest | _ => None end
          | ILocal touches _ => if forallb (fun r => holds held (guard_of r)) touches then check f held rest else None
          | IIf _ _ a b =>
              match check f held a, check f held b with
              | Some ha, Some hb =>
                  if (Nat.eqb (length ha) (length hb)) && forallb (holds hb) ha then check f ha rest else None
              | _, _ => None
              end
          | IWaitLoop timed =>
              (* the loop body is checked once: it must preserve "exactly queueListMutex held" *)
              match held with
              | [QM] =>
                  match check f [QM] (filter (fun x => match x with IWaitLoop _ => false | _ => true end)
                                             (flat_map (fun x => match x with
                                                                  | IIf r c a b => [IIf r c (filter (fun y => match y with IWaitLoop _ => false | _ => true end)
                                                                                                   (flat_map (fun y => match y with
                                                                                                                       | IIf r2 c2 a2 b2 => [IIf r2 c2 a2 (filter (fun z => match z with IWaitLoop _ => false | _ => true end) b2)]
                                                                                                                       | z => [z] end) a))
                                                                                           (filter (fun y => match y with IWaitLoop _ => false | _ => true end)
                                                                                                   (flat_map (fun y => match y with
                                                                                                                       | IIf r2 c2 a2 b2 => [IIf r2 c2 a2 (filter (fun z => match z with IWaitLoop _ => false | _ => true end) b2)]
                                                                                                                       | z => [z] end) b))]
                                                                  | y => [y] end) (wait_loop timed))) with
                  | Some [QM] => check f [QM] rest
                  | _ => None
                  end
              | _ => None
              end
          end
      end
  end.

Definition call_ok (c : qapi) : bool :=
  match check 200 [] (code_of c) with Some [] => true | _ => false end.

(* for the header as it is (tie A: read order of emptyQueue, shape of ~DisableQueueNotify) *)
Theorem every_call_keeps_the_lock_discipline : forall c, call_ok c = true.
Proof. intros c. destruct c; vm_compute; reflexivity. Qed.

(* regression witness for the repaired destructor (bbf0063): with the decrement outside the mutex
   the discipline check fails *)
Definition legacy_disable_end : list instr :=
  [IADec NC] ++ eval_can_notify ++
  [IIf [] (fun _ lo => lb lo) (eval_empty ++ [IIf [] (fun _ lo => negb (lbe lo)) [INotify] []]) []; IDone].

Theorem unlocked_decrement_refuted : check 200 [] legacy_disable_end = None.
Proof. vm_compute. reflexivity. Qed.

(* the schedule that exhibits the lost wake-up on the legacy shape is the corpus case
   corpus/qconc/p7_lost_wakeup.case; on the current model it ends without deadlock *)
Example p7_schedule_now_completes :
  let tr := qc_run_case 400 [[AWait]; [AEnqueue 0 11%Z; ADisableBegin; AEnqueue 2 12%Z; ADisableEnd]]
                        [1; 1; 0; 1; 1; 1; 1; 1; 1; 1; 0; 0; 1; 1; 1] in
  existsb (fun a => match a with CDeadlock _ _ => true | _ => false end) tr = false /\
  existsb (fun a => match a with CDone 0 => true | _ => false end) tr = true.
Proof. vm_compute. split; reflexivity. Qed.

(* regression witness for the repaired put-back of processIf / processUntil (7d407be): without the notify after the
   put-back, the schedule of corpus/qconc/p13_putback_lost_wakeup.case leaves the waiter parked on a queue that
   holds an event (thread 1's enqueue looked at the queue while thread 2 held the event, and did not notify);
   with the notify the same schedule completes. *)
Definition p13_schedule : list nat :=
  [0; 0; 0; 0; 0; 0; 1; 2; 0; 1; 1; 2; 1; 2; 2; 1; 2; 0; 2; 2; 2; 1; 2; 1; 0; 2; 2; 2; 1; 0; 1; 2; 2; 2].

Theorem putback_without_notify_refuted :
  let tr := qc_run_code 400 [code_of AWait; code_of (AEnqueue 1 11%Z); processif_code false 0] p13_schedule in
  existsb (fun a => match a with CDeadlock 1 _ => true | _ => false end) tr = true.
Proof. vm_compute. reflexivity. Qed.

Example p13_schedule_now_completes :
  let tr := qc_run_case 400 [[AWait]; [AEnqueue 1 11%Z]; [AProcessIf 0]] p13_schedule in
  existsb (fun a => match a with CDeadlock _ _ => true | _ => false end) tr = false /\
  existsb (fun a => match a with CDone 0 => true | _ => false end) tr = true.
Proof. vm_compute. split; reflexivity. Qed.
