(* CLOps.v — the four critical sections of callbacklist.h preserve the group invariant,
   produce the expected content, and move every first_live target as expected. *)
From Coq Require Import List Arith NArith ZArith Bool Lia.
From EV Require Import CLModel CLHeap.
From EV.gen Require GenCL.
Import ListNotations.
Local Open Scope nat_scope.

Lemma removed_marker_not_live nd : ~ live (set_ctr GenCL.removed_marker nd).
Proof. unfold live; simpl. intro H; apply H; reflexivity. Qed.

Lemma oeqb_true a b : oeqb a b = true <-> a = b.
Proof.
  destruct a, b; simpl; split; intro H; try discriminate; try reflexivity.
  - apply Nat.eqb_eq in H; subst; reflexivity.
  - inversion H; apply Nat.eqb_refl.
Qed.

Lemma oeqb_false a b : oeqb a b = false <-> a <> b.
Proof.
  split; intro H.
  - intro E. apply oeqb_true in E. congruence.
  - destruct (oeqb a b) eqn:E; [apply oeqb_true in E; contradiction|reflexivity].
Qed.

(* ====================================================================== *)
(* doFreeNode                                                             *)

Definition unlink_heap (h : list node) (x : nid) (pv nx : option nid) : list node :=
  upd (upd_o (upd_o h nx (set_prv pv)) pv (set_nxt nx)) x (set_ctr GenCL.removed_marker).

Lemma unlink_heap_other h x pv nx m :
  m <> x -> Some m <> pv -> Some m <> nx -> nth_error (unlink_heap h x pv nx) m = nth_error h m.
Proof.
  intros H1 H2 H3. unfold unlink_heap.
  rewrite nth_error_upd. destruct (Nat.eqb_spec m x); [contradiction|].
  rewrite nth_error_upd_o. destruct pv as [p|].
  - destruct (Nat.eqb_spec m p); [subst; contradiction|].
    rewrite nth_error_upd_o. destruct nx as [s|]; [|reflexivity].
    destruct (Nat.eqb_spec m s); [subst; contradiction|reflexivity].
  - rewrite nth_error_upd_o. destruct nx as [s|]; [|reflexivity].
    destruct (Nat.eqb_spec m s); [subst; contradiction|reflexivity].
Qed.

Lemma unlink_heap_x h x pv nx xn :
  nth_error h x = Some xn -> Some x <> pv -> Some x <> nx ->
  nth_error (unlink_heap h x pv nx) x = Some (set_ctr GenCL.removed_marker xn).
Proof.
  intros Hx H2 H3. unfold unlink_heap. rewrite nth_error_upd, Nat.eqb_refl.
  rewrite nth_error_upd_o. destruct pv as [p|].
  - destruct (Nat.eqb_spec x p); [subst; contradiction|].
    rewrite nth_error_upd_o. destruct nx as [s|]; [|rewrite Hx; reflexivity].
    destruct (Nat.eqb_spec x s); [subst; contradiction|rewrite Hx; reflexivity].
  - rewrite nth_error_upd_o. destruct nx as [s|]; [|rewrite Hx; reflexivity].
    destruct (Nat.eqb_spec x s); [subst; contradiction|rewrite Hx; reflexivity].
Qed.

Lemma unlink_heap_p h x p nx pn :
  nth_error h p = Some pn -> p <> x -> Some p <> nx ->
  nth_error (unlink_heap h x (Some p) nx) p = Some (set_nxt nx pn).
Proof.
  intros Hp H1 H3. unfold unlink_heap. rewrite nth_error_upd. destruct (Nat.eqb_spec p x); [contradiction|].
  simpl. rewrite nth_error_upd, Nat.eqb_refl.
  rewrite nth_error_upd_o. destruct nx as [s|]; [|rewrite Hp; reflexivity].
  destruct (Nat.eqb_spec p s); [subst; contradiction|rewrite Hp; reflexivity].
Qed.

Lemma unlink_heap_s h x pv s sn :
  nth_error h s = Some sn -> s <> x -> Some s <> pv ->
  nth_error (unlink_heap h x pv (Some s)) s = Some (set_prv pv sn).
Proof.
  intros Hs H1 H2. unfold unlink_heap. rewrite nth_error_upd. destruct (Nat.eqb_spec s x); [contradiction|].
  rewrite nth_error_upd_o. destruct pv as [p|].
  - destruct (Nat.eqb_spec s p); [subst; contradiction|]. simpl. rewrite nth_error_upd, Nat.eqb_refl, Hs. reflexivity.
  - simpl. rewrite nth_error_upd, Nat.eqb_refl, Hs. reflexivity.
Qed.

Lemma unlink_heap_length h x pv nx : length (unlink_heap h x pv nx) = length h.
Proof. unfold unlink_heap. rewrite length_upd, !length_upd_o. reflexivity. Qed.

(* every node keeps its callback; only x changes its counter; liveness changes only at x *)
Lemma unlink_heap_node h x pv nx m nd :
  nth_error h m = Some nd ->
  exists nd', nth_error (unlink_heap h x pv nx) m = Some nd' /\ cb nd' = cb nd /\
              (m <> x -> ctr nd' = ctr nd) /\ (m = x -> ctr nd' = GenCL.removed_marker) /\
              (Some m <> pv -> nxt nd' = nxt nd).
Proof.
  intros Hm. unfold unlink_heap.
  rewrite nth_error_upd, nth_error_upd_o.
  assert (E : exists n1, (match pv with
                | Some i => if Nat.eqb m i then option_map (set_nxt nx) (nth_error (upd_o h nx (set_prv pv)) m) else nth_error (upd_o h nx (set_prv pv)) m
                | None => nth_error (upd_o h nx (set_prv pv)) m end) = Some n1 /\ cb n1 = cb nd /\ ctr n1 = ctr nd /\ (Some m <> pv -> nxt n1 = nxt nd)).
  { assert (E0 : exists n0, nth_error (upd_o h nx (set_prv pv)) m = Some n0 /\ cb n0 = cb nd /\ ctr n0 = ctr nd /\ nxt n0 = nxt nd).
    { rewrite nth_error_upd_o. destruct nx as [s|]; [|eauto].
      destruct (Nat.eqb m s); [rewrite Hm; simpl; eauto|eauto]. }
    destruct E0 as [n0 [A [B [C D]]]].
    destruct pv as [p|]; [|exists n0; auto].
    destruct (Nat.eqb_spec m p) as [->|Hne].
    - rewrite A. simpl. exists (set_nxt nx n0). simpl. repeat split; auto. intro X; exfalso; apply X; reflexivity.
    - exists n0. auto. }
  destruct E as [n1 [A [B [C D]]]]. rewrite A.
  destruct (Nat.eqb_spec m x) as [->|Hne]; simpl.
  - exists (set_ctr GenCL.removed_marker n1). simpl. repeat split; auto. intro X; exfalso; apply X; reflexivity.
  - exists n1. repeat split; auto. intro X; contradiction.
Qed.

Lemma lchain_unlink h x b : forall a q,
  lchain h q (a ++ x :: b) -> NoDup (olist q ++ a ++ x :: b) ->
  lchain (unlink_heap h x (match last_opt a with Some y => Some y | None => q end) (hd_error b)) q (a ++ b).
Proof.
  induction a as [|y a IH]; intros q H Hnd.
  - (* x is first: its successor takes q as previous *)
    simpl in *. destruct H as [xn [Hx [Hxl [Hxp [Hxn Hr]]]]].
    destruct b as [|s b']; [exact I|].
    simpl in Hr. destruct Hr as [sn [Hs [Hsl [Hsp [Hsn Hr']]]]].
    assert (Hsx : s <> x).
    { intro E; subst. apply NoDup_remove_2 in Hnd. apply Hnd. apply in_or_app; right; left; reflexivity. }
    assert (Hsq : Some s <> q).
    { intro E; rewrite <- E in Hnd. simpl in Hnd. apply NoDup_cons_iff in Hnd as [Hni _]. apply Hni. right; left; reflexivity. }
    unfold last_opt; simpl. exists (set_prv q sn). rewrite (unlink_heap_s _ _ _ _ _ Hs Hsx Hsq). simpl.
    repeat split; auto.
    apply (lchain_frame h); [exact Hr'|].
    intros z Hz. apply unlink_heap_other.
    + intro E; subst. apply NoDup_remove_2 in Hnd. apply Hnd. apply in_or_app; right; right; exact Hz.
    + intro E; rewrite <- E in Hnd. simpl in Hnd. apply NoDup_cons_iff in Hnd as [Hni _]. apply Hni. right; right; exact Hz.
    + simpl. intro E; inversion E; subst.
      apply nodup_app_r in Hnd.
      apply NoDup_cons_iff in Hnd as [_ Hnd]. apply NoDup_cons_iff in Hnd as [Hni _]. contradiction.
  - simpl app in *. simpl in H. destruct H as [yn [Hy [Hyl [Hyp [Hyn Hr]]]]].
    assert (Hnd' : NoDup (olist (Some y) ++ a ++ x :: b)).
    { simpl. apply nodup_app_r in Hnd. exact Hnd. }
    assert (Hyx : y <> x).
    { intro E; subst. simpl in Hnd'. apply NoDup_cons_iff in Hnd' as [Hni _]. apply Hni. apply in_or_app; right; left; reflexivity. }
    assert (Hyb : Some y <> hd_error b).
    { destruct b as [|s b']; simpl; [discriminate|]. intro E; inversion E; subst.
      simpl in Hnd'. apply NoDup_cons_iff in Hnd' as [Hni _]. apply Hni. apply in_or_app; right; right; left; reflexivity. }
    specialize (IH (Some y) Hr Hnd').
    destruct a as [|z a'].
    + (* y is the predecessor of x *)
      simpl in *. unfold last_opt; simpl.
      exists (set_nxt (hd_error b) yn). rewrite (unlink_heap_p _ _ _ _ _ Hy Hyx Hyb). simpl.
      repeat split; auto.
    + rewrite last_opt_cons.
      assert (Hl : exists w, last_opt (z :: a') = Some w /\ In w (z :: a')).
      { destruct (last_opt (z :: a')) eqn:E.
        - exists n; split; [reflexivity|apply last_opt_in; exact E].
        - exfalso. unfold last_opt in E. simpl in E. destruct (rev a' ++ [z]) eqn:E2; [destruct (rev a'); discriminate|discriminate]. }
      destruct Hl as [w [Hw Hwin]]. rewrite Hw in *.
      assert (Hyw : Some y <> Some w).
      { intro E. assert (E' : y = w) by (inversion E; reflexivity). clear E. subst w.
        simpl in Hnd'. apply NoDup_cons_iff in Hnd' as [Hni _]. apply Hni.
        change (In y ((z :: a') ++ x :: b)). apply in_or_app; left; exact Hwin. }
      simpl. exists yn. rewrite unlink_heap_other; auto.
Qed.

Lemma first_live_unlink h x pv nx xn :
  nth_error h x = Some xn -> live xn -> nxt xn = nx -> Some x <> pv -> Some x <> nx ->
  (forall p pn, pv = Some p -> nth_error h p = Some pn -> live pn) ->
  (forall s, nx = Some s -> exists sn, nth_error h s = Some sn /\ live sn) ->
  forall c m, first_live h c m ->
  first_live (unlink_heap h x pv nx) c (if oeqb m (Some x) then nx else m).
Proof.
  intros Hx Hxl Hxn Hxp Hxs Hpl Hsl c m H.
  induction H as [|n nd Hn Hl|n nd m Hn Hl Hw IH].
  - simpl. constructor.
  - destruct (Nat.eq_dec n x) as [->|Hne].
    + simpl. rewrite Nat.eqb_refl.
      eapply fl_dead; [apply (unlink_heap_x _ _ _ _ _ Hx Hxp Hxs)|apply removed_marker_not_live|].
      simpl. rewrite Hxn. destruct nx as [s|]; [|constructor].
      destruct (Hsl s eq_refl) as [sn [Hs Hsl']].
      destruct (unlink_heap_node h x pv (Some s) s sn Hs) as [sn' [A [B [C [D E]]]]].
      eapply fl_live; [exact A|]. unfold live. rewrite C; [exact Hsl'|]. intro X; subst; apply Hxs; reflexivity.
    + assert (E : oeqb (Some n) (Some x) = false) by (apply oeqb_false; intro X; inversion X; contradiction).
      rewrite E.
      destruct (unlink_heap_node h x pv nx n nd Hn) as [nd' [A [B [C [D F]]]]].
      eapply fl_live; [exact A|]. unfold live. rewrite C by exact Hne. exact Hl.
  - (* a removed node: neither x nor pv (both live); its next link is unchanged *)
    assert (Hnx : n <> x). { intro E; subst. rewrite Hx in Hn; inversion Hn; subst; contradiction. }
    assert (Hnp : Some n <> pv).
    { intro E. symmetry in E. specialize (Hpl n nd E Hn). contradiction. }
    destruct (unlink_heap_node h x pv nx n nd Hn) as [nd' [A [B [C [D F]]]]].
    eapply fl_dead; [exact A| |rewrite (F Hnp); exact IH].
    unfold live. rewrite C by exact Hnx. exact Hl.
Qed.

Lemma unlink_inv g a x b :
  GInv g (a ++ x :: b) ->
  GInv (g_unlink g x) (a ++ b) /\
  (forall c m, first_live (heap g) c m ->
               first_live (heap (g_unlink g x)) c (if oeqb m (Some x) then hd_error b else m)) /\
  (forall n nd, nth_error (heap g) n = Some nd ->
     exists nd', nth_error (heap (g_unlink g x)) n = Some nd' /\ cb nd' = cb nd /\ (n <> x -> ctr nd' = ctr nd)
                 /\ (n = x -> ctr nd' = GenCL.removed_marker)) /\
  length (heap (g_unlink g x)) = length (heap g) /\ gfreed (g_unlink g x) = gfreed g.
Proof.
  intros G.
  destruct (ginv_member _ _ G a x b eq_refl) as [xn [Hx [Hxl [Hxn Hxp]]]].
  assert (Hnd := gi_nodup _ _ G).
  destruct (nodup_split_notin _ _ _ Hnd) as [Hxa Hxb].
  assert (Hxpv : Some x <> last_opt a).
  { intro E. symmetry in E. apply last_opt_in in E. contradiction. }
  assert (Hxnx : Some x <> hd_error b).
  { destruct b; simpl; [discriminate|]. intro E; inversion E; subst. apply Hxb; left; reflexivity. }
  assert (Hheap : heap (g_unlink g x) = unlink_heap (heap g) x (last_opt a) (hd_error b)).
  { unfold g_unlink. rewrite Hx. simpl. rewrite Hxn, Hxp. reflexivity. }
  assert (Hpl : forall p pn, last_opt a = Some p -> nth_error (heap g) p = Some pn -> live pn).
  { intros p pn E Hp. apply last_opt_in in E.
    destruct (lchain_in _ _ _ (gi_chain _ _ G) p) as [pn' [Hp' Hl]]; [apply in_or_app; left; exact E|].
    rewrite Hp in Hp'; inversion Hp'; subst; exact Hl. }
  assert (Hsl : forall s, hd_error b = Some s -> exists sn, nth_error (heap g) s = Some sn /\ live sn).
  { intros s E. apply (lchain_in _ _ _ (gi_chain _ _ G)). apply in_or_app; right; right.
    destruct b; simpl in E; [discriminate|inversion E; left; reflexivity]. }
  assert (FL : forall c m, first_live (heap g) c m ->
               first_live (heap (g_unlink g x)) c (if oeqb m (Some x) then hd_error b else m)).
  { rewrite Hheap. intros c m H. eapply first_live_unlink; eauto. }
  split; [|split; [exact FL|split; [|split]]].
  - constructor.
    + rewrite Hheap.
      replace (last_opt a) with (match last_opt a with Some y => Some y | None => None end) by (destruct (last_opt a); reflexivity).
      apply lchain_unlink; [apply (gi_chain _ _ G)|exact Hnd].
    + unfold g_unlink. rewrite Hx. simpl. rewrite (gi_head _ _ G).
      destruct a as [|y a']; simpl.
      * rewrite Nat.eqb_refl. exact Hxn.
      * destruct (Nat.eqb_spec y x) as [->|Hne]; [exfalso; apply Hxa; left; reflexivity|reflexivity].
    + unfold g_unlink. rewrite Hx. simpl. rewrite (gi_tail _ _ G).
      destruct b as [|s b'].
      * rewrite last_opt_app. simpl. rewrite Nat.eqb_refl. rewrite app_nil_r. exact Hxp.
      * rewrite (last_opt_app2 a (x :: s :: b')) by discriminate.
        rewrite last_opt_cons. rewrite (last_opt_app2 a (s :: b')) by discriminate.
        destruct (last_opt (s :: b')) as [z|] eqn:E; simpl; [|reflexivity].
        destruct (Nat.eqb_spec z x) as [->|Hne]; [|reflexivity].
        exfalso. apply last_opt_in in E. contradiction.
    + apply NoDup_remove_1 in Hnd. exact Hnd.
    + (* removed nodes of the new heap: the old ones, and x *)
      intros n nd' Hn Hd.
      destruct (Nat.eq_dec n x) as [->|Hne].
      * rewrite Hheap in Hn. rewrite (unlink_heap_x _ _ _ _ _ Hx Hxpv Hxnx) in Hn. inversion Hn; subst nd'. simpl.
        rewrite Hxn. exists (hd_error b). split.
        -- destruct b as [|s b']; simpl; [constructor|].
           destruct (Hsl s eq_refl) as [sn [Hs Hsl']].
           destruct (unlink_heap_node (heap g) x (last_opt a) (Some s) s sn Hs) as [sn' [A [B [C [D E]]]]].
           rewrite Hheap. eapply fl_live; [exact A|]. unfold live. rewrite C; [exact Hsl'|].
           intro X; subst. apply Hxb; left; reflexivity.
        -- intros z E. apply in_or_app; right. destruct b; simpl in E; [discriminate|inversion E; left; reflexivity].
      * assert (Hlen : n < length (heap g)).
        { rewrite <- (unlink_heap_length (heap g) x (last_opt a) (hd_error b)), <- Hheap. apply nth_error_Some. rewrite Hn; discriminate. }
        destruct (nth_error (heap g) n) as [nd|] eqn:Hn0; [|apply nth_error_None in Hn0; lia].
        destruct (unlink_heap_node (heap g) x (last_opt a) (hd_error b) n nd Hn0) as [nd2 [A [B [C [D E]]]]].
        rewrite <- Hheap in A. rewrite Hn in A; inversion A; subst nd2.
        assert (Hd0 : ~ live nd). { unfold live in *. rewrite <- (C Hne). exact Hd. }
        assert (Hnp : Some n <> last_opt a).
        { intro X. symmetry in X. apply (Hpl n nd X) in Hn0. contradiction. }
        rewrite (E Hnp).
        destruct (gi_dead _ _ G n nd Hn0 Hd0) as [m [F1 F2]].
        exists (if oeqb m (Some x) then hd_error b else m). split; [apply FL; exact F1|].
        intros z Ez. destruct (oeqb m (Some x)) eqn:Eo.
        -- apply in_or_app; right. destruct b; simpl in Ez; [discriminate|inversion Ez; left; reflexivity].
        -- specialize (F2 z Ez). apply in_app_or in F2. destruct F2 as [F2|[F2|F2]].
           ++ apply in_or_app; left; exact F2.
           ++ subst. apply oeqb_false in Eo. exfalso; apply Eo; reflexivity.
           ++ apply in_or_app; right; exact F2.
    + intros n nd' Hn Hl.
      assert (Hlen : n < length (heap g)).
      { rewrite <- (unlink_heap_length (heap g) x (last_opt a) (hd_error b)), <- Hheap. apply nth_error_Some. rewrite Hn; discriminate. }
      destruct (nth_error (heap g) n) as [nd|] eqn:Hn0; [|apply nth_error_None in Hn0; lia].
      destruct (unlink_heap_node (heap g) x (last_opt a) (hd_error b) n nd Hn0) as [nd2 [A [B [C [D E]]]]].
      rewrite <- Hheap in A. rewrite Hn in A; inversion A; subst nd2.
      destruct (Nat.eq_dec n x) as [->|Hne].
      * exfalso. apply Hl. apply D. reflexivity.
      * assert (Hl0 : live nd). { unfold live in *. rewrite <- (C Hne). exact Hl. }
        assert (I := gi_live _ _ G n nd Hn0 Hl0). apply in_app_or in I. destruct I as [I|[I|I]].
        -- apply in_or_app; left; exact I.
        -- subst; contradiction.
        -- apply in_or_app; right; exact I.
  - intros n nd Hn. rewrite Hheap.
    destruct (unlink_heap_node (heap g) x (last_opt a) (hd_error b) n nd Hn) as [nd2 [A [B [C [D E]]]]].
    exists nd2. auto.
  - rewrite Hheap. apply unlink_heap_length.
  - unfold g_unlink. rewrite Hx. reflexivity.
Qed.

(* ====================================================================== *)
(* the three linking sections: what they share                             *)

Definition fresh_node (c : nat) (k : N) := mkNode None None c k.

(* the new heap keeps every old node's callback and counter, and keeps removed nodes intact *)
Definition extends (h h' : list node) : Prop :=
  forall j nd, nth_error h j = Some nd ->
    exists nd', nth_error h' j = Some nd' /\ cb nd' = cb nd /\ ctr nd' = ctr nd /\ (~ live nd -> nd' = nd).

Lemma first_live_extends h h' : extends h h' -> forall c m, first_live h c m -> first_live h' c m.
Proof.
  intros E c m H. induction H as [|n nd Hn Hl|n nd m Hn Hl Hw IH].
  - constructor.
  - destruct (E n nd Hn) as [nd' [A [B [C D]]]]. eapply fl_live; [exact A|]. unfold live in *. rewrite C. exact Hl.
  - destruct (E n nd Hn) as [nd' [A [B [C D]]]]. rewrite (D Hl) in A. eapply fl_dead; eauto.
Qed.

Lemma link_generic g ids h' ids' hd' tl' n nn :
  GInv g ids -> n = length (heap g) -> length h' = S n ->
  extends (heap g) h' -> nth_error h' n = Some nn -> live nn ->
  incl ids ids' -> In n ids' ->
  lchain h' None ids' -> hd' = hd_error ids' -> tl' = last_opt ids' -> NoDup ids' ->
  GInv (mkGroup h' hd' tl' (gfreed g)) ids' /\
  (forall c m, first_live (heap g) c m -> first_live h' c m).
Proof.
  intros G Hn Hlen E Hnn Hnl Hincl Hin Hch Hhd Htl Hnd.
  split; [|apply first_live_extends; exact E].
  constructor; simpl; auto.
  - intros j nd' Hj Hd.
    destruct (Nat.eq_dec j n) as [->|Hne].
    + rewrite Hnn in Hj; inversion Hj; subst; contradiction.
    + assert (Hlt : j < length (heap g)).
      { assert (j < length h') by (apply nth_error_Some; rewrite Hj; discriminate). lia. }
      destruct (nth_error (heap g) j) as [nd|] eqn:Hj0; [|apply nth_error_None in Hj0; lia].
      destruct (E j nd Hj0) as [nd2 [A [B [C D]]]]. rewrite Hj in A; inversion A; subst nd2.
      assert (Hd0 : ~ live nd) by (unfold live in *; rewrite <- C; exact Hd).
      rewrite (D Hd0).
      destruct (gi_dead _ _ G j nd Hj0 Hd0) as [m [F1 F2]].
      exists m. split; [apply (first_live_extends _ _ E); exact F1|].
      intros z Ez. apply Hincl. apply F2; exact Ez.
  - intros j nd' Hj Hl.
    destruct (Nat.eq_dec j n) as [->|Hne]; [exact Hin|].
    assert (Hlt : j < length (heap g)).
    { assert (j < length h') by (apply nth_error_Some; rewrite Hj; discriminate). lia. }
    destruct (nth_error (heap g) j) as [nd|] eqn:Hj0; [|apply nth_error_None in Hj0; lia].
    destruct (E j nd Hj0) as [nd2 [A [B [C D]]]]. rewrite Hj in A; inversion A; subst nd2.
    apply Hincl. eapply gi_live; [exact G|exact Hj0|]. unfold live in *. rewrite <- C. exact Hl.
Qed.

(* ---------- append ---------- *)

Definition back_heap (h : list node) (c : nat) (k : N) (t : nid) : list node :=
  upd (upd (h ++ [fresh_node c k]) (length h) (set_prv (Some t))) t (set_nxt (Some (length h))).

Lemma back_heap_old h c k t j : j <> length h -> j <> t -> nth_error (back_heap h c k t) j = nth_error h j.
Proof.
  intros H1 H2. unfold back_heap. rewrite !nth_error_upd, nth_error_snoc.
  destruct (Nat.eqb_spec j t); [contradiction|]. destruct (Nat.eqb_spec j (length h)); [contradiction|reflexivity].
Qed.

Lemma back_heap_t h c k t tn : nth_error h t = Some tn ->
  nth_error (back_heap h c k t) t = Some (set_nxt (Some (length h)) tn).
Proof.
  intros Ht. assert (t < length h) by (apply nth_error_Some; rewrite Ht; discriminate).
  unfold back_heap. rewrite !nth_error_upd, nth_error_snoc, Nat.eqb_refl.
  destruct (Nat.eqb_spec t (length h)); [lia|]. rewrite Ht. reflexivity.
Qed.

Lemma back_heap_n h c k t : t < length h ->
  nth_error (back_heap h c k t) (length h) = Some (set_prv (Some t) (fresh_node c k)).
Proof.
  intros Ht. unfold back_heap. rewrite !nth_error_upd, nth_error_snoc, Nat.eqb_refl.
  destruct (Nat.eqb_spec (length h) t); [lia|]. reflexivity.
Qed.

Lemma back_heap_extends h c k t tn : nth_error h t = Some tn -> live tn -> extends h (back_heap h c k t).
Proof.
  intros Ht Hl j nd Hj.
  assert (j < length h) by (apply nth_error_Some; rewrite Hj; discriminate).
  destruct (Nat.eq_dec j t) as [->|Hne].
  - rewrite Ht in Hj; inversion Hj; subst nd. rewrite (back_heap_t _ _ _ _ _ Ht).
    exists (set_nxt (Some (length h)) tn). simpl. repeat split; auto. intro X; contradiction.
  - rewrite back_heap_old by lia. exists nd. auto.
Qed.

Lemma lchain_back h c k t : forall ids q,
  lchain h q ids -> last_opt ids = Some t -> NoDup ids -> k <> GenCL.removed_marker ->
  lchain (back_heap h c k t) q (ids ++ [length h]).
Proof.
  induction ids as [|y r IH]; intros q H Hl Hnd Hk.
  - discriminate.
  - simpl in H. destruct H as [yn [Hy [Hyl [Hyp [Hyn Hr]]]]].
    assert (Hyb : y < length h) by (apply nth_error_Some; rewrite Hy; discriminate).
    destruct r as [|z r'].
    + unfold last_opt in Hl; simpl in Hl; inversion Hl; subst t.
      simpl. exists (set_nxt (Some (length h)) yn). rewrite (back_heap_t _ _ _ _ _ Hy). simpl.
      repeat split; auto.
      exists (set_prv (Some y) (fresh_node c k)). rewrite back_heap_n by exact Hyb. simpl. repeat split; auto.
    + rewrite last_opt_cons in Hl.
      apply NoDup_cons_iff in Hnd as [Hni Hnd].
      assert (Hyt : y <> t). { intro E; subst. apply Hni. apply last_opt_in; exact Hl. }
      simpl app. simpl. exists yn. rewrite back_heap_old by lia. repeat split; auto.
      apply IH; auto.
Qed.

Lemma nodup_snoc (l : list nat) x : NoDup l -> ~ In x l -> NoDup (l ++ [x]).
Proof.
  intros H Hx. rewrite <- (rev_involutive (l ++ [x])). apply NoDup_rev. rewrite rev_app_distr. simpl.
  constructor; [intro X; apply Hx; apply in_rev; exact X|apply NoDup_rev; exact H].
Qed.

Lemma last_opt_some y r : exists t, last_opt (y :: r) = Some t.
Proof.
  unfold last_opt. simpl. destruct (rev r ++ [y]) eqn:E; [destruct (rev r); discriminate|eauto].
Qed.

Lemma link_back_inv g ids c k :
  GInv g ids -> k <> GenCL.removed_marker ->
  let g2 := g_link_back (fst (g_alloc g c k)) (length (heap g)) in
  GInv g2 (ids ++ [length (heap g)]) /\
  (forall cur m, first_live (heap g) cur m -> first_live (heap g2) cur m) /\
  extends (heap g) (heap g2) /\
  (exists nn, nth_error (heap g2) (length (heap g)) = Some nn /\ cb nn = c /\ ctr nn = k) /\
  length (heap g2) = S (length (heap g)) /\ gfreed g2 = gfreed g.
Proof.
  intros G Hk. unfold g_link_back, g_alloc. simpl.
  assert (Hh := gi_head _ _ G). assert (Ht := gi_tail _ _ G).
  set (n := length (heap g)).
  destruct ids as [|y r].
  - (* empty list *)
    simpl in Hh. rewrite Hh. simpl.
    set (h' := heap g ++ [fresh_node c k]).
    assert (E : extends (heap g) h').
    { intros j nd Hj. assert (j < length (heap g)) by (apply nth_error_Some; rewrite Hj; discriminate).
      exists nd. unfold h'. rewrite nth_error_snoc. destruct (Nat.eqb_spec j (length (heap g))); [lia|]. auto. }
    assert (Hn : nth_error h' n = Some (fresh_node c k)).
    { unfold h', n. rewrite nth_error_snoc, Nat.eqb_refl. reflexivity. }
    assert (Hlen : length h' = S n) by (unfold h', n; rewrite app_length; simpl; lia).
    assert (Hl : live (fresh_node c k)) by exact Hk.
    assert (Hincl : incl [] [n]) by (intros z Hz; destruct Hz).
    assert (Hin : In n [n]) by (left; reflexivity).
    assert (Hch : lchain h' None [n]).
    { simpl. exists (fresh_node c k). rewrite Hn. repeat split; auto. }
    assert (Hnd : NoDup [n]) by (constructor; [intros []|constructor]).
    destruct (link_generic g [] h' [n] (Some n) (Some n) n (fresh_node c k) G eq_refl Hlen E Hn Hl Hincl Hin Hch eq_refl eq_refl Hnd) as [G2 F].
    split; [exact G2|]. split; [exact F|]. split; [exact E|]. split; [|split; [exact Hlen|reflexivity]].
    exists (fresh_node c k). auto.
  - (* non-empty: tail t *)
    simpl in Hh. rewrite Hh.
    destruct (last_opt_some y r) as [t El].
    rewrite Ht, El. simpl.
    assert (Hin0 : In t (y :: r)) by (apply last_opt_in; exact El).
    destruct (lchain_in _ _ _ (gi_chain _ _ G) t Hin0) as [tn [Htn Htl]].
    assert (Htb : t < n) by (apply nth_error_Some; rewrite Htn; discriminate).
    change (upd (upd (heap g ++ [{| prv := None; nxt := None; cb := c; ctr := k |}]) n (set_prv (Some t))) t (set_nxt (Some n)))
      with (back_heap (heap g) c k t).
    set (h' := back_heap (heap g) c k t).
    assert (E : extends (heap g) h') by (apply (back_heap_extends (heap g) c k t tn Htn Htl)).
    assert (Hn : nth_error h' n = Some (set_prv (Some t) (fresh_node c k))) by (apply back_heap_n; exact Htb).
    assert (Hlen : length h' = S n) by (unfold h', back_heap, n; rewrite !length_upd, app_length; simpl; lia).
    assert (Hl : live (set_prv (Some t) (fresh_node c k))) by exact Hk.
    assert (Hincl : incl (y :: r) ((y :: r) ++ [n])) by (intros z Hz; apply in_or_app; left; exact Hz).
    assert (Hin : In n ((y :: r) ++ [n])) by (apply in_or_app; right; left; reflexivity).
    assert (Hch : lchain h' None ((y :: r) ++ [n])).
    { apply lchain_back; auto; [apply (gi_chain _ _ G)|apply (gi_nodup _ _ G)]. }
    assert (Hnd : NoDup ((y :: r) ++ [n])).
    { apply nodup_snoc; [apply (gi_nodup _ _ G)|].
      intro X. assert (B := lchain_bound _ _ _ (gi_chain _ _ G) _ X). unfold n in B; lia. }
    assert (Htl' : Some n = last_opt ((y :: r) ++ [n])) by (rewrite last_opt_app; reflexivity).
    destruct (link_generic g (y :: r) h' ((y :: r) ++ [n]) (Some y) (Some n) n _ G eq_refl Hlen E Hn Hl Hincl Hin Hch eq_refl Htl' Hnd) as [G2 F].
    split; [exact G2|]. split; [exact F|]. split; [exact E|]. split; [|split; [exact Hlen|reflexivity]].
    exists (set_prv (Some t) (fresh_node c k)). auto.
Qed.

(* ---------- prepend ---------- *)

Definition front_heap (h : list node) (c : nat) (k : N) (hd : nid) : list node :=
  upd (upd (h ++ [fresh_node c k]) (length h) (set_nxt (Some hd))) hd (set_prv (Some (length h))).

Lemma front_heap_old h c k hd j : j <> length h -> j <> hd -> nth_error (front_heap h c k hd) j = nth_error h j.
Proof.
  intros H1 H2. unfold front_heap. rewrite !nth_error_upd, nth_error_snoc.
  destruct (Nat.eqb_spec j hd); [contradiction|]. destruct (Nat.eqb_spec j (length h)); [contradiction|reflexivity].
Qed.

Lemma front_heap_hd h c k hd hn : nth_error h hd = Some hn ->
  nth_error (front_heap h c k hd) hd = Some (set_prv (Some (length h)) hn).
Proof.
  intros Ht. assert (hd < length h) by (apply nth_error_Some; rewrite Ht; discriminate).
  unfold front_heap. rewrite !nth_error_upd, nth_error_snoc, Nat.eqb_refl.
  destruct (Nat.eqb_spec hd (length h)); [lia|]. rewrite Ht. reflexivity.
Qed.

Lemma front_heap_n h c k hd : hd < length h ->
  nth_error (front_heap h c k hd) (length h) = Some (set_nxt (Some hd) (fresh_node c k)).
Proof.
  intros Ht. unfold front_heap. rewrite !nth_error_upd, nth_error_snoc, Nat.eqb_refl.
  destruct (Nat.eqb_spec (length h) hd); [lia|]. reflexivity.
Qed.

Lemma front_heap_extends h c k hd hn : nth_error h hd = Some hn -> live hn -> extends h (front_heap h c k hd).
Proof.
  intros Ht Hl j nd Hj.
  assert (j < length h) by (apply nth_error_Some; rewrite Hj; discriminate).
  destruct (Nat.eq_dec j hd) as [->|Hne].
  - rewrite Ht in Hj; inversion Hj; subst nd. rewrite (front_heap_hd _ _ _ _ _ Ht).
    exists (set_prv (Some (length h)) hn). simpl. repeat split; auto. intro X; contradiction.
  - rewrite front_heap_old by lia. exists nd. auto.
Qed.

Lemma link_front_inv g ids c k :
  GInv g ids -> k <> GenCL.removed_marker ->
  let g2 := g_link_front (fst (g_alloc g c k)) (length (heap g)) in
  GInv g2 (length (heap g) :: ids) /\
  (forall cur m, first_live (heap g) cur m -> first_live (heap g2) cur m) /\
  extends (heap g) (heap g2) /\
  (exists nn, nth_error (heap g2) (length (heap g)) = Some nn /\ cb nn = c /\ ctr nn = k) /\
  length (heap g2) = S (length (heap g)) /\ gfreed g2 = gfreed g.
Proof.
  intros G Hk. unfold g_link_front, g_alloc. simpl.
  assert (Hh := gi_head _ _ G). assert (Ht := gi_tail _ _ G).
  set (n := length (heap g)).
  destruct ids as [|y r].
  - simpl in Hh. rewrite Hh. simpl.
    set (h' := heap g ++ [fresh_node c k]).
    assert (E : extends (heap g) h').
    { intros j nd Hj. assert (j < length (heap g)) by (apply nth_error_Some; rewrite Hj; discriminate).
      exists nd. unfold h'. rewrite nth_error_snoc. destruct (Nat.eqb_spec j (length (heap g))); [lia|]. auto. }
    assert (Hn : nth_error h' n = Some (fresh_node c k)).
    { unfold h', n. rewrite nth_error_snoc, Nat.eqb_refl. reflexivity. }
    assert (Hlen : length h' = S n) by (unfold h', n; rewrite app_length; simpl; lia).
    assert (Hl : live (fresh_node c k)) by exact Hk.
    assert (Hincl : incl [] [n]) by (intros z Hz; destruct Hz).
    assert (Hin : In n [n]) by (left; reflexivity).
    assert (Hch : lchain h' None [n]).
    { simpl. exists (fresh_node c k). rewrite Hn. repeat split; auto. }
    assert (Hnd : NoDup [n]) by (constructor; [intros []|constructor]).
    destruct (link_generic g [] h' [n] (Some n) (Some n) n (fresh_node c k) G eq_refl Hlen E Hn Hl Hincl Hin Hch eq_refl eq_refl Hnd) as [G2 F].
    split; [exact G2|]. split; [exact F|]. split; [exact E|]. split; [|split; [exact Hlen|reflexivity]].
    exists (fresh_node c k). auto.
  - simpl in Hh. rewrite Hh. simpl.
    assert (C := gi_chain _ _ G). simpl in C. destruct C as [yn [Hy [Hyl [Hyp [Hyn Hr]]]]].
    assert (Hyb : y < n) by (apply nth_error_Some; rewrite Hy; discriminate).
    change (upd (upd (heap g ++ [{| prv := None; nxt := None; cb := c; ctr := k |}]) n (set_nxt (Some y))) y (set_prv (Some n)))
      with (front_heap (heap g) c k y).
    set (h' := front_heap (heap g) c k y).
    assert (E : extends (heap g) h') by (apply (front_heap_extends (heap g) c k y yn Hy Hyl)).
    assert (Hn : nth_error h' n = Some (set_nxt (Some y) (fresh_node c k))) by (apply front_heap_n; exact Hyb).
    assert (Hlen : length h' = S n) by (unfold h', front_heap, n; rewrite !length_upd, app_length; simpl; lia).
    assert (Hl : live (set_nxt (Some y) (fresh_node c k))) by exact Hk.
    assert (Hincl : incl (y :: r) (n :: y :: r)) by (intros z Hz; right; exact Hz).
    assert (Hin : In n (n :: y :: r)) by (left; reflexivity).
    assert (Hnd0 := gi_nodup _ _ G).
    assert (Hch : lchain h' None (n :: y :: r)).
    { simpl. exists (set_nxt (Some y) (fresh_node c k)). rewrite Hn. simpl. repeat split; auto.
      exists (set_prv (Some n) yn). unfold h'. rewrite (front_heap_hd _ _ _ _ _ Hy). simpl. repeat split; auto.
      apply (lchain_frame (heap g)); [exact Hr|].
      intros z Hz. apply front_heap_old.
      - assert (B := lchain_bound _ _ _ Hr z Hz). lia.
      - intro X; subst. apply NoDup_cons_iff in Hnd0 as [Hni _]. contradiction. }
    assert (Hnd : NoDup (n :: y :: r)).
    { constructor; [|exact Hnd0]. intro X. assert (B := lchain_bound _ _ _ (gi_chain _ _ G) _ X). unfold n in B; lia. }
    assert (Htl' : gtail g = last_opt (n :: y :: r)) by (rewrite last_opt_cons; exact Ht).
    destruct (link_generic g (y :: r) h' (n :: y :: r) (Some n) (gtail g) n _ G eq_refl Hlen E Hn Hl Hincl Hin Hch eq_refl Htl' Hnd) as [G2 F].
    split; [exact G2|]. split; [exact F|]. split; [exact E|]. split; [|split; [exact Hlen|reflexivity]].
    exists (set_nxt (Some y) (fresh_node c k)). auto.
Qed.

(* ---------- doInsert ---------- *)

Definition before_heap (h : list node) (c : nat) (k : N) (b : nid) (pv : option nid) : list node :=
  upd (upd_o (upd (h ++ [fresh_node c k]) (length h) (fun x => set_nxt (Some b) (set_prv pv x))) pv (set_nxt (Some (length h))))
      b (set_prv (Some (length h))).

Lemma before_heap_old h c k b pv j :
  j <> length h -> j <> b -> Some j <> pv -> nth_error (before_heap h c k b pv) j = nth_error h j.
Proof.
  intros H1 H2 H3. unfold before_heap. rewrite nth_error_upd. destruct (Nat.eqb_spec j b); [contradiction|].
  rewrite nth_error_upd_o. destruct pv as [p|].
  - destruct (Nat.eqb_spec j p); [subst; exfalso; apply H3; reflexivity|].
    rewrite nth_error_upd, nth_error_snoc. destruct (Nat.eqb_spec j (length h)); [contradiction|reflexivity].
  - rewrite nth_error_upd, nth_error_snoc. destruct (Nat.eqb_spec j (length h)); [contradiction|reflexivity].
Qed.

Lemma before_heap_b h c k b pv bn :
  nth_error h b = Some bn -> Some b <> pv ->
  nth_error (before_heap h c k b pv) b = Some (set_prv (Some (length h)) bn).
Proof.
  intros Hb H3. assert (b < length h) by (apply nth_error_Some; rewrite Hb; discriminate).
  unfold before_heap. rewrite nth_error_upd, Nat.eqb_refl.
  rewrite nth_error_upd_o. destruct pv as [p|].
  - destruct (Nat.eqb_spec b p); [subst; exfalso; apply H3; reflexivity|].
    rewrite nth_error_upd, nth_error_snoc. destruct (Nat.eqb_spec b (length h)); [lia|]. rewrite Hb; reflexivity.
  - rewrite nth_error_upd, nth_error_snoc. destruct (Nat.eqb_spec b (length h)); [lia|]. rewrite Hb; reflexivity.
Qed.

Lemma before_heap_p h c k b p pn :
  nth_error h p = Some pn -> p <> b ->
  nth_error (before_heap h c k b (Some p)) p = Some (set_nxt (Some (length h)) pn).
Proof.
  intros Hp H3. assert (p < length h) by (apply nth_error_Some; rewrite Hp; discriminate).
  unfold before_heap. rewrite nth_error_upd. destruct (Nat.eqb_spec p b); [contradiction|].
  simpl. rewrite nth_error_upd, Nat.eqb_refl.
  rewrite nth_error_upd, nth_error_snoc. destruct (Nat.eqb_spec p (length h)); [lia|]. rewrite Hp; reflexivity.
Qed.

Lemma before_heap_n h c k b pv :
  b < length h -> (forall p, pv = Some p -> p < length h) ->
  nth_error (before_heap h c k b pv) (length h) = Some (set_nxt (Some b) (set_prv pv (fresh_node c k))).
Proof.
  intros Hb Hp. unfold before_heap. rewrite nth_error_upd. destruct (Nat.eqb_spec (length h) b); [lia|].
  rewrite nth_error_upd_o. destruct pv as [p|].
  - specialize (Hp p eq_refl). destruct (Nat.eqb_spec (length h) p); [lia|].
    rewrite nth_error_upd, Nat.eqb_refl, nth_error_snoc, Nat.eqb_refl. reflexivity.
  - rewrite nth_error_upd, Nat.eqb_refl, nth_error_snoc, Nat.eqb_refl. reflexivity.
Qed.

Lemma before_heap_extends h c k b pv bn :
  nth_error h b = Some bn -> live bn -> Some b <> pv ->
  (forall p pn, pv = Some p -> nth_error h p = Some pn -> live pn) ->
  extends h (before_heap h c k b pv).
Proof.
  intros Hb Hbl Hbp Hpl j nd Hj.
  assert (j < length h) by (apply nth_error_Some; rewrite Hj; discriminate).
  destruct (Nat.eq_dec j b) as [->|Hne].
  - rewrite Hb in Hj; inversion Hj; subst nd. rewrite (before_heap_b _ _ _ _ _ _ Hb Hbp).
    exists (set_prv (Some (length h)) bn). simpl. repeat split; auto. intro X; contradiction.
  - destruct pv as [p|].
    + destruct (Nat.eq_dec j p) as [->|Hne2].
      * rewrite (before_heap_p _ _ _ _ _ _ Hj Hne). exists (set_nxt (Some (length h)) nd). simpl. repeat split; auto.
        intro X. exfalso. apply X. eapply Hpl; eauto.
      * rewrite before_heap_old; [exists nd; auto|lia|exact Hne|intro X; inversion X; contradiction].
    + rewrite before_heap_old; [exists nd; auto|lia|exact Hne|discriminate].
Qed.

Lemma lchain_before h c k b r : forall a q,
  lchain h q (a ++ b :: r) -> NoDup (olist q ++ a ++ b :: r) -> k <> GenCL.removed_marker ->
  (forall p, q = Some p -> p < length h) ->
  lchain (before_heap h c k b (match last_opt a with Some y => Some y | None => q end)) q (a ++ length h :: b :: r).
Proof.
  induction a as [|y a IH]; intros q H Hnd Hk Hq.
  - simpl in *. destruct H as [bn [Hb [Hbl [Hbp [Hbn Hr]]]]].
    assert (Hbb : b < length h) by (apply nth_error_Some; rewrite Hb; discriminate).
    assert (Hbq : Some b <> q).
    { intro E; rewrite <- E in Hnd. simpl in Hnd. apply NoDup_cons_iff in Hnd as [Hni _]. apply Hni. left; reflexivity. }
    unfold last_opt; simpl.
    exists (set_nxt (Some b) (set_prv q (fresh_node c k))). rewrite before_heap_n by auto. simpl. repeat split; auto.
    exists (set_prv (Some (length h)) bn). rewrite (before_heap_b _ _ _ _ _ _ Hb Hbq). simpl. repeat split; auto.
    apply (lchain_frame h); [exact Hr|].
    intros z Hz. apply before_heap_old.
    + assert (B := lchain_bound _ _ _ Hr z Hz). lia.
    + intro X; subst. apply nodup_app_r in Hnd. apply NoDup_cons_iff in Hnd as [Hni _]. contradiction.
    + intro E; rewrite <- E in Hnd. simpl in Hnd. apply NoDup_cons_iff in Hnd as [Hni _]. apply Hni. right; exact Hz.
  - simpl app in *. simpl in H. destruct H as [yn [Hy [Hyl [Hyp [Hyn Hr]]]]].
    assert (Hyb0 : y < length h) by (apply nth_error_Some; rewrite Hy; discriminate).
    assert (Hnd' : NoDup (olist (Some y) ++ a ++ b :: r)).
    { simpl. apply nodup_app_r in Hnd. exact Hnd. }
    assert (Hyb : y <> b).
    { intro E; subst. simpl in Hnd'. apply NoDup_cons_iff in Hnd' as [Hni _]. apply Hni. apply in_or_app; right; left; reflexivity. }
    assert (Hq' : forall p, Some y = Some p -> p < length h) by (intros p E; inversion E; subst; exact Hyb0).
    specialize (IH (Some y) Hr Hnd' Hk Hq').
    destruct a as [|z a'].
    + simpl in *. unfold last_opt; simpl. unfold last_opt in IH; simpl in IH.
      exists (set_nxt (Some (length h)) yn). rewrite (before_heap_p _ _ _ _ _ _ Hy Hyb). simpl. repeat split; auto.
    + rewrite last_opt_cons. destruct (last_opt_some z a') as [w Hw]. rewrite Hw in *.
      assert (Hwin : In w (z :: a')) by (apply last_opt_in; exact Hw).
      assert (Hyw : Some y <> Some w).
      { intro E. assert (E' : y = w) by (inversion E; reflexivity). clear E. subst w.
        simpl in Hnd'. apply NoDup_cons_iff in Hnd' as [Hni _]. apply Hni.
        change (In y ((z :: a') ++ b :: r)). apply in_or_app; left; exact Hwin. }
      simpl. exists yn. rewrite before_heap_old; [|lia|exact Hyb|exact Hyw]. repeat split; auto.
Qed.

Lemma link_before_inv g a b r c k :
  GInv g (a ++ b :: r) -> k <> GenCL.removed_marker ->
  let g2 := g_link_before (fst (g_alloc g c k)) (length (heap g)) b in
  GInv g2 (a ++ length (heap g) :: b :: r) /\
  (forall cur m, first_live (heap g) cur m -> first_live (heap g2) cur m) /\
  extends (heap g) (heap g2) /\
  (exists nn, nth_error (heap g2) (length (heap g)) = Some nn /\ cb nn = c /\ ctr nn = k) /\
  length (heap g2) = S (length (heap g)) /\ gfreed g2 = gfreed g.
Proof.
  intros G Hk.
  destruct (ginv_member _ _ G a b r eq_refl) as [bn [Hb [Hbl [Hbn Hbp]]]].
  assert (Hbb : b < length (heap g)) by (apply nth_error_Some; rewrite Hb; discriminate).
  assert (Hnd0 := gi_nodup _ _ G).
  destruct (nodup_split_notin _ _ _ Hnd0) as [Hba Hbr].
  set (n := length (heap g)).
  unfold g_link_before, g_alloc. simpl.
  assert (Hb1 : nth_error (heap g ++ [{| prv := None; nxt := None; cb := c; ctr := k |}]) b = Some bn).
  { rewrite nth_error_snoc. destruct (Nat.eqb_spec b (length (heap g))); [lia|exact Hb]. }
  rewrite Hb1. simpl. rewrite Hbp.
  change (upd (upd_o (upd (heap g ++ [{| prv := None; nxt := None; cb := c; ctr := k |}]) n
                 (fun x => set_nxt (Some b) (set_prv (last_opt a) x))) (last_opt a) (set_nxt (Some n))) b (set_prv (Some n)))
    with (before_heap (heap g) c k b (last_opt a)).
  set (h' := before_heap (heap g) c k b (last_opt a)).
  assert (Hbpv : Some b <> last_opt a).
  { intro X. symmetry in X. apply last_opt_in in X. contradiction. }
  assert (Hpl : forall p pn, last_opt a = Some p -> nth_error (heap g) p = Some pn -> live pn).
  { intros p pn E Hp. apply last_opt_in in E.
    destruct (lchain_in _ _ _ (gi_chain _ _ G) p) as [pn' [Hp' Hl]]; [apply in_or_app; left; exact E|].
    rewrite Hp in Hp'; inversion Hp'; subst; exact Hl. }
  assert (Hpb : forall p, last_opt a = Some p -> p < length (heap g)).
  { intros p E. apply last_opt_in in E. apply (lchain_bound _ _ _ (gi_chain _ _ G)). apply in_or_app; left; exact E. }
  assert (E : extends (heap g) h') by (apply (before_heap_extends _ _ _ _ _ _ Hb Hbl Hbpv Hpl)).
  assert (Hn : nth_error h' n = Some (set_nxt (Some b) (set_prv (last_opt a) (fresh_node c k)))) by (apply before_heap_n; auto).
  assert (Hlen : length h' = S n).
  { unfold h', before_heap, n. rewrite length_upd, length_upd_o, length_upd, app_length. simpl; lia. }
  assert (Hl : live (set_nxt (Some b) (set_prv (last_opt a) (fresh_node c k)))) by exact Hk.
  assert (Hincl : incl (a ++ b :: r) (a ++ n :: b :: r)).
  { intros z Hz. apply in_app_or in Hz. apply in_or_app. destruct Hz; [left; auto|right; right; auto]. }
  assert (Hin : In n (a ++ n :: b :: r)) by (apply in_or_app; right; left; reflexivity).
  assert (Hch : lchain h' None (a ++ n :: b :: r)).
  { unfold h'. replace (last_opt a) with (match last_opt a with Some y => Some y | None => None end) by (destruct (last_opt a); reflexivity).
    apply lchain_before; auto; [apply (gi_chain _ _ G)|discriminate]. }
  assert (Hnd : NoDup (a ++ n :: b :: r)).
  { assert (Hnn : ~ In n (a ++ b :: r)).
    { intro X. assert (B := lchain_bound _ _ _ (gi_chain _ _ G) _ X). unfold n in B; lia. }
    clear - Hnd0 Hnn. induction a as [|y a IH]; simpl in *.
    - constructor; auto.
    - apply NoDup_cons_iff in Hnd0 as [Hni Hnd0]. constructor.
      + intro X. apply in_app_or in X. destruct X as [X|[X|X]].
        * apply Hni. apply in_or_app; left; exact X.
        * subst. apply Hnn. left; reflexivity.
        * apply Hni. apply in_or_app; right; exact X.
      + apply IH; auto. }
  assert (Hhd : (if oeqb (Some b) (ghead g) then Some n else ghead g) = hd_error (a ++ n :: b :: r)).
  { rewrite (gi_head _ _ G). destruct a as [|y a']; simpl.
    - rewrite Nat.eqb_refl. reflexivity.
    - destruct (Nat.eqb_spec b y) as [->|Hne]; [exfalso; apply Hba; left; reflexivity|reflexivity]. }
  assert (Htl : gtail g = last_opt (a ++ n :: b :: r)).
  { rewrite (gi_tail _ _ G). rewrite !last_opt_app2 by discriminate. rewrite last_opt_cons. reflexivity. }
  destruct (link_generic g (a ++ b :: r) h' (a ++ n :: b :: r) _ (gtail g) n _ G eq_refl Hlen E Hn Hl Hincl Hin Hch Hhd Htl Hnd) as [G2 F].
  split; [exact G2|]. split; [exact F|]. split; [exact E|]. split; [|split; [exact Hlen|reflexivity]].
  exists (set_nxt (Some b) (set_prv (last_opt a) (fresh_node c k))). auto.
Qed.

(* ====================================================================== *)
(* getNextCounter's overflow branch: every linked node gets the same fresh counter *)

Lemma reset_chain_spec : forall ids h p k,
  lchain h p ids -> NoDup ids -> length ids <= k ->
  let h' := reset_chain k h (hd_error ids) in
  length h' = length h /\
  (forall j, ~ In j ids -> nth_error h' j = nth_error h j) /\
  (forall j nd, In j ids -> nth_error h j = Some nd -> nth_error h' j = Some (set_ctr GenCL.wrap_rewrite_value nd)).
Proof.
  induction ids as [|x r IH]; intros h p k H Hnd Hk; simpl in *.
  - destruct k; simpl; repeat split; auto; intros j nd [].
  - destruct H as [xn [Hx [Hxl [Hxp [Hxn Hr]]]]].
    destruct k as [|k]; [simpl in Hk; lia|]. simpl. rewrite Hx. rewrite Hxn.
    apply NoDup_cons_iff in Hnd as [Hni Hnd].
    assert (Hr' : lchain (upd h x (set_ctr GenCL.wrap_rewrite_value)) (Some x) r).
    { apply (lchain_frame h); [exact Hr|]. intros y Hy. apply nth_error_upd_other. intro E; subst; contradiction. }
    destruct (IH (upd h x (set_ctr GenCL.wrap_rewrite_value)) (Some x) k Hr' Hnd ltac:(simpl in Hk; lia)) as [L [A B]].
    split; [rewrite L; apply length_upd|]. split.
    + intros j Hj. rewrite A by (intro X; apply Hj; right; exact X).
      apply nth_error_upd_other. intro E; subst. apply Hj; left; reflexivity.
    + intros j nd [E|Hj] Hjn.
      * subst j. rewrite A by exact Hni. rewrite (nth_error_upd_same _ _ _ _ Hx). rewrite Hx in Hjn; inversion Hjn; reflexivity.
      * apply B; [exact Hj|]. rewrite nth_error_upd_other; [exact Hjn|]. intro E; subst; contradiction.
Qed.
