(* Properties_C12.v — C12: filters and canContinueInvoking gate every dispatch, synchronous or queued.

   Model: coq/FilterModel.v (f_run).  The trace of a run lists, in order: EBegin d k a (dispatch
   number d of key k starts with argument a), EFilter d h c v (filter id h, callback c, sees the cell
   as v), EVerdict d h b v' (it returned b and left the cell as v'), EMixin d v b (the second mixin,
   if configured), EListener d h c k v, ECci d v' b (the policy asked after that listener on the cell
   as it is now), EFRemoved h (removeFilter succeeded on id h), ERet b.  `own d T` keeps the events
   of dispatch number d.  gen_lp / gen_lp_heter are the decisions read from the header text by
   tie A (coq/gen/GenFilter.v); the statements below are about the model WITH those decisions,
   for every behaviour table (re-entrant to any depth), policy, second mixin, prototype kind,
   fuel and program.  Only theorems, examples and Print Assumptions here (proofs: FilterProofs.v). *)
From Coq Require Import List Arith NArith ZArith Bool.
From EV Require Import FilterModel FilterProofs.
Import ListNotations.

(* tie A: mixinBeforeDispatch returns the filters' conjunction and stops at the first false, the
   mixins are chained with short-circuit "and", directDispatch returns when they say no and looks
   the listeners up afterwards, arguments travel as lvalue references, queued events go through
   directDispatch, the callback list asks the policy after each callback and stops when it says no *)
Theorem C12_header_decisions_are_the_expected_ones : lp_ok gen_lp /\ lp_ok gen_lp_heter.
Proof. exact (conj gen_lp_ok gen_lp_heter_ok). Qed.
Print Assumptions C12_header_decisions_are_the_expected_ones.

(* Every dispatch of every run - direct, queued or started from inside a filter or listener - owns
   events of the shape dispatch_own: EBegin; the filters, each seeing the cell as the previous one
   left it, all answering true except possibly the last; if the last answered false nothing else;
   otherwise the second mixin (if any) on the final cell and, unless it vetoes, the listeners, the
   first seeing the filters' final cell, each later one seeing the cell as it was when the policy was
   asked (unchanged for a by-value prototype), the policy answering true except possibly at the end. *)
Theorem C12_dispatch_shape :
  forall byref cci mix2 behav fuel prog st' T,
    f_run gen_lp byref cci mix2 behav fuel f_init prog = Some (st', T) ->
    (forall d, d < nextd st' -> exists k a, dispatch_own byref cci mix2 d k a (own d T))
    /\ (forall d, nextd st' <= d -> own d T = []).
Proof. exact (every_dispatch_shaped gen_lp gen_lp_ok). Qed.
Print Assumptions C12_dispatch_shape.

Theorem C12_dispatch_shape_heter :
  forall byref cci mix2 behav fuel prog st' T,
    f_run gen_lp_heter byref cci mix2 behav fuel f_init prog = Some (st', T) ->
    (forall d, d < nextd st' -> exists k a, dispatch_own byref cci mix2 d k a (own d T))
    /\ (forall d, nextd st' <= d -> own d T = []).
Proof. exact (every_dispatch_shaped gen_lp_heter gen_lp_heter_ok). Qed.
Print Assumptions C12_dispatch_shape_heter.

(* A filter answering false ends ITS dispatch: no later event carries that dispatch number (no
   further filter, no mixin, no listener) and no listener of that dispatch occurs anywhere in the
   run.  Other dispatch numbers are not mentioned: they obey C12_dispatch_shape on their own. *)
Theorem C12_blocked_dispatch_runs_no_listener :
  forall byref cci mix2 behav fuel prog st' T T1 d h v T2,
    f_run gen_lp byref cci mix2 behav fuel f_init prog = Some (st', T) ->
    T = T1 ++ EVerdict d h false v :: T2 ->
    (forall x, In x T2 -> tag x <> Some d)
    /\ (forall h' c k v', ~ In (EListener d h' c k v') T).
Proof. exact (blocked_runs_no_listener gen_lp gen_lp_ok). Qed.
Print Assumptions C12_blocked_dispatch_runs_no_listener.

Theorem C12_blocked_dispatch_runs_no_listener_heter :
  forall byref cci mix2 behav fuel prog st' T T1 d h v T2,
    f_run gen_lp_heter byref cci mix2 behav fuel f_init prog = Some (st', T) ->
    T = T1 ++ EVerdict d h false v :: T2 ->
    (forall x, In x T2 -> tag x <> Some d)
    /\ (forall h' c k v', ~ In (EListener d h' c k v') T).
Proof. exact (blocked_runs_no_listener gen_lp_heter gen_lp_heter_ok). Qed.
Print Assumptions C12_blocked_dispatch_runs_no_listener_heter.

(* One dispatch whose filters and listeners run no commands, from ANY state: the filters called are
   the first j entries of the filter list (kept in addition order by addFilter), j being the whole
   list unless the j-th answered false; they see each other's rewrites (filter_phase); then - iff none
   answered false and the second mixin agrees - the listeners called are the first i entries of the
   key's list, starting from the filters' final cell, i being the whole list unless the policy said
   stop after the i-th; nothing else is emitted. *)
Theorem C12_filters_in_order_see_rewrites :
  forall byref cci mix2 behav rec st k a st' T,
    (forall s, rec s [] = Some (s, [])) ->
    quiet behav (flt st) -> quiet behav (lst_of st k) ->
    dispatch gen_lp byref cci mix2 behav rec st k a = Some (st', T) ->
    let d := nextd st in
    exists j tf r, filter_phase d a tf r /\ filter_ids tf = firstn j (flt st) /\
      match r with
      | None => T = EBegin d k a :: tf
      | Some v =>
          j = length (flt st) /\
          match mix2 with
          | Some m =>
              if m v then exists tl, exact_listeners byref cci st d k v tl /\ T = EBegin d k a :: tf ++ EMixin d v true :: tl
              else T = EBegin d k a :: tf ++ [EMixin d v false]
          | None => exists tl, exact_listeners byref cci st d k v tl /\ T = EBegin d k a :: tf ++ tl
          end
      end.
Proof.
  exact (fun byref cci mix2 behav rec st k a st' T rn qf ql H =>
           dispatch_exact gen_lp gen_lp_ok byref cci mix2 behav rec rn st k a st' T qf ql H).
Qed.
Print Assumptions C12_filters_in_order_see_rewrites.

(* Once removeFilter has succeeded on a filter, that filter is never called again - not by the
   dispatch that is running, not by a later one, direct or queued. *)
Theorem C12_removed_filter_never_runs :
  forall byref cci mix2 behav fuel prog st' T T1 h T2,
    f_run gen_lp byref cci mix2 behav fuel f_init prog = Some (st', T) ->
    T = T1 ++ EFRemoved h :: T2 ->
    forall d c v, ~ In (EFilter d h c v) T2.
Proof. exact (removed_filter_never_runs gen_lp gen_lp_ok). Qed.
Print Assumptions C12_removed_filter_never_runs.

Theorem C12_removed_filter_never_runs_heter :
  forall byref cci mix2 behav fuel prog st' T T1 h T2,
    f_run gen_lp_heter byref cci mix2 behav fuel f_init prog = Some (st', T) ->
    T = T1 ++ EFRemoved h :: T2 ->
    forall d c v, ~ In (EFilter d h c v) T2.
Proof. exact (removed_filter_never_runs gen_lp_heter gen_lp_heter_ok). Qed.
Print Assumptions C12_removed_filter_never_runs_heter.

(* The policy is asked after each listener (never before the first: C12_dispatch_shape) on the
   current cell; every recorded answer is the policy's answer on the recorded cell; after a false
   answer no further event of that dispatch occurs. *)
Theorem C12_cci_gate :
  forall byref cci mix2 behav fuel prog st' T,
    f_run gen_lp byref cci mix2 behav fuel f_init prog = Some (st', T) ->
    (forall T1 d v T2, T = T1 ++ ECci d v false :: T2 -> forall x, In x T2 -> tag x <> Some d)
    /\ (forall d v b, In (ECci d v b) T -> b = cci v).
Proof. exact (cci_gate gen_lp gen_lp_ok). Qed.
Print Assumptions C12_cci_gate.

(* process() dispatches every event it took, in order, through the very function a direct dispatch
   uses (so filters, second mixin and policy apply): it equals the sequence of direct dispatches
   from the state in which the taken events are gone from the queue. *)
Theorem C12_process_dispatches_each_pending_event :
  forall byref cci mix2 behav rec st e es,
    pend st = e :: es ->
    f_step gen_lp byref cci mix2 behav rec st FProcess =
    match f_seq gen_lp byref cci mix2 behav rec (set_pend st []) (map (fun x => FDispatch (fst x) (snd x)) (e :: es)) with
    | Some (st', t) => Some (st', t ++ [ERet true])
    | None => None
    end.
Proof. exact (process_is_dispatch gen_lp gen_lp_ok). Qed.
Print Assumptions C12_process_dispatches_each_pending_event.

Theorem C12_queued_dispatch_is_direct_dispatch :
  forall byref cci mix2 behav rec st k a,
    pend st = [] ->
    f_seq gen_lp byref cci mix2 behav rec st [FEnqueue k a; FProcess] =
    match f_seq gen_lp byref cci mix2 behav rec st [FDispatch k a] with
    | Some (st', t) => Some (st', t ++ [ERet true])
    | None => None
    end.
Proof. exact (enqueue_process_is_dispatch gen_lp gen_lp_ok). Qed.
Print Assumptions C12_queued_dispatch_is_direct_dispatch.

(* conditionalFunctor(f, cond): f is called iff cond holds of the arguments, and with those arguments *)
Theorem C12_conditional_functor_iff :
  forall (A : Type) (cond : A -> bool) (a a' : A),
    cond_functor A cond a = Some a' <-> cond a = true /\ a' = a.
Proof. exact cond_functor_iff. Qed.
Print Assumptions C12_conditional_functor_iff.

(* argumentAdapter: the wrapped function is called, with as many arguments, each the conversion of
   the argument at the same position *)
Theorem C12_argument_adapter_values :
  forall (A B : Type) (conv : A -> B) (args : list A),
    exists out, arg_adapter A B conv args = Some out /\ length out = length args
                /\ forall i a, nth_error args i = Some a -> nth_error out i = Some (conv a).
Proof. exact arg_adapter_values. Qed.
Print Assumptions C12_argument_adapter_values.

(* ---------- non-vacuity ---------- *)

Definition ex_cci (v : Z) : bool := negb (Z.eqb (Z.modulo v 7) 0).
Definition ex_mix (v : Z) : bool := negb (Z.eqb (Z.modulo v 5) 0).

(* filter 2 blocks the first dispatch after starting a nested one, then removes filter 0 and adds
   another; listener 3 enqueues and appends; listener 5 processes the queue from inside a dispatch *)
Definition ex_behav (c n : nat) : list fcmd * bool * option Z :=
  match c, n with
  | 1, 1 => ([], true, Some 14%Z)
  | 2, 1 => ([FDispatch 1 3%Z], false, None)
  | 2, 2 => ([FRemoveFilter 0; FAddFilter 4 5], true, Some 21%Z)
  | 3, 1 => ([FEnqueue 0 9%Z; FAppend 0 3 7], true, Some 7%Z)
  | 5, 2 => ([FProcess], true, Some 35%Z)
  | _, _ => ([], true, None)
  end.
Definition ex_main : list fcmd :=
  [FAddFilter 1 0; FAddFilter 2 1; FAppend 0 3 0; FAppend 0 5 1; FAppend 1 6 100;
   FDispatch 0 5%Z; FDispatch 0 6%Z; FEnqueue 0 8%Z; FEnqueue 1 10%Z; FProcess;
   FRemoveFilter 1; FRemoveFilter 1; FDispatch 0 4%Z; FProcessOne; FRemove 0 0; FDispatch 0 49%Z].

Definition has_ev (p : fev -> bool) (T : list fev) : bool := existsb p T.

Example C12_hypotheses_satisfiable :
  exists st' T, f_run gen_lp true ex_cci (Some ex_mix) ex_behav 8 f_init ex_main = Some (st', T)
    /\ has_ev (fun e => match e with EVerdict _ _ false _ => true | _ => false end) T = true
    /\ has_ev (fun e => match e with ECci _ _ false => true | _ => false end) T = true
    /\ has_ev (fun e => match e with EMixin _ _ false => true | _ => false end) T = true
    /\ has_ev (fun e => match e with EFRemoved _ => true | _ => false end) T = true
    /\ 8 <= nextd st' /\ 60 <= length T.
Proof.
  eexists. eexists. split; [vm_compute; reflexivity|].
  repeat split; vm_compute; try reflexivity; repeat constructor.
Qed.

(* a state with two quiet filters and two quiet listeners: the hypotheses of
   C12_filters_in_order_see_rewrites hold and the dispatch returns *)
Definition ex_quiet (c n : nat) : list fcmd * bool * option Z :=
  ([], negb (Nat.eqb c 2 && Nat.eqb n 2), if Nat.eqb c 1 then Some (Z.of_nat (7 * n)) else None).

Example C12_exact_hypotheses_satisfiable :
  exists st T st' T', f_run gen_lp true ex_cci None ex_quiet 3 f_init
                        [FAddFilter 1 0; FAddFilter 2 1; FAppend 4 3 0; FAppend 4 3 1; FDispatch 4 5%Z] = Some (st, T)
    /\ quiet ex_quiet (flt st) /\ quiet ex_quiet (lst_of st 4)
    /\ dispatch gen_lp true ex_cci None ex_quiet (f_run gen_lp true ex_cci None ex_quiet 2) st 4 6%Z = Some (st', T')
    /\ has_ev (fun e => match e with EVerdict _ _ false _ => true | _ => false end) T' = true
    /\ 6 <= length T.
Proof.
  eexists. eexists. eexists. eexists. split; [vm_compute; reflexivity|].
  split; [intros h c n _; reflexivity|]. split; [intros h c n _; reflexivity|].
  split; [vm_compute; reflexivity|]. split; vm_compute; [reflexivity|repeat constructor].
Qed.
