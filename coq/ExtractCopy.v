(* Extraction of the copy/move model for tie B. ExtrOcamlBasic only. *)
Require Extraction.
Require Import ExtrOcamlBasic.
From EV Require CopyModel.
From EV.gen Require GenCtor.
Extraction Language OCaml.
Set Extraction Optimize.
(* the constructor facts are the ones tie A read off the headers *)
Definition copy_run_eq j1 j2 := CopyModel.c_run_case GenCtor.eq_copy_inits_counters GenCtor.eq_copy_counters_from_source GenCtor.eq_move_inits_counters GenCtor.eq_move_counters_from_source j1 j2 GenCtor.eq_copy_assign_self_safe.
Definition copy_run_heq j1 j2 := CopyModel.c_run_case GenCtor.heq_copy_inits_counters GenCtor.heq_copy_counters_from_source GenCtor.heq_move_inits_counters GenCtor.heq_move_counters_from_source j1 j2 GenCtor.heq_copy_assign_self_safe.
(* the specification: every constructor initialises the counters to zero, and assignment from itself changes nothing *)
Definition copy_run_spec j1 j2 := CopyModel.c_run_case true false true false j1 j2 true.
Extraction "../ocaml/gen/copy_model.ml" copy_run_eq copy_run_heq copy_run_spec.
