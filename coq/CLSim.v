(* CLSim.v — every step of the pointer-level interpreter is simulated by the snapshot
   specification; by induction over fuel (nesting depth) the whole re-entrant program is. *)
From Coq Require Import List Arith NArith ZArith Bool Lia.
From EV Require Import CLModel CLSpec CLHeap CLOps CLRefine.
From EV.gen Require GenCL.
Import ListNotations.
Local Open Scope nat_scope.

Lemma upd_upd_const {A} (l : list A) i (a b : A) : upd (upd l i (fun _ => a)) i (fun _ => b) = upd l i (fun _ => b).
Proof. revert i; induction l as [|x t IH]; intros [|i]; simpl; auto. f_equal; apply IH. Qed.

Lemma put_group_twice st g a b : put_group (put_group st g a) g b = put_group st g b.
Proof. unfold put_group, set_groups; simpl. f_equal. apply upd_upd_const. Qed.

Section Sim.
  Variable W : N.
  Variable behav : nat -> nat -> list cmd.

  Notation chkR := GenCL.remove_checks_removed.
  Notation chkI := GenCL.insert_checks_removed.
  Notation chkO := GenCL.owns_checks_removed.
  Notation R := (R W).

  Lemma alloc_then_link st sst l o gr c (lk : group -> nat -> group) st1 g n st2 :
    R st sst -> get_list st l = Some o -> get_group st (lg o) = Some gr ->
    alloc_node W st l c = Some (st1, g, n) -> with_group st1 g (fun x => lk x n) = Some st2 -> wrapped st2 = false ->
    g = lg o /\ n = length (heap gr) /\
    exists k, k = (lcur o + 1)%N /\ (k < W)%N /\ k <> GenCL.removed_marker /\
      st2 = put_group (put_list st l (Some (mkLobj (lg o) k))) (lg o) (lk (fst (g_alloc gr c k)) (length (heap gr))) /\
      get_group st1 g = Some (fst (g_alloc gr c k)).
  Proof.
    intros HR Hl Hg Ha Hw Hwr. unfold alloc_node in Ha.
    destruct (next_counter W st l) as [[s1 k]|] eqn:En; [|discriminate].
    assert (Hs1w : wrapped s1 = false).
    { destruct (get_list s1 l) as [o1|]; [|discriminate]. destruct (get_group s1 (lg o1)) as [g1|]; [|discriminate].
      unfold g_alloc in Ha. inversion Ha; subst. unfold with_group in Hw.
      destruct (get_group (put_group s1 (lg o1) _) (lg o1)); [|discriminate]. inversion Hw; subst. exact Hwr. }
    destruct (next_counter_nowrap W st sst l o s1 k HR Hl En Hs1w) as [E1 [E2 [E3 E4]]]. subst s1.
    rewrite (get_list_put_same _ _ _ _ Hl) in Ha. simpl in Ha. rewrite get_group_put_list, Hg in Ha.
    unfold g_alloc in Ha. inversion Ha; subst st1 g n. clear Ha.
    split; [reflexivity|]. split; [reflexivity|]. exists k. repeat split; auto.
    - unfold with_group in Hw. rewrite (get_group_put_same _ _ _ gr) in Hw by (rewrite get_group_put_list; exact Hg).
      inversion Hw. rewrite put_group_twice. reflexivity.
    - apply (get_group_put_same _ _ _ gr). rewrite get_group_put_list. exact Hg.
  Qed.

  (* ---------- handles ---------- *)

  Lemma classify_agree st sst l o gr sgr hv :
    R st sst -> get_list st l = Some o -> get_group st (lg o) = Some gr -> s_get_group sst (lg o) = Some sgr ->
    match classify chkR chkI chkO st o hv, s_classify sst (lg o) sgr hv with
    | HEmpty, SEmpty => True
    | HLocal n nd, SLive e => n = e /\ nth_error (heap gr) n = Some nd /\ live nd /\ In n (map fst (ents sgr))
    | HLocal n nd, SGone => nth_error (heap gr) n = Some nd /\ ~ live nd
    | HExpired, SGone => True
    | HForeign, SForeign => True
    | _, _ => False
    end.
  Proof.
    intros HR Hl Hg Hsg.
    destruct (r_grp _ _ _ HR l o Hl) as [gr0 [sgr0 [Hg0 [Hsg0 [HG [Hlt Hfr0]]]]]].
    rewrite Hg in Hg0; inversion Hg0; subst gr0. rewrite Hsg in Hsg0; inversion Hsg0; subst sgr0. clear Hg0 Hsg0.
    destruct (r_all _ _ _ HR _ _ _ Hg Hsg) as [_ Hnext].
    destruct hv as [[g' n]|]; simpl; [|exact I].
    destruct (get_group st g') as [gr'|] eqn:Eg'.
    - destruct (Nat.eqb_spec g' (lg o)) as [->|Hne].
      + rewrite Hg in Eg'; inversion Eg'; subst gr'.
        unfold GenCL.remove_checks_removed, GenCL.insert_checks_removed, GenCL.owns_checks_removed. simpl.
        destruct (nth_error (heap gr) n) as [nd|] eqn:En.
        * destruct (has_ent n (ents sgr)) eqn:Eh.
          -- apply has_ent_in in Eh. destruct (lchain_in _ _ _ (gi_chain _ _ (gr_inv _ _ _ HG)) n Eh) as [nd' [A B]].
             rewrite En in A; inversion A; subst nd'. auto.
          -- assert (n < length (heap gr)) by (apply nth_error_Some; rewrite En; discriminate).
             destruct (Nat.ltb_spec n (snext sgr)); [|lia].
             split; [exact En|]. intro Hlv. apply has_ent_false in Eh. apply Eh.
             apply (gi_live _ _ (gr_inv _ _ _ HG) n nd En Hlv).
        * destruct (has_ent n (ents sgr)) eqn:Eh.
          -- apply has_ent_in in Eh. destruct (ginv_in_heap _ _ (gr_inv _ _ _ HG) n Eh) as [nd' A]. congruence.
          -- apply nth_error_None in En. destruct (Nat.ltb_spec n (snext sgr)); [lia|exact I].
      + destruct (r_group_some _ _ _ _ _ HR Eg') as [sgr' Esg']. rewrite Esg'.
        destruct (r_all _ _ _ HR _ _ _ Eg' Esg') as [Hf _]. rewrite <- Hf.
        destruct (gfreed gr') eqn:Efr; [|exact I].
        destruct (pinned_group st g') eqn:Ep; [|exact I].
        exfalso. unfold pinned_group in Ep. apply existsb_exists in Ep. destruct Ep as [[pg pn] [Hin Heq]].
        simpl in Heq. apply Nat.eqb_eq in Heq. subst pg.
        destruct (r_pinown _ _ _ HR g' pn Hin) as [l' [o' [A B]]].
        destruct (r_grp _ _ _ HR l' o' A) as [gr2 [sgr2 [C [D [_ [_ F]]]]]]. rewrite B in C. congruence.
    - destruct (Nat.eqb_spec g' (lg o)) as [->|Hne]; [congruence|]. rewrite (r_group_none _ _ _ _ HR Eg'). exact I.
  Qed.

  (* ---------- append / prepend / insert ---------- *)

  Lemma alloc_node_list st l c r : alloc_node W st l c = Some r -> exists o, get_list st l = Some o.
  Proof.
    unfold alloc_node, next_counter. destruct (get_list st l) as [o|]; [eauto|discriminate].
  Qed.

  Definition link_spec (gr : group) (c : nat) (lk : group -> nat -> group) (a b : list nat) : Prop :=
    forall k, k <> GenCL.removed_marker ->
      let g2 := lk (fst (g_alloc gr c k)) (length (heap gr)) in
      GInv g2 (a ++ length (heap gr) :: b) /\
      (forall cur m, first_live (heap gr) cur m -> first_live (heap g2) cur m) /\
      extends (heap gr) (heap g2) /\
      (exists nn, nth_error (heap g2) (length (heap gr)) = Some nn /\ cb nn = c /\ ctr nn = k) /\
      length (heap g2) = S (length (heap gr)) /\ gfreed g2 = gfreed gr.

  Lemma add_step st sst l o gr sgr c h (lk : group -> nat -> group)
        (place : nat * nat -> list (nat * nat) -> list (nat * nat)) a b st1 g n st2 :
    R st sst -> get_list st l = Some o -> get_group st (lg o) = Some gr -> s_get_group sst (lg o) = Some sgr ->
    alloc_node W st l c = Some (st1, g, n) -> with_group st1 g (fun x => lk x n) = Some st2 -> wrapped st2 = false ->
    map fst (ents sgr) = a ++ b ->
    (forall e, map fst (place e (ents sgr)) = a ++ fst e :: b) ->
    (forall e x, In x (place e (ents sgr)) -> x = e \/ In x (ents sgr)) ->
    link_spec gr c lk a b ->
    exists sst', s_add sst l c h place = Some sst' /\ R (set_reg st2 h (Some (g, n))) sst' /\
                 Ext st sst (set_reg st2 h (Some (g, n))) sst'.
  Proof.
    intros HR Hl Hg Hsg Ha Hw Hwr E1 E2 E3 LS.
    destruct (alloc_then_link st sst l o gr c lk st1 g n st2 HR Hl Hg Ha Hw Hwr) as [-> [-> [k [Hk [HkW [Hk0 [Est2 _]]]]]]].
    destruct (LS k Hk0) as [G2 [FL [EX [NN [Hlen Hfr]]]]].
    destruct (r_all _ _ _ HR _ _ _ Hg Hsg) as [_ Hnext].
    exists (add_sstate sst (lg o) (place (length (heap gr), c) (ents sgr)) (length (heap gr)) (sfreed sgr) h).
    split.
    - unfold s_add. rewrite (r_get_list W st sst l HR), Hl. simpl. rewrite Hsg, Hnext. reflexivity.
    - subst st2.
      apply (add_sim W st sst l o gr sgr _ (place (length (heap gr), c) (ents sgr)) a b c h k HR Hl Hg Hsg Hk HkW E1 (E2 _)); auto.
  Qed.

  Lemma append_sim st sst l c h st' :
    R st sst -> do_append W st l c h = Some st' -> wrapped st' = false ->
    exists sst', s_add sst l c h (fun n es => es ++ [n]) = Some sst' /\ R st' sst' /\ Ext st sst st' sst'.
  Proof.
    intros HR H Hw. unfold do_append in H.
    destruct (alloc_node W st l c) as [[[st1 g] n]|] eqn:Ea; [|discriminate].
    destruct (with_group st1 g (fun gr => g_link_back gr n)) as [st2|] eqn:Ew; [|discriminate].
    inversion H; subst st'. clear H.
    destruct (alloc_node_list _ _ _ _ Ea) as [o Hl].
    destruct (r_grp _ _ _ HR l o Hl) as [gr [sgr [Hg [Hsg [HG _]]]]].
    apply (add_step st sst l o gr sgr c h g_link_back (fun n es => es ++ [n]) (map fst (ents sgr)) [] st1 g n st2); auto.
    - rewrite app_nil_r; reflexivity.
    - intros e. rewrite map_app. reflexivity.
    - intros e x Hin. apply in_app_or in Hin. destruct Hin as [X|[X|[]]]; auto.
    - intros k Hk. apply link_back_inv; [apply (gr_inv _ _ _ HG)|exact Hk].
  Qed.

  Lemma prepend_sim st sst l c h st' :
    R st sst -> do_prepend W st l c h = Some st' -> wrapped st' = false ->
    exists sst', s_add sst l c h (fun n es => n :: es) = Some sst' /\ R st' sst' /\ Ext st sst st' sst'.
  Proof.
    intros HR H Hw. unfold do_prepend in H.
    destruct (alloc_node W st l c) as [[[st1 g] n]|] eqn:Ea; [|discriminate].
    destruct (with_group st1 g (fun gr => g_link_front gr n)) as [st2|] eqn:Ew; [|discriminate].
    inversion H; subst st'. clear H.
    destruct (alloc_node_list _ _ _ _ Ea) as [o Hl].
    destruct (r_grp _ _ _ HR l o Hl) as [gr [sgr [Hg [Hsg [HG _]]]]].
    apply (add_step st sst l o gr sgr c h g_link_front (fun n es => n :: es) [] (map fst (ents sgr)) st1 g n st2); auto.
    - intros e x Hin. destruct Hin as [X|X]; auto.
    - intros k Hk. apply link_front_inv; [apply (gr_inv _ _ _ HG)|exact Hk].
  Qed.

  Lemma map_fst_ins_before b0 e es a r :
    map fst es = a ++ b0 :: r -> ~ In b0 a -> map fst (ins_before b0 e es) = a ++ fst e :: b0 :: r.
  Proof.
    revert a. induction es as [|[x cx] t IH]; intros a H Ha; simpl in *.
    - destruct a; discriminate.
    - destruct a as [|y a']; simpl in H; injection H as E1 E2.
      + subst x. rewrite Nat.eqb_refl. simpl. rewrite E2. reflexivity.
      + subst x. destruct (Nat.eqb_spec b0 y) as [->|Hne]; [exfalso; apply Ha; left; reflexivity|].
        simpl. f_equal. apply IH; [exact E2|]. intro X; apply Ha; right; exact X.
  Qed.

  Lemma in_ins_before b0 e es x : In x (ins_before b0 e es) -> x = e \/ In x es.
  Proof.
    induction es as [|[y cy] t IH]; simpl.
    - intros [X|[]]; auto.
    - destruct (Nat.eqb b0 y); simpl.
      + intros [X|[X|X]]; auto.
      + intros [X|X]; auto. destruct (IH X); auto.
  Qed.

  Lemma insert_sim st sst l c hb h st' :
    R st sst -> do_insert W chkR chkI chkO st l c hb h = Some st' -> wrapped st' = false ->
    exists sst', s_step behav (fun _ _ => None) sst (Insert l c hb h) = Some sst' /\ R st' sst' /\ Ext st sst st' sst'.
  Proof.
    intros HR H Hw. unfold do_insert in H. simpl.
    destruct (get_list st l) as [o|] eqn:Hl; [|discriminate].
    destruct (r_grp _ _ _ HR l o Hl) as [gr [sgr [Hg [Hsg [HG _]]]]].
    rewrite (r_get_list W st sst l HR), Hl. simpl. rewrite Hsg.
    assert (CA := classify_agree st sst l o gr sgr (get_reg st hb) HR Hl Hg Hsg).
    assert (Ereg : s_get_reg sst hb = get_reg st hb) by (unfold s_get_reg, get_reg; rewrite (r_regs _ _ _ HR); reflexivity).
    rewrite Ereg.
    destruct (classify chkR chkI chkO st o (get_reg st hb)) as [|b0 bn| |] eqn:Ec;
      destruct (s_classify sst (lg o) sgr (get_reg st hb)) as [|e0| |] eqn:Es; try contradiction; try discriminate.
    - apply (append_sim st sst l c h st' HR H Hw).
    - (* before a live callback *)
      destruct CA as [<- [Hb [Hbl Hbin]]].
      destruct (alloc_node W st l c) as [[[st1 g] n]|] eqn:Ea; [|discriminate].
      destruct (get_group st1 g) as [gr1|] eqn:Eg1; [|discriminate].
      destruct (nth_error (heap gr1) b0) as [bn1|] eqn:Eb1; [|discriminate].
      destruct (in_split _ _ Hbin) as [a [r Eids]].
      assert (Hids := gr_inv _ _ _ HG). rewrite Eids in Hids.
      destruct (nodup_split_notin _ _ _ (gi_nodup _ _ Hids)) as [Hba _].
      (* the re-read node is the same live node *)
      assert (Hu : usable chkI bn1 = true).
      { destruct (with_group st1 g _) as [st2|] eqn:Ew in H; [|discriminate].
        inversion H; subst st'. simpl in Hw.
        assert (Hw2 : wrapped st2 = false) by exact Hw.
        destruct (usable chkI bn1) eqn:Eu; [reflexivity|exfalso].
        destruct (alloc_then_link st sst l o gr c g_link_back st1 g n st2 HR Hl Hg Ea Ew Hw2) as [-> [-> [k [_ [_ [_ [_ G1]]]]]]].
        rewrite Eg1 in G1. inversion G1; subst gr1. unfold g_alloc in Eb1. simpl in Eb1.
        rewrite nth_error_snoc in Eb1.
        assert (b0 < length (heap gr)) by (apply nth_error_Some; rewrite Hb; discriminate).
        destruct (Nat.eqb_spec b0 (length (heap gr))); [lia|]. rewrite Hb in Eb1. inversion Eb1; subst bn1.
        unfold usable, GenCL.insert_checks_removed in Eu. apply negb_false_iff in Eu. apply N.eqb_eq in Eu. apply Hbl. exact Eu. }
      rewrite Hu in H.
      destruct (with_group st1 g (fun gr2 => g_link_before gr2 n b0)) as [st2|] eqn:Ew; [|discriminate].
      inversion H; subst st'. clear H.
      apply (add_step st sst l o gr sgr c h (fun x m => g_link_before x m b0) (fun n0 es => ins_before b0 n0 es) a (b0 :: r) st1 g n st2); auto.
      + intros e. apply map_fst_ins_before; auto.
      + intros e x. apply in_ins_before.
      + intros k Hk. apply link_before_inv; auto.
    - (* before a removed callback whose node is still around: append *)
      destruct CA as [Hb Hbd].
      destruct (alloc_node W st l c) as [[[st1 g] n]|] eqn:Ea; [|discriminate].
      destruct (get_group st1 g) as [gr1|] eqn:Eg1; [|discriminate].
      destruct (nth_error (heap gr1) b0) as [bn1|] eqn:Eb1; [|discriminate].
      assert (Hu : usable chkI bn1 = false).
      { destruct (with_group st1 g _) as [st2|] eqn:Ew in H; [|discriminate].
        inversion H; subst st'. simpl in Hw.
        assert (Hw2 : wrapped st2 = false) by exact Hw.
        destruct (usable chkI bn1) eqn:Eu; [exfalso|reflexivity].
        destruct (alloc_then_link st sst l o gr c (fun x m => g_link_before x m b0) st1 g n st2 HR Hl Hg Ea Ew Hw2) as [-> [-> [k [_ [_ [_ [_ G1]]]]]]].
        rewrite Eg1 in G1. inversion G1; subst gr1. unfold g_alloc in Eb1. simpl in Eb1.
        rewrite nth_error_snoc in Eb1.
        assert (b0 < length (heap gr)) by (apply nth_error_Some; rewrite Hb; discriminate).
        destruct (Nat.eqb_spec b0 (length (heap gr))); [lia|]. rewrite Hb in Eb1. inversion Eb1; subst bn1.
        unfold usable, GenCL.insert_checks_removed in Eu. apply negb_true_iff in Eu. apply N.eqb_neq in Eu. apply Hbd. exact Eu. }
      rewrite Hu in H.
      assert (H' : do_append W st l c h = Some st').
      { unfold do_append. rewrite Ea. exact H. }
      apply (append_sim st sst l c h st' HR H' Hw).
    - apply (append_sim st sst l c h st' HR H Hw).
  Qed.

  (* ---------- log / remove / ownsHandle / empty ---------- *)

  Lemma log_sim st sst e : R st sst -> R (log st e) (s_log sst e) /\ Ext st sst (log st e) (s_log sst e).
  Proof.
    intros HR. split.
    - apply (R_irrel W st sst); auto; simpl.
      + apply (r_pinown _ _ _ HR).
      + apply (r_pins _ _ _ HR).
      + apply (r_regs _ _ _ HR).
      + apply (r_acts _ _ _ HR).
      + rewrite (r_trace _ _ _ HR). reflexivity.
    - apply ext_irrel; reflexivity.
  Qed.

  Lemma remove_handle_sim st sst l hv st' b :
    R st sst -> s_get_reg sst = get_reg st ->
    do_remove_handle chkR chkI chkO st l hv = Some (st', b) ->
    exists sst', s_remove_handle sst l hv = Some (sst', b) /\ R st' sst' /\ Ext st sst st' sst'.
  Proof.
    intros HR _ H. unfold do_remove_handle in H. unfold s_remove_handle.
    destruct (get_list st l) as [o|] eqn:Hl; [|discriminate].
    destruct (r_grp _ _ _ HR l o Hl) as [gr [sgr [Hg [Hsg [HG _]]]]].
    rewrite (r_get_list W st sst l HR), Hl. simpl. rewrite Hsg.
    assert (CA := classify_agree st sst l o gr sgr hv HR Hl Hg Hsg).
    destruct (classify chkR chkI chkO st o hv) as [|x xn| |] eqn:Ec;
      destruct (s_classify sst (lg o) sgr hv) as [|e0| |] eqn:Es; try contradiction; try discriminate.
    - inversion H; subst. exists sst. split; [reflexivity|]. split; [exact HR|apply ext_refl].
    - destruct CA as [<- [Hx [Hxl Hxin]]].
      assert (Hu : usable chkR xn = true).
      { unfold usable, GenCL.remove_checks_removed. apply negb_true_iff. apply N.eqb_neq. exact Hxl. }
      rewrite Hu in H. unfold with_group in H. rewrite Hg in H. inversion H; subst st' b.
      eexists. split; [reflexivity|]. apply (remove_sim W st sst l o gr sgr x HR Hl Hg Hsg Hxin).
    - destruct CA as [Hx Hxd].
      assert (Hu : usable chkR xn = false).
      { unfold usable, GenCL.remove_checks_removed. apply negb_false_iff. apply N.eqb_eq.
        destruct (N.eq_dec (ctr xn) GenCL.removed_marker) as [E|NE]; [exact E|exfalso; apply Hxd; exact NE]. }
      rewrite Hu in H. inversion H; subst. exists sst. split; [reflexivity|]. split; [exact HR|apply ext_refl].
    - inversion H; subst. exists sst. split; [reflexivity|]. split; [exact HR|apply ext_refl].
  Qed.

  Lemma walk_prev_top h : forall (a : list nat) x r k,
    lchain h None (a ++ x :: r) -> length a < k ->
    walk_prev k h x = hd_error (a ++ x :: r).
  Proof.
    intros a. induction a as [|y a IH] using rev_ind; intros x r k H Hk.
    - simpl in *. destruct H as [xn [Hx [_ [Hp _]]]]. destruct k; [lia|]. simpl. rewrite Hx, Hp. reflexivity.
    - rewrite app_length in Hk. simpl in Hk.
      destruct (lchain_split _ _ _ _ _ H) as [xn [Hx [_ [_ Hp]]]].
      rewrite last_opt_app in Hp.
      destruct k; [lia|]. simpl. rewrite Hx, Hp.
      rewrite <- app_assoc in *. simpl in *.
      apply IH; [exact H|lia].
  Qed.

  Lemma owns_live gr ids x : GInv gr ids -> In x ids ->
    walk_prev (S (length (heap gr))) (heap gr) x = ghead gr.
  Proof.
    intros G Hin. destruct (in_split _ _ Hin) as [a [r E]]. subst ids.
    rewrite (walk_prev_top (heap gr) a x r (S (length (heap gr))) (gi_chain _ _ G)).
    - symmetry. apply (gi_head _ _ G).
    - assert (L := ginv_length _ _ G). rewrite app_length in L. simpl in L. lia.
  Qed.

  Lemma owns_sim st sst l hv b :
    R st sst -> do_owns chkR chkI chkO st l hv = Some b ->
    exists g sgr, s_get_list sst l = Some g /\ s_get_group sst g = Some sgr /\
      match s_classify sst g sgr hv with SForeign => False | SLive _ => b = true | _ => b = false end.
  Proof.
    intros HR H. unfold do_owns in H.
    destruct (get_list st l) as [o|] eqn:Hl; [|discriminate].
    destruct (r_grp _ _ _ HR l o Hl) as [gr [sgr [Hg [Hsg [HG _]]]]].
    exists (lg o), sgr. rewrite (r_get_list W st sst l HR), Hl. split; [reflexivity|]. split; [exact Hsg|].
    assert (CA := classify_agree st sst l o gr sgr hv HR Hl Hg Hsg).
    destruct (classify chkR chkI chkO st o hv) as [|x xn| |] eqn:Ec;
      destruct (s_classify sst (lg o) sgr hv) as [|e0| |] eqn:Es; try contradiction; try discriminate;
      try (inversion H; reflexivity).
    - destruct CA as [<- [Hx [Hxl Hxin]]].
      assert (Hu : usable chkO xn = true).
      { unfold usable, GenCL.owns_checks_removed. apply negb_true_iff. apply N.eqb_neq. exact Hxl. }
      rewrite Hu, Hg in H. rewrite (owns_live gr _ x (gr_inv _ _ _ HG) Hxin) in H.
      destruct (ghead gr) as [hd|] eqn:Eh.
      + inversion H. simpl. apply Nat.eqb_refl.
      + exfalso. rewrite (gi_head _ _ (gr_inv _ _ _ HG)) in Eh. destruct (map fst (ents sgr)); [destruct Hxin|discriminate].
    - destruct CA as [Hx Hxd].
      assert (Hu : usable chkO xn = false).
      { unfold usable, GenCL.owns_checks_removed. apply negb_false_iff. apply N.eqb_eq.
        destruct (N.eq_dec (ctr xn) GenCL.removed_marker) as [E|NE]; [exact E|exfalso; apply Hxd; exact NE]. }
      rewrite Hu in H. inversion H; reflexivity.
  Qed.

  Lemma empty_sim st sst l b :
    R st sst -> do_empty st l = Some b ->
    exists es, s_content sst l = Some es /\ b = (match es with [] => true | _ => false end).
  Proof.
    intros HR H. unfold do_empty in H. unfold s_content.
    destruct (get_list st l) as [o|] eqn:Hl; [|discriminate].
    destruct (r_grp _ _ _ HR l o Hl) as [gr [sgr [Hg [Hsg [HG _]]]]].
    rewrite (r_get_list W st sst l HR), Hl. simpl. rewrite Hsg. rewrite Hg in H.
    exists (ents sgr). split; [reflexivity|]. inversion H.
    rewrite (gi_head _ _ (gr_inv _ _ _ HG)). destruct (ents sgr) as [|[e c] t]; reflexivity.
  Qed.

  (* ---------- the invocation loop ---------- *)

  Definition core (c : cmd) : bool :=
    match c with
    | Append _ _ _ | Prepend _ _ _ | Insert _ _ _ _ | Remove _ _ | Owns _ _ | Empty _ | Invoke _ _
    | ForEach _ | ForEachIf _ _ | HasL _ _ | HasAny _ | RemoveL _ _ => true
    | _ => false
    end.

  Definition core_prog (cs : list cmd) : Prop := Forall (fun c => core c = true) cs.
  Definition core_behav : Prop := forall c n, core_prog (behav c n).

  (* callbacks only run core commands (no copy/move/swap/destroy from inside a callback) *)
  Hypothesis Hbehav : core_behav.

  Definition SimRec (rec : state -> list cmd -> option state) (srec : sstate -> list cmd -> option sstate) : Prop :=
    forall st sst cs st', core_prog cs -> R st sst -> rec st cs = Some st' -> wrapped st' = false ->
      exists sst', srec sst cs = Some sst' /\ R st' sst' /\ Ext st sst st' sst'.

  Definition MonoRec (rec : state -> list cmd -> option state) : Prop :=
    forall st cs st', core_prog cs -> rec st cs = Some st' -> wrapped st = true -> wrapped st' = true.

  Lemma s_invoke_skip srec sst g sgr pre rest a :
    s_get_group sst g = Some sgr -> filter (alive sgr) pre = [] ->
    s_invoke behav srec sst g (pre ++ rest) a = s_invoke behav srec sst g rest a.
  Proof.
    intros Hg. induction pre as [|[e c] t IH]; intros Hf; simpl; [reflexivity|].
    simpl in Hf. unfold alive at 1 in Hf. simpl in Hf. rewrite Hg.
    destruct (has_ent e (ents sgr)); [discriminate|]. apply IH; exact Hf.
  Qed.

  Lemma member_next gr ids a n b :
    GInv gr ids -> ids = a ++ n :: b ->
    exists nd, nth_error (heap gr) n = Some nd /\ live nd /\ nxt nd = hd_error b /\
      first_live (heap gr) (hd_error b) (hd_error b) /\ sfrom_o (hd_error b) ids = b /\ sfrom n ids = n :: b.
  Proof.
    intros G E. destruct (ginv_member _ _ G a n b E) as [nd [H1 [H2 [H3 _]]]].
    exists nd. split; [exact H1|]. split; [exact H2|]. split; [exact H3|].
    assert (Hnd := gi_nodup _ _ G). rewrite E in Hnd.
    split; [|split].
    - destruct b as [|s b']; simpl; [constructor|].
      destruct (lchain_in _ _ _ (gi_chain _ _ G) s) as [sn [A B]]; [rewrite E; apply in_or_app; right; right; left; reflexivity|].
      eapply fl_live; eauto.
    - rewrite E. apply sfrom_o_hd_tail; exact Hnd.
    - rewrite E. apply sfrom_split. apply (nodup_split_notin _ _ _ Hnd).
  Qed.

  Lemma ext_sandwich st sst st1 sst1 st2 sst2 st3 sst3 :
    groups st1 = groups st -> lists st1 = lists st -> sgroups sst1 = sgroups sst ->
    Ext st1 sst1 st2 sst2 ->
    groups st3 = groups st2 -> lists st3 = lists st2 -> sgroups sst3 = sgroups sst2 ->
    pins st3 = pins st ->
    Ext st sst st3 sst3.
  Proof.
    intros A1 A2 A3 E B1 B2 B3 P. constructor.
    - intros g c capt todo F. apply (frame_irrel st2 sst2); auto.
      apply (e_frames _ _ _ _ E). apply (frame_irrel st sst); auto.
    - intros g sgr sgr' e H1 H2. unfold s_get_group in *. rewrite <- A3 in H1. rewrite B3 in H2.
      apply (e_dead _ _ _ _ E g sgr sgr' e H1 H2).
    - intros g gr n nd H1 H2. unfold get_group in H1. rewrite <- A1 in H1.
      destruct (e_node _ _ _ _ E g gr n nd H1 H2) as [gr' [nd' [C D]]]. exists gr', nd'.
      unfold get_group in *. rewrite B1. auto.
    - exact P.
    - intros l. unfold get_list. rewrite B2, <- A2. apply (e_own _ _ _ _ E l).
  Qed.

  Lemma visit_cond_false_cases cn capt :
    GenCL.visit_cond cn capt = false -> cn = GenCL.removed_marker \/ (cn <> GenCL.removed_marker /\ (capt < cn)%N).
  Proof.
    unfold GenCL.visit_cond. intros H. apply andb_false_iff in H. destruct H as [H|H].
    - apply negb_false_iff in H. apply N.eqb_eq in H. left; exact H.
    - apply N.leb_gt in H. destruct (N.eq_dec cn GenCL.removed_marker); [left; auto|right; auto].
  Qed.

  Lemma visit_cond_true_cases cn capt :
    GenCL.visit_cond cn capt = true -> cn <> GenCL.removed_marker /\ (cn <= capt)%N.
  Proof.
    unfold GenCL.visit_cond. intros H. apply andb_true_iff in H. destruct H as [H1 H2].
    apply negb_true_iff in H1. apply N.eqb_neq in H1. apply N.leb_le in H2. auto.
  Qed.

  (* from a frame on a live node to the frame on its successor, nothing visited *)
  Lemma frame_step_skip st sst g n capt todo gr nd :
    R st sst -> Frame st sst g (Some n) capt todo ->
    get_group st g = Some gr -> nth_error (heap gr) n = Some nd ->
    (~ live nd \/ (capt < ctr nd)%N) ->
    Frame st sst g (nxt nd) capt todo.
  Proof.
    intros HR [gr0 [sgr [m [l [o [F1 [F2 [F3 [F4 [F5 [F6 [F7 F8]]]]]]]]]]]] Hg Hn Hc.
    rewrite Hg in F1; inversion F1; subst gr0.
    destruct (r_grp _ _ _ HR l o F6) as [gr1 [sgr1 [G1 [G2 [HG _]]]]]. rewrite F7 in G1, G2.
    rewrite Hg in G1; inversion G1; subst gr1. rewrite F2 in G2; inversion G2; subst sgr1.
    assert (G := gr_inv _ _ _ HG).
    destruct (live_dec nd) as [Hl|Hd].
    - destruct Hc as [Hc|Hc]; [contradiction|].
      assert (m = Some n). { apply (first_live_fun _ _ _ F3). eapply fl_live; eauto. } subst m.
      assert (Hin := gi_live _ _ G n nd Hn Hl). destruct (in_split _ _ Hin) as [a [b E]].
      destruct (member_next gr _ a n b G E) as [nd' [A1 [A2 [A3 [A4 [A5 A6]]]]]].
      rewrite Hn in A1; inversion A1; subst nd'.
      exists gr, sgr, (hd_error b), l, o. rewrite A3.
      split; [exact Hg|]. split; [exact F2|]. split; [exact A4|]. split; [|auto].
      rewrite A5. simpl in F4. rewrite A6 in F4. simpl in F4.
      assert (Ho : oldb (heap gr) capt n = false). { unfold oldb. rewrite Hn. apply N.leb_gt. exact Hc. }
      rewrite Ho in F4. exact F4.
    - inversion F3; subst; match goal with H : nth_error (heap gr) n = Some ?x |- _ => rewrite Hn in H; inversion H; subst end; try contradiction.
      exists gr, sgr, m, l, o. auto 10.
  Qed.

  (* the ghost flag `wrapped` is never reset *)
  Lemma do_remove_handle_wrapped st l hv st' b :
    do_remove_handle chkR chkI chkO st l hv = Some (st', b) -> wrapped st' = wrapped st.
  Proof.
    unfold do_remove_handle, with_group. intros H.
    destruct (get_list st l) as [o|]; [|discriminate].
    destruct (classify chkR chkI chkO st o hv); try discriminate; try (inversion H; reflexivity).
    destruct (usable chkR nd); [|inversion H; reflexivity].
    destruct (get_group st (lg o)); [|discriminate]. inversion H; reflexivity.
  Qed.

  Lemma visit_mono rec (HM : MonoRec rec) m st l g n nd acc st' acc' b :
    visit chkR chkI chkO behav rec m st l g n nd acc = Some (st', acc', b) -> wrapped st = true -> wrapped st' = true.
  Proof.
    intros H Hw. destruct m; simpl in H.
    - destruct (rec _ _) as [st2|] eqn:Er; [|discriminate]. inversion H; subst. apply (HM _ _ _ (Hbehav _ _) Er). exact Hw.
    - inversion H; subst; exact Hw.
    - inversion H; subst; exact Hw.
    - destruct (Nat.eqb (cb nd) c); inversion H; subst; exact Hw.
    - inversion H; subst; exact Hw.
    - destruct (Nat.eqb (cb nd) c); [|inversion H; subst; exact Hw].
      destruct (do_remove_handle chkR chkI chkO st l (Some (g, n))) as [[s1 b1]|] eqn:Ed; [|discriminate].
      inversion H; subst. rewrite (do_remove_handle_wrapped _ _ _ _ _ Ed). exact Hw.
  Qed.

  Lemma trav_mono rec (HM : MonoRec rec) m l g capt :
    forall k st c acc st' acc' b,
      trav chkR chkI chkO behav rec k m st l g c capt acc = Some (st', acc', b) -> wrapped st = true -> wrapped st' = true.
  Proof.
    induction k as [|k IH]; intros st c acc st' acc' b H Hw.
    - destruct c; simpl in H; [discriminate|]. inversion H; subst; exact Hw.
    - destruct c as [n|]; simpl in H; [|inversion H; subst; exact Hw].
      destruct (get_group st g) as [gr|]; [|discriminate].
      destruct (nth_error (heap gr) n) as [nd|]; [|discriminate].
      destruct (GenCL.visit_cond (ctr nd) capt).
      + destruct (visit chkR chkI chkO behav rec m (set_pins st ((g, n) :: pins st)) l g n nd acc) as [[[s1 a1] cont]|] eqn:Ev; [|discriminate].
        assert (W1 : wrapped s1 = true) by (apply (visit_mono rec HM _ _ _ _ _ _ _ _ _ _ Ev); exact Hw).
        destruct cont.
        * destruct (get_group (set_pins s1 (pins st)) g) as [gr2|]; [|discriminate].
          destruct (nth_error (heap gr2) n) as [nd2|]; [|discriminate].
          apply (IH _ _ _ _ _ _ H). exact W1.
        * inversion H; subst. exact W1.
      + apply (IH _ _ _ _ _ _ H). exact Hw.
  Qed.

  Lemma not_true_false b : (b = true -> False) -> b = false.
  Proof. destruct b; intros H; [exfalso; apply H; reflexivity|reflexivity]. Qed.

  Lemma trav_invoke_sim rec srec a l (HS : SimRec rec srec) (HM : MonoRec rec) :
    forall k st sst g c capt acc todo st' acc' b,
      R st sst -> Frame st sst g c capt todo ->
      trav chkR chkI chkO behav rec k (VInvoke a) st l g c capt acc = Some (st', acc', b) -> wrapped st' = false ->
      exists sst', s_invoke behav srec sst g todo a = Some sst' /\ R st' sst' /\ Ext st sst st' sst'.
  Proof.
    induction k as [|k IH]; intros st sst g c capt acc todo st' acc' b HR HF H Hw.
    - (* no fuel: only the empty cursor returns *)
      destruct c as [n|]; simpl in H; [discriminate|]. inversion H; subst st' acc' b.
      destruct HF as [gr [sgr [m [l0 [o [F1 [F2 [F3 [F4 _]]]]]]]]]. inversion F3; subst m. simpl in F4.
      exists sst. split; [|split; [exact HR|apply ext_refl]].
      assert (Ef : filter (alive sgr) todo = []) by (destruct (filter (alive sgr) todo); [reflexivity|discriminate]).
      rewrite <- (app_nil_r todo). rewrite (s_invoke_skip srec sst g sgr todo [] a F2 Ef). reflexivity.
    - destruct c as [n|].
      2:{ simpl in H. inversion H; subst st' acc' b.
          destruct HF as [gr [sgr [m [l0 [o [F1 [F2 [F3 [F4 _]]]]]]]]]. inversion F3; subst m. simpl in F4.
          exists sst. split; [|split; [exact HR|apply ext_refl]].
          assert (Ef : filter (alive sgr) todo = []) by (destruct (filter (alive sgr) todo); [reflexivity|discriminate]).
          rewrite <- (app_nil_r todo). rewrite (s_invoke_skip srec sst g sgr todo [] a F2 Ef). reflexivity. }
      simpl in H.
      destruct HF as [gr [sgr [m [l0 [o [F1 [F2 [F3 [F4 [F5 [F6 [F7 F8]]]]]]]]]]]].
      assert (HF : Frame st sst g (Some n) capt todo) by (exists gr, sgr, m, l0, o; auto 10).
      rewrite F1 in H.
      assert (exists nd, nth_error (heap gr) n = Some nd) as [nd Hn] by (inversion F3; eauto).
      rewrite Hn in H.
      destruct (GenCL.visit_cond (ctr nd) capt) eqn:Ev.
      + (* visited *)
        destruct (visit_cond_true_cases _ _ Ev) as [Hlv Hold].
        simpl in H.
        set (st1 := bump_act (log (set_pins st ((g, n) :: pins st)) (ECall (cb nd) a)) (cb nd)) in H.
        destruct (rec st1 (behav (cb nd) (get_act st1 (cb nd)))) as [st2|] eqn:Er; [|discriminate].
        simpl in H.
        set (st3 := set_pins st2 (pins st)) in H.
        destruct (get_group st3 g) as [gr2|] eqn:Eg2; [|discriminate].
        destruct (nth_error (heap gr2) n) as [nd2|] eqn:En2; [|discriminate].
        (* the frame before the visit, unpacked *)
        destruct (r_grp _ _ _ HR l0 o F6) as [gr1 [sgr1 [G1 [G2 [HG _]]]]]. rewrite F7 in G1, G2.
        rewrite F1 in G1; inversion G1; subst gr1. rewrite F2 in G2; inversion G2; subst sgr1.
        assert (G := gr_inv _ _ _ HG).
        assert (m = Some n). { apply (first_live_fun _ _ _ F3). eapply fl_live; eauto. } subst m.
        assert (Hin := gi_live _ _ G n nd Hn Hlv). destruct (in_split _ _ Hin) as [a0 [b0 E0]].
        destruct (member_next gr _ a0 n b0 G E0) as [nd' [A1 [A2 [A3 [A4 [A5 A6]]]]]].
        rewrite Hn in A1; inversion A1; subst nd'.
        simpl in F4. rewrite A6 in F4. simpl in F4.
        assert (Ho : oldb (heap gr) capt n = true). { unfold oldb. rewrite Hn. apply N.leb_le. exact Hold. }
        rewrite Ho in F4. symmetry in F4.
        destruct (todo_split _ _ _ _ F4) as [pre [cc [todo' [Et [Epre [Ealive Erest]]]]]].
        assert (Hcc : cc = cb nd).
        { destruct (F5 n cc) as [ndx [X1 X2]]; [rewrite Et; apply in_or_app; right; left; reflexivity|].
          rewrite Hn in X1; inversion X1; subst; auto. }
        subst cc.
        (* spec: skip the dead prefix, call the entry *)
        set (sst1 := s_bump_act (s_log (s_set_pins sst (g :: spins sst)) (ECall (cb nd) a)) (cb nd)).
        assert (HR1 : R st1 sst1).
        { apply (R_irrel W st sst); auto; simpl.
          - intros g' n' [X|X]; [inversion X; subst; exists l0, o; auto|apply (r_pinown _ _ _ HR g' n' X)].
          - rewrite (r_pins _ _ _ HR). reflexivity.
          - apply (r_regs _ _ _ HR).
          - unfold s_get_act, get_act. simpl. rewrite (r_acts _ _ _ HR). reflexivity.
          - rewrite (r_trace _ _ _ HR). reflexivity. }
        assert (Hw2 : wrapped st2 = false).
        { apply not_true_false. intro Ew2.
          assert (X : wrapped st3 = true) by exact Ew2.
          rewrite (trav_mono rec HM _ _ _ _ _ _ _ _ _ _ _ H X) in Hw. discriminate. }
        assert (Eact : s_get_act sst1 (cb nd) = get_act st1 (cb nd)).
        { unfold s_get_act, get_act, sst1, st1. simpl. rewrite Nat.eqb_refl. unfold s_get_act, get_act. simpl.
          rewrite (r_acts _ _ _ HR). reflexivity. }
        destruct (HS st1 sst1 _ st2 (Hbehav _ _) HR1 Er Hw2) as [sst2 [Es2 [HR2 Ex12]]].
        set (sst3 := s_set_pins sst2 (spins sst)).
        assert (HR3 : R st3 sst3).
        { apply (R_irrel W st2 sst2); auto; simpl.
          - intros g' n' X. apply (r_pinown _ _ _ HR2 g' n'). rewrite (e_pins _ _ _ _ Ex12). right; exact X.
          - apply (r_pins _ _ _ HR).
          - apply (r_regs _ _ _ HR2).
          - apply (r_acts _ _ _ HR2).
          - apply (r_trace _ _ _ HR2). }
        assert (Ex03 : Ext st sst st3 sst3).
        { apply (ext_sandwich st sst st1 sst1 st2 sst2 st3 sst3); auto. }
        (* the frame after the visit *)
        assert (HF3 : Frame st3 sst3 g (Some n) capt todo) by (apply (e_frames _ _ _ _ Ex03); exact HF).
        assert (HFnext : Frame st3 sst3 g (nxt nd2) capt todo').
        { destruct HF3 as [gr3 [sgr3 [m3 [l3 [o3 [K1 [K2 [K3 [K4 [K5 [K6 [K7 K8]]]]]]]]]]]].
          rewrite Eg2 in K1; inversion K1; subst gr3.
          destruct (r_grp _ _ _ HR3 l3 o3 K6) as [gr4 [sgr4 [L1 [L2 [HG3 _]]]]]. rewrite K7 in L1, L2.
          rewrite Eg2 in L1; inversion L1; subst gr4. rewrite K2 in L2; inversion L2; subst sgr4.
          assert (G3 := gr_inv _ _ _ HG3).
          (* prefix entries stay removed *)
          assert (Hsn : forall e c0, In (e, c0) todo -> e < snext sgr).
          { intros e c0 X. destruct (F5 e c0 X) as [ndx [Y _]]. destruct (r_all _ _ _ HR _ _ _ F1 F2) as [_ Z]. rewrite Z.
            apply nth_error_Some. rewrite Y; discriminate. }
          assert (Epre3 : filter (alive sgr3) pre = []).
          { assert (Hp : forall x, In x pre -> alive sgr3 x = false).
            { intros [e c0] X. unfold alive; simpl.
              apply (e_dead _ _ _ _ Ex03 g sgr sgr3 e F2 K2).
              - apply (Hsn e c0). rewrite Et. apply in_or_app; left; exact X.
              - assert (Y : ~ In (e, c0) (filter (alive sgr) pre)) by (rewrite Epre; intros []).
                destruct (has_ent e (ents sgr)) eqn:Z; [|reflexivity]. exfalso. apply Y. apply filter_In. split; [exact X|exact Z]. }
            clear - Hp. induction pre as [|x t IHp]; simpl; [reflexivity|].
            rewrite (Hp x (or_introl eq_refl)). apply IHp. intros y Y; apply Hp; right; exact Y. }
          assert (K4' : filter (oldb (heap gr2) capt) (sfrom_o m3 (map fst (ents sgr3))) =
                        map fst (filter (alive sgr3) ((n, cb nd) :: todo'))).
          { rewrite K4, Et, filter_app, Epre3. reflexivity. }
          assert (K5' : forall e c0, In (e, c0) todo' -> exists ndx, nth_error (heap gr2) e = Some ndx /\ cb ndx = c0).
          { intros e c0 X. apply K5. rewrite Et. apply in_or_app; right; right; exact X. }
          destruct (live_dec nd2) as [Hl2|Hd2].
          - assert (m3 = Some n). { apply (first_live_fun _ _ _ K3). eapply fl_live; eauto. } subst m3.
            assert (Hin2 := gi_live _ _ G3 n nd2 En2 Hl2). destruct (in_split _ _ Hin2) as [a2 [b2 E2]].
            destruct (member_next gr2 _ a2 n b2 G3 E2) as [ndy [B1 [B2 [B3 [B4 [B5 B6]]]]]].
            rewrite En2 in B1; inversion B1; subst ndy.
            simpl in K4'. rewrite B6 in K4'. simpl in K4'.
            assert (Hal : alive sgr3 (n, cb nd) = true) by (unfold alive; simpl; apply has_ent_in; exact Hin2).
            rewrite Hal in K4'.
            assert (Ho2 : oldb (heap gr2) capt n = true).
            { unfold oldb. rewrite En2. apply N.leb_le.
              destruct (e_node _ _ _ _ Ex03 g gr n nd F1 Hn) as [grx [ndx [X1 [X2 [X3 X4]]]]].
              rewrite Eg2 in X1; inversion X1; subst grx. rewrite En2 in X2; inversion X2; subst ndx.
              rewrite (X4 Hl2). exact Hold. }
            rewrite Ho2 in K4'. simpl in K4'. injection K4' as K4'.
            exists gr2, sgr3, (hd_error b2), l3, o3. rewrite B3, B5. auto 10.
          - assert (Hal : alive sgr3 (n, cb nd) = false).
            { unfold alive; simpl. apply has_ent_false. intro X.
              destruct (lchain_in _ _ _ (gi_chain _ _ G3) n X) as [ndy [Y1 Y2]]. rewrite En2 in Y1; inversion Y1; subst; contradiction. }
            simpl in K4'. rewrite Hal in K4'.
            inversion K3; subst; match goal with Hq : nth_error (heap gr2) n = Some ?x |- _ => rewrite En2 in Hq; inversion Hq; subst end; try contradiction.
            exists gr2, sgr3, m3, l3, o3. auto 10. }
        destruct (IH st3 sst3 g (nxt nd2) capt acc todo' st' acc' b HR3 HFnext H Hw) as [sst' [Es' [HR' Ex3']]].
        exists sst'. split; [|split; [exact HR'|apply (ext_trans W st sst st3 sst3 st' sst' HR HR3 Ex03 Ex3')]].
        rewrite Et. rewrite (s_invoke_skip srec sst g sgr pre _ a F2 Epre). simpl. rewrite F2.
        unfold alive in Ealive; simpl in Ealive. rewrite Ealive.
        fold sst1. rewrite Eact, Es2. exact Es'.
      + (* not visited: removed, or added after the invocation started *)
        apply (IH st sst g (nxt nd) capt acc todo st' acc' b HR); auto.
        apply (frame_step_skip st sst g n capt todo gr nd HR HF F1 Hn).
        destruct (visit_cond_false_cases _ _ Ev) as [X|[_ X]]; [left; intro Y; apply Y; exact X|right; exact X].
  Qed.

  (* ---------- enumerations that do not run callbacks: forEach, forEachIf, hasListener, hasAnyListener ---------- *)

  Definition pvisit (m : vmode) (cbn acc : nat) : option (option ev * nat * bool) :=
    match m with
    | VEach => Some (Some (EVisit cbn), acc, true)
    | VEachIf k => Some (Some (EVisit cbn), S acc, Nat.ltb (S acc) k)
    | VHas c => if Nat.eqb cbn c then Some (None, 1, false) else Some (None, acc, true)
    | VAny => Some (None, 1, false)
    | _ => None
    end.

  Definition olog (st : state) (e : option ev) : state := match e with Some x => log st x | None => st end.
  Definition s_olog (st : sstate) (e : option ev) : sstate := match e with Some x => s_log st x | None => st end.

  Fixpoint pfold (m : vmode) (cbs : list nat) (acc : nat) (st : sstate) : sstate * nat * bool :=
    match cbs with
    | [] => (st, acc, true)
    | c :: t =>
        match pvisit m c acc with
        | Some (e, acc', cont) => if cont then pfold m t acc' (s_olog st e) else (s_olog st e, acc', false)
        | None => (st, acc, true)
        end
    end.

  Lemma visit_pure rec m st l g n nd acc e acc' cont :
    pvisit m (cb nd) acc = Some (e, acc', cont) ->
    visit chkR chkI chkO behav rec m (set_pins st ((g, n) :: pins st)) l g n nd acc
    = Some (set_pins (olog st e) ((g, n) :: pins st), acc', cont).
  Proof.
    destruct m; simpl; intros H; try discriminate; try (inversion H; subst; reflexivity).
    destruct (Nat.eqb (cb nd) c); inversion H; subst; reflexivity.
  Qed.

  Lemma olog_sim st sst e : R st sst -> R (olog st e) (s_olog sst e) /\ Ext st sst (olog st e) (s_olog sst e).
  Proof. intros HR. destruct e; simpl; [apply log_sim; exact HR|split; [exact HR|apply ext_refl]]. Qed.

  Definition cbs_of (h : list node) (ns : list nat) : list nat :=
    map (fun n => match nth_error h n with Some nd => cb nd | None => 0 end) ns.

  Lemma trav_pure rec m l g capt gr ids :
    (forall c a, pvisit m c a <> None) ->
    GInv gr ids ->
    forall k st sst c mm acc st' acc' b,
      R st sst -> get_group st g = Some gr -> first_live (heap gr) c mm ->
      (forall y, In y (sfrom_o mm ids) -> oldb (heap gr) capt y = true) ->
      trav chkR chkI chkO behav rec k m st l g c capt acc = Some (st', acc', b) ->
      exists sst', pfold m (cbs_of (heap gr) (sfrom_o mm ids)) acc sst = (sst', acc', b) /\ R st' sst' /\ Ext st sst st' sst'
                   /\ get_group st' g = Some gr.
  Proof.
    intros Hpure G. induction k as [|k IH]; intros st sst c mm acc st' acc' b HR Hg FL Hold H.
    - destruct c as [n|]; simpl in H; [discriminate|]. inversion H; subst. inversion FL; subst. simpl.
      exists sst. split; [reflexivity|]. split; [exact HR|]. split; [apply ext_refl|exact Hg].
    - destruct c as [n|].
      2:{ simpl in H. inversion H; subst. inversion FL; subst. simpl.
          exists sst. split; [reflexivity|]. split; [exact HR|]. split; [apply ext_refl|exact Hg]. }
      simpl in H. rewrite Hg in H.
      assert (exists nd, nth_error (heap gr) n = Some nd) as [nd Hn] by (inversion FL; eauto).
      rewrite Hn in H.
      destruct (live_dec nd) as [Hl|Hd].
      + assert (mm = Some n). { apply (first_live_fun _ _ _ FL). eapply fl_live; eauto. } subst mm.
        assert (Hin := gi_live _ _ G n nd Hn Hl). destruct (in_split _ _ Hin) as [a0 [b0 E0]].
        destruct (member_next gr _ a0 n b0 G E0) as [nd' [A1 [A2 [A3 [A4 [A5 A6]]]]]].
        rewrite Hn in A1; inversion A1; subst nd'.
        simpl sfrom_o in *. rewrite A6 in *.
        assert (Ho : oldb (heap gr) capt n = true) by (apply Hold; left; reflexivity).
        assert (Ev : GenCL.visit_cond (ctr nd) capt = true).
        { unfold GenCL.visit_cond. unfold oldb in Ho. rewrite Hn in Ho. rewrite Ho, andb_true_r.
          apply negb_true_iff. apply N.eqb_neq. exact Hl. }
        rewrite Ev in H. simpl cbs_of. rewrite Hn. simpl pfold.
        destruct (pvisit m (cb nd) acc) as [[[e a1] cont]|] eqn:Ep; [|exfalso; apply (Hpure _ _ Ep)].
        rewrite (visit_pure rec m st l g n nd acc e a1 cont Ep) in H. simpl in H.
        assert (Est : set_pins (set_pins (olog st e) ((g, n) :: pins st)) (pins st) = olog st e).
        { destruct e; destruct st; reflexivity. }
        rewrite Est in H.
        destruct (olog_sim st sst e HR) as [HR1 Ex1].
        assert (Hg1 : get_group (olog st e) g = Some gr) by (destruct e; exact Hg).
        destruct cont.
        * rewrite Hg1, Hn in H. rewrite A3 in H.
          destruct (IH (olog st e) (s_olog sst e) (hd_error b0) (hd_error b0) a1 st' acc' b HR1 Hg1 A4) as [sst' [P1 [P2 [P3 P4]]]]; auto.
          { rewrite A5. intros y Hy. apply Hold. right; exact Hy. }
          rewrite A5 in P1. exists sst'. split; [exact P1|]. split; [exact P2|]. split; [|exact P4].
          apply (ext_trans W st sst (olog st e) (s_olog sst e) st' sst' HR HR1 Ex1 P3).
        * inversion H; subst. exists (s_olog sst e). auto.
      + assert (Ev : GenCL.visit_cond (ctr nd) capt = false).
        { unfold GenCL.visit_cond. apply andb_false_iff. left. apply negb_false_iff. apply N.eqb_eq.
          destruct (N.eq_dec (ctr nd) GenCL.removed_marker) as [X|X]; [exact X|exfalso; apply Hd; exact X]. }
        rewrite Ev in H.
        assert (FL' : first_live (heap gr) (nxt nd) mm).
        { inversion FL; subst; match goal with Hq : nth_error (heap gr) n = Some ?x |- _ => rewrite Hn in Hq; inversion Hq; subst end;
            [contradiction|assumption]. }
        apply (IH st sst (nxt nd) mm acc st' acc' b HR Hg FL' Hold H).
  Qed.

  (* removeListener: stop at the first entry holding callback c and remove it *)
  Fixpoint first_node (h : list node) (c : nat) (ns : list nat) : option nat :=
    match ns with
    | [] => None
    | n :: t => match nth_error h n with
                | Some nd => if Nat.eqb (cb nd) c then Some n else first_node h c t
                | None => first_node h c t
                end
    end.

  Lemma trav_removel rec c0 l o g capt gr ids :
    GInv gr ids -> lg o = g ->
    forall k st sst c mm acc st' acc' b,
      R st sst -> get_list st l = Some o -> get_group st g = Some gr -> first_live (heap gr) c mm ->
      (forall y, In y (sfrom_o mm ids) -> oldb (heap gr) capt y = true) ->
      trav chkR chkI chkO behav rec k (VRemoveL c0) st l g c capt acc = Some (st', acc', b) ->
      match first_node (heap gr) c0 (sfrom_o mm ids) with
      | Some x => In x ids /\ acc' = 1 /\ st' = put_group st g (g_unlink gr x)
      | None => st' = st /\ acc' = acc
      end.
  Proof.
    intros G Hlg. induction k as [|k IH]; intros st sst c mm acc st' acc' b HR Hl Hg FL Hold H.
    - destruct c as [n|]; simpl in H; [discriminate|]. inversion H; subst. inversion FL; subst. simpl. auto.
    - destruct c as [n|].
      2:{ simpl in H. inversion H; subst. inversion FL; subst. simpl. auto. }
      simpl in H. rewrite Hg in H.
      assert (exists nd, nth_error (heap gr) n = Some nd) as [nd Hn] by (inversion FL; eauto).
      rewrite Hn in H.
      destruct (live_dec nd) as [Hlv|Hd].
      + assert (mm = Some n). { apply (first_live_fun _ _ _ FL). eapply fl_live; eauto. } subst mm.
        assert (Hin := gi_live _ _ G n nd Hn Hlv). destruct (in_split _ _ Hin) as [a0 [b0 E0]].
        destruct (member_next gr _ a0 n b0 G E0) as [nd' [A1 [A2 [A3 [A4 [A5 A6]]]]]].
        rewrite Hn in A1; inversion A1; subst nd'.
        simpl sfrom_o in *. rewrite A6 in *.
        assert (Ho : oldb (heap gr) capt n = true) by (apply Hold; left; reflexivity).
        assert (Ev : GenCL.visit_cond (ctr nd) capt = true).
        { unfold GenCL.visit_cond. unfold oldb in Ho. rewrite Hn in Ho. rewrite Ho, andb_true_r.
          apply negb_true_iff. apply N.eqb_neq. exact Hlv. }
        rewrite Ev in H. simpl first_node. rewrite Hn. simpl in H.
        destruct (Nat.eqb (cb nd) c0) eqn:Ec.
        * (* found: remove it through its own handle *)
          unfold do_remove_handle in H. change (get_list (set_pins st ((g, n) :: pins st)) l) with (get_list st l) in H.
          rewrite Hl in H. unfold classify in H.
          change (get_group (set_pins st ((g, n) :: pins st)) g) with (get_group st g) in H. rewrite Hg in H.
          rewrite Hlg, Nat.eqb_refl, Hn in H.
          unfold GenCL.remove_checks_removed, GenCL.insert_checks_removed, GenCL.owns_checks_removed in H. simpl in H.
          assert (Hu : negb (ctr nd =? GenCL.removed_marker)%N = true) by (apply negb_true_iff; apply N.eqb_neq; exact Hlv).
          unfold usable in H. rewrite Hu in H. unfold with_group in H.
          change (get_group (set_pins st ((g, n) :: pins st)) g) with (get_group st g) in H. rewrite Hg in H.
          inversion H; subst. split; [exact Hin|]. split; [reflexivity|]. destruct st; reflexivity.
        * assert (Est : set_pins (set_pins st ((g, n) :: pins st)) (pins st) = st) by (destruct st; reflexivity).
          rewrite Est, Hg, Hn, A3 in H.
          assert (X := IH st sst (hd_error b0) (hd_error b0) acc st' acc' b HR Hl Hg A4).
          rewrite A5 in X. apply X; [|exact H]. intros y Hy. apply Hold. right; exact Hy.
      + assert (Ev : GenCL.visit_cond (ctr nd) capt = false).
        { unfold GenCL.visit_cond. apply andb_false_iff. left. apply negb_false_iff. apply N.eqb_eq.
          destruct (N.eq_dec (ctr nd) GenCL.removed_marker) as [X|X]; [exact X|exfalso; apply Hd; exact X]. }
        rewrite Ev in H.
        assert (FL' : first_live (heap gr) (nxt nd) mm).
        { inversion FL; subst; match goal with Hq : nth_error (heap gr) n = Some ?x |- _ => rewrite Hn in Hq; inversion Hq; subst end;
            [contradiction|assumption]. }
        apply (IH st sst (nxt nd) mm acc st' acc' b HR Hl Hg FL' Hold H).
  Qed.

  (* ---------- traversals started at the head ---------- *)

  Lemma sfrom_o_head ids : sfrom_o (hd_error ids) ids = ids.
  Proof. destruct ids as [|x r]; simpl; [reflexivity|]. rewrite Nat.eqb_refl. reflexivity. Qed.

  Lemma head_first_live gr ids : GInv gr ids -> first_live (heap gr) (ghead gr) (hd_error ids).
  Proof.
    intros G. rewrite (gi_head _ _ G). destruct ids as [|x r]; simpl; [constructor|].
    destruct (lchain_in _ _ _ (gi_chain _ _ G) x (or_introl eq_refl)) as [nd [A B]]. eapply fl_live; eauto.
  Qed.

  Lemma all_old gr sgr cur : GRel gr sgr cur -> forall y, In y (map fst (ents sgr)) -> oldb (heap gr) cur y = true.
  Proof.
    intros HG y Hy. destruct (ginv_in_heap _ _ (gr_inv _ _ _ HG) y Hy) as [nd Hn].
    unfold oldb. rewrite Hn. apply N.leb_le. apply (gr_ctr _ _ _ HG y nd Hn).
  Qed.

  Lemma cbs_of_ents gr sgr cur : GRel gr sgr cur -> cbs_of (heap gr) (map fst (ents sgr)) = map snd (ents sgr).
  Proof.
    intros HG. assert (H := gr_cb _ _ _ HG). revert H. generalize (ents sgr) as es.
    induction es as [|[e c] t IH]; intros H; simpl; [reflexivity|].
    destruct (H e c (or_introl eq_refl)) as [nd [A B]]. rewrite A, B. f_equal. apply IH.
    intros e' c' X. apply H. right; exact X.
  Qed.

  Lemma filter_all_true {A} (f : A -> bool) l : (forall x, In x l -> f x = true) -> filter f l = l.
  Proof.
    induction l as [|x l IH]; intros H; simpl; [reflexivity|].
    rewrite (H x (or_introl eq_refl)). f_equal. apply IH. intros y Y; apply H; right; exact Y.
  Qed.

  Lemma initial_frame st sst l o gr sgr :
    R st sst -> get_list st l = Some o -> get_group st (lg o) = Some gr -> s_get_group sst (lg o) = Some sgr ->
    GRel gr sgr (lcur o) ->
    Frame st sst (lg o) (ghead gr) (lcur o) (ents sgr).
  Proof.
    intros HR Hl Hg Hsg HG. exists gr, sgr, (hd_error (map fst (ents sgr))), l, o.
    split; [exact Hg|]. split; [exact Hsg|]. split; [apply head_first_live; apply (gr_inv _ _ _ HG)|].
    split; [|split; [apply (gr_cb _ _ _ HG)|repeat split; auto; lia]].
    rewrite sfrom_o_head. rewrite (filter_all_true _ _ (all_old gr sgr (lcur o) HG)).
    f_equal. symmetry. apply filter_all_true. intros [e c] X. unfold alive; simpl. apply has_ent_in.
    apply in_map_iff. exists (e, c). auto.
  Qed.

  (* the spec's enumerations are the same folds *)
  Lemma pfold_each es : forall st acc,
    pfold VEach (map snd es) acc st = (fold_left (fun s (e : nat * nat) => s_log s (EVisit (snd e))) es st, acc, true).
  Proof. induction es as [|[e c] t IH]; intros st acc; simpl; [reflexivity|]. apply IH. Qed.

  Lemma pfold_eachif k es : forall st acc,
    pfold (VEachIf k) (map snd es) acc st =
    (fst (visit_upto st es acc k), (if snd (visit_upto st es acc k) then acc + length es else snd (fst (pfold (VEachIf k) (map snd es) acc st))), snd (visit_upto st es acc k)).
  Proof.
    induction es as [|[e c] t IH]; intros st acc; simpl.
    - rewrite Nat.add_0_r. reflexivity.
    - destruct (Nat.ltb (S acc) k) eqn:E.
      + rewrite IH. destruct (visit_upto (s_log st (EVisit c)) t (S acc) k) as [s1 b1] eqn:Ev. simpl.
        destruct b1; [f_equal; f_equal; lia|reflexivity].
      + reflexivity.
  Qed.

  Lemma pfold_has c es : forall st,
    pfold (VHas c) (map snd es) 0 st =
    (st, (match first_cb c es with Some _ => 1 | None => 0 end), (match first_cb c es with Some _ => false | None => true end)).
  Proof.
    induction es as [|[e c'] t IH]; intros st; simpl; [reflexivity|].
    destruct (Nat.eqb c' c); simpl; [reflexivity|apply IH].
  Qed.

  Lemma first_node_first_cb gr sgr cur c :
    GRel gr sgr cur -> first_node (heap gr) c (map fst (ents sgr)) = first_cb c (ents sgr).
  Proof.
    intros HG. assert (H := gr_cb _ _ _ HG). revert H. generalize (ents sgr) as es.
    induction es as [|[e c'] t IH]; intros H; simpl; [reflexivity|].
    destruct (H e c' (or_introl eq_refl)) as [nd [A B]]. rewrite A, B.
    destruct (Nat.eqb c' c); [reflexivity|]. apply IH. intros e' c'' X. apply H. right; exact X.
  Qed.

  (* ---------- one command ---------- *)

  Lemma with_log st sst st1 sst1 e :
    R st sst -> R st1 sst1 -> Ext st sst st1 sst1 ->
    R (log st1 e) (s_log sst1 e) /\ Ext st sst (log st1 e) (s_log sst1 e).
  Proof.
    intros HR HR1 Ex. destruct (log_sim st1 sst1 e HR1) as [A B]. split; [exact A|].
    apply (ext_trans W st sst st1 sst1 _ _ HR HR1 Ex B).
  Qed.

  Lemma traverse_pure_sim rec m k st sst l st' acc' b :
    (forall c a, pvisit m c a <> None) ->
    R st sst -> traverse chkR chkI chkO behav rec k m st l = Some (st', acc', b) ->
    exists es sst', s_content sst l = Some es /\ pfold m (map snd es) 0 sst = (sst', acc', b) /\
                    R st' sst' /\ Ext st sst st' sst'.
  Proof.
    intros Hp HR H. unfold traverse in H. unfold s_content.
    destruct (get_list st l) as [o|] eqn:Hl; [|discriminate].
    destruct (r_grp _ _ _ HR l o Hl) as [gr [sgr [Hg [Hsg [HG _]]]]].
    rewrite Hg in H. rewrite (r_get_list W st sst l HR), Hl. simpl. rewrite Hsg.
    destruct (trav_pure rec m l (lg o) (lcur o) gr _ Hp (gr_inv _ _ _ HG) k st sst (ghead gr) _ 0 st' acc' b HR Hg
                (head_first_live _ _ (gr_inv _ _ _ HG))) as [sst' [P1 [P2 [P3 _]]]]; auto.
    - rewrite sfrom_o_head. apply (all_old gr sgr (lcur o) HG).
    - rewrite sfrom_o_head, (cbs_of_ents gr sgr (lcur o) HG) in P1. exists (ents sgr), sst'. auto.
  Qed.

  Lemma step_sim rec srec k st sst c st' (HS : SimRec rec srec) (HM : MonoRec rec) :
    R st sst -> core c = true -> step W chkR chkI chkO behav rec k st c = Some st' -> wrapped st' = false ->
    exists sst', s_step behav srec sst c = Some sst' /\ R st' sst' /\ Ext st sst st' sst'.
  Proof.
    intros HR Hc H Hw. destruct c; try discriminate; simpl in H.
    - apply (append_sim st sst l c h st' HR H Hw).
    - apply (prepend_sim st sst l c h st' HR H Hw).
    - destruct (insert_sim st sst l c hb h st' HR H Hw) as [sst' [A B]]. exists sst'. split; [|exact B]. exact A.
    - (* Remove *)
      destruct (do_remove_handle chkR chkI chkO st l (get_reg st h)) as [[st1 b]|] eqn:Ed; [|discriminate].
      inversion H; subst st'.
      assert (Ereg : s_get_reg sst = get_reg st).
      { unfold s_get_reg, get_reg. rewrite (r_regs _ _ _ HR). reflexivity. }
      destruct (remove_handle_sim st sst l _ st1 b HR Ereg Ed) as [sst1 [A [B C]]].
      simpl. rewrite Ereg, A. eexists. split; [reflexivity|]. apply (with_log st sst st1 sst1 _ HR B C).
    - (* Owns *)
      destruct (do_owns chkR chkI chkO st l (get_reg st h)) as [b|] eqn:Ed; [|discriminate].
      inversion H; subst st'.
      destruct (owns_sim st sst l _ b HR Ed) as [g [sgr [A [B C]]]].
      assert (Ereg : s_get_reg sst h = get_reg st h).
      { unfold s_get_reg, get_reg. rewrite (r_regs _ _ _ HR). reflexivity. }
      simpl. rewrite A, B, Ereg.
      destruct (s_classify sst g sgr (get_reg st h)); try contradiction; subst b;
        (eexists; split; [reflexivity|apply log_sim; exact HR]).
    - (* Empty *)
      destruct (do_empty st l) as [b|] eqn:Ed; [|discriminate]. inversion H; subst st'.
      destruct (empty_sim st sst l b HR Ed) as [es [A B]]. simpl. rewrite A. subst b.
      eexists; split; [reflexivity|apply log_sim; exact HR].
    - (* Invoke *)
      destruct (traverse chkR chkI chkO behav rec k (VInvoke a) st l) as [[[st1 a1] b1]|] eqn:Et; [|discriminate].
      inversion H; subst st'. unfold traverse in Et.
      destruct (get_list st l) as [o|] eqn:Hl; [|discriminate].
      destruct (r_grp _ _ _ HR l o Hl) as [gr [sgr [Hg [Hsg [HG _]]]]].
      rewrite Hg in Et. simpl. rewrite (r_get_list W st sst l HR), Hl. simpl. rewrite Hsg.
      apply (trav_invoke_sim rec srec a l HS HM k st sst (lg o) (ghead gr) (lcur o) 0 (ents sgr) st1 a1 b1 HR); auto.
      apply (initial_frame st sst l o gr sgr HR Hl Hg Hsg HG).
    - (* ForEach *)
      destruct (traverse chkR chkI chkO behav rec k VEach st l) as [[[st1 a1] b1]|] eqn:Et; [|discriminate].
      inversion H; subst st'.
      destruct (traverse_pure_sim rec VEach k st sst l st1 a1 b1) as [es [sst' [A [B [C D]]]]]; auto.
      { intros c a; discriminate. }
      simpl. rewrite A. rewrite pfold_each in B. inversion B; subst. eexists; split; [reflexivity|auto].
    - (* ForEachIf *)
      destruct (traverse chkR chkI chkO behav rec k (VEachIf k0) st l) as [[[st1 a1] b1]|] eqn:Et; [|discriminate].
      inversion H; subst st'.
      destruct (traverse_pure_sim rec (VEachIf k0) k st sst l st1 a1 b1) as [es [sst' [A [B [C D]]]]]; auto.
      { intros c a; discriminate. }
      simpl. rewrite A. rewrite pfold_eachif in B.
      destruct (visit_upto sst es 0 k0) as [s1 bb] eqn:Ev. simpl in B. inversion B; subst.
      eexists; split; [reflexivity|]. apply (with_log _ _ _ _ _ HR C D).
    - (* HasL *)
      destruct (traverse chkR chkI chkO behav rec k (VHas c) st l) as [[[st1 a1] b1]|] eqn:Et; [|discriminate].
      inversion H; subst st'.
      destruct (traverse_pure_sim rec (VHas c) k st sst l st1 a1 b1) as [es [sst' [A [B [C D]]]]]; auto.
      { intros c1 a; simpl; destruct (Nat.eqb c1 c); discriminate. }
      simpl. rewrite A. rewrite pfold_has in B. inversion B; subst.
      assert (E : Nat.eqb (match first_cb c es with Some _ => 1 | None => 0 end) 1 = match first_cb c es with Some _ => true | None => false end)
        by (destruct (first_cb c es); reflexivity).
      rewrite E. eexists; split; [reflexivity|]. apply (with_log _ _ _ _ _ HR C D).
    - (* HasAny *)
      destruct (traverse chkR chkI chkO behav rec k VAny st l) as [[[st1 a1] b1]|] eqn:Et; [|discriminate].
      inversion H; subst st'.
      destruct (traverse_pure_sim rec VAny k st sst l st1 a1 b1) as [es [sst' [A [B [C D]]]]]; auto.
      { intros c1 a; discriminate. }
      simpl. rewrite A. destruct es as [|[e c1] t]; simpl in B; inversion B; subst;
        (eexists; split; [reflexivity|apply (with_log _ _ _ _ _ HR C D)]).
    - (* RemoveL *)
      destruct (traverse chkR chkI chkO behav rec k (VRemoveL c) st l) as [[[st1 a1] b1]|] eqn:Et; [|discriminate].
      inversion H; subst st'. unfold traverse in Et.
      destruct (get_list st l) as [o|] eqn:Hl; [|discriminate].
      destruct (r_grp _ _ _ HR l o Hl) as [gr [sgr [Hg [Hsg [HG _]]]]].
      rewrite Hg in Et. simpl. rewrite (r_get_list W st sst l HR), Hl. simpl. rewrite Hsg.
      assert (X := trav_removel rec c l o (lg o) (lcur o) gr _ (gr_inv _ _ _ HG) eq_refl k st sst (ghead gr) _ 0 st1 a1 b1 HR Hl Hg
                     (head_first_live _ _ (gr_inv _ _ _ HG))).
      rewrite sfrom_o_head in X. specialize (X (all_old gr sgr (lcur o) HG) Et).
      rewrite (first_node_first_cb gr sgr (lcur o) c HG) in X.
      destruct (first_cb c (ents sgr)) as [x|].
      + destruct X as [Hin [-> ->]].
        destruct (remove_sim W st sst l o gr sgr x HR Hl Hg Hsg Hin) as [A B].
        eexists; split; [reflexivity|]. apply (with_log st sst _ _ _ HR A B).
      + destruct X as [-> ->]. eexists; split; [reflexivity|apply log_sim; exact HR].
  Qed.

  (* ---------- the ghost flag is monotone along every step ---------- *)

  Lemma next_counter_mono st l st1 k : next_counter W st l = Some (st1, k) -> wrapped st = true -> wrapped st1 = true.
  Proof.
    unfold next_counter. intros H Hw. destruct (get_list st l) as [o|]; [|discriminate].
    destruct (GenCL.wrap_test _).
    - destruct (get_group st (lg o)); [|discriminate]. inversion H; reflexivity.
    - inversion H; subst. exact Hw.
  Qed.

  Lemma alloc_node_mono st l c st1 g n : alloc_node W st l c = Some (st1, g, n) -> wrapped st = true -> wrapped st1 = true.
  Proof.
    unfold alloc_node. intros H Hw. destruct (next_counter W st l) as [[s1 k]|] eqn:En; [|discriminate].
    assert (X := next_counter_mono _ _ _ _ En Hw).
    destruct (get_list s1 l) as [o|]; [|discriminate]. destruct (get_group s1 (lg o)); [|discriminate].
    unfold g_alloc in H. inversion H; subst. exact X.
  Qed.

  Lemma with_group_wrapped st g f st1 : with_group st g f = Some st1 -> wrapped st1 = wrapped st.
  Proof. unfold with_group. destruct (get_group st g); intros H; inversion H; reflexivity. Qed.

  Lemma do_append_mono st l c h st' : do_append W st l c h = Some st' -> wrapped st = true -> wrapped st' = true.
  Proof.
    unfold do_append. intros H Hw. destruct (alloc_node W st l c) as [[[s1 g] n]|] eqn:Ea; [|discriminate].
    destruct (with_group s1 g _) as [s2|] eqn:Ew; [|discriminate]. inversion H; subst. simpl.
    rewrite (with_group_wrapped _ _ _ _ Ew). apply (alloc_node_mono _ _ _ _ _ _ Ea Hw).
  Qed.

  Lemma do_prepend_mono st l c h st' : do_prepend W st l c h = Some st' -> wrapped st = true -> wrapped st' = true.
  Proof.
    unfold do_prepend. intros H Hw. destruct (alloc_node W st l c) as [[[s1 g] n]|] eqn:Ea; [|discriminate].
    destruct (with_group s1 g _) as [s2|] eqn:Ew; [|discriminate]. inversion H; subst. simpl.
    rewrite (with_group_wrapped _ _ _ _ Ew). apply (alloc_node_mono _ _ _ _ _ _ Ea Hw).
  Qed.

  Lemma do_insert_mono st l c hb h st' : do_insert W chkR chkI chkO st l c hb h = Some st' -> wrapped st = true -> wrapped st' = true.
  Proof.
    unfold do_insert. intros H Hw. destruct (get_list st l) as [o|]; [|discriminate].
    destruct (classify chkR chkI chkO st o (get_reg st hb)); try discriminate; try (apply (do_append_mono _ _ _ _ _ H Hw)).
    destruct (alloc_node W st l c) as [[[s1 g] n0]|] eqn:Ea; [|discriminate].
    destruct (get_group s1 g); [|discriminate]. destruct (nth_error (heap g0) n); [|discriminate].
    destruct (with_group s1 g _) as [s2|] eqn:Ew; [|discriminate]. inversion H; subst. simpl.
    rewrite (with_group_wrapped _ _ _ _ Ew). apply (alloc_node_mono _ _ _ _ _ _ Ea Hw).
  Qed.

  Lemma traverse_mono rec (HM : MonoRec rec) k m st l st' a b :
    traverse chkR chkI chkO behav rec k m st l = Some (st', a, b) -> wrapped st = true -> wrapped st' = true.
  Proof.
    unfold traverse. intros H Hw. destruct (get_list st l) as [o|]; [|discriminate].
    destruct (get_group st (lg o)); [|discriminate]. apply (trav_mono rec HM _ _ _ _ _ _ _ _ _ _ _ H Hw).
  Qed.

  Lemma step_mono rec (HM : MonoRec rec) k st c st' :
    core c = true -> step W chkR chkI chkO behav rec k st c = Some st' -> wrapped st = true -> wrapped st' = true.
  Proof.
    intros Hc H Hw. destruct c; try discriminate; simpl in H.
    - apply (do_append_mono _ _ _ _ _ H Hw).
    - apply (do_prepend_mono _ _ _ _ _ H Hw).
    - apply (do_insert_mono _ _ _ _ _ _ H Hw).
    - destruct (do_remove_handle chkR chkI chkO st l (get_reg st h)) as [[s1 b]|] eqn:E; [|discriminate].
      inversion H; subst. simpl. rewrite (do_remove_handle_wrapped _ _ _ _ _ E). exact Hw.
    - destruct (do_owns chkR chkI chkO st l (get_reg st h)); [|discriminate]. inversion H; subst. exact Hw.
    - destruct (do_empty st l); [|discriminate]. inversion H; subst. exact Hw.
    - destruct (traverse chkR chkI chkO behav rec k (VInvoke a) st l) as [[[s1 a1] b1]|] eqn:E; [|discriminate].
      inversion H; subst. apply (traverse_mono rec HM _ _ _ _ _ _ _ E Hw).
    - destruct (traverse chkR chkI chkO behav rec k VEach st l) as [[[s1 a1] b1]|] eqn:E; [|discriminate].
      inversion H; subst. apply (traverse_mono rec HM _ _ _ _ _ _ _ E Hw).
    - destruct (traverse chkR chkI chkO behav rec k (VEachIf k0) st l) as [[[s1 a1] b1]|] eqn:E; [|discriminate].
      inversion H; subst. simpl. apply (traverse_mono rec HM _ _ _ _ _ _ _ E Hw).
    - destruct (traverse chkR chkI chkO behav rec k (VHas c) st l) as [[[s1 a1] b1]|] eqn:E; [|discriminate].
      inversion H; subst. simpl. apply (traverse_mono rec HM _ _ _ _ _ _ _ E Hw).
    - destruct (traverse chkR chkI chkO behav rec k VAny st l) as [[[s1 a1] b1]|] eqn:E; [|discriminate].
      inversion H; subst. simpl. apply (traverse_mono rec HM _ _ _ _ _ _ _ E Hw).
    - destruct (traverse chkR chkI chkO behav rec k (VRemoveL c) st l) as [[[s1 a1] b1]|] eqn:E; [|discriminate].
      inversion H; subst. simpl. apply (traverse_mono rec HM _ _ _ _ _ _ _ E Hw).
  Qed.

  (* ---------- sequences and the whole run ---------- *)

  Lemma seqx_mono rec (HM : MonoRec rec) k : forall cs st st',
    core_prog cs -> seqx W chkR chkI chkO behav rec k st cs = Some st' -> wrapped st = true -> wrapped st' = true.
  Proof.
    induction cs as [|c r IH]; intros st st' Hc H Hw; simpl in H.
    - inversion H; subst; exact Hw.
    - inversion Hc; subst.
      destruct (step W chkR chkI chkO behav rec k st c) as [s1|] eqn:E; [|discriminate].
      apply (IH s1 st'); auto. apply (step_mono rec HM _ _ _ _ H2 E Hw).
  Qed.

  Lemma seqx_sim rec srec (HS : SimRec rec srec) (HM : MonoRec rec) k : forall cs st sst st',
    core_prog cs -> R st sst -> seqx W chkR chkI chkO behav rec k st cs = Some st' -> wrapped st' = false ->
    exists sst', s_seqx behav srec sst cs = Some sst' /\ R st' sst' /\ Ext st sst st' sst'.
  Proof.
    induction cs as [|c r IH]; intros st sst st' Hc HR H Hw; simpl in H.
    - inversion H; subst. exists sst. split; [reflexivity|]. split; [exact HR|apply ext_refl].
    - inversion Hc; subst.
      destruct (step W chkR chkI chkO behav rec k st c) as [s1|] eqn:E; [|discriminate].
      assert (Hw1 : wrapped s1 = false).
      { apply not_true_false. intro X. rewrite (seqx_mono rec HM k r s1 st' H3 H X) in Hw. discriminate. }
      destruct (step_sim rec srec k st sst c s1 HS HM HR H2 E Hw1) as [ss1 [A [B C]]].
      destruct (IH s1 ss1 st' H3 B H Hw) as [sst' [D [F G]]].
      exists sst'. simpl. rewrite A. split; [exact D|]. split; [exact F|].
      apply (ext_trans W st sst s1 ss1 st' sst' HR B C G).
  Qed.

  Lemma run_mono : forall fuel, MonoRec (run W chkR chkI chkO behav fuel).
  Proof.
    induction fuel as [|f IH]; intros st cs st' Hc H Hw; simpl in H; [discriminate|].
    apply (seqx_mono _ IH (S f) cs st st' Hc H Hw).
  Qed.

  Lemma run_sim : forall fuel, SimRec (run W chkR chkI chkO behav fuel) (s_run behav fuel).
  Proof.
    induction fuel as [|f IH]; intros st sst cs st' Hc HR H Hw; simpl in H; [discriminate|].
    simpl. apply (seqx_sim _ _ IH (run_mono f) (S f) cs st sst st' Hc HR H Hw).
  Qed.
End Sim.
