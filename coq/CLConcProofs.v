(* CLConcProofs.v — C03 at the level that mutual exclusion gives: every mutating or querying
   call of CallbackList has exactly ONE critical section, in which everything that determines
   its result is read and written.  Whatever the interleaving of the threads, the critical
   sections are executed one at a time in some order; here: for EVERY sequence of sections,
   with ARBITRARY (non-zero) counters — counters are drawn before the mutex is taken, so their
   order need not be the link order — the list stays well formed (GInv) and its content and
   all results are those of the sequential list specification executed in that same order.
   That order respects each thread's program order and the real-time order of
   non-overlapping calls, because every section lies within its call. *)
From Coq Require Import List Arith NArith ZArith Bool Lia.
From EV Require Import CLModel CLHeap CLOps CLRefine.
From EV Require Export CLSec.
From EV.gen Require GenCL.
Import ListNotations.
Local Open Scope nat_scope.

(* the sequential list specification: ids in list order; n = the id the new entry gets *)
Fixpoint ins_before_id (b n : nat) (l : list nat) : list nat :=
  match l with [] => [n] | x :: t => if Nat.eqb b x then n :: x :: t else x :: ins_before_id b n t end.

Definition sec_spec (n : nat) (ids : list nat) (s : sec) : list nat * bool :=
  match s with
  | SBack _ _ => (ids ++ [n], true)
  | SFront _ _ => (n :: ids, true)
  | SBefore _ _ (Some b) => if existsb (Nat.eqb b) ids then (ins_before_id b n ids, true) else (ids ++ [n], true)
  | SBefore _ _ None => (ids ++ [n], true)
  | SRemove (Some x) => if existsb (Nat.eqb x) ids then (filter (neqb x) ids, true) else (ids, false)
  | SRemove None => (ids, false)
  | SOwns (Some x) => (ids, existsb (Nat.eqb x) ids)
  | SOwns None => (ids, false)
  | SEmpty => (ids, match ids with [] => true | _ => false end)
  end.

Definition sec_counter_ok (s : sec) : Prop :=
  match s with SBack _ k | SFront _ k | SBefore _ k _ => k <> GenCL.removed_marker | _ => True end.

Lemma is_live_iff g ids x : GInv g ids -> is_live g x = existsb (Nat.eqb x) ids.
Proof.
  intros G. unfold is_live. destruct (existsb (Nat.eqb x) ids) eqn:E.
  - apply existsb_exists in E. destruct E as [y [Hy E]]. apply Nat.eqb_eq in E. subst y.
    destruct (lchain_in _ _ _ (gi_chain _ _ G) x Hy) as [nd [A B]]. rewrite A.
    apply negb_true_iff. apply N.eqb_neq. exact B.
  - destruct (nth_error (heap g) x) as [nd|] eqn:En; [|reflexivity].
    apply negb_false_iff. apply N.eqb_eq.
    destruct (N.eq_dec (ctr nd) GenCL.removed_marker) as [X|X]; [exact X|exfalso].
    assert (In x ids) by (apply (gi_live _ _ G x nd En X)).
    assert (existsb (Nat.eqb x) ids = true) by (apply existsb_exists; exists x; split; [assumption|apply Nat.eqb_refl]).
    congruence.
Qed.

Lemma ins_before_id_split b n (a r : list nat) : ~ In b a -> ins_before_id b n (a ++ b :: r) = a ++ n :: b :: r.
Proof.
  induction a as [|y a IH]; intros H; simpl.
  - rewrite Nat.eqb_refl. reflexivity.
  - destruct (Nat.eqb_spec b y) as [->|Hne]; [exfalso; apply H; left; reflexivity|].
    f_equal. apply IH. intro X; apply H; right; exact X.
Qed.

(* one section: well-formedness is kept, the content is the specification's, the result agrees *)
Theorem section_refines g ids s :
  GInv g ids -> sec_counter_ok s ->
  GInv (fst (sec_step g s)) (fst (sec_spec (length (heap g)) ids s)) /\
  snd (sec_step g s) = snd (sec_spec (length (heap g)) ids s).
Proof.
  intros G Hk. destruct s as [c k|c k|c k [b|]|[x|]|[x|]|]; simpl in *.
  - split; [|reflexivity]. apply (link_back_inv g ids c k G Hk).
  - split; [|reflexivity]. apply (link_front_inv g ids c k G Hk).
  - rewrite (is_live_iff g ids b G). destruct (existsb (Nat.eqb b) ids) eqn:E; simpl.
    + split; [|reflexivity]. apply existsb_exists in E. destruct E as [y [Hy E]]. apply Nat.eqb_eq in E. subst y.
      destruct (in_split _ _ Hy) as [a [r Eids]]. subst ids.
      destruct (nodup_split_notin _ _ _ (gi_nodup _ _ G)) as [Hba _].
      rewrite (ins_before_id_split b _ a r Hba). apply (link_before_inv g a b r c k G Hk).
    + split; [|reflexivity]. apply (link_back_inv g ids c k G Hk).
  - split; [|reflexivity]. apply (link_back_inv g ids c k G Hk).
  - rewrite (is_live_iff g ids x G). destruct (existsb (Nat.eqb x) ids) eqn:E; simpl.
    + split; [|reflexivity]. apply existsb_exists in E. destruct E as [y [Hy E]]. apply Nat.eqb_eq in E. subst y.
      destruct (in_split _ _ Hy) as [a [r Eids]]. subst ids.
      rewrite (filter_neq_split a x r (gi_nodup _ _ G)). apply (unlink_inv g a x r G).
    + auto.
  - auto.
  - split; [exact G|apply (is_live_iff g ids x G)].
  - auto.
  - split; [exact G|]. rewrite (gi_head _ _ G). destruct ids; reflexivity.
Qed.

(* any interleaving: the sections run one at a time in SOME order; for every such order *)
Fixpoint run_secs (g : group) (l : list sec) : group * list bool :=
  match l with
  | [] => (g, [])
  | s :: r => let '(g1, b) := sec_step g s in let '(g2, bs) := run_secs g1 r in (g2, b :: bs)
  end.

Fixpoint spec_secs (n : nat) (ids : list nat) (l : list sec) : list nat * list bool :=
  match l with
  | [] => (ids, [])
  | s :: r =>
      let '(ids1, b) := sec_spec n ids s in
      let n1 := match s with SBack _ _ | SFront _ _ | SBefore _ _ _ => S n | _ => n end in
      let '(ids2, bs) := spec_secs n1 ids1 r in (ids2, b :: bs)
  end.

Lemma sec_step_heap_length g s :
  length (heap (fst (sec_step g s))) = match s with SBack _ _ | SFront _ _ | SBefore _ _ _ => S (length (heap g)) | _ => length (heap g) end.
Proof.
  destruct s as [c k|c k|c k [b|]|[x|]|[x|]|]; simpl; try reflexivity.
  - unfold g_link_back, g_alloc; simpl. destruct (ghead g); simpl; rewrite ?length_upd_o, ?length_upd, app_length; simpl; lia.
  - unfold g_link_front, g_alloc; simpl. destruct (ghead g); simpl; rewrite ?length_upd_o, ?length_upd, app_length; simpl; lia.
  - destruct (is_live g b); simpl.
    + unfold g_link_before, g_alloc; simpl. destruct (nth_error (heap g ++ _) b); simpl; rewrite ?length_upd, ?length_upd_o, ?length_upd, app_length; simpl; lia.
    + unfold g_link_back, g_alloc; simpl. destruct (ghead g); simpl; rewrite ?length_upd_o, ?length_upd, app_length; simpl; lia.
  - unfold g_link_back, g_alloc; simpl. destruct (ghead g); simpl; rewrite ?length_upd_o, ?length_upd, app_length; simpl; lia.
  - destruct (is_live g x); simpl; [|reflexivity].
    unfold g_unlink. destruct (nth_error (heap g) x); simpl; [|reflexivity]. rewrite length_upd, !length_upd_o. reflexivity.
Qed.

Theorem sections_in_any_order_refine_list_spec : forall l g ids,
  GInv g ids -> Forall sec_counter_ok l ->
  GInv (fst (run_secs g l)) (fst (spec_secs (length (heap g)) ids l)) /\
  snd (run_secs g l) = snd (spec_secs (length (heap g)) ids l).
Proof.
  induction l as [|s r IH]; intros g ids G Hk; simpl; [auto|].
  inversion Hk as [|? ? Hs Hr]; subst.
  destruct (section_refines g ids s G Hs) as [G1 B1].
  assert (Hlen := sec_step_heap_length g s).
  destruct (sec_step g s) as [g1 b] eqn:E1. destruct (sec_spec (length (heap g)) ids s) as [ids1 b'] eqn:E2.
  simpl in G1, B1, Hlen. subst b'.
  specialize (IH g1 ids1 G1 Hr).
  rewrite Hlen in IH.
  destruct (run_secs g1 r) as [g2 bs] eqn:E3.
  destruct (spec_secs _ ids1 r) as [ids2 bs'] eqn:E4.
  simpl in IH. destruct IH as [G2 B2]. simpl. split; [exact G2|f_equal; exact B2].
Qed.
