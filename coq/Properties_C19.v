(* Properties_C19.v — C19: generation-counter wrap-around never loses or resurrects a callback.

   PARTIAL.  Proved (CLWrap.v, on the generated wrap branch of getNextCounter): the overflow
   branch keeps the list's shape and content (GInv with the same entries), gives every linked
   node the generated rewrite value, leaves removed nodes removed, draws a fresh counter that is
   never the removed marker, and makes every callback then in the list visible to every
   invocation that captures the counter afterwards.  Together with C02's refinement from any
   related state (no further wrap during the run) this gives "every later invocation calls every
   callback then in the list exactly once, removed ones never, added-during skipped".
   NOT mechanised: the statement about an invocation that is IN PROGRESS at the moment of the
   wrap (it may additionally call callbacks added during it); covered by the correspondence
   (flavour `wrap`: the counter is placed 0..3 steps before 2^32 at a random point of re-entrant
   programs, the pointer-level model — whose wrap branch is the generated one — predicts every
   trace line of the real list). *)
From Coq Require Import List Arith NArith ZArith Bool.
From EV Require Import CLModel CLSpec CLHeap CLOps CLRefine CLSim CLMain CLWrap.
From EV.gen Require GenCL.
Import ListNotations.

Theorem C19_wrap_branch_keeps_list_and_resets_counters :
  forall g ids,
    GInv g ids ->
    GInv (reset_group g) ids /\
    length (heap (reset_group g)) = length (heap g) /\
    (forall j nd, In j ids -> nth_error (heap g) j = Some nd ->
                  nth_error (heap (reset_group g)) j = Some (set_ctr GenCL.wrap_rewrite_value nd)) /\
    (forall j, ~ In j ids -> nth_error (heap (reset_group g)) j = nth_error (heap g) j).
Proof. exact wrap_reset_inv. Qed.
Print Assumptions C19_wrap_branch_keeps_list_and_resets_counters.

Theorem C19_after_wrap_linked_have_rewrite_value_removed_stay_removed :
  forall g ids j nd,
    GInv g ids -> nth_error (heap (reset_group g)) j = Some nd ->
    (In j ids /\ ctr nd = GenCL.wrap_rewrite_value) \/ (~ In j ids /\ ctr nd = GenCL.removed_marker).
Proof. exact wrap_reset_counters. Qed.
Print Assumptions C19_after_wrap_linked_have_rewrite_value_removed_stay_removed.

Theorem C19_counter_drawn_after_wrap_is_never_the_removed_marker :
  forall W, (1 < W)%N ->
    counter_after_wrap W <> GenCL.removed_marker /\ (GenCL.wrap_rewrite_value <= counter_after_wrap W)%N.
Proof. exact wrap_second_draw_is_live. Qed.
Print Assumptions C19_counter_drawn_after_wrap_is_never_the_removed_marker.

Theorem C19_every_callback_in_the_list_is_visible_to_later_invocations :
  forall W g ids j nd capt,
    (1 < W)%N -> GInv g ids -> nth_error (heap (reset_group g)) j = Some nd -> In j ids ->
    (counter_after_wrap W <= capt)%N -> GenCL.visit_cond (ctr nd) capt = true.
Proof. exact post_wrap_all_visible. Qed.
Print Assumptions C19_every_callback_in_the_list_is_visible_to_later_invocations.

Theorem C19_wrap_test_is_equality_with_removed_marker :
  forall r, GenCL.wrap_test r = true <-> r = GenCL.removed_marker.
Proof. exact wrap_test_iff. Qed.

(* invocations that run while no wrap occurs — in particular all that start after it — obey the
   snapshot rule (C02 from any related state) *)
Theorem C19_invocations_without_wrap_refine_snapshot_spec :
  forall W behav fuel st sst prog st',
    core_behav behav -> core_prog prog -> R W st sst ->
    run W GenCL.remove_checks_removed GenCL.insert_checks_removed GenCL.owns_checks_removed behav fuel st prog = Some st' ->
    wrapped st' = false ->
    exists sst', s_run behav fuel sst prog = Some sst' /\ strace sst' = trace st' /\ R W st' sst'.
Proof. exact cl_run_refines_from. Qed.
Print Assumptions C19_invocations_without_wrap_refine_snapshot_spec.

(* non-vacuity: the counter is placed at its maximum, the next addition takes the wrap branch, and
   the invocations before and after it call all callbacks *)
Example C19_wrap_example :
  exists st', run (2 ^ 32)%N GenCL.remove_checks_removed GenCL.insert_checks_removed GenCL.owns_checks_removed (fun _ _ => []) 5 (init 1)
                  [Append 0 1 1; Append 0 2 2; SetCur 0 0%N; Invoke 0 5%Z; Append 0 3 3; Invoke 0 6%Z; Remove 0 1; Append 0 4 4; Invoke 0 7%Z] = Some st'
              /\ wrapped st' = true
              /\ rev (trace st') = [ECall 1 5%Z; ECall 2 5%Z; ECall 1 6%Z; ECall 2 6%Z; ECall 3 6%Z; ERet true; ECall 2 7%Z; ECall 3 7%Z; ECall 4 7%Z].
Proof. eexists. split; [vm_compute; reflexivity|]. split; reflexivity. Qed.
