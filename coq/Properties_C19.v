(* Properties_C19.v — C19: generation-counter wrap-around never loses or resurrects a callback.

   PARTIAL.  Proved (CLWrap.v, on the generated wrap branch of getNextCounter): the overflow
   branch keeps the list's shape and content (GInv with the same entries), gives every linked
   node the generated rewrite value, leaves removed nodes removed, draws a fresh counter that is
   never the removed marker, and makes every callback then in the list visible to every
   invocation that captures the counter afterwards.  Together with C02's refinement from any
   related state (no further wrap during the run) this gives "every later invocation calls every
   callback then in the list exactly once, removed ones never, added-during skipped".
   The invocation that is IN PROGRESS at the moment of the wrap (CLTravWrap.v, end of this file): for every interleaving of
   its own steps with critical sections (its callbacks', other threads') and any number of wraps it calls no callback twice
   and calls every callback that was in the list when it started and is not removed meanwhile; it may call more (callbacks
   added during it: the example), which is what the property allows for these invocations only.
   What remains PARTIAL: this last statement is about sequences of events (sections, wraps, own steps), as C03's traversal
   theorem is; that the re-entrant interpreter of CLModel.v, when a callback's addition wraps, produces such a sequence for
   the enclosing invocations is argued, not mechanised (the one-run theorem C19_one_run_across_a_top_level_wrap is for a
   wrap in a top-level addition).  The correspondence covers it (flavour `wrap`: the counter is placed 0..3 steps before 2^32
   at a random point of re-entrant programs; the pointer-level model — whose wrap branch is the generated one — predicts
   every trace line of the real list, invocations in progress at the wrap included). *)
From Coq Require Import List Arith NArith ZArith Bool.
From EV Require Import CLModel CLSpec CLHeap CLOps CLRefine CLSim CLMain CLWrap CLWrapSim CLFlag.
From EV.gen Require GenCL.
Import ListNotations.

Theorem C19_wrap_branch_keeps_list_and_resets_counters :
  forall g ids,
    GInv g ids ->
    GInv (reset_group g) ids /\
    length (heap (reset_group g)) = length (heap g) /\
    (forall j nd, In j ids -> nth_error (heap g) j = Some nd ->
                  nth_error (heap (reset_group g)) j = Some (set_ctr GenCL.wrap_rewrite_value nd)) /\
    (forall j, ~ In j ids -> nth_error (heap (reset_group g)) j = nth_error (heap g) j).
Proof. exact wrap_reset_inv. Qed.
Print Assumptions C19_wrap_branch_keeps_list_and_resets_counters.

Theorem C19_after_wrap_linked_have_rewrite_value_removed_stay_removed :
  forall g ids j nd,
    GInv g ids -> nth_error (heap (reset_group g)) j = Some nd ->
    (In j ids /\ ctr nd = GenCL.wrap_rewrite_value) \/ (~ In j ids /\ ctr nd = GenCL.removed_marker).
Proof. exact wrap_reset_counters. Qed.
Print Assumptions C19_after_wrap_linked_have_rewrite_value_removed_stay_removed.

Theorem C19_counter_drawn_after_wrap_is_never_the_removed_marker :
  forall W, (1 < W)%N ->
    counter_after_wrap W <> GenCL.removed_marker /\ (GenCL.wrap_rewrite_value <= counter_after_wrap W)%N.
Proof. exact wrap_second_draw_is_live. Qed.
Print Assumptions C19_counter_drawn_after_wrap_is_never_the_removed_marker.

Theorem C19_every_callback_in_the_list_is_visible_to_later_invocations :
  forall W g ids j nd capt,
    (1 < W)%N -> GInv g ids -> nth_error (heap (reset_group g)) j = Some nd -> In j ids ->
    (counter_after_wrap W <= capt)%N -> GenCL.visit_cond (ctr nd) capt = true.
Proof. exact post_wrap_all_visible. Qed.
Print Assumptions C19_every_callback_in_the_list_is_visible_to_later_invocations.

Theorem C19_wrap_test_is_equality_with_removed_marker :
  forall r, GenCL.wrap_test r = true <-> r = GenCL.removed_marker.
Proof. exact wrap_test_iff. Qed.

(* invocations that run while no wrap occurs — in particular all that start after it — obey the
   snapshot rule (C02 from any related state) *)
Theorem C19_invocations_without_wrap_refine_snapshot_spec :
  forall W behav fuel st sst prog st',
    core_behav behav -> core_prog prog -> R W st sst ->
    run W GenCL.remove_checks_removed GenCL.insert_checks_removed GenCL.owns_checks_removed behav fuel st prog = Some st' ->
    wrapped st' = false ->
    exists sst', s_run behav fuel sst prog = Some sst' /\ strace sst' = trace st' /\ R W st' sst'.
Proof. exact cl_run_refines_from. Qed.
Print Assumptions C19_invocations_without_wrap_refine_snapshot_spec.

(* THE WRAPPING STEP RE-ESTABLISHES THE REFINEMENT RELATION (CLWrapSim.v).  When an addition — append, prepend, insert before a
   live / removed / empty handle — takes the overflow branch of getNextCounter (ghost flag `wrapped` goes from false to true),
   the state after it is related by R to the specification state after the same addition; R does not mention the flag.
   This holds whether or not invocations are in progress; what is lost for invocations IN PROGRESS is their frame (they may
   additionally call callbacks added during them, as the property says) — the relation of everything else is intact. *)
Theorem C19_append_across_the_wrap_reestablishes_R :
  forall W st sst l c h st',
    (1 < W)%N -> R W st sst -> wrapped st = false -> do_append W st l c h = Some st' -> wrapped st' = true ->
    exists sst', s_add sst l c h (fun n es => es ++ [n]) = Some sst' /\ R W (clear_wrapped st') sst'.
Proof. exact append_wrap_reestablishes_R. Qed.
Print Assumptions C19_append_across_the_wrap_reestablishes_R.

Theorem C19_prepend_across_the_wrap_reestablishes_R :
  forall W st sst l c h st',
    (1 < W)%N -> R W st sst -> wrapped st = false -> do_prepend W st l c h = Some st' -> wrapped st' = true ->
    exists sst', s_add sst l c h (fun n es => n :: es) = Some sst' /\ R W (clear_wrapped st') sst'.
Proof. exact prepend_wrap_reestablishes_R. Qed.
Print Assumptions C19_prepend_across_the_wrap_reestablishes_R.

Theorem C19_insert_across_the_wrap_reestablishes_R :
  forall W behav st sst l c hb h st',
    (1 < W)%N -> R W st sst -> wrapped st = false ->
    do_insert W GenCL.remove_checks_removed GenCL.insert_checks_removed GenCL.owns_checks_removed st l c hb h = Some st' -> wrapped st' = true ->
    exists sst', s_step behav (fun _ _ => None) sst (Insert l c hb h) = Some sst' /\ R W (clear_wrapped st') sst'.
Proof. exact insert_wrap_reestablishes_R. Qed.
Print Assumptions C19_insert_across_the_wrap_reestablishes_R.

(* ... and therefore: a history without wrap (h1), then an append that wraps, then ANY re-entrant program without a further
   wrap (h2), run from the state after the wrap with the ghost flag cleared (the interpreter only ever writes that flag):
   the whole behaves as the snapshot specification — every callback then in the list is invoked exactly once by every later
   invocation, removed ones never, callbacks added during an invocation are skipped by it, traces equal. *)
Theorem C19_history_across_a_top_level_wrap_refines_the_spec :
  forall W behav fuel nl h1 l c h h2 s1 s2 s3,
    (1 < W)%N -> core_behav behav -> core_prog h1 -> core_prog h2 ->
    run W GenCL.remove_checks_removed GenCL.insert_checks_removed GenCL.owns_checks_removed behav fuel (init nl) h1 = Some s1 -> wrapped s1 = false ->
    do_append W s1 l c h = Some s2 -> wrapped s2 = true ->
    run W GenCL.remove_checks_removed GenCL.insert_checks_removed GenCL.owns_checks_removed behav fuel (clear_wrapped s2) h2 = Some s3 -> wrapped s3 = false ->
    exists ss1 ss2 ss3,
      s_run behav fuel (s_init nl) h1 = Some ss1 /\ s_add ss1 l c h (fun n es => es ++ [n]) = Some ss2 /\
      s_run behav fuel ss2 h2 = Some ss3 /\ strace ss3 = trace s3 /\ R W s3 ss3.
Proof.
  intros W behav fuel nl h1 l c h h2 s1 s2 s3 HW Hb Hp1 Hp2 R1 W1 A W2 R3 W3.
  assert (HW0 : (0 < W)%N) by (apply N.lt_trans with 1%N; [reflexivity|exact HW]).
  destruct (cl_run_refines W behav fuel nl h1 s1 HW0 Hb Hp1 R1 W1) as (ss1 & X1 & _ & RR1).
  destruct (append_wrap_reestablishes_R W s1 ss1 l c h s2 HW RR1 W1 A W2) as (ss2 & X2 & RR2).
  destruct (cl_run_refines_from W behav fuel (clear_wrapped s2) ss2 h2 s3 Hb Hp2 RR2 R3 W3) as (ss3 & X3 & T3 & RR3).
  exists ss1, ss2, ss3. auto.
Qed.
Print Assumptions C19_history_across_a_top_level_wrap_refines_the_spec.

(* the same as ONE run (CLFlag.v: the interpreter never reads the ghost flag — run_from_flagged —, so the continuation from
   the real post-wrap state is the continuation from the state with the flag cleared): for the program  h1 ++ Append :: h2
   in which h1 does not wrap, the append takes the overflow branch and h2 does not wrap again, the run from the initial
   state has exactly the trace of the snapshot specification on the same program *)
Theorem C19_one_run_across_a_top_level_wrap :
  forall W behav, core_behav behav ->
  forall fuel nl h1 c h2 s1 s2 s',
    (1 < W)%N -> core_prog h1 -> core_prog h2 -> is_add c = true ->      (* c: Append, Prepend or Insert *)
    run W GenCL.remove_checks_removed GenCL.insert_checks_removed GenCL.owns_checks_removed behav (S fuel) (init nl) h1 = Some s1 -> wrapped s1 = false ->
    step W GenCL.remove_checks_removed GenCL.insert_checks_removed GenCL.owns_checks_removed behav
         (run W GenCL.remove_checks_removed GenCL.insert_checks_removed GenCL.owns_checks_removed behav fuel) (S fuel) s1 c = Some s2 -> wrapped s2 = true ->
    run W GenCL.remove_checks_removed GenCL.insert_checks_removed GenCL.owns_checks_removed behav (S fuel) (init nl) (h1 ++ c :: h2) = Some s' ->
    (forall s3, run W GenCL.remove_checks_removed GenCL.insert_checks_removed GenCL.owns_checks_removed behav (S fuel) (clear_wrapped s2) h2 = Some s3 -> wrapped s3 = false) ->
    exists ss', s_run behav (S fuel) (s_init nl) (h1 ++ c :: h2) = Some ss' /\ strace ss' = trace s'.
Proof. exact run_across_one_top_level_wrap. Qed.
Print Assumptions C19_one_run_across_a_top_level_wrap.

Theorem C19_interpreter_never_reads_the_ghost_flag :
  forall W behav, core_behav behav -> forall fuel st cs, core_prog cs ->
    run W GenCL.remove_checks_removed GenCL.insert_checks_removed GenCL.owns_checks_removed behav fuel st cs =
    option_map (up (wrapped st)) (run W GenCL.remove_checks_removed GenCL.insert_checks_removed GenCL.owns_checks_removed behav fuel (clear_wrapped st) cs).
Proof. exact run_from_flagged. Qed.
Print Assumptions C19_interpreter_never_reads_the_ghost_flag.

(* non-vacuity of the last theorem: two callbacks, the counter at its maximum, the append that wraps, then an invocation,
   a removal, another addition and another invocation *)
Definition c19_s1 := run (2 ^ 32)%N GenCL.remove_checks_removed GenCL.insert_checks_removed GenCL.owns_checks_removed (fun _ _ => []) 5 (init 1)
                          [Append 0 1 1; Append 0 2 2; SetCur 0 0%N; Invoke 0 5%Z].
Definition c19_s2 := match c19_s1 with Some s1 => do_append (2 ^ 32)%N s1 0 3 3 | None => None end.
Definition c19_s3 := match c19_s2 with
                     | Some s2 => run (2 ^ 32)%N GenCL.remove_checks_removed GenCL.insert_checks_removed GenCL.owns_checks_removed (fun _ _ => []) 5
                                      (clear_wrapped s2) [Invoke 0 6%Z; Remove 0 1; Append 0 4 4; Invoke 0 7%Z]
                     | None => None
                     end.
Example C19_across_the_wrap_example :
  option_map wrapped c19_s1 = Some false /\ option_map wrapped c19_s2 = Some true /\
  option_map (fun s => (wrapped s, rev (trace s))) c19_s3 =
    Some (false, [ECall 1 5%Z; ECall 2 5%Z; ECall 1 6%Z; ECall 2 6%Z; ECall 3 6%Z; ERet true; ECall 2 7%Z; ECall 3 7%Z; ECall 4 7%Z]).
Proof. vm_compute. repeat split; reflexivity. Qed.

(* non-vacuity: the counter is placed at its maximum, the next addition takes the wrap branch, and
   the invocations before and after it call all callbacks *)
Example C19_wrap_example :
  exists st', run (2 ^ 32)%N GenCL.remove_checks_removed GenCL.insert_checks_removed GenCL.owns_checks_removed (fun _ _ => []) 5 (init 1)
                  [Append 0 1 1; Append 0 2 2; SetCur 0 0%N; Invoke 0 5%Z; Append 0 3 3; Invoke 0 6%Z; Remove 0 1; Append 0 4 4; Invoke 0 7%Z] = Some st'
              /\ wrapped st' = true
              /\ rev (trace st') = [ECall 1 5%Z; ECall 2 5%Z; ECall 1 6%Z; ECall 2 6%Z; ECall 3 6%Z; ERet true; ECall 2 7%Z; ECall 3 7%Z; ECall 4 7%Z].
Proof. eexists. split; [vm_compute; reflexivity|]. split; reflexivity. Qed.

(* ---------- the invocation that is IN PROGRESS when the counter wraps (CLTravWrap.v) ---------- *)
(* From the point of view of an invocation (or enumeration), everything the callbacks it invokes do to the list — and
   everything other threads do — is a sequence of critical sections between its own steps (look at the current node;
   node = node->next); a wrap of the counter is one more such event (the generated overflow branch: every linked node's
   counter := wrap_rewrite_value).  For EVERY sequence of own steps, sections and wraps, any number of wraps anywhere: the
   invocation calls no callback twice, and it calls every callback that was in the list when it started, passed its visit
   test then and is not removed meanwhile — a wrap loses nothing for an invocation in progress.  It may call more: the
   example shows a callback added during it being called after the wrap, which the property allows for exactly these
   invocations; invocations that begin after the wrap capture a post-wrap counter (C19_wrap_makes_everything_visible,
   C02's skip rule). *)
From EV Require CLTrav CLTravWrap CLConcProofs CLSec.

Theorem C19_invocation_in_progress_across_wraps :
  forall capt g ids evs,
    CLHeap.GInv g ids ->
    (forall z, In z ids -> exists nd, nth_error (CLModel.heap g) z = Some nd /\ GenCL.visit_cond (CLModel.ctr nd) capt = true) ->
    Forall CLTravWrap.wev_ok evs ->
    let st := CLTravWrap.wrun capt (CLTrav.tinit g ids) evs in
    NoDup (CLTrav.tvis st) /\
    (CLTrav.tcur st = None -> forall z, In z ids -> ~ In z (CLTrav.tgone st) -> In z (CLTrav.tvis st)).
Proof. exact CLTravWrap.traversal_across_wraps. Qed.
Print Assumptions C19_invocation_in_progress_across_wraps.

(* whatever it calls is in the list at that moment: a removed callback is never called, and the wrap does not undo a
   removal *)
Theorem C19_only_members_are_called :
  forall capt ids0 st, CLTrav.TInv capt ids0 st ->
    forall v, In v (CLTrav.tvis (CLTravWrap.wstep capt st (CLTravWrap.WEv CLTrav.TVisit))) -> In v (CLTrav.tvis st) \/ In v (CLTrav.tids st).
Proof. exact CLTravWrap.visits_only_members. Qed.
Print Assumptions C19_only_members_are_called.

Theorem C19_removed_stays_removed_across_the_wrap :
  forall g ids j nd, CLHeap.GInv g ids -> nth_error (CLModel.heap g) j = Some nd -> CLModel.ctr nd = GenCL.removed_marker ->
    exists nd', nth_error (CLModel.heap (CLWrap.reset_group g)) j = Some nd' /\ CLModel.ctr nd' = GenCL.removed_marker.
Proof. exact CLTravWrap.removed_stays_removed. Qed.
Print Assumptions C19_removed_stays_removed_across_the_wrap.

Example C19_in_progress_at_the_wrap_example :
  let evs := [CLTravWrap.WEv CLTrav.TVisit; CLTravWrap.WEv CLTrav.TAdvance; CLTravWrap.WEv (CLTrav.TOther (CLSec.SBack 3 12%N)); CLTravWrap.WWrap;
              CLTravWrap.WEv CLTrav.TVisit; CLTravWrap.WEv CLTrav.TAdvance; CLTravWrap.WEv CLTrav.TVisit; CLTravWrap.WEv CLTrav.TAdvance] in
  let evs' := [CLTravWrap.WEv CLTrav.TVisit; CLTravWrap.WEv CLTrav.TAdvance; CLTravWrap.WEv (CLTrav.TOther (CLSec.SBack 3 12%N));
               CLTravWrap.WEv CLTrav.TVisit; CLTravWrap.WEv CLTrav.TAdvance; CLTravWrap.WEv CLTrav.TVisit; CLTravWrap.WEv CLTrav.TAdvance] in
  CLTrav.tvis (CLTravWrap.wrun 11%N (CLTrav.tinit CLTravWrap.wrap_g2 [0; 1]) evs) = [0; 1; 2] /\
  CLTrav.tcur (CLTravWrap.wrun 11%N (CLTrav.tinit CLTravWrap.wrap_g2 [0; 1]) evs) = None /\
  CLTrav.tvis (CLTravWrap.wrun 11%N (CLTrav.tinit CLTravWrap.wrap_g2 [0; 1]) evs') = [0; 1] /\
  map CLModel.ctr (CLModel.heap (CLTrav.tg (CLTravWrap.wrun 11%N (CLTrav.tinit CLTravWrap.wrap_g2 [0; 1]) evs))) = [1%N; 1%N; 1%N].
Proof. exact CLTravWrap.in_progress_at_the_wrap_example. Qed.
