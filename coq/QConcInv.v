(* QConcInv.v — conservation of events in the thread-level queue model, for EVERY program and
   EVERY schedule (no bound on threads, calls, or steps).

   The ghost ledger of QConc.qshared records what was enqueued (g_enq, each event with a fresh
   id), dispatched (g_disp), taken (g_taken) and cleared (g_cleared).  The invariant CInv says:

       g_enq  is a permutation of   queueList ++ (events in flight in some thread's locals)
                                     ++ dispatched ++ taken ++ cleared

   and ids in g_enq are pairwise distinct.  Hence no event is ever in two places (never
   dispatched twice, never both taken and dispatched, ...) and none disappears; when all threads
   have finished nothing is in flight, so every enqueued event was consumed exactly once or is
   still queued.

   Method: a weakest-precondition calculus `wpl` over the instruction lists of QConc (local code
   may read ANY shared state: interference by other threads is havoc), with postcondition "nothing
   in flight at the end of the call", whose ILocal case also demands that the closure moves events
   between queueList, the thread's locals and the ledger without creating or dropping any
   (step_ok).  `all_calls_wp` proves it for every API call's transcription; `perform_inv` and
   `sched_step_inv` show every scheduler decision preserves CInv. *)
From Coq Require Import List Arith NArith ZArith Bool Lia Permutation.
From EV Require Import QConc.
From EV.gen Require GenQ GenQConc.
Import ListNotations.
Local Open Scope nat_scope.

(* ---------- what a thread holds in flight, what the ledger has consumed ---------- *)
Definition levl (lo : qlocals) : list cevt := match lev lo with Some e => [e] | None => [] end.
Definition inflight (lo : qlocals) : list cevt := ltemp lo ++ levl lo.
Definition consumed (sh : qshared) : list cevt := map snd (g_disp sh) ++ map snd (g_taken sh) ++ g_cleared sh.
Definition is_disp (a : cact) : bool := match a with CDisp _ _ _ => true | _ => false end.
Definition disp_act (p : nat * cevt) : cact := CDisp (fst p) (cek (snd p)) (cea (snd p)).

Definition EndOK (lo : qlocals) : Prop := ltemp lo = [] /\ lev lo = None.

(* one piece of local code: events are only moved *)
Record step_ok (sh : qshared) (lo : qlocals) (sh' : qshared) (lo' : qlocals) : Prop := mkSO {
  so_enq : exists new, g_enq sh' = new ++ g_enq sh /\
                       Permutation (new ++ ql sh ++ inflight lo ++ consumed sh) (ql sh' ++ inflight lo' ++ consumed sh') /\
                       ((new = [] /\ nextid sh' = nextid sh) \/
                        (exists e, new = [e] /\ ceid e = nextid sh /\ nextid sh' = S (nextid sh)));
  so_log : filter is_disp (clog sh) = map disp_act (g_disp sh) ->
           filter is_disp (clog sh') = map disp_act (g_disp sh');
  so_cnt : cec sh' = cec sh /\ cnc sh' = cnc sh      (* local code never touches the two atomic counters *)
}.

(* ---------- weakest precondition, other threads' interference = any shared state ---------- *)
Fixpoint wpi (i : instr) (Q : qlocals -> Prop) (lo : qlocals) {struct i} : Prop :=
  match i with
  | ILocal _ f => forall t sh, step_ok sh lo (fst (f t sh lo)) (snd (f t sh lo)) /\ Q (snd (f t sh lo))
  | IIf _ c a b =>
      forall sh,
        (c sh lo = true ->
         (fix wl (l : list instr) (Q : qlocals -> Prop) (lo : qlocals) {struct l} : Prop :=
            match l with [] => Q lo | j :: r => wpi j (wl r Q) lo end) a Q lo) /\
        (c sh lo = false ->
         (fix wl (l : list instr) (Q : qlocals -> Prop) (lo : qlocals) {struct l} : Prop :=
            match l with [] => Q lo | j :: r => wpi j (wl r Q) lo end) b Q lo)
  | IALoad _ => forall v, Q (lo_reg lo v)
  | ICvWait _ => forall b, Q (lo_to lo b)
  | IWaitLoop _ => forall lo', ltemp lo' = ltemp lo -> lev lo' = lev lo -> Q lo'
  | IAInc EC => Q (lo_held lo (S (lheld lo)))          (* ghost: the processing guards this call holds *)
  | IADec EC => Q (lo_held lo (pred (lheld lo)))
  | _ => Q lo
  end.

Fixpoint wpl (l : list instr) (Q : qlocals -> Prop) (lo : qlocals) {struct l} : Prop :=
  match l with [] => Q lo | j :: r => wpi j (wpl r Q) lo end.

Lemma wpi_if r c a b Q lo :
  wpi (IIf r c a b) Q lo = (forall sh, (c sh lo = true -> wpl a Q lo) /\ (c sh lo = false -> wpl b Q lo)).
Proof. reflexivity. Qed.

(* induction principle through the nested instruction lists *)
Definition not_if (i : instr) : Prop := match i with IIf _ _ _ _ => False | _ => True end.
Fixpoint instr_ind' (P : instr -> Prop) (Hbase : forall i, not_if i -> P i)
         (Hif : forall r c a b, Forall P a -> Forall P b -> P (IIf r c a b)) (i : instr) {struct i} : P i :=
  match i as i0 return P i0 with
  | IIf r c a b =>
      Hif r c a b
          ((fix go (l : list instr) : Forall P l :=
              match l with [] => Forall_nil P | j :: t => Forall_cons j (instr_ind' P Hbase Hif j) (go t) end) a)
          ((fix go (l : list instr) : Forall P l :=
              match l with [] => Forall_nil P | j :: t => Forall_cons j (instr_ind' P Hbase Hif j) (go t) end) b)
  | ILock m => Hbase (ILock m) I | IUnlock m => Hbase (IUnlock m) I
  | IAInc a => Hbase (IAInc a) I | IADec a => Hbase (IADec a) I | IALoad a => Hbase (IALoad a) I
  | INotify => Hbase INotify I | ICvWait t => Hbase (ICvWait t) I
  | ILocal t f => Hbase (ILocal t f) I
  | IWaitLoop t => Hbase (IWaitLoop t) I | IStart => Hbase IStart I | IRes => Hbase IRes I | IDone => Hbase IDone I
  | IRead r => Hbase (IRead r) I
  end.

(* monotonicity *)
Definition mono_at (i : instr) : Prop :=
  forall (Q Q' : qlocals -> Prop) lo, (forall x, Q x -> Q' x) -> wpi i Q lo -> wpi i Q' lo.

Lemma wpl_mono_F l : Forall mono_at l ->
  forall (Q Q' : qlocals -> Prop) lo, (forall x, Q x -> Q' x) -> wpl l Q lo -> wpl l Q' lo.
Proof.
  induction 1 as [|j r Hj _ IH]; intros Q Q' lo HQ H; cbn [wpl] in *.
  - apply HQ; exact H.
  - eapply Hj; [|exact H]. intros x Hx. eapply IH; eauto.
Qed.

Lemma wpi_mono i : mono_at i.
Proof.
  induction i as [i Hn | r c a b Ha Hb] using instr_ind'.
  - intros Q Q' lo HQ H. destruct i as [m|m|a|a|a| |timed|tt f|r c x y|timed| | | |rr]; try destruct a; try (cbn [wpi] in *; solve [auto]); try contradiction.
    cbn [wpi] in *. intros t sh. destruct (H t sh) as [H1 H2]. split; auto.
  - intros Q Q' lo HQ H. rewrite wpi_if in *. intros sh. destruct (H sh) as [H1 H2]. split; intros Hc.
    + eapply wpl_mono_F; eauto.
    + eapply wpl_mono_F; eauto.
Qed.

Lemma wpl_mono l : forall (Q Q' : qlocals -> Prop) lo, (forall x, Q x -> Q' x) -> wpl l Q lo -> wpl l Q' lo.
Proof. apply wpl_mono_F. apply Forall_forall. intros i _. apply wpi_mono. Qed.

Lemma wpl_app a : forall b Q lo, wpl (a ++ b) Q lo <-> wpl a (wpl b Q) lo.
Proof.
  induction a as [|j r IH]; intros b Q lo; cbn [wpl app]; [tauto|].
  split; intros H; (eapply wpi_mono; [|exact H]); intros x Hx; apply IH; exact Hx.
Qed.

(* ---------- helper facts for step_ok ---------- *)
Lemma step_ok_same sh lo lo' : ltemp lo' = ltemp lo -> lev lo' = lev lo -> step_ok sh lo sh lo'.
Proof.
  intros H1 H2. split.
  - exists []. unfold inflight, levl. rewrite H1, H2. cbn [app]. split; [reflexivity|]. split; [apply Permutation_refl|]. left; auto.
  - auto.
  - auto.
Qed.


(* the same when the step changed only ghosts of other arguments (g_awake, g_under) *)
Definition sh_same (sh sh' : qshared) : Prop :=
  g_enq sh' = g_enq sh /\ ql sh' = ql sh /\ nextid sh' = nextid sh /\ clog sh' = clog sh /\ g_disp sh' = g_disp sh /\
  g_taken sh' = g_taken sh /\ g_cleared sh' = g_cleared sh /\ cec sh' = cec sh /\ cnc sh' = cnc sh.

Lemma step_ok_same2 sh sh' lo lo' : sh_same sh sh' -> ltemp lo' = ltemp lo -> lev lo' = lev lo -> step_ok sh lo sh' lo'.
Proof.
  intros (E1 & E2 & E3 & E4 & E5 & E6 & E7 & E8 & E9) H1 H2. split.
  - exists []. unfold inflight, levl, consumed. rewrite H1, H2, E1, E2, E3, E5, E6, E7. cbn [app].
    split; [reflexivity|]. split; [apply Permutation_refl|]. left; auto.
  - rewrite E4, E5. auto.
  - auto.
Qed.

Lemma dispatch_all_fields t es : forall sh,
  ql (dispatch_all t sh es) = ql sh /\ fl (dispatch_all t sh es) = fl sh /\ nextid (dispatch_all t sh es) = nextid sh /\
  g_enq (dispatch_all t sh es) = g_enq sh /\
  g_taken (dispatch_all t sh es) = g_taken sh /\ g_cleared (dispatch_all t sh es) = g_cleared sh /\
  g_disp (dispatch_all t sh es) = rev (map (pair t) es) ++ g_disp sh /\
  filter is_disp (clog (dispatch_all t sh es)) = map disp_act (rev (map (pair t) es)) ++ filter is_disp (clog sh) /\
  cec (dispatch_all t sh es) = cec sh /\ cnc (dispatch_all t sh es) = cnc sh.
Proof.
  unfold dispatch_all. induction es as [|e r IH]; intros sh; cbn [fold_left map rev app].
  - repeat split; reflexivity.
  - destruct (IH (sh_disp sh t e)) as (A & B & C & D & E & F & G & H & I1 & I2). cbn [ql fl nextid g_enq g_taken g_cleared g_disp clog sh_disp cec cnc] in *.
    rewrite A, B, C, D, E, F, G, H, I1, I2. repeat split; try reflexivity.
    + rewrite <- app_assoc. reflexivity.
    + rewrite map_app. cbn [filter is_disp map disp_act fst snd app]. rewrite <- app_assoc. reflexivity.
Qed.

Definition take_all (t : nat) (sh : qshared) (es : list cevt) : qshared := fold_left (fun s e => sh_take s t e) es sh.
Lemma take_all_fields t es : forall sh,
  ql (take_all t sh es) = ql sh /\ fl (take_all t sh es) = fl sh /\ nextid (take_all t sh es) = nextid sh /\
  g_enq (take_all t sh es) = g_enq sh /\
  g_disp (take_all t sh es) = g_disp sh /\ g_cleared (take_all t sh es) = g_cleared sh /\ clog (take_all t sh es) = clog sh /\
  g_taken (take_all t sh es) = rev (map (pair t) es) ++ g_taken sh /\
  cec (take_all t sh es) = cec sh /\ cnc (take_all t sh es) = cnc sh.
Proof.
  unfold take_all. induction es as [|e r IH]; intros sh; cbn [fold_left map rev app].
  - repeat split; reflexivity.
  - destruct (IH (sh_take sh t e)) as (A & B & C & D & E & F & G & H & I1 & I2). cbn [ql fl nextid g_enq g_taken g_cleared g_disp clog sh_take cec cnc] in *.
    rewrite A, B, C, D, E, F, G, H, I1, I2. repeat split; try reflexivity. rewrite <- app_assoc. reflexivity.
Qed.

Lemma map_snd_pair (t : nat) (es : list cevt) : map snd (map (pair t) es) = es.
Proof. induction es; cbn; congruence. Qed.

(* code that does not touch what the thread holds in flight *)
Definition neutral (code : list instr) : Prop :=
  forall (Q : qlocals -> Prop) lo, (forall lo', ltemp lo' = ltemp lo -> lev lo' = lev lo -> Q lo') -> wpl code Q lo.

Lemma neutral_app a b : neutral a -> neutral b -> neutral (a ++ b).
Proof.
  intros Ha Hb Q lo H. apply wpl_app. apply Ha. intros lo1 A1 B1. apply Hb. intros lo2 A2 B2. apply H; congruence.
Qed.

Ltac lo_simpl := cbn [fst snd ltemp lev lb lbe lres ltimedout lidle lreg lslot lshow lheld lsnap lseen ltaking lowes lo_temp lo_kept lo_idle lo_reg lo_b lo_be lo_res lo_slot lo_to lo_ev lo_show lo_held lo_snap lo_seen lo_taking lo_owes lo0] in *.
Ltac so_same :=
  first [ apply step_ok_same; lo_simpl; congruence
        | apply step_ok_same2;
          [ repeat match goal with |- context[if ?c then _ else _] => destruct c end; repeat split; reflexivity
          | lo_simpl; congruence | lo_simpl; congruence ] ].

Ltac wp1 :=
  cbv beta;
  lazymatch goal with
  | |- wpl [] ?Q ?lo => change (Q lo)
  | |- wpl (?j :: ?r) ?Q ?lo => change (wpi j (wpl r Q) lo)
  | |- wpl (_ ++ _) _ _ => apply wpl_app
  | |- wpi (IIf _ _ _ _) _ _ => rewrite wpi_if; let sh := fresh "sh" in let Hc := fresh "Hc" in intros sh; split; intros Hc
  | |- wpi (ILocal _ ?f) ?Q ?lo =>
      change (forall t sh, step_ok sh lo (fst (f t sh lo)) (snd (f t sh lo)) /\ Q (snd (f t sh lo)));
      let t := fresh "t" in let sh := fresh "sh" in intros t sh; cbv beta; lo_simpl;
      repeat (match goal with
              | |- context[fst (match ?x with _ => _ end)] => let E := fresh "E" in destruct x eqn:E; lo_simpl
              end);
      split
  | |- wpi (IALoad _) ?Q ?lo => change (forall v, Q (lo_reg lo v)); let v := fresh "v" in intros v
  | |- wpi (IAInc EC) ?Q ?lo => change (Q (lo_held lo (S (lheld lo))))
  | |- wpi (IADec EC) ?Q ?lo => change (Q (lo_held lo (pred (lheld lo))))
  | |- wpi (ICvWait _) ?Q ?lo => change (forall b, Q (lo_to lo b)); let b := fresh "b" in intros b
  | |- wpi (IWaitLoop _) ?Q ?lo =>
      change (forall lo', ltemp lo' = ltemp lo -> lev lo' = lev lo -> Q lo');
      let lo' := fresh "lo" in let A := fresh "A" in let B := fresh "B" in intros lo' A B
  | |- wpi ?i ?Q ?lo => change (Q lo)
  end.

Lemma neutral_eval_empty : neutral eval_empty.
Proof.
  intros Q lo H. unfold eval_empty. cbv beta iota delta [GenQ.empty_queue_reads].
  repeat wp1; try so_same; apply H; reflexivity.
Qed.

Lemma neutral_eval_can_notify : neutral eval_can_notify.
Proof. intros Q lo H. unfold eval_can_notify. repeat wp1; try so_same; apply H; reflexivity. Qed.

Lemma neutral_eval_can_process : neutral eval_can_process.
Proof.
  unfold eval_can_process. apply neutral_app; [apply neutral_eval_empty|].
  intros Q lo H. repeat wp1; try so_same; try (apply H; reflexivity).
  apply neutral_eval_can_notify. exact H.
Qed.

Lemma neutral_wait_loop timed : neutral (wait_loop timed).
Proof.
  unfold wait_loop. apply neutral_app; [apply neutral_eval_can_process|].
  intros Q lo H. repeat wp1; try so_same; try (apply H; reflexivity).
  all: try (apply H; lo_simpl; congruence).
  apply neutral_eval_can_process. intros lo1 A1 B1. repeat wp1; try so_same. apply H; lo_simpl; congruence.
Qed.

(* ---------- permutations by counting ---------- *)
Definition cevt_dec (x y : cevt) : {x = y} + {x <> y}.
Proof. decide equality; [apply Nat.eq_dec | apply Z.eq_dec | apply Nat.eq_dec]. Defined.
Definition cnt1 (y x : cevt) : nat := if cevt_dec y x then 1 else 0.
Lemma count_cons y l x : count_occ cevt_dec (y :: l) x = cnt1 y x + count_occ cevt_dec l x.
Proof. unfold cnt1. cbn [count_occ]. destruct (cevt_dec y x); reflexivity. Qed.
Lemma count_filter_split (p : cevt -> bool) l x :
  count_occ cevt_dec (filter p l) x + count_occ cevt_dec (filter (fun e => negb (p e)) l) x = count_occ cevt_dec l x.
Proof.
  induction l as [|y r IH]; [reflexivity|]. cbn [filter]. destruct (p y); cbn [negb]; rewrite !count_cons; lia.
Qed.
Lemma count_split_until p l x :
  count_occ cevt_dec (fst (split_until p l)) x + count_occ cevt_dec (snd (split_until p l)) x = count_occ cevt_dec l x.
Proof.
  induction l as [|y r IH]; [reflexivity|]. cbn [split_until]. destruct (pverdict p y).
  - cbn [fst snd]. reflexivity.
  - destruct (split_until p r) as [a b]. cbn [fst snd] in *. rewrite !count_cons. lia.
Qed.

Ltac sh_simpl := cbn [ql fl cec cnc oqm ofm nextid clog g_enq g_disp g_taken g_cleared g_settled g_putbacks g_awake g_under sh_settle sh_putback sh_awake sh_unawake sh_under
                      sh_ql sh_fl sh_ec sh_nc sh_oqm sh_ofm sh_log sh_enq sh_disp sh_take sh_clear] in *.

Ltac perm :=
  apply (Permutation_count_occ cevt_dec);
  let x := fresh "x" in intros x;
  repeat first [ rewrite count_occ_app | rewrite count_occ_rev | rewrite count_cons | rewrite count_occ_nil ];
  cbn [count_occ];
  repeat match goal with
         | E : split_until ?p ?l = (?a, ?b) |- _ =>
             let H := fresh "HS" in pose proof (count_split_until p l x) as H; rewrite E in H; cbn [fst snd] in H; revert E
         end; intros;
  repeat match goal with
         | |- context[count_occ cevt_dec (filter (fun e => negb (?p e)) ?l) x] =>
             lazymatch goal with
             | H : count_occ cevt_dec (filter p l) x + _ = _ |- _ => fail
             | _ => pose proof (count_filter_split p l x)
             end
         end;
  lia.

Ltac so_fields :=
  try (match goal with |- context[dispatch_all ?t ?sh ?es] =>
         let H := fresh "D" in pose proof (dispatch_all_fields t es sh) as H;
         destruct H as (?D1 & ?D2 & ?D3 & ?D4 & ?D5 & ?D6 & ?D7 & ?D8 & ?D9 & ?D10) end);
  try (match goal with |- context[fold_left (fun s e => sh_take s ?t e) ?es ?sh] =>
         change (fold_left (fun s e => sh_take s t e) es sh) with (take_all t sh es);
         let H := fresh "T" in pose proof (take_all_fields t es sh) as H;
         destruct H as (?T1 & ?T2 & ?T3 & ?T4 & ?T5 & ?T6 & ?T7 & ?T8 & ?T9 & ?T10) end).

Ltac rew_fields :=
  repeat match goal with
         | H : ?f (dispatch_all ?t ?sh ?es) = _ |- context[?f (dispatch_all ?t ?sh ?es)] => rewrite H
         | H : filter is_disp (clog (dispatch_all ?t ?sh ?es)) = _ |- context[filter is_disp (clog (dispatch_all ?t ?sh ?es))] => rewrite H
         | H : ?f (take_all ?t ?sh ?es) = _ |- context[?f (take_all ?t ?sh ?es)] => rewrite H
         end.

Ltac so_solve :=
  lo_simpl; so_fields;
  split;
  [ unfold inflight, levl, consumed; sh_simpl; lo_simpl; rew_fields;
    repeat match goal with H : ql ?s = _ :: _ |- _ => rewrite H end;
    rewrite ?map_app, ?map_rev, ?map_snd_pair;
    first [ exists []; split; [reflexivity | split; [cbn [app]; perm | left; split; reflexivity]]
          | eexists [_]; split; [reflexivity | split; [cbn [app]; perm | right; eexists; split; [reflexivity | split; reflexivity]]] ]
  | sh_simpl; rew_fields; cbn [filter is_disp]; rewrite ?map_app; intros HL; rewrite ?HL; reflexivity
  | sh_simpl; rew_fields; split; reflexivity ].

Ltac wp2 :=
  first [ wp1
        | lazymatch goal with
          | |- wpl eval_can_process _ _ => apply neutral_eval_can_process
          | |- wpl eval_empty _ _ => apply neutral_eval_empty
          | |- wpl eval_can_notify _ _ => apply neutral_eval_can_notify
          end; let lo' := fresh "lo" in let A := fresh "A" in let B := fresh "B" in intros lo' A B ].

Ltac endok :=
  lo_simpl;
  repeat match goal with
         | H : nonempty ?l = false |- _ => destruct l; [clear H | discriminate H]
         | H : negb (nonempty ?l) = true |- _ => destruct l; [clear H | discriminate H]
         end;
  lo_simpl; split; lo_simpl; congruence.

Ltac wp_call :=
  cbn [code_of]; unfold processif_code, processuntil_code, putback, notify_code, dqn_ghost; cbv beta iota delta [GenQConc.dqn_dtor_decrement_under_mutex GenQConc.processif_putback_notifies GenQConc.processuntil_putback_notifies];
  repeat wp2; try so_same; try so_solve; try endok.

Lemma all_calls_wp c : wpl (code_of c) EndOK lo0.
Proof. destruct c; wp_call. Qed.

(* ---------- the invariant over shared state ---------- *)
Record SInv (sh : qshared) (mine others : list cevt) : Prop := mkSI {
  si_perm : Permutation (g_enq sh) (ql sh ++ mine ++ others ++ consumed sh);
  si_ids : forall e, In e (g_enq sh) -> ceid e < nextid sh;
  si_nodup : NoDup (map ceid (g_enq sh));
  si_log : filter is_disp (clog sh) = map disp_act (g_disp sh)
}.

Ltac cnt H x := let C := fresh "C" in pose proof (proj1 (Permutation_count_occ cevt_dec _ _) H x) as C;
                repeat rewrite count_occ_app in C.
Ltac perm_goal x := apply (Permutation_count_occ cevt_dec); intros x; repeat rewrite count_occ_app.

Lemma SInv_move sh m o m' o' : Permutation (m ++ o) (m' ++ o') -> SInv sh m o -> SInv sh m' o'.
Proof.
  intros P [A B C D]. split; auto.
  perm_goal x. cnt A x. cnt P x. lia.
Qed.

Lemma step_ok_SInv sh lo sh' lo' oth : SInv sh (inflight lo) oth -> step_ok sh lo sh' lo' -> SInv sh' (inflight lo') oth.
Proof.
  intros [A B C D] [(new & E1 & E2 & E3) L _]. split.
  - rewrite E1. perm_goal x. cnt A x. cnt E2 x. lia.
  - intros e He. rewrite E1 in He. apply in_app_or in He. destruct E3 as [[-> E3] | (e0 & -> & I1 & I2)].
    + destruct He as [[]|He]. rewrite E3. auto.
    + rewrite I2. destruct He as [[<-|[]]|He]; [lia|]. specialize (B e He). lia.
  - rewrite E1. destruct E3 as [[-> E3] | (e0 & -> & I1 & I2)]; [exact C|].
    cbn [app map]. constructor; [|exact C]. intros Hin. apply in_map_iff in Hin. destruct Hin as (e1 & Q1 & Q2).
    specialize (B e1 Q2). lia.
  - auto.
Qed.

Definition ledger_eq (sh sh' : qshared) : Prop :=
  ql sh' = ql sh /\ g_enq sh' = g_enq sh /\ g_disp sh' = g_disp sh /\ g_taken sh' = g_taken sh /\
  g_cleared sh' = g_cleared sh /\ nextid sh' = nextid sh /\ filter is_disp (clog sh') = filter is_disp (clog sh).

Lemma SInv_ledger_eq sh sh' m o : ledger_eq sh sh' -> SInv sh m o -> SInv sh' m o.
Proof.
  intros (E1 & E2 & E3 & E4 & E5 & E6 & E7) [A B C D]. unfold consumed in *.
  split.
  - unfold consumed. rewrite E1, E2, E3, E4, E5. exact A.
  - rewrite E2, E6. exact B.
  - rewrite E2. exact C.
  - rewrite E7, E3. exact D.
Qed.

Lemma ledger_eq_refl sh : ledger_eq sh sh.
Proof. repeat split. Qed.

(* ---------- threads ---------- *)
Definition th_wp (th : thread) : Prop :=
  match status th with
  | TFinished => inflight (lo th) = []
  | TParked _ => forall b, wpl (code th) EndOK (lo_to (lo th) b)
  | _ => wpl (code th) EndOK (lo th)
  end.

Lemma EndOK_inflight lo : EndOK lo -> inflight lo = [].
Proof. intros [A B]. unfold inflight, levl. rewrite A, B. reflexivity. Qed.

Lemma advance_inv fuel : forall t sh cd cl l oth,
  SInv sh (inflight l) oth -> wpl cd EndOK l ->
  SInv (fst (advance fuel t sh (mkTh cd cl l TRun))) (inflight (lo (snd (advance fuel t sh (mkTh cd cl l TRun))))) oth /\
  th_wp (snd (advance fuel t sh (mkTh cd cl l TRun))).
Proof.
  induction fuel as [|f IH]; intros t sh cd cl l oth HS HW.
  - cbn [advance fst snd lo]. split; [exact HS | exact HW].
  - cbn [advance code calls lo]. destruct cd as [|i rest].
    + destruct cl as [|c r].
      * cbn [fst snd lo]. split; [exact HS|]. unfold th_wp. cbn [status lo]. apply EndOK_inflight. exact HW.
      * apply IH; [|apply all_calls_wp].
        cbn [wpl] in HW. rewrite (EndOK_inflight _ HW) in HS. exact HS.
    + cbn [wpl] in HW. destruct i; try (cbn [fst snd lo]; split; [exact HS | exact HW]).
      * (* ILocal *)
        change (wpi (ILocal touches f0) (wpl rest EndOK) l) with
          (forall t sh, step_ok sh l (fst (f0 t sh l)) (snd (f0 t sh l)) /\ wpl rest EndOK (snd (f0 t sh l))) in HW.
        destruct (HW t sh) as [H1 H2]. destruct (f0 t sh l) as [sh1 lo1]. cbn [fst snd] in *.
        apply IH; [eapply step_ok_SInv; eauto | exact H2].
      * (* IIf *)
        rewrite wpi_if in HW. destruct (HW sh) as [Ha Hb].
        apply IH; [exact HS|]. apply wpl_app. destruct (c sh l); auto.
      * (* IWaitLoop *)
        apply IH; [exact HS|]. apply wpl_app. apply neutral_wait_loop. exact HW.
      * (* IRes *)
        apply IH; [|exact HW]. eapply SInv_ledger_eq; [|exact HS]. repeat split.
      * (* IDone *)
        apply IH; [|exact HW]. eapply SInv_ledger_eq; [|exact HS]. repeat split.
Qed.

(* ---------- thread lists ---------- *)
Definition infl (ths : list thread) : list cevt := flat_map inflight (map lo ths).

Lemma set_th_split : forall (l : list thread) t x, nth_error l t = Some x ->
  exists l1 l2, l = l1 ++ x :: l2 /\ forall y, set_th l t y = l1 ++ y :: l2.
Proof.
  induction l as [|a r IH]; intros [|t] x H; cbn [nth_error] in H; try discriminate.
  - injection H as ->. exists [], r. split; reflexivity.
  - destruct (IH t x H) as (l1 & l2 & E & F). exists (a :: l1), l2. split; [rewrite E; reflexivity|].
    intros y. cbn [set_th app]. rewrite F. reflexivity.
Qed.

Lemma set_th_none : forall (l : list thread) t y, nth_error l t = None -> set_th l t y = l.
Proof.
  induction l as [|a r IH]; intros [|t] y H; cbn [nth_error set_th] in *; try discriminate; try reflexivity.
  rewrite IH; auto.
Qed.

Lemma infl_app a b : infl (a ++ b) = infl a ++ infl b.
Proof. unfold infl. rewrite map_app, flat_map_app. reflexivity. Qed.

Lemma infl_cons x r : infl (x :: r) = inflight (lo x) ++ infl r.
Proof. reflexivity. Qed.

Lemma first_parked_some p : forall (l : list thread) i w, first_parked l i p = Some w ->
  exists x, nth_error l (w - i) = Some x /\ p x = true /\ i <= w.
Proof.
  induction l as [|a r IH]; intros i w H; cbn [first_parked] in H; [discriminate|].
  destruct (p a) eqn:E.
  - injection H as <-. exists a. rewrite Nat.sub_diag. auto.
  - destruct (IH _ _ H) as (x & N & P & L). exists x. replace (w - i) with (S (w - S i)) by lia. cbn [nth_error]. repeat split; auto. lia.
Qed.

(* the invariant of a whole configuration *)
Record CInv (cfg : config) : Prop := mkCI {
  ci_s : SInv (shs cfg) [] (infl (ths cfg));
  ci_th : Forall th_wp (ths cfg)
}.

Lemma lo_to_idem l b c : lo_to (lo_to l b) c = lo_to l c.
Proof. destruct l; reflexivity. Qed.
Lemma lo_to_self l : lo_to l (ltimedout l) = l.
Proof. destruct l; reflexivity. Qed.
Lemma inflight_lo_to l b : inflight (lo_to l b) = inflight l.
Proof. destruct l; reflexivity. Qed.
Lemma inflight_lo_reg l v : inflight (lo_reg l v) = inflight l.
Proof. destruct l; reflexivity. Qed.
Lemma inflight_lo_held l v : inflight (lo_held l v) = inflight l.
Proof. destruct l; reflexivity. Qed.

(* replacing thread t *)
Lemma CInv_replace sh ths t th sh' th' :
  SInv sh [] (infl ths) -> Forall th_wp ths -> nth_error ths t = Some th ->
  (forall oth, SInv sh (inflight (lo th)) oth -> SInv sh' (inflight (lo th')) oth) ->
  th_wp th' ->
  SInv sh' [] (infl (set_th ths t th')) /\ Forall th_wp (set_th ths t th').
Proof.
  intros HS HF HN Hstep Hw.
  destruct (set_th_split _ _ _ HN) as (l1 & l2 & E & F). rewrite F. subst ths.
  rewrite infl_app, infl_cons in *. split.
  - eapply SInv_move; [|apply (Hstep (infl l1 ++ infl l2))].
    + perm_goal x. cbn [count_occ]. lia.
    + eapply SInv_move; [|exact HS]. perm_goal x. cbn [count_occ]. lia.
  - apply Forall_app in HF. destruct HF as [F1 F2]. inversion F2; subst. apply Forall_app. split; auto.
Qed.

Lemma infl_map_lo a b : map lo a = map lo b -> infl a = infl b.
Proof. unfold infl. intros ->. reflexivity. Qed.

Lemma perform_tail fuel sh ths t th sh1 th1 others :
  SInv sh [] (infl ths) -> nth_error ths t = Some th ->
  ledger_eq sh sh1 -> map lo others = map lo ths -> Forall th_wp others ->
  inflight (lo th1) = inflight (lo th) ->
  match status th1 with
  | TParked _ => forall b, wpl (code th1) EndOK (lo_to (lo th1) b)
  | TRun => wpl (code th1) EndOK (lo th1)
  | _ => False
  end ->
  SInv (fst (match status th1 with TParked _ => (sh1, th1) | _ => advance fuel t sh1 th1 end)) []
       (infl (set_th others t (snd (match status th1 with TParked _ => (sh1, th1) | _ => advance fuel t sh1 th1 end)))) /\
  Forall th_wp (set_th others t (snd (match status th1 with TParked _ => (sh1, th1) | _ => advance fuel t sh1 th1 end))).
Proof.
  intros HS HN HL HM HF HI HW.
  assert (HN' : exists th', nth_error others t = Some th' /\ lo th' = lo th).
  { pose proof (map_nth_error lo _ _ HN) as M. rewrite <- HM in M.
    destruct (nth_error others t) as [th'|] eqn:E.
    - exists th'. split; [reflexivity|]. rewrite (map_nth_error lo _ _ E) in M. congruence.
    - apply nth_error_None in E. assert (nth_error (map lo others) t = None) by (apply nth_error_None; rewrite map_length; exact E). congruence. }
  destruct HN' as (th' & HN' & HLo).
  rewrite <- (infl_map_lo _ _ HM) in HS.
  destruct th1 as [cd cl l st]. cbn [status code lo] in *.
  destruct st as [|timed| |]; try contradiction.
  - (* TRun: runs on *)
    eapply CInv_replace; [exact HS | exact HF | exact HN' | | ].
    + intros oth Ho. apply advance_inv; [|exact HW].
      eapply SInv_ledger_eq; [exact HL|]. rewrite HI, <- HLo. exact Ho.
    + destruct (set_th_split _ _ _ HN') as (l1 & l2 & E & _). subst others. rewrite infl_app, infl_cons in HS.
      apply advance_inv with (oth := infl l1 ++ infl l2); [|exact HW].
      eapply SInv_ledger_eq; [exact HL|]. rewrite HI, <- HLo.
      eapply SInv_move; [|exact HS]. perm_goal x. cbn [count_occ]. lia.
  - (* parked *)
    cbn [fst snd]. eapply CInv_replace; [exact HS | exact HF | exact HN' | | ].
    + intros oth Ho. cbn [lo]. eapply SInv_ledger_eq; [exact HL|]. rewrite HI, <- HLo. exact Ho.
    + unfold th_wp. cbn [status code lo]. exact HW.
Qed.

Lemma set_th_same_lo ths w wt x :
  nth_error ths w = Some wt -> lo x = lo wt -> map lo (set_th ths w x) = map lo ths.
Proof.
  intros HN HL. destruct (set_th_split _ _ _ HN) as (l1 & l2 & E & F). rewrite F, E.
  rewrite !map_app. cbn [map]. rewrite HL. reflexivity.
Qed.

Lemma set_th_Forall ths w x : Forall th_wp ths -> th_wp x -> Forall th_wp (set_th ths w x).
Proof.
  intros HF Hx. destruct (nth_error ths w) as [wt|] eqn:HN.
  - destruct (set_th_split _ _ _ HN) as (l1 & l2 & E & F). rewrite F. subst ths.
    apply Forall_app in HF. destruct HF as [F1 F2]. inversion F2; subst. apply Forall_app. split; auto.
  - rewrite set_th_none; auto.
Qed.

Definition is_parked (x : thread) : bool := match status x with TParked _ => true | _ => false end.

Lemma wake_ok ths :
  Forall th_wp ths ->
  let others := match first_parked ths 0 (fun x => match status x with TParked _ => true | _ => false end) with
                | Some w => match nth_error ths w with
                            | Some wt => set_th ths w (mkTh (code wt) (calls wt) (lo wt) TWoken)
                            | None => ths
                            end
                | None => ths
                end in
  map lo others = map lo ths /\ Forall th_wp others.
Proof.
  intros HF. cbv zeta.
  destruct (first_parked ths 0 _) as [w|] eqn:E; [|split; auto].
  destruct (nth_error ths w) as [wt|] eqn:HN; [|split; auto].
  split.
  - eapply set_th_same_lo; eauto.
  - apply set_th_Forall; [exact HF|].
    destruct (first_parked_some _ _ _ _ E) as (x & N & P & _). rewrite Nat.sub_0_r in N. rewrite HN in N. injection N as <-.
    pose proof (proj1 (Forall_forall _ _) HF wt (nth_error_In _ _ HN)) as HW. unfold th_wp in *. cbn [status code lo].
    destruct (status wt); try discriminate. specialize (HW (ltimedout (lo wt))). rewrite lo_to_self in HW. exact HW.
Qed.

Lemma perform_finish fuel cfg t th sh1 th1 others :
  SInv (shs cfg) [] (infl (ths cfg)) -> nth_error (ths cfg) t = Some th ->
  ledger_eq (shs cfg) sh1 -> map lo others = map lo (ths cfg) -> Forall th_wp others ->
  inflight (lo th1) = inflight (lo th) ->
  match status th1 with
  | TParked _ => forall b, wpl (code th1) EndOK (lo_to (lo th1) b)
  | TRun => wpl (code th1) EndOK (lo th1)
  | _ => False
  end ->
  CInv (let '(sh2, th2) := match status th1 with TParked _ => (sh1, th1) | _ => advance fuel t sh1 th1 end in
        mkCfg sh2 (set_th others t th2) (sched cfg) (dead cfg)).
Proof.
  intros HS HN HL HM HF HI HW.
  pose proof (perform_tail fuel _ _ _ _ sh1 th1 others HS HN HL HM HF HI HW) as P.
  destruct (match status th1 with TParked _ => (sh1, th1) | _ => advance fuel t sh1 th1 end) as [sh2 th2].
  cbn [fst snd] in P. destruct P. split; assumption.
Qed.

Lemma perform_inv t cfg : CInv cfg -> CInv (perform t cfg).
Proof.
  intros [HS HF]. unfold perform. generalize ADV_FUEL. intros fuel.
  destruct (nth_error (ths cfg) t) as [th|] eqn:HN; [|split; assumption].
  pose proof (proj1 (Forall_forall _ _) HF th (nth_error_In _ _ HN)) as HW. unfold th_wp in HW.
  destruct (status th) eqn:Est; try (split; assumption).
  - (* TRun *)
    destruct (code th) as [|i rest] eqn:Ec; [split; assumption|].
    cbn [wpl] in HW.
    assert (Hdef : CInv (let '(sh2, th2) := match status th with TParked _ => (shs cfg, th) | _ => advance fuel t (shs cfg) th end in
                         mkCfg sh2 (set_th (ths cfg) t th2) (sched cfg) (dead cfg))).
    { apply perform_finish with (th := th); auto using ledger_eq_refl.
      rewrite Est, Ec. cbn [wpl]. exact HW. }
    destruct i as [m|m|a|a|a| |timed|tt f|r c x y|timed| | | |rr];
      try exact Hdef.
    all: try destruct m; try destruct a.
    all: cbv beta iota zeta.
    all: try (apply perform_finish with (th := th); auto; cbn [status code lo];
              try (repeat split; fail); try apply inflight_lo_reg; try apply inflight_lo_to; try apply inflight_lo_held; try exact HW).
    + apply HW.
    + apply HW.
    + apply (wake_ok _ HF).
    + apply (wake_ok _ HF).
  - (* TWoken *)
    assert (HL : ledger_eq (shs cfg) (sh_oqm (sh_log (shs cfg) (CCvWake t)) (Some t))) by (repeat split).
    pose proof (perform_finish fuel cfg t th _ (mkTh (code th) (calls th) (lo th) TRun) (ths cfg) HS HN HL eq_refl HF eq_refl HW) as P.
    exact P.
Qed.

Lemma CInv_irrel sh l s d s' d' : CInv (mkCfg sh l s d) -> CInv (mkCfg sh l s' d').
Proof. intros [A B]. split; assumption. Qed.

Lemma first_parked_status p (l : list thread) w wt :
  first_parked l 0 p = Some w -> nth_error l w = Some wt -> p wt = true.
Proof.
  intros E N. destruct (first_parked_some _ _ _ _ E) as (x & N' & P & _). rewrite Nat.sub_0_r in N'. congruence.
Qed.

Lemma sched_step0_inv cfg cfg' : CInv cfg -> sched_step0 cfg = Some cfg' -> CInv cfg'.
Proof.
  intros HC. unfold sched_step0. destruct (dead cfg); [discriminate|].
  destruct (next_from_schedule cfg (sched cfg)) as [pick rest].
  assert (HC1 : CInv (mkCfg (shs cfg) (ths cfg) rest false)) by (destruct cfg; eapply CInv_irrel; exact HC).
  set (cfg1 := mkCfg (shs cfg) (ths cfg) rest false) in *.
  destruct (match pick with Some t => Some t | None => lowest_enabled cfg1 end) as [t|].
  - intros E. injection E as <-. apply perform_inv. exact HC1.
  - destruct (first_parked (ths cfg1) 0 _) as [w|] eqn:EP.
    + destruct (nth_error (ths cfg1) w) as [wt|] eqn:EN; [|discriminate].
      set (cfg2 := mkCfg _ _ rest (dead cfg1)).
      assert (HC2 : CInv cfg2).
      { destruct HC1 as [HS HF]. subst cfg2.
        pose proof (first_parked_status _ _ _ _ EP EN) as Pk. cbv beta in Pk.
        pose proof (proj1 (Forall_forall _ _) HF wt (nth_error_In _ _ EN)) as HW. unfold th_wp in HW.
        destruct (status wt) as [|timed| |] eqn:Est; try discriminate. destruct timed; [|discriminate].
        destruct (CInv_replace (shs cfg1) (ths cfg1) w wt (sh_log (shs cfg1) (CTimeout w))
                               (mkTh (code wt) (calls wt) (lo_to (lo wt) true) TWoken) HS HF EN) as [A B].
        - intros oth Ho. cbn [lo]. rewrite inflight_lo_to. eapply SInv_ledger_eq; [|exact Ho]. repeat split.
        - unfold th_wp. cbn [status code lo]. apply HW.
        - split; assumption. }
      destruct (th_enabled cfg2 w); intros E; injection E as <-; [apply perform_inv|]; exact HC2.
    + destruct (all_finished cfg1); [discriminate|]. intros E. injection E as <-.
      destruct HC1 as [HS HF]. split; [|exact HF]. cbn [shs ths]. eapply SInv_ledger_eq; [|exact HS]. repeat split.
Qed.

(* a wait that ends without a notification (timeout at any moment, spurious wake-up) *)
Lemma unnotified_inv cfg tok c : CInv cfg -> unnotified cfg tok = Some c -> CInv c.
Proof.
  intros [HS HF] H. unfold unnotified in H.
  destruct (Nat.leb 2000 tok).
  - destruct (nth_error (ths cfg) (tok - 2000)) as [wt|] eqn:EN; [|discriminate].
    pose proof (proj1 (Forall_forall _ _) HF wt (nth_error_In _ _ EN)) as HW. unfold th_wp in HW.
    destruct (status wt) as [|timed| |] eqn:Est; try discriminate. injection H as <-.
    destruct (CInv_replace (shs cfg) (ths cfg) (tok - 2000) wt (shs cfg)
                           (mkTh (code wt) (calls wt) (lo_to (lo wt) false) TWoken) HS HF EN) as [A B].
    + intros oth Ho. cbn [lo]. rewrite inflight_lo_to. exact Ho.
    + unfold th_wp. cbn [status code lo]. apply HW.
    + split; assumption.
  - destruct (Nat.leb 1000 tok); [|discriminate].
    destruct (nth_error (ths cfg) (tok - 1000)) as [wt|] eqn:EN; [|discriminate].
    pose proof (proj1 (Forall_forall _ _) HF wt (nth_error_In _ _ EN)) as HW. unfold th_wp in HW.
    destruct (status wt) as [|timed| |] eqn:Est; try discriminate. destruct timed; [|discriminate]. injection H as <-.
    destruct (CInv_replace (shs cfg) (ths cfg) (tok - 1000) wt (sh_log (shs cfg) (CTimeout (tok - 1000)))
                           (mkTh (code wt) (calls wt) (lo_to (lo wt) true) TWoken) HS HF EN) as [A B].
    + intros oth Ho. cbn [lo]. rewrite inflight_lo_to. eapply SInv_ledger_eq; [|exact Ho]. repeat split.
    + unfold th_wp. cbn [status code lo]. apply HW.
    + split; assumption.
Qed.

Lemma sched_step_inv cfg cfg' : CInv cfg -> sched_step cfg = Some cfg' -> CInv cfg'.
Proof.
  intros HC. unfold sched_step. destruct (dead cfg) eqn:Ed; [discriminate|].
  assert (H0 : sched_step0 cfg = Some cfg' -> CInv cfg') by (apply sched_step0_inv; exact HC).
  destruct (sched cfg) as [|tok rest]; [exact H0|].
  destruct (unnotified _ tok) as [c|] eqn:EU; [|exact H0].
  intros E. injection E as <-. eapply unnotified_inv; [|exact EU]. destruct cfg; eapply CInv_irrel; exact HC.
Qed.

Lemma run_sched_inv fuel : forall cfg, CInv cfg -> CInv (run_sched fuel cfg).
Proof.
  induction fuel as [|f IH]; intros cfg HC; cbn [run_sched]; [exact HC|].
  destruct (sched_step cfg) as [c|] eqn:E; [|exact HC]. apply IH. eapply sched_step_inv; eauto.
Qed.

Lemma infl_start progs : infl (start_threads progs) = [].
Proof. unfold infl, start_threads. induction progs as [|p r IH]; [reflexivity|]. cbn [map flat_map lo]. rewrite IH. reflexivity. Qed.

Lemma init_inv progs schedule : CInv (mkCfg sh0 (start_threads progs) schedule false).
Proof.
  split; cbn [shs ths].
  - rewrite infl_start. split; cbn; auto using Permutation_refl, NoDup_nil. intros e [].
  - unfold start_threads. apply Forall_forall. intros th Hin. apply in_map_iff in Hin. destruct Hin as (p & <- & _).
    unfold th_wp. cbn [status code lo wpl wpi]. split; reflexivity.
Qed.

(* ---------- the theorems ---------- *)
Definition reached (progs : list (list qapi)) (schedule : list nat) (fuel : nat) : config :=
  run_sched fuel (mkCfg sh0 (start_threads progs) schedule false).

Theorem conservation_every_schedule progs schedule fuel : CInv (reached progs schedule fuel).
Proof. apply run_sched_inv. apply init_inv. Qed.

(* every enqueued event is in exactly one place *)
Theorem every_event_in_exactly_one_place progs schedule fuel :
  let cfg := reached progs schedule fuel in
  Permutation (g_enq (shs cfg)) (ql (shs cfg) ++ infl (ths cfg) ++ consumed (shs cfg)) /\
  NoDup (map ceid (ql (shs cfg) ++ infl (ths cfg) ++ consumed (shs cfg))).
Proof.
  cbv zeta. destruct (conservation_every_schedule progs schedule fuel) as [[A B C D] _]. cbn [app] in A.
  split; [exact A|]. eapply Permutation_NoDup; [|exact C]. apply Permutation_map. exact A.
Qed.

Lemma NoDup_drop_middle {A} (a b c : list A) : NoDup (a ++ b ++ c) -> NoDup (a ++ c).
Proof.
  induction a as [|x a IH]; cbn [app]; intros N.
  - induction b as [|y b IHb]; cbn [app] in N; [exact N|]. inversion N; auto.
  - inversion N as [|? ? Hx Hr]; subst. constructor; [|apply IH; exact Hr].
    intros Hin. apply Hx. apply in_app_or in Hin. apply in_or_app. destruct Hin as [H|H]; [left; exact H|].
    right. apply in_or_app. right. exact H.
Qed.

(* no event is dispatched twice, or both dispatched and taken, or consumed and still queued *)
Corollary no_event_consumed_twice progs schedule fuel :
  let sh := shs (reached progs schedule fuel) in
  NoDup (map ceid (ql sh ++ map snd (g_disp sh) ++ map snd (g_taken sh) ++ g_cleared sh)).
Proof.
  cbv zeta. destruct (every_event_in_exactly_one_place progs schedule fuel) as [_ N].
  rewrite !map_app in N. rewrite map_app. apply NoDup_drop_middle in N. exact N.
Qed.

(* when every thread has finished nothing is in flight: each enqueued event was consumed exactly once or is still queued *)
Theorem finished_accounts_for_every_event progs schedule fuel :
  let cfg := reached progs schedule fuel in
  all_finished cfg = true ->
  Permutation (g_enq (shs cfg)) (ql (shs cfg) ++ consumed (shs cfg)).
Proof.
  cbv zeta. intros HF. destruct (conservation_every_schedule progs schedule fuel) as [[A B C D] HT]. cbn [app] in A.
  assert (E : infl (ths (reached progs schedule fuel)) = []).
  { unfold all_finished in HF. rewrite forallb_forall in HF. unfold infl.
    revert HT HF. generalize (ths (reached progs schedule fuel)). intros l.
    induction l as [|th r IH]; intros HT HF; [reflexivity|].
    cbn [map flat_map]. inversion HT as [|? ? H1 H2]; subst.
    rewrite (IH H2) by (intros x Hx; apply HF; right; exact Hx).
    specialize (HF th (or_introl eq_refl)). unfold th_wp in H1. destruct (status th); try discriminate. rewrite H1. reflexivity. }
  rewrite E in A. exact A.
Qed.

(* the dispatches visible in the log are exactly the ledger's dispatches *)
Theorem logged_dispatches_are_the_ledger progs schedule fuel :
  let sh := shs (reached progs schedule fuel) in
  filter is_disp (clog sh) = map disp_act (g_disp sh).
Proof. cbv zeta. destruct (conservation_every_schedule progs schedule fuel) as [[A B C D] _]. exact D. Qed.

(* ====================================================================================
   queueEmptyCounter is exactly the number of processing calls in flight.

   pd code = how many more decrements than increments of queueEmptyCounter the remaining code of
   a thread will perform (both branches of every conditional must agree, otherwise None).  Every
   API call starts and ends with pd = 0; in every reachable configuration the counter equals the
   sum of pd over the threads: it returns to its previous value when a processing call is over,
   is never negative, and is 0 whenever no thread is between the increment and the decrement. *)
Local Open Scope Z_scope.

Fixpoint pdi (i : instr) : option Z :=
  match i with
  | IAInc EC => Some (-1)
  | IADec EC => Some 1
  | IIf _ _ a b =>
      match (fix pl (l : list instr) : option Z :=
               match l with [] => Some 0 | j :: r => match pdi j, pl r with Some x, Some y => Some (x + y) | _, _ => None end end) a,
            (fix pl (l : list instr) : option Z :=
               match l with [] => Some 0 | j :: r => match pdi j, pl r with Some x, Some y => Some (x + y) | _, _ => None end end) b with
      | Some x, Some y => if Z.eqb x y then Some x else None
      | _, _ => None
      end
  | _ => Some 0
  end.

Fixpoint pd (l : list instr) : option Z :=
  match l with [] => Some 0 | j :: r => match pdi j, pd r with Some x, Some y => Some (x + y) | _, _ => None end end.

Lemma pdi_if r c a b : pdi (IIf r c a b) =
  match pd a, pd b with Some x, Some y => if Z.eqb x y then Some x else None | _, _ => None end.
Proof. reflexivity. Qed.

Lemma pd_app a : forall b x y, pd a = Some x -> pd b = Some y -> pd (a ++ b) = Some (x + y).
Proof.
  induction a as [|j r IH]; intros b x y Ha Hb; cbn [pd app] in *.
  - injection Ha as <-. rewrite Hb. reflexivity.
  - destruct (pdi j) as [u|]; [|discriminate]. destruct (pd r) as [v|] eqn:E; [|discriminate].
    injection Ha as <-. rewrite (IH b v y eq_refl Hb). f_equal. lia.
Qed.

Lemma pd_calls c : pd (code_of c) = Some 0.
Proof. destruct c; vm_compute; reflexivity. Qed.

Lemma pd_wait_loop timed : pd (wait_loop timed) = Some 0.
Proof. destruct timed; vm_compute; reflexivity. Qed.

Definition th_pd (th : thread) : option Z := pd (code th).

(* advance keeps a thread's pd and does not touch the counter *)
Lemma advance_pd fuel : forall t sh cd cl l k,
  wpl cd EndOK l -> pd cd = Some k ->
  cec (fst (advance fuel t sh (mkTh cd cl l TRun))) = cec sh /\
  pd (code (snd (advance fuel t sh (mkTh cd cl l TRun)))) = Some k.
Proof.
  induction fuel as [|f IH]; intros t sh cd cl l k HW HP.
  - cbn [advance fst snd code]. auto.
  - cbn [advance code calls lo]. destruct cd as [|i rest].
    + cbn [pd] in HP. injection HP as <-. destruct cl as [|c r].
      * cbn [fst snd code pd]. auto.
      * apply IH; [apply all_calls_wp | apply pd_calls].
    + cbn [wpl] in HW. cbn [pd] in HP.
      destruct (pdi i) as [x|] eqn:Ei; [|discriminate]. destruct (pd rest) as [y|] eqn:Er; [|discriminate].
      injection HP as <-.
      destruct i; try (cbn [fst snd code pd]; rewrite Ei, Er; auto).
      * (* ILocal *)
        change (wpi (ILocal touches f0) (wpl rest EndOK) l) with
          (forall t sh, step_ok sh l (fst (f0 t sh l)) (snd (f0 t sh l)) /\ wpl rest EndOK (snd (f0 t sh l))) in HW.
        destruct (HW t sh) as [H1 H2]. destruct (f0 t sh l) as [sh1 lo1]. cbn [fst snd] in *.
        cbn [pdi] in Ei. injection Ei as <-.
        destruct (IH t sh1 rest cl lo1 y H2 Er) as [A B]. split; [|rewrite B; f_equal; lia].
        rewrite A. apply (so_cnt _ _ _ _ H1).
      * (* IIf *)
        rewrite wpi_if in HW. destruct (HW sh) as [Ha Hb]. rewrite pdi_if in Ei.
        destruct (pd a) as [u|] eqn:Ea; [|discriminate]. destruct (pd b) as [v|] eqn:Eb; [|discriminate].
        destruct (Z.eqb_spec u v) as [->|]; [|discriminate]. injection Ei as <-.
        apply IH.
        -- apply wpl_app. destruct (c sh l); auto.
        -- destruct (c sh l); apply pd_app; auto.
      * (* IWaitLoop *)
        cbn [pdi] in Ei. injection Ei as <-.
        apply IH; [apply wpl_app; apply neutral_wait_loop; exact HW|].
        apply (pd_app _ _ 0 y); [apply pd_wait_loop | exact Er].
      * (* IRes *) cbn [pdi] in Ei. injection Ei as <-. apply (IH t (sh_log sh (CRes t (lres l))) rest cl l y HW Er).
      * (* IDone *) cbn [pdi] in Ei. injection Ei as <-. apply (IH t (sh_log sh (CDone t)) rest cl l y HW Er).
Qed.

Fixpoint sum_pd (l : list thread) : option Z :=
  match l with
  | [] => Some 0
  | th :: r => match pd (code th), sum_pd r with Some x, Some y => Some (x + y) | _, _ => None end
  end.

Definition PInv (cfg : config) : Prop := sum_pd (ths cfg) = Some (cec (shs cfg)).

Lemma sum_pd_app a : forall b x y, sum_pd a = Some x -> sum_pd b = Some y -> sum_pd (a ++ b) = Some (x + y).
Proof.
  induction a as [|th r IH]; intros b x y Ha Hb; cbn [sum_pd app] in *.
  - injection Ha as <-. rewrite Hb. reflexivity.
  - destruct (pd (code th)) as [u|]; [|discriminate]. destruct (sum_pd r) as [v|] eqn:E; [|discriminate].
    injection Ha as <-. rewrite (IH b v y eq_refl Hb). f_equal. lia.
Qed.

Lemma sum_pd_app_inv a : forall b s, sum_pd (a ++ b) = Some s -> exists x y, sum_pd a = Some x /\ sum_pd b = Some y /\ s = x + y.
Proof.
  induction a as [|th r IH]; intros b s H; cbn [sum_pd app] in *.
  - exists 0, s. auto.
  - destruct (pd (code th)) as [u|]; [|discriminate]. destruct (sum_pd (r ++ b)) as [v|] eqn:E; [|discriminate].
    injection H as <-. destruct (IH b v E) as (x & y & A & B & ->). rewrite A. exists (u + x), y. repeat split; auto. lia.
Qed.

Lemma sum_pd_map_code a b : map code a = map code b -> sum_pd a = sum_pd b.
Proof.
  revert b; induction a as [|x r IH]; intros [|y s] H; cbn [map] in H; try discriminate; [reflexivity|].
  injection H as H1 H2. cbn [sum_pd]. rewrite H1, (IH s H2). reflexivity.
Qed.

Lemma sum_pd_replace ths t th th' s k k' :
  sum_pd ths = Some s -> nth_error ths t = Some th -> pd (code th) = Some k -> pd (code th') = Some k' ->
  sum_pd (set_th ths t th') = Some (s + (k' - k)).
Proof.
  intros HS HN Hk Hk'. destruct (set_th_split _ _ _ HN) as (l1 & l2 & E & F). rewrite F. subst ths.
  destruct (sum_pd_app_inv _ _ _ HS) as (x & y & A & B & ->). cbn [sum_pd] in B. rewrite Hk in B.
  destruct (sum_pd l2) as [z|] eqn:E2; [|discriminate]. injection B as <-.
  rewrite (sum_pd_app l1 (th' :: l2) x (k' + z) A); [f_equal; lia|]. cbn [sum_pd]. rewrite Hk', E2. reflexivity.
Qed.

Lemma set_th_same_code ths w wt x :
  nth_error ths w = Some wt -> code x = code wt -> map code (set_th ths w x) = map code ths.
Proof.
  intros HN HL. destruct (set_th_split _ _ _ HN) as (l1 & l2 & E & F). rewrite F, E.
  rewrite !map_app. cbn [map]. rewrite HL. reflexivity.
Qed.

Lemma perform_pd_finish fuel cfg t th k sh1 th1 k1 others :
  PInv cfg -> nth_error (ths cfg) t = Some th -> pd (code th) = Some k ->
  map code others = map code (ths cfg) ->
  pd (code th1) = Some k1 -> cec sh1 = cec (shs cfg) + (k1 - k) ->
  match status th1 with TParked _ => True | TRun => wpl (code th1) EndOK (lo th1) | _ => False end ->
  PInv (let '(sh2, th2) := match status th1 with TParked _ => (sh1, th1) | _ => advance fuel t sh1 th1 end in
        mkCfg sh2 (set_th others t th2) (sched cfg) (dead cfg)).
Proof.
  unfold PInv. intros HP HN Hk HM Hk1 Hc HW.
  assert (HN' : exists th', nth_error others t = Some th' /\ code th' = code th).
  { pose proof (map_nth_error code _ _ HN) as M. rewrite <- HM in M.
    destruct (nth_error others t) as [th'|] eqn:E.
    - exists th'. split; [reflexivity|]. rewrite (map_nth_error code _ _ E) in M. congruence.
    - apply nth_error_None in E. assert (nth_error (map code others) t = None) by (apply nth_error_None; rewrite map_length; exact E). congruence. }
  destruct HN' as (th' & HN' & HC). rewrite <- (sum_pd_map_code _ _ HM) in HP.
  assert (Hk' : pd (code th') = Some k) by (rewrite HC; exact Hk).
  destruct th1 as [cd cl l st]. cbn [status code lo] in *.
  destruct st as [|timed| |]; try contradiction.
  - destruct (advance_pd fuel t sh1 cd cl l k1 HW Hk1) as [A B].
    destruct (advance fuel t sh1 (mkTh cd cl l TRun)) as [sh2 th2]. cbn [fst snd shs ths] in *.
    rewrite (sum_pd_replace _ _ _ th2 _ _ _ HP HN' Hk' B). f_equal. lia.
  - cbn [shs ths]. rewrite (sum_pd_replace _ _ _ (mkTh cd cl l (TParked timed)) _ _ _ HP HN' Hk' Hk1). f_equal. lia.
Qed.

Lemma sum_pd_nth ths t th s : sum_pd ths = Some s -> nth_error ths t = Some th -> exists k, pd (code th) = Some k.
Proof.
  intros HS HN. destruct (set_th_split _ _ _ HN) as (l1 & l2 & E & _). subst ths.
  destruct (sum_pd_app_inv _ _ _ HS) as (x & y & A & B & _). cbn [sum_pd] in B.
  destruct (pd (code th)) as [k|]; [eauto|discriminate].
Qed.

Lemma wake_code ths :
  map code (match first_parked ths 0 (fun x => match status x with TParked _ => true | _ => false end) with
            | Some w => match nth_error ths w with
                        | Some wt => set_th ths w (mkTh (code wt) (calls wt) (lo wt) TWoken)
                        | None => ths
                        end
            | None => ths
            end) = map code ths.
Proof.
  destruct (first_parked ths 0 _) as [w|]; [|reflexivity].
  destruct (nth_error ths w) as [wt|] eqn:HN; [|reflexivity].
  eapply set_th_same_code; eauto.
Qed.

Lemma perform_pd t cfg : CInv cfg -> PInv cfg -> PInv (perform t cfg).
Proof.
  intros [HS HF] HP. unfold perform. generalize ADV_FUEL. intros fuel.
  destruct (nth_error (ths cfg) t) as [th|] eqn:HN; [|exact HP].
  pose proof (proj1 (Forall_forall _ _) HF th (nth_error_In _ _ HN)) as HW. unfold th_wp in HW.
  destruct (sum_pd_nth _ _ _ _ HP HN) as [k Hk].
  destruct (status th) eqn:Est; try exact HP.
  - (* TRun *)
    destruct (code th) as [|i rest] eqn:Ec; [exact HP|].
    cbn [wpl] in HW. cbn [pd] in Hk.
    destruct (pdi i) as [x|] eqn:Ei; [|discriminate]. destruct (pd rest) as [y|] eqn:Er; [|discriminate].
    injection Hk as <-.
    assert (Hk0 : pd (code th) = Some (x + y)) by (rewrite Ec; cbn [pd]; rewrite Ei, Er; reflexivity).
    assert (Hdef : PInv (let '(sh2, th2) := match status th with TParked _ => (shs cfg, th) | _ => advance fuel t (shs cfg) th end in
                         mkCfg sh2 (set_th (ths cfg) t th2) (sched cfg) (dead cfg))).
    { apply (perform_pd_finish fuel cfg t th (x + y) (shs cfg) th (x + y) (ths cfg)); auto; [lia|].
      rewrite Est, Ec. cbn [wpl]. exact HW. }
    destruct i as [m|m|a|a|a| |timed|tt f|r c u v|timed| | | |rr];
      try exact Hdef.
    all: try destruct m; try destruct a.
    all: cbv beta iota zeta.
    all: cbn [pdi] in Ei; injection Ei as <-.
    all: try solve [apply perform_pd_finish with (th := th) (k := 0 + y) (k1 := y); auto; cbn [status code lo cec sh_log sh_oqm sh_ofm sh_ec sh_nc];
                    try lia; try exact I; try exact HW; try apply HW; try apply wake_code].
    + apply perform_pd_finish with (th := th) (k := -1 + y) (k1 := y); auto; cbn [status code lo cec sh_log sh_ec]; try lia; exact HW.
    + apply perform_pd_finish with (th := th) (k := 1 + y) (k1 := y); auto; cbn [status code lo cec sh_log sh_ec]; try lia; exact HW.
  - (* TWoken *)
    assert (Hc : cec (sh_oqm (sh_log (shs cfg) (CCvWake t)) (Some t)) = cec (shs cfg) + (k - k)) by (cbn [cec sh_log sh_oqm]; lia).
    exact (perform_pd_finish fuel cfg t th k _ (mkTh (code th) (calls th) (lo th) TRun) k (ths cfg) HP HN Hk eq_refl Hk Hc HW).
Qed.

Lemma sched_step0_pd cfg cfg' : CInv cfg -> PInv cfg -> sched_step0 cfg = Some cfg' -> PInv cfg'.
Proof.
  intros HC HP. unfold sched_step0. destruct (dead cfg); [discriminate|].
  destruct (next_from_schedule cfg (sched cfg)) as [pick rest].
  assert (HC1 : CInv (mkCfg (shs cfg) (ths cfg) rest false)) by (destruct cfg; eapply CInv_irrel; exact HC).
  assert (HP1 : PInv (mkCfg (shs cfg) (ths cfg) rest false)) by exact HP.
  set (cfg1 := mkCfg (shs cfg) (ths cfg) rest false) in *.
  destruct (match pick with Some t => Some t | None => lowest_enabled cfg1 end) as [t|].
  - intros E. injection E as <-. apply perform_pd; assumption.
  - destruct (first_parked (ths cfg1) 0 _) as [w|] eqn:EP.
    + destruct (nth_error (ths cfg1) w) as [wt|] eqn:EN; [|discriminate].
      set (cfg2 := mkCfg _ _ rest (dead cfg1)).
      assert (HP2 : PInv cfg2).
      { unfold PInv, cfg2. cbn [shs ths cec sh_log].
        rewrite (sum_pd_map_code _ (ths cfg1)); [exact HP1|]. eapply set_th_same_code; eauto. }
      assert (HC2 : CInv cfg2).
      { destruct HC1 as [HS HF]. subst cfg2.
        pose proof (first_parked_status _ _ _ _ EP EN) as Pk. cbv beta in Pk.
        pose proof (proj1 (Forall_forall _ _) HF wt (nth_error_In _ _ EN)) as HW. unfold th_wp in HW.
        destruct (status wt) as [|timed| |] eqn:Est; try discriminate. destruct timed; [|discriminate].
        destruct (CInv_replace (shs cfg1) (ths cfg1) w wt (sh_log (shs cfg1) (CTimeout w))
                               (mkTh (code wt) (calls wt) (lo_to (lo wt) true) TWoken) HS HF EN) as [A B].
        - intros oth Ho. cbn [lo]. rewrite inflight_lo_to. eapply SInv_ledger_eq; [|exact Ho]. repeat split.
        - unfold th_wp. cbn [status code lo]. apply HW.
        - split; assumption. }
      destruct (th_enabled cfg2 w); intros E; injection E as <-; [apply perform_pd|]; assumption.
    + destruct (all_finished cfg1); [discriminate|]. intros E. injection E as <-. exact HP1.
Qed.

Lemma unnotified_pd cfg tok c : PInv cfg -> unnotified cfg tok = Some c -> PInv c.
Proof.
  intros HP H. unfold unnotified in H.
  destruct (Nat.leb 2000 tok).
  - destruct (nth_error (ths cfg) (tok - 2000)) as [wt|] eqn:EN; [|discriminate].
    destruct (status wt) as [|timed| |] eqn:Est; try discriminate. injection H as <-.
    unfold PInv. cbn [shs ths]. rewrite (sum_pd_map_code _ (ths cfg)); [exact HP|]. eapply set_th_same_code; eauto.
  - destruct (Nat.leb 1000 tok); [|discriminate].
    destruct (nth_error (ths cfg) (tok - 1000)) as [wt|] eqn:EN; [|discriminate].
    destruct (status wt) as [|timed| |] eqn:Est; try discriminate. destruct timed; [|discriminate]. injection H as <-.
    unfold PInv. cbn [shs ths cec sh_log]. rewrite (sum_pd_map_code _ (ths cfg)); [exact HP|]. eapply set_th_same_code; eauto.
Qed.

Lemma sched_step_pd cfg cfg' : CInv cfg -> PInv cfg -> sched_step cfg = Some cfg' -> PInv cfg'.
Proof.
  intros HC HP. unfold sched_step. destruct (dead cfg) eqn:Ed; [discriminate|].
  assert (H0 : sched_step0 cfg = Some cfg' -> PInv cfg') by (apply sched_step0_pd; assumption).
  destruct (sched cfg) as [|tok rest]; [exact H0|].
  destruct (unnotified _ tok) as [c|] eqn:EU; [|exact H0].
  intros E. injection E as <-. eapply unnotified_pd; [|exact EU]. exact HP.
Qed.

Lemma run_sched_pd fuel : forall cfg, CInv cfg -> PInv cfg -> PInv (run_sched fuel cfg).
Proof.
  induction fuel as [|f IH]; intros cfg HC HP; cbn [run_sched]; [exact HP|].
  destruct (sched_step cfg) as [c|] eqn:E; [|exact HP].
  apply IH; [eapply sched_step_inv | eapply sched_step_pd]; eauto.
Qed.

Lemma init_pd progs schedule : PInv (mkCfg sh0 (start_threads progs) schedule false).
Proof.
  unfold PInv. cbn [shs ths cec sh0]. unfold start_threads.
  induction progs as [|p r IH]; [reflexivity|]. cbn [map sum_pd code pd pdi]. rewrite IH. reflexivity.
Qed.

(* queueEmptyCounter = number of processing calls between their increment and their decrement *)
Theorem empty_counter_counts_the_processing_calls_in_flight progs schedule fuel :
  sum_pd (ths (reached progs schedule fuel)) = Some (cec (shs (reached progs schedule fuel))).
Proof. apply run_sched_pd; [apply init_inv | apply init_pd]. Qed.

(* in particular: whenever every thread is between two calls (or has finished), the counter is back at 0 *)
Corollary empty_counter_restored_at_rest progs schedule fuel :
  Forall (fun th => code th = []) (ths (reached progs schedule fuel)) ->
  cec (shs (reached progs schedule fuel)) = 0.
Proof.
  intros H. pose proof (empty_counter_counts_the_processing_calls_in_flight progs schedule fuel) as P.
  revert P. generalize (cec (shs (reached progs schedule fuel))).
  induction H as [|th r Hth _ IH]; intros z P; cbn [sum_pd] in P.
  - injection P as <-. reflexivity.
  - rewrite Hth in P. cbn [pd] in P. destruct (sum_pd r) as [y|] eqn:E; [|discriminate].
    injection P as <-. rewrite (IH y eq_refl). reflexivity.
Qed.
