(* Properties_C08.v — C08: stored callbacks and arguments are destroyed exactly once, never leaked.

   PARTIAL.  The executable models carry object life time explicitly and are tied to the code
   by comparing live-object counts (harness ledgers: every construction, copy, move and
   destruction of the callback / payload types is counted; ASan/LSan verdicts are trace lines):
     * callback lists: a node (and the callback it stores) is alive iff it is reachable from the
       head/tail of a live list or from a node pinned by a running traversal (CLModel.ledger);
     * queues: one payload per occupied slot, destroyed by clear() after dispatch / take /
       clearEvents, or when the queue dies (QModel.livep, QFinal).
   Proved here: the structural facts that make reference counting exact and cycle-free —
   live nodes link only to live nodes (GInv's chain), a removed node is never linked from the
   chain (so nothing but a pin or another removed node keeps it), the slot mechanism never
   sets an occupied slot nor clears an empty one and every free-list slot is empty (C05's
   refinement: qerr = false), and AnyData's objects are destroyed exactly once (C17).
   NOT mechanised: the equation "reference count = number of incoming references" and the
   release-as-soon-as-unpinned clause; checked per run by the ledger correspondence. *)
From Coq Require Import List Arith NArith ZArith Bool.
From EV Require Import CLModel CLHeap QModel QRefine.
Import ListNotations.

(* a removed node is not part of the chain: head, tail and the links of live nodes never reach it *)
Theorem C08_chain_holds_only_live_nodes :
  forall g ids, GInv g ids -> forall n, In n ids -> exists nd, nth_error (heap g) n = Some nd /\ live nd.
Proof. intros g ids G. exact (lchain_in _ _ _ (gi_chain _ _ G)). Qed.
Print Assumptions C08_chain_holds_only_live_nodes.

Theorem C08_live_nodes_are_exactly_the_list :
  forall g ids, GInv g ids -> forall n nd, nth_error (heap g) n = Some nd -> live nd -> In n ids.
Proof. intros g ids G. exact (gi_live _ _ G). Qed.
Print Assumptions C08_live_nodes_are_exactly_the_list.

(* queue slots: never set twice, never cleared twice, recycled only when empty — for every re-entrant program *)
Theorem C08_slot_payload_constructed_and_destroyed_once :
  forall ordered klt behav pbehav fuel prog m',
    q_run true ordered klt behav pbehav fuel q_init prog = Some m' ->
    qerr m' = false /\ Forall is_none (flist m').
Proof. exact mechanism_never_misuses_slots. Qed.
Print Assumptions C08_slot_payload_constructed_and_destroyed_once.

(* exceptions: an operation that fails at ANY of its fault points (allocation, copy, move or comparison
   of a user type — the k-th such point, every k) keeps nothing of what it had built: the node, slot
   or list under construction is released on every path, and the operations with the strong guarantee
   leave the observable world — the callbacks and payloads held included — exactly as before.  These
   are C09's theorems over the fault profiles built from the headers' structure (tie A: GenExn, e.g.
   the copy constructor delegates to the default constructor, so that the destructor releases the
   nodes cloned so far when a callback's copy throws); restated here because C08 names exceptions. *)
From EV Require ExnModel ExnFault.

Theorem C08_failed_operation_keeps_nothing_it_built :
  forall o w k,
    ExnModel.wtmp w = [] ->
    match ExnModel.run_faulted (ExnModel.op_of o w) k w with
    | ExnModel.Done w' => ExnModel.wtmp w' = []
    | ExnModel.Thrown _ w' => ExnModel.wtmp w' = []
    | ExnModel.Terminated _ => True
    end.
Proof. exact ExnFault.plan_ops_release_scratch. Qed.
Print Assumptions C08_failed_operation_keeps_nothing_it_built.

Theorem C08_failed_operation_leaves_what_is_held_unchanged :
  forall o w k fk w',
    ExnFault.strong_by_shape o = true ->
    ExnModel.run_faulted (ExnModel.op_of o w) k w = ExnModel.Thrown fk w' -> ExnModel.obs w' = ExnModel.obs w.
Proof. exact ExnFault.plan_ops_strong. Qed.
Print Assumptions C08_failed_operation_leaves_what_is_held_unchanged.

(* reference counting frees exactly what reachability says: the removed nodes hold no cycle of previous/next references
   (CLCycle.v).  For EVERY history of the critical sections of callbacklist.h — append, prepend, insert (before a live
   or a dead handle), remove, in any order and from any threads — the removed nodes can be ranked so that every pointer
   from a removed node to a removed node goes to a strictly higher rank; so no removed node reaches itself.  Together
   with C08_chain_holds_only_live_nodes (nothing live points to a removed node) this is what makes "released as soon as
   no running invocation pins it" follow from the reachability model.  P1 (687a2ff) had been such a cycle. *)
From EV Require CLConcProofs CLCycle.

Theorem C08_removed_nodes_hold_no_reference_cycle :
  forall l, Forall CLConcProofs.sec_counter_ok l ->
    forall x, ~ CLCycle.dpath (heap (fst (CLConcProofs.run_secs empty_group l))) x x.
Proof. intros l H. apply CLCycle.acm_no_cycle. apply CLCycle.from_the_empty_list. exact H. Qed.
Print Assumptions C08_removed_nodes_hold_no_reference_cycle.

Theorem C08_removed_nodes_can_be_ranked_by_removal :
  forall l g ids, GInv g ids -> Forall CLConcProofs.sec_counter_ok l -> CLCycle.ACM (heap g) ->
    CLCycle.ACM (heap (fst (CLConcProofs.run_secs g l))).
Proof. exact CLCycle.removed_nodes_hold_no_reference_cycle. Qed.
Print Assumptions C08_removed_nodes_can_be_ranked_by_removal.

(* the statement is not vacuous: three callbacks, the middle one removed, then its neighbour: two removed nodes, the
   first still pointing at the second *)
Example C08_cycle_example :
  let g := fst (CLConcProofs.run_secs empty_group
                  [CLSec.SBack 1 1%N; CLSec.SBack 2 2%N; CLSec.SBack 3 3%N;
                   CLSec.SRemove (Some 1); CLSec.SRemove (Some 2)]) in
  CLCycle.deadb (heap g) 1 = true /\ CLCycle.deadb (heap g) 2 = true /\
  option_map nxt (nth_error (heap g) 1) = Some (Some 2).
Proof. vm_compute. repeat split; reflexivity. Qed.

(* ---------- reference counting releases the removed nodes (CLRefcount.v) ---------- *)
(* std::shared_ptr counts; the models above reason by reachability.  After EVERY history of critical sections (from the
   empty list; counters non-zero), for every set of nodes that traversals in progress stand on (pins): the removed nodes
   that cannot be reached from a pin can be released one after the other, each at a moment when every node that refers to
   it (previous / next) has been released already — its count is zero.  With no traversal in progress this is every removed
   node: a removed callback is released as soon as no invocation that can still reach it is in progress.  The count itself
   (an integer per node) is not part of the models; this theorem is why reachability is the right abstraction of it. *)
From EV Require CLRefcount.

Theorem C08_counting_releases_unpinned_removed_nodes :
  forall l pins (keep : nat -> bool),
    Forall CLConcProofs.sec_counter_ok l ->
    let g := fst (CLConcProofs.run_secs empty_group l) in
    (forall x, keep x = true <-> CLRefcount.pinned (heap g) pins x) ->
    exists order : list nat,
      NoDup order /\
      (forall x, In x order <-> CLCycle.deadb (heap g) x = true /\ keep x = false) /\
      forall pre x post, order = pre ++ x :: post -> forall y, CLRefcount.refers (heap g) y x -> In y pre.
Proof. exact CLRefcount.counting_releases_after_any_history. Qed.
Print Assumptions C08_counting_releases_unpinned_removed_nodes.

(* the graph-theoretic core, for any finite graph: a set closed under referrers and ranked along its references can be
   released node by node with no referrer left *)
Theorem C08_counting_releases_ranked_sets :
  forall n (edge : nat -> nat -> Prop) (D : nat -> bool) (rk : nat -> nat) M,
    (forall x, D x = true -> x < n /\ rk x < M) ->
    (forall y x, edge y x -> D x = true -> D y = true) ->
    (forall y x, edge y x -> D y = true -> D x = true -> rk y < rk x) ->
    exists order : list nat,
      NoDup order /\ (forall x, In x order <-> D x = true) /\
      forall pre x post, order = pre ++ x :: post -> forall y, edge y x -> In y pre.
Proof. exact CLRefcount.counting_releases_ranked_sets. Qed.
Print Assumptions C08_counting_releases_ranked_sets.

Example C08_release_order_example :
  let g := fst (CLConcProofs.run_secs empty_group [CLSec.SBack 1 1%N; CLSec.SBack 2 2%N; CLSec.SBack 3 3%N; CLSec.SRemove (Some 0); CLSec.SRemove (Some 1)]) in
  map (CLCycle.deadb (heap g)) [0; 1; 2] = [true; true; false] /\
  (exists nd, nth_error (heap g) 0 = Some nd /\ nxt nd = Some 1) /\
  (exists nd, nth_error (heap g) 1 = Some nd /\ nxt nd = Some 2 /\ prv nd = None).
Proof. exact CLRefcount.release_order_example. Qed.
