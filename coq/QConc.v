(* QConc.v — thread-level model of eventpp::EventQueue (eventqueue.h) for C06 / C07 / C11.

   A thread runs a list of API calls.  Each API call is transcribed from the header into a
   small instruction list: the VISIBLE actions (lock / unlock of queueListMutex and
   freeListMutex, operations on the two atomic counters, notify_one, the condition-variable
   wait) and the LOCAL code between them (plain reads of queueList.empty() /
   freeList.empty(), splices, swaps, the dispatch loops), tagged with the protected data it
   touches.  One scheduler step = the chosen thread performs its pending visible action and
   runs on, local code included, up to its next visible action — exactly the granularity of
   harness/vsched.h, so a schedule replays step for step on the real code.
   The order of the two reads of emptyQueue() and the shape of ~DisableQueueNotify come from
   tie A (GenQ / GenQConc).  Definitions only. *)
From Coq Require Import List Arith NArith ZArith Bool.
From EV.gen Require GenQ GenQConc.
Import ListNotations.
Local Open Scope nat_scope.

Record cevt := mkCE { cek : nat; cea : Z; ceid : nat }.

Inductive mtx := QM | FM.
Inductive atm := EC | NC.
Inductive res := RQ | RF.           (* queueList, freeList *)

Inductive qapi :=
| AEnqueue (k : nat) (a : Z) | AProcess | AProcessOne | AProcessIf (p : nat) | AProcessUntil (p : nat)
| ATake | APeek | AClear | AEmptyQ | AWait | AWaitFor | ADisableBegin | ADisableEnd.

Inductive cact :=
| CLock (t : nat) (m : mtx) | CUnlock (t : nat) (m : mtx)
| CAInc (t : nat) (a : atm) (v : Z) | CADec (t : nat) (a : atm) (v : Z) | CALoad (t : nat) (a : atm) (v : Z)
| CRead (t : nat) (r : res)          (* an emptiness pre-check made without the mutex *)
| CNotify (t : nat) | CCvBlock (t : nat) | CCvWake (t : nat) | CTimeout (t : nat)
| CDisp (t : nat) (k : nat) (a : Z) | CTaken (t : nat) (k : nat) (a : Z) | CPeeked (t : nat) (k : nat) (a : Z)
| CRes (t : nat) (b : bool) | CDone (t : nat)
| CDeadlock (pending : nat) (nc : Z)   (* nobody can run: what the queue holds and whether notification is enabled *)
| CDrained (k : nat) (a : Z).         (* after all threads have finished: what was still queued *)

Record qshared := mkSh {
  ql : list cevt;               (* queueList (occupied slots, in order) *)
  fl : nat;                     (* number of slots on freeList *)
  cec : Z; cnc : Z;             (* queueEmptyCounter, queueNotifyCounter *)
  oqm : option nat; ofm : option nat;      (* mutex owners *)
  nextid : nat;
  clog : list cact;             (* newest first *)
  (* ghost ledger *)
  g_enq : list cevt; g_disp : list (nat * cevt); g_taken : list (nat * cevt); g_cleared : list cevt;
  g_settled : list cevt;        (* events whose enqueue has put them into queueList (newest first) *)
  g_putbacks : nat;             (* how many times processIf / processUntil have put events back *)
  (* ghosts of the wake-up argument (QConcWake.v) *)
  g_awake : list nat;           (* threads that returned from wait / waitFor observing work and have not since found the queue empty, taken all of it, or gone to wait again *)
  g_under : bool                (* a DisableQueueNotify was destroyed that had not been constructed (queueNotifyCounter went negative) *)
}.

Record qlocals := mkLo {
  ltemp : list cevt; lkept : list cevt; lidle : nat; lreg : Z;
  lb : bool; lbe : bool; lres : bool; lslot : bool; ltimedout : bool;
  lev : option cevt;            (* the event being enqueued, not yet in queueList *)
  lshow : option cevt;          (* copy of the event handed to the caller by take/peek, for the log *)
  (* ghosts *)
  lheld : nat;                  (* processing guards (increments of queueEmptyCounter) this call holds *)
  lsnap : list cevt;            (* emptyQueue(): the events that were settled when the call began *)
  lseen : bool;                 (* emptyQueue(): the list test has found queueList empty *)
  ltaking : bool;               (* takeEvent / clearEvents: the events in ltemp have been removed from the queue for good *)
  lowes : bool                  (* this thread made (or was handed) "events pending and notification enabled" and has not yet notified,
                                   nor seen since that it does not hold any more (QConcWake.v) *)
}.

Definition lo0 : qlocals := mkLo [] [] 0 0 false false false false false None None 0 [] false false false.

Definition pverdict (p : nat) (e : cevt) : bool := Z.even (Z.of_nat p + cea e).

Inductive instr :=
| ILock (m : mtx) | IUnlock (m : mtx)
| IAInc (a : atm) | IADec (a : atm) | IALoad (a : atm)
| INotify
| ICvWait (timed : bool)
| ILocal (touches : list res) (f : nat -> qshared -> qlocals -> qshared * qlocals)
| IIf (reads : list res) (c : qshared -> qlocals -> bool) (a b : list instr)
| IWaitLoop (timed : bool)
| IStart                         (* the thread has been created and waits to be scheduled for the first time *)
| IRes                           (* log the call's boolean result *)
| IDone                          (* a call without result ends *)
| IRead (r : res).               (* scheduling point: the unlocked read of queueList.empty() / freeList.empty() that follows *)

(* ---------- field updates ---------- *)
Definition sh_ql sh v := mkSh v (fl sh) (cec sh) (cnc sh) (oqm sh) (ofm sh) (nextid sh) (clog sh) (g_enq sh) (g_disp sh) (g_taken sh) (g_cleared sh) (g_settled sh) (g_putbacks sh) (g_awake sh) (g_under sh).
Definition sh_fl sh v := mkSh (ql sh) v (cec sh) (cnc sh) (oqm sh) (ofm sh) (nextid sh) (clog sh) (g_enq sh) (g_disp sh) (g_taken sh) (g_cleared sh) (g_settled sh) (g_putbacks sh) (g_awake sh) (g_under sh).
Definition sh_ec sh v := mkSh (ql sh) (fl sh) v (cnc sh) (oqm sh) (ofm sh) (nextid sh) (clog sh) (g_enq sh) (g_disp sh) (g_taken sh) (g_cleared sh) (g_settled sh) (g_putbacks sh) (g_awake sh) (g_under sh).
Definition sh_nc sh v := mkSh (ql sh) (fl sh) (cec sh) v (oqm sh) (ofm sh) (nextid sh) (clog sh) (g_enq sh) (g_disp sh) (g_taken sh) (g_cleared sh) (g_settled sh) (g_putbacks sh) (g_awake sh) (g_under sh).
Definition sh_oqm sh v := mkSh (ql sh) (fl sh) (cec sh) (cnc sh) v (ofm sh) (nextid sh) (clog sh) (g_enq sh) (g_disp sh) (g_taken sh) (g_cleared sh) (g_settled sh) (g_putbacks sh) (g_awake sh) (g_under sh).
Definition sh_ofm sh v := mkSh (ql sh) (fl sh) (cec sh) (cnc sh) (oqm sh) v (nextid sh) (clog sh) (g_enq sh) (g_disp sh) (g_taken sh) (g_cleared sh) (g_settled sh) (g_putbacks sh) (g_awake sh) (g_under sh).
Definition sh_log sh e := mkSh (ql sh) (fl sh) (cec sh) (cnc sh) (oqm sh) (ofm sh) (nextid sh) (e :: clog sh) (g_enq sh) (g_disp sh) (g_taken sh) (g_cleared sh) (g_settled sh) (g_putbacks sh) (g_awake sh) (g_under sh).
Definition sh_enq sh e := mkSh (ql sh) (fl sh) (cec sh) (cnc sh) (oqm sh) (ofm sh) (S (nextid sh)) (clog sh) (e :: g_enq sh) (g_disp sh) (g_taken sh) (g_cleared sh) (g_settled sh) (g_putbacks sh) (g_awake sh) (g_under sh).
Definition sh_disp sh t e := mkSh (ql sh) (fl sh) (cec sh) (cnc sh) (oqm sh) (ofm sh) (nextid sh) (CDisp t (cek e) (cea e) :: clog sh) (g_enq sh) ((t, e) :: g_disp sh) (g_taken sh) (g_cleared sh) (g_settled sh) (g_putbacks sh) (g_awake sh) (g_under sh).
Definition sh_take sh t e := mkSh (ql sh) (fl sh) (cec sh) (cnc sh) (oqm sh) (ofm sh) (nextid sh) (clog sh) (g_enq sh) (g_disp sh) ((t, e) :: g_taken sh) (g_cleared sh) (g_settled sh) (g_putbacks sh) (g_awake sh) (g_under sh).
Definition sh_settle sh e := mkSh (ql sh) (fl sh) (cec sh) (cnc sh) (oqm sh) (ofm sh) (nextid sh) (clog sh) (g_enq sh) (g_disp sh) (g_taken sh) (g_cleared sh) (e :: g_settled sh) (g_putbacks sh) (g_awake sh) (g_under sh).
Definition sh_putback sh := mkSh (ql sh) (fl sh) (cec sh) (cnc sh) (oqm sh) (ofm sh) (nextid sh) (clog sh) (g_enq sh) (g_disp sh) (g_taken sh) (g_cleared sh) (g_settled sh) (S (g_putbacks sh)) (g_awake sh) (g_under sh).
Definition sh_clear sh es := mkSh (ql sh) (fl sh) (cec sh) (cnc sh) (oqm sh) (ofm sh) (nextid sh) (clog sh) (g_enq sh) (g_disp sh) (g_taken sh) (es ++ g_cleared sh) (g_settled sh) (g_putbacks sh) (g_awake sh) (g_under sh).
Definition sh_awake sh (t : nat) := mkSh (ql sh) (fl sh) (cec sh) (cnc sh) (oqm sh) (ofm sh) (nextid sh) (clog sh) (g_enq sh) (g_disp sh) (g_taken sh) (g_cleared sh) (g_settled sh) (g_putbacks sh) (t :: g_awake sh) (g_under sh).
Definition sh_unawake sh (t : nat) := mkSh (ql sh) (fl sh) (cec sh) (cnc sh) (oqm sh) (ofm sh) (nextid sh) (clog sh) (g_enq sh) (g_disp sh) (g_taken sh) (g_cleared sh) (g_settled sh) (g_putbacks sh) (remove Nat.eq_dec t (g_awake sh)) (g_under sh).
Definition sh_under sh := mkSh (ql sh) (fl sh) (cec sh) (cnc sh) (oqm sh) (ofm sh) (nextid sh) (clog sh) (g_enq sh) (g_disp sh) (g_taken sh) (g_cleared sh) (g_settled sh) (g_putbacks sh) (g_awake sh) true.

Definition lo_temp lo v := mkLo v (lkept lo) (lidle lo) (lreg lo) (lb lo) (lbe lo) (lres lo) (lslot lo) (ltimedout lo) (lev lo) (lshow lo) (lheld lo) (lsnap lo) (lseen lo) (ltaking lo) (lowes lo).
Definition lo_kept lo v := mkLo (ltemp lo) v (lidle lo) (lreg lo) (lb lo) (lbe lo) (lres lo) (lslot lo) (ltimedout lo) (lev lo) (lshow lo) (lheld lo) (lsnap lo) (lseen lo) (ltaking lo) (lowes lo).
Definition lo_idle lo v := mkLo (ltemp lo) (lkept lo) v (lreg lo) (lb lo) (lbe lo) (lres lo) (lslot lo) (ltimedout lo) (lev lo) (lshow lo) (lheld lo) (lsnap lo) (lseen lo) (ltaking lo) (lowes lo).
Definition lo_reg lo v := mkLo (ltemp lo) (lkept lo) (lidle lo) v (lb lo) (lbe lo) (lres lo) (lslot lo) (ltimedout lo) (lev lo) (lshow lo) (lheld lo) (lsnap lo) (lseen lo) (ltaking lo) (lowes lo).
Definition lo_b lo v := mkLo (ltemp lo) (lkept lo) (lidle lo) (lreg lo) v (lbe lo) (lres lo) (lslot lo) (ltimedout lo) (lev lo) (lshow lo) (lheld lo) (lsnap lo) (lseen lo) (ltaking lo) (lowes lo).
Definition lo_be lo v := mkLo (ltemp lo) (lkept lo) (lidle lo) (lreg lo) (lb lo) v (lres lo) (lslot lo) (ltimedout lo) (lev lo) (lshow lo) (lheld lo) (lsnap lo) (lseen lo) (ltaking lo) (lowes lo).
Definition lo_res lo v := mkLo (ltemp lo) (lkept lo) (lidle lo) (lreg lo) (lb lo) (lbe lo) v (lslot lo) (ltimedout lo) (lev lo) (lshow lo) (lheld lo) (lsnap lo) (lseen lo) (ltaking lo) (lowes lo).
Definition lo_slot lo v := mkLo (ltemp lo) (lkept lo) (lidle lo) (lreg lo) (lb lo) (lbe lo) (lres lo) v (ltimedout lo) (lev lo) (lshow lo) (lheld lo) (lsnap lo) (lseen lo) (ltaking lo) (lowes lo).
Definition lo_to lo v := mkLo (ltemp lo) (lkept lo) (lidle lo) (lreg lo) (lb lo) (lbe lo) (lres lo) (lslot lo) v (lev lo) (lshow lo) (lheld lo) (lsnap lo) (lseen lo) (ltaking lo) (lowes lo).
Definition lo_ev lo v := mkLo (ltemp lo) (lkept lo) (lidle lo) (lreg lo) (lb lo) (lbe lo) (lres lo) (lslot lo) (ltimedout lo) v (lshow lo) (lheld lo) (lsnap lo) (lseen lo) (ltaking lo) (lowes lo).
Definition lo_show lo v := mkLo (ltemp lo) (lkept lo) (lidle lo) (lreg lo) (lb lo) (lbe lo) (lres lo) (lslot lo) (ltimedout lo) (lev lo) v (lheld lo) (lsnap lo) (lseen lo) (ltaking lo) (lowes lo).
Definition lo_held lo v := mkLo (ltemp lo) (lkept lo) (lidle lo) (lreg lo) (lb lo) (lbe lo) (lres lo) (lslot lo) (ltimedout lo) (lev lo) (lshow lo) v (lsnap lo) (lseen lo) (ltaking lo) (lowes lo).
Definition lo_snap lo v := mkLo (ltemp lo) (lkept lo) (lidle lo) (lreg lo) (lb lo) (lbe lo) (lres lo) (lslot lo) (ltimedout lo) (lev lo) (lshow lo) (lheld lo) v (lseen lo) (ltaking lo) (lowes lo).
Definition lo_seen lo v := mkLo (ltemp lo) (lkept lo) (lidle lo) (lreg lo) (lb lo) (lbe lo) (lres lo) (lslot lo) (ltimedout lo) (lev lo) (lshow lo) (lheld lo) (lsnap lo) v (ltaking lo) (lowes lo).
Definition lo_taking lo v := mkLo (ltemp lo) (lkept lo) (lidle lo) (lreg lo) (lb lo) (lbe lo) (lres lo) (lslot lo) (ltimedout lo) (lev lo) (lshow lo) (lheld lo) (lsnap lo) (lseen lo) v (lowes lo).
Definition lo_owes lo v := mkLo (ltemp lo) (lkept lo) (lidle lo) (lreg lo) (lb lo) (lbe lo) (lres lo) (lslot lo) (ltimedout lo) (lev lo) (lshow lo) (lheld lo) (lsnap lo) (lseen lo) (ltaking lo) v.

Definition nonempty {A} (l : list A) : bool := match l with [] => false | _ => true end.

(* ---------- the pieces shared by several calls ---------- *)

(* emptyQueue(): the two reads in the order the header has them (tie A) *)
Definition eval_empty : list instr :=
  match GenQ.empty_queue_reads with
  | [0; 1] =>
      [IRead RQ;
       IIf [RQ] (fun sh _ => negb (nonempty (ql sh)))
           [ILocal [] (fun _ sh lo => (sh, lo_owes (lo_seen lo (negb (nonempty (ql sh)))) (lowes lo && nonempty (ql sh))));   (* ghosts: the list test found it empty *)
            IALoad EC; ILocal [] (fun _ sh lo => (sh, lo_be lo (GenQ.empty_queue true (lreg lo))))]
           [ILocal [] (fun _ sh lo => (sh, lo_be (lo_seen lo false) false))]]
  | _ =>
      [IALoad EC;
       IIf [] (fun _ lo => GenQ.empty_queue true (lreg lo))
           [IRead RQ; ILocal [RQ] (fun _ sh lo => (sh, lo_owes (lo_be (lo_seen lo false) (negb (nonempty (ql sh)))) (lowes lo && nonempty (ql sh))))]
           [ILocal [] (fun _ sh lo => (sh, lo_be (lo_seen lo false) false))]]
  end.

(* doCanNotifyQueueAvailable() *)
Definition eval_can_notify : list instr :=
  [IALoad NC; ILocal [] (fun _ sh lo => (sh, lo_owes (lo_b lo (GenQ.can_notify (lreg lo))) (lowes lo && Z.eqb (cnc sh) 0)))].

(* notify_one, and the ghost: whoever was owed a wake-up has got it *)
Definition notify_code : list instr := [INotify; ILocal [] (fun _ sh lo => (sh, lo_owes lo false))].

(* doCanProcess(): !emptyQueue() && doCanNotifyQueueAvailable() *)
Definition eval_can_process : list instr :=
  eval_empty ++ [IIf [] (fun _ lo => lbe lo) [ILocal [] (fun _ sh lo => (sh, lo_b lo false))] eval_can_notify].

Definition dispatch_all (t : nat) (sh : qshared) (es : list cevt) : qshared :=
  fold_left (fun s e => sh_disp s t e) es sh.

(* processUntil: the events before the first one the predicate accepts are dispatched, the rest stay *)
Fixpoint split_until (p : nat) (l : list cevt) : list cevt * list cevt :=
  match l with
  | [] => ([], [])
  | e :: r => if pverdict p e then ([], e :: r) else let '(a, b) := split_until p r in (e :: a, b)
  end.

(* the block of processIf / processUntil that puts the events the predicate refused back at the front of the
   queue.  `notifies`: it is followed by  if(doCanProcess()) notify_one()  (tie A reads this off the header; without
   it an enqueue that looked at the queue while the events were held here has not notified, and a waiter sleeps on
   a non-empty queue: P13) *)
Definition putback (notifies : bool) : list instr :=
  [ILock QM; ILocal [RQ] (fun _ sh lo => (sh_putback (sh_ql sh (ltemp lo ++ ql sh)), lo_owes (lo_temp lo []) true)); IUnlock QM]
  ++ (if notifies then eval_can_process ++ [IIf [] (fun _ lo => lb lo) notify_code []] else []).

Definition processif_code (notifies : bool) (p : nat) : list instr :=
      [IRead RQ;
       IIf [RQ] (fun sh _ => nonempty (ql sh))
           [IAInc EC; ILock QM;
            ILocal [RQ] (fun t sh lo => (sh_unawake (sh_ql sh []) t, lo_temp lo (ql sh)));
            IUnlock QM;
            IIf [] (fun _ lo => nonempty (ltemp lo))
                [ILocal [] (fun t sh lo =>
                              let yes := filter (pverdict p) (ltemp lo) in
                              let no := filter (fun e => negb (pverdict p e)) (ltemp lo) in
                              (dispatch_all t sh yes, lo_idle (lo_temp lo no) (length yes)));
                 IIf [] (fun _ lo => nonempty (ltemp lo)) (putback notifies) [];
                 IIf [] (fun _ lo => negb (Nat.eqb (lidle lo) 0))
                     [ILock FM; ILocal [RF] (fun _ sh lo => (sh_fl sh (fl sh + lidle lo), lo)); IUnlock FM;
                      ILocal [] (fun _ sh lo => (sh, lo_res lo true))]
                     [ILocal [] (fun _ sh lo => (sh, lo_res lo false))]]
                [ILocal [] (fun _ sh lo => (sh, lo_res lo false))];
            IADec EC]
           [ILocal [] (fun t sh lo => (if nonempty (ql sh) then sh else sh_unawake sh t, lo_res lo false))];   (* ghost: found nothing to do *)
       IRes].

Definition processuntil_code (notifies : bool) (p : nat) : list instr :=
      [IRead RQ;
       IIf [RQ] (fun sh _ => nonempty (ql sh))
           [IAInc EC; ILock QM;
            ILocal [RQ] (fun t sh lo => (sh_unawake (sh_ql sh []) t, lo_temp lo (ql sh)));
            IUnlock QM;
            IIf [] (fun _ lo => nonempty (ltemp lo))
                [ILocal [] (fun t sh lo =>
                              let '(yes, no) := split_until p (ltemp lo) in
                              (dispatch_all t sh yes, lo_idle (lo_temp lo no) (length yes)));
                 IIf [] (fun _ lo => nonempty (ltemp lo)) (putback notifies) [];
                 IIf [] (fun _ lo => negb (Nat.eqb (lidle lo) 0))
                     [ILock FM; ILocal [RF] (fun _ sh lo => (sh_fl sh (fl sh + lidle lo), lo)); IUnlock FM;
                      ILocal [] (fun _ sh lo => (sh, lo_res lo true))]
                     [ILocal [] (fun _ sh lo => (sh, lo_res lo false))]]
                [ILocal [] (fun _ sh lo => (sh, lo_res lo false))];
            IADec EC]
           [ILocal [] (fun t sh lo => (if nonempty (ql sh) then sh else sh_unawake sh t, lo_res lo false))];   (* ghost: found nothing to do *)
       IRes].

(* ghost step before the decrement of queueNotifyCounter: from the decrement on this thread owes a wake-up; a
   counter that is not positive now will go below zero: an object is destroyed that had never been constructed *)
Definition dqn_ghost : instr :=
  ILocal [] (fun _ sh lo => (if Z.leb (cnc sh) 0 then sh_under sh else sh, lo_owes lo true)).

(* ---------- the API calls, transcribed from eventqueue.h ---------- *)

Definition code_of (c : qapi) : list instr :=
  match c with
  | AEnqueue k a =>
      [ILocal [] (fun _ sh lo => let e := mkCE k a (nextid sh) in (sh_enq sh e, lo_ev (lo_slot lo false) (Some e)));
       IRead RF;
       IIf [RF] (fun sh _ => Nat.ltb 0 (fl sh))
           [ILock FM;
            ILocal [RF] (fun _ sh lo => if Nat.ltb 0 (fl sh) then (sh_fl sh (pred (fl sh)), lo_slot lo true) else (sh, lo));
            IUnlock FM]
           [];
       ILock QM;
       ILocal [RQ] (fun _ sh lo => match lev lo with Some e => (sh_settle (sh_ql sh (ql sh ++ [e])) e, lo_owes (lo_ev lo None) true) | None => (sh, lo) end);
       IUnlock QM]
      ++ eval_can_process
      ++ [IIf [] (fun _ lo => lb lo) notify_code []; IDone]
  | AProcess =>
      [IRead RQ;
       IIf [RQ] (fun sh _ => nonempty (ql sh))
           [IAInc EC; ILock QM;
            ILocal [RQ] (fun t sh lo => (sh_unawake (sh_ql sh []) t, lo_temp lo (ql sh)));
            IUnlock QM;
            IIf [] (fun _ lo => nonempty (ltemp lo))
                [ILocal [] (fun t sh lo => (dispatch_all t sh (ltemp lo), lo_idle (lo_temp lo []) (length (ltemp lo))));
                 ILock FM; ILocal [RF] (fun _ sh lo => (sh_fl sh (fl sh + lidle lo), lo)); IUnlock FM;
                 ILocal [] (fun _ sh lo => (sh, lo_res lo true))]
                [ILocal [] (fun _ sh lo => (sh, lo_res lo false))];
            IADec EC]
           [ILocal [] (fun t sh lo => (if nonempty (ql sh) then sh else sh_unawake sh t, lo_res lo false))];   (* ghost: found nothing to do *)
       IRes]
  | AProcessOne =>
      [IRead RQ;
       IIf [RQ] (fun sh _ => nonempty (ql sh))
           [IAInc EC; ILock QM;
            ILocal [RQ] (fun _ sh lo => match ql sh with e :: r => (sh_ql sh r, lo_temp lo [e]) | [] => (sh, lo_temp lo []) end);
            IUnlock QM;
            IIf [] (fun _ lo => nonempty (ltemp lo))
                [ILocal [] (fun t sh lo => (dispatch_all t sh (ltemp lo), lo_idle (lo_temp lo []) (length (ltemp lo))));
                 ILock FM; ILocal [RF] (fun _ sh lo => (sh_fl sh (fl sh + lidle lo), lo)); IUnlock FM;
                 ILocal [] (fun _ sh lo => (sh, lo_res lo true))]
                [ILocal [] (fun _ sh lo => (sh, lo_res lo false))];
            IADec EC]
           [ILocal [] (fun _ sh lo => (sh, lo_res lo false))];
       IRes]
  | AProcessIf p => processif_code GenQConc.processif_putback_notifies p
  | AProcessUntil p => processuntil_code GenQConc.processuntil_putback_notifies p
  | ATake =>
      [IRead RQ;
       IIf [RQ] (fun sh _ => nonempty (ql sh))
           [ILock QM;
            ILocal [RQ] (fun _ sh lo => match ql sh with e :: r => (sh_ql sh r, lo_taking (lo_temp lo [e]) true) | [] => (sh, lo_temp lo []) end);
            IUnlock QM;
            IIf [] (fun _ lo => nonempty (ltemp lo))
                [ILocal [] (fun t sh lo => (fold_left (fun s e => sh_take s t e) (ltemp lo) sh, lo_show (lo_temp lo []) (hd_error (ltemp lo))));
                 ILock FM; ILocal [RF] (fun _ sh lo => (sh_fl sh (S (fl sh)), lo)); IUnlock FM;
                 ILocal [] (fun _ sh lo => (sh, lo_res lo true))]
                [ILocal [] (fun _ sh lo => (sh, lo_res lo false))]]
           [ILocal [] (fun _ sh lo => (sh, lo_res lo false))];
       (* the caller looks at the event it was handed after the call returned *)
       ILocal [] (fun t sh lo => match lshow lo with Some e => (sh_log sh (CTaken t (cek e) (cea e)), lo) | None => (sh, lo) end);
       IRes]
  | APeek =>
      [IRead RQ;
       IIf [RQ] (fun sh _ => nonempty (ql sh))
           [ILock QM;
            ILocal [RQ] (fun t sh lo => match ql sh with
                                        | e :: _ => (sh, lo_show (lo_res lo true) (Some e))
                                        | [] => (sh, lo_res lo false)
                                        end);
            IUnlock QM]
           [ILocal [] (fun _ sh lo => (sh, lo_res lo false))];
       ILocal [] (fun t sh lo => match lshow lo with Some e => (sh_log sh (CPeeked t (cek e) (cea e)), lo) | None => (sh, lo) end);
       IRes]
  | AClear =>
      [IRead RQ;
       IIf [RQ] (fun sh _ => nonempty (ql sh))
           [ILock QM;
            ILocal [RQ] (fun _ sh lo => (sh_ql sh [], lo_taking (lo_temp lo (ql sh)) true));
            IUnlock QM;
            IIf [] (fun _ lo => nonempty (ltemp lo))
                [ILocal [] (fun _ sh lo => (sh_clear sh (ltemp lo), lo_idle (lo_temp lo []) (length (ltemp lo))));
                 ILock FM; ILocal [RF] (fun _ sh lo => (sh_fl sh (fl sh + lidle lo), lo)); IUnlock FM]
                []]
           [];
       IDone]
  | AEmptyQ => [ILocal [] (fun _ sh lo => (sh, lo_snap lo (g_settled sh)))]      (* ghost: what was settled when the call began *)
               ++ eval_empty ++ [ILocal [] (fun _ sh lo => (sh, lo_res lo (lbe lo))); IRes]
  | AWait => [ILock QM; IWaitLoop false; IUnlock QM; IDone]
  | AWaitFor => [ILocal [] (fun _ sh lo => (sh, lo_snap lo (g_settled sh)));     (* ghost: what was settled when the call began (C11) *)
                 ILock QM; IWaitLoop true; IUnlock QM; IRes]
  | ADisableBegin => [IAInc NC; IDone]
  | ADisableEnd =>
      (* ~DisableQueueNotify(): the decrement is inside a queueListMutex section iff the header says so (tie A) *)
      (if GenQConc.dqn_dtor_decrement_under_mutex then [ILock QM; dqn_ghost; IADec NC; IUnlock QM] else [dqn_ghost; IADec NC])
      ++ eval_can_notify
      ++ [IIf [] (fun _ lo => lb lo) (eval_empty ++ [IIf [] (fun _ lo => negb (lbe lo)) notify_code []]) []; IDone]
  end.

(* the predicate loop of condition_variable::wait(lock, pred) / wait_for(lock, dur, pred) *)
Definition wait_loop (timed : bool) : list instr :=
  eval_can_process ++
  [IIf [] (fun _ lo => lb lo)
       [ILocal [] (fun t sh lo => (sh_awake sh t, lo_owes (lo_res lo true) false))]     (* ghost: returns having observed work *)
       [ILocal [] (fun t sh lo => (sh_unawake sh t, lo_owes lo true));   (* ghosts: about to wait again; once woken (or timed out) it has the wake-up in its hands *)
        ICvWait timed;
        IIf [] (fun _ lo => ltimedout lo)
            (eval_can_process ++
             [ILocal [] (fun t sh lo => (if lb lo then sh_awake sh t else sh, lo_owes (lo_res lo (lb lo)) (lowes lo && negb (lb lo))))])
            [IWaitLoop timed]]].

(* ---------- threads and configurations ---------- *)

Inductive tstatus := TRun | TParked (timed : bool) | TWoken | TFinished.

Record thread := mkTh { code : list instr; calls : list qapi; lo : qlocals; status : tstatus }.

Record config := mkCfg { shs : qshared; ths : list thread; sched : list nat; dead : bool }.

Definition is_sync (i : instr) : bool :=
  match i with ILock _ | IUnlock _ | IAInc _ | IADec _ | IALoad _ | INotify | IStart | ICvWait _ | IRead _ => true | _ => false end.

(* run local code up to the next visible action (or park, or finish) *)
Fixpoint advance (fuel : nat) (t : nat) (sh : qshared) (th : thread) : qshared * thread :=
  match fuel with
  | 0 => (sh, th)
  | S f =>
      match code th with
      | [] =>
          match calls th with
          | [] => (sh, mkTh [] [] (lo th) TFinished)
          | c :: r => advance f t sh (mkTh (code_of c) r lo0 TRun)
          end
      | i :: rest =>
          match i with
          | ILocal _ fn => let '(sh1, lo1) := fn t sh (lo th) in advance f t sh1 (mkTh rest (calls th) lo1 TRun)
          | IIf _ c a b => advance f t sh (mkTh ((if c sh (lo th) then a else b) ++ rest) (calls th) (lo th) TRun)
          | IWaitLoop timed => advance f t sh (mkTh (wait_loop timed ++ rest) (calls th) (lo th) TRun)
          | IRes => advance f t (sh_log sh (CRes t (lres (lo th)))) (mkTh rest (calls th) (lo th) TRun)
          | IDone => advance f t (sh_log sh (CDone t)) (mkTh rest (calls th) (lo th) TRun)
          | _ => (sh, th)
          end
      end
  end.

Definition owner_of (sh : qshared) (m : mtx) : option nat := match m with QM => oqm sh | FM => ofm sh end.

Definition enabled (sh : qshared) (th : thread) : bool :=
  match status th with
  | TFinished => false
  | TParked _ => false
  | TWoken => match oqm sh with None => true | Some _ => false end
  | TRun =>
      match code th with
      | ILock m :: _ => match owner_of sh m with None => true | Some _ => false end
      | _ :: _ => true
      | [] => false
      end
  end.

Fixpoint first_parked (l : list thread) (i : nat) (pred : thread -> bool) : option nat :=
  match l with
  | [] => None
  | th :: r => if pred th then Some i else first_parked r (S i) pred
  end.

Fixpoint set_th (l : list thread) (i : nat) (x : thread) : list thread :=
  match l, i with
  | [], _ => []
  | _ :: r, 0 => x :: r
  | y :: r, S j => y :: set_th r j x
  end.

Definition ADV_FUEL := 400.

(* the chosen thread performs its pending visible action and runs on *)
Definition perform (t : nat) (cfg : config) : config :=
  match nth_error (ths cfg) t with
  | None => cfg
  | Some th =>
      let sh := shs cfg in
      match status th with
      | TWoken =>
          let sh1 := sh_oqm (sh_log sh (CCvWake t)) (Some t) in
          let '(sh2, th2) := advance ADV_FUEL t sh1 (mkTh (code th) (calls th) (lo th) TRun) in
          mkCfg sh2 (set_th (ths cfg) t th2) (sched cfg) (dead cfg)
      | TRun =>
          match code th with
          | i :: rest =>
              let th1 := mkTh rest (calls th) (lo th) TRun in
              let '(sh1, th1', others) :=
                match i with
                | ILock QM => (sh_oqm (sh_log sh (CLock t QM)) (Some t), th1, ths cfg)
                | ILock FM => (sh_ofm (sh_log sh (CLock t FM)) (Some t), th1, ths cfg)
                | IUnlock QM => (sh_oqm (sh_log sh (CUnlock t QM)) None, th1, ths cfg)
                | IUnlock FM => (sh_ofm (sh_log sh (CUnlock t FM)) None, th1, ths cfg)
                | IAInc EC => let v := (cec sh + 1)%Z in (sh_log (sh_ec sh v) (CAInc t EC v), mkTh rest (calls th) (lo_held (lo th) (S (lheld (lo th)))) TRun, ths cfg)
                | IAInc NC => let v := (cnc sh + 1)%Z in (sh_log (sh_nc sh v) (CAInc t NC v), th1, ths cfg)
                | IADec EC => let v := (cec sh - 1)%Z in (sh_log (sh_ec sh v) (CADec t EC v), mkTh rest (calls th) (lo_held (lo th) (pred (lheld (lo th)))) TRun, ths cfg)
                | IADec NC => let v := (cnc sh - 1)%Z in (sh_log (sh_nc sh v) (CADec t NC v), th1, ths cfg)
                | IALoad EC => (sh_log sh (CALoad t EC (cec sh)), mkTh rest (calls th) (lo_reg (lo th) (cec sh)) TRun, ths cfg)
                | IALoad NC => (sh_log sh (CALoad t NC (cnc sh)), mkTh rest (calls th) (lo_reg (lo th) (cnc sh)) TRun, ths cfg)
                | INotify =>
                    (* notify_one: the lowest-numbered parked thread is woken *)
                    let others :=
                      match first_parked (ths cfg) 0 (fun x => match status x with TParked _ => true | _ => false end) with
                      | Some w => match nth_error (ths cfg) w with
                                  | Some wt => set_th (ths cfg) w (mkTh (code wt) (calls wt) (lo wt) TWoken)
                                  | None => ths cfg
                                  end
                      | None => ths cfg
                      end in
                    (sh_log sh (CNotify t), th1, others)
                | IStart => (sh, th1, ths cfg)
                | IRead r => (sh_log sh (CRead t r), th1, ths cfg)
                | ICvWait timed =>
                    (* atomically release queueListMutex and park; the thread is scheduled again only after a notify or a timeout *)
                    (sh_oqm (sh_log sh (CCvBlock t)) None, mkTh rest (calls th) (lo_to (lo th) false) (TParked timed), ths cfg)
                | _ => (sh, th, ths cfg)
                end in
              let '(sh2, th2) := match status th1' with TParked _ => (sh1, th1') | _ => advance ADV_FUEL t sh1 th1' end in
              mkCfg sh2 (set_th others t th2) (sched cfg) (dead cfg)
          | [] => cfg
          end
      | _ => cfg
      end
  end.

Definition th_enabled (cfg : config) (t : nat) : bool :=
  match nth_error (ths cfg) t with Some th => enabled (shs cfg) th | None => false end.

(* consume schedule entries until one names an enabled thread *)
Fixpoint next_from_schedule (cfg : config) (s : list nat) : option nat * list nat :=
  match s with
  | [] => (None, [])
  | t :: r => if th_enabled cfg t then (Some t, r) else next_from_schedule cfg r
  end.

Definition lowest_enabled (cfg : config) : option nat :=
  first_parked (ths cfg) 0 (fun th => enabled (shs cfg) th).

Definition all_finished (cfg : config) : bool :=
  forallb (fun th => match status th with TFinished => true | _ => false end) (ths cfg).

(* one scheduler decision on thread ids *)
Definition sched_step0 (cfg : config) : option config :=
  if dead cfg then None else
  let '(pick, rest) := next_from_schedule cfg (sched cfg) in
  let cfg1 := mkCfg (shs cfg) (ths cfg) rest (dead cfg) in
  match (match pick with Some t => Some t | None => lowest_enabled cfg1 end) with
  | Some t => Some (perform t cfg1)
  | None =>
      (* nobody can run: time passes — the lowest-numbered thread in a timed wait times out *)
      match first_parked (ths cfg1) 0 (fun th => match status th with TParked true => true | _ => false end) with
      | Some w =>
          match nth_error (ths cfg1) w with
          | Some wt =>
              let cfg2 := mkCfg (sh_log (shs cfg1) (CTimeout w))
                                (set_th (ths cfg1) w (mkTh (code wt) (calls wt) (lo_to (lo wt) true) TWoken)) rest (dead cfg1) in
              if th_enabled cfg2 w then Some (perform w cfg2) else Some cfg2
          | None => None
          end
      | None =>
          if all_finished cfg1 then None
          else Some (mkCfg (sh_log (shs cfg1) (CDeadlock (length (ql (shs cfg1))) (cnc (shs cfg1)))) (ths cfg1) rest true)
      end
  end.

(* A wait may also end without a notification, at any moment: a timed wait times out (not only when nothing else can
   run), and any wait may wake up spuriously (std::condition_variable allows it; the predicate loop re-evaluates).
   Schedule tokens:  1000 + w  the timed wait of thread w times out now;  2000 + w  the wait of thread w wakes up spuriously.
   A token that does not apply (no such thread, not parked, not timed) is skipped like any entry naming a thread that cannot run. *)
Definition unnotified (cfg : config) (tok : nat) : option config :=
  if Nat.leb 2000 tok then
    let w := tok - 2000 in
    match nth_error (ths cfg) w with
    | Some wt => match status wt with
                 | TParked _ => Some (mkCfg (shs cfg) (set_th (ths cfg) w (mkTh (code wt) (calls wt) (lo_to (lo wt) false) TWoken)) (sched cfg) (dead cfg))
                 | _ => None
                 end
    | None => None
    end
  else if Nat.leb 1000 tok then
    let w := tok - 1000 in
    match nth_error (ths cfg) w with
    | Some wt => match status wt with
                 | TParked true => Some (mkCfg (sh_log (shs cfg) (CTimeout w))
                                               (set_th (ths cfg) w (mkTh (code wt) (calls wt) (lo_to (lo wt) true) TWoken)) (sched cfg) (dead cfg))
                 | _ => None
                 end
    | None => None
    end
  else None.

(* one scheduler decision *)
Definition sched_step (cfg : config) : option config :=
  if dead cfg then None else
  match sched cfg with
  | tok :: rest =>
      match unnotified (mkCfg (shs cfg) (ths cfg) rest (dead cfg)) tok with
      | Some c => Some c
      | None => sched_step0 cfg
      end
  | [] => sched_step0 cfg
  end.

Fixpoint run_sched (fuel : nat) (cfg : config) : config :=
  match fuel with
  | 0 => cfg
  | S f => match sched_step cfg with Some c => run_sched f c | None => cfg end
  end.

Definition sh0 : qshared := mkSh [] 0 0 0 None None 0 [] [] [] [] [] [] 0 [] false.

(* every thread starts parked at its creation point and runs when first scheduled (harness: Start) *)
Definition start_threads (progs : list (list qapi)) : list thread :=
  map (fun p => mkTh [IStart] p lo0 TRun) progs.

Definition qc_run_case (fuel : nat) (progs : list (list qapi)) (schedule : list nat) : list cact :=
  let cfg := run_sched fuel (mkCfg sh0 (start_threads progs) schedule false) in
  rev (clog (shs cfg)) ++ (if dead cfg then [] else map (fun e => CDrained (cek e) (cea e)) (ql (shs cfg))).

(* the same, for threads given as instruction lists (regression witnesses run shapes the header no longer has) *)
Definition qc_run_code (fuel : nat) (codes : list (list instr)) (schedule : list nat) : list cact :=
  let cfg := run_sched fuel (mkCfg sh0 (map (fun c => mkTh (IStart :: c) [] lo0 TRun) codes) schedule false) in
  rev (clog (shs cfg)) ++ (if dead cfg then [] else map (fun e => CDrained (cek e) (cea e)) (ql (shs cfg))).
