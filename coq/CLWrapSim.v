(* CLWrapSim.v — C19: the step that wraps the generation counter re-establishes the refinement relation.

   CLSim proves the refinement  pointer-level model / snapshot specification  for histories in which the overflow branch of
   getNextCounter is not taken (hypothesis `wrapped = false`).  Here: when an addition (append / prepend / insert) DOES take
   that branch, the state after it is again related by R to the specification state after the same addition.  R does not
   mention the ghost flag `wrapped`; with the flag cleared, C02_refinement_from_any_related_state applies to everything
   that follows: every later history (without a further wrap) behaves as the snapshot specification — every callback then in
   the list is invoked exactly once by every later invocation, removed ones never, callbacks added during an invocation are
   skipped by it.  What is NOT covered: invocations in progress at the moment of the wrap (their frames are not
   re-established: they may additionally call callbacks added during them, as the property says). *)
From Coq Require Import List Arith NArith ZArith Bool Lia.
From EV Require Import CLModel CLSpec CLHeap CLOps CLRefine CLSim CLWrap.
From EV.gen Require GenCL.
Import ListNotations.
Local Open Scope nat_scope.

Definition clear_wrapped (st : state) : state :=
  mkState (groups st) (lists st) (regs st) (acts st) (pins st) false (trace st).

Lemma length_reset_chain : forall k h c, length (reset_chain k h c) = length h.
Proof.
  induction k as [|k IH]; intros h c; cbn [reset_chain]; [reflexivity|].
  destruct c as [n|]; [|reflexivity]. destruct (nth_error h n); [|reflexivity]. rewrite IH. apply length_upd.
Qed.

Section WrapSim.
  Variable W : N.
  Notation R := (R W).

  (* the R half of CLRefine.add_sim, for a group gr that replaces the list's group gr0 (same size, same callbacks,
     counters bounded by k0 <= k) before the new node is linked *)
  Lemma add_R' st sst l o gr0 gr sgr g2 ents' a b c h k k0 :
    R st sst -> get_list st l = Some o -> get_group st (lg o) = Some gr0 -> s_get_group sst (lg o) = Some sgr ->
    GRel gr sgr k0 -> (k0 <= k)%N -> length (heap gr) = length (heap gr0) -> gfreed gr = gfreed gr0 -> (k < W)%N ->
    map fst (ents sgr) = a ++ b -> map fst ents' = a ++ length (heap gr) :: b ->
    (forall e cc, In (e, cc) ents' -> (e, cc) = (length (heap gr), c) \/ In (e, cc) (ents sgr)) ->
    GInv g2 (a ++ length (heap gr) :: b) ->
    extends (heap gr) (heap g2) ->
    (exists nn, nth_error (heap g2) (length (heap gr)) = Some nn /\ cb nn = c /\ ctr nn = k) ->
    length (heap g2) = S (length (heap gr)) -> gfreed g2 = gfreed gr ->
    R (add_state st l o k g2 h (length (heap gr))) (add_sstate sst (lg o) ents' (length (heap gr)) (sfreed sgr) h).
  Proof.
    intros HR Hl Hg Hsg HG Hk0 Hlen0 Hfrx HkW E1 E2 Hents G2 EX [nn [Hnn [Hcb Hctr]]] Hlen Hfr.
    set (n := length (heap gr)) in *.
    set (st' := add_state st l o k g2 h n). set (sst' := add_sstate sst (lg o) ents' n (sfreed sgr) h).
    destruct (r_grp _ _ _ HR l o Hl) as [grx [sgrx [Hgx [Hsgx [_ [Hlt Hfr0]]]]]].
    rewrite Hg in Hgx; inversion Hgx; subst grx. rewrite Hsg in Hsgx; inversion Hsgx; subst sgrx. clear Hgx Hsgx.
    assert (Hk : (k0 <= k)%N) by exact Hk0.
    assert (GL : forall l', get_list st' l' = if Nat.eq_dec l' l then Some (mkLobj (lg o) k) else get_list st l').
    { intros l'. unfold st', add_state. change (get_list (set_reg ?s _ _) l') with (get_list s l').
      rewrite get_list_put_group. destruct (Nat.eq_dec l' l) as [->|Hne].
      - apply (get_list_put_same _ _ _ _ Hl).
      - apply get_list_put_other; exact Hne. }
    assert (GG : forall g', get_group st' g' = if Nat.eq_dec g' (lg o) then Some g2 else get_group st g').
    { intros g'. unfold st', add_state. change (get_group (set_reg ?s _ _) g') with (get_group s g').
      destruct (Nat.eq_dec g' (lg o)) as [->|Hne].
      - apply (get_group_put_same _ _ _ gr0). rewrite get_group_put_list. exact Hg.
      - rewrite get_group_put_other by exact Hne. apply get_group_put_list. }
    assert (SG : forall g', s_get_group sst' g' = if Nat.eq_dec g' (lg o) then Some (mkSG ents' (S n) (sfreed sgr)) else s_get_group sst g').
    { intros g'. unfold sst', add_sstate. change (s_get_group (s_set_reg ?s _ _) g') with (s_get_group s g').
      destruct (Nat.eq_dec g' (lg o)) as [->|Hne].
      - apply (s_get_group_put_same _ _ _ sgr). exact Hsg.
      - apply s_get_group_put_other; exact Hne. }
    assert (Hids := gr_inv _ _ _ HG). 
    assert (OLD : forall e nd, nth_error (heap gr) e = Some nd -> e < n).
    { intros e nd H. apply nth_error_Some. rewrite H; discriminate. }
    assert (HR' : R st' sst').
    { constructor.
      - (* lists *)
        unfold st', sst', add_state, add_sstate. simpl. rewrite (r_lists _ _ _ HR).
        unfold get_list in Hl. destruct (nth_error (lists st) l) as [[o0|]|] eqn:En; try discriminate. inversion Hl; subst o0.
        clear - En. revert l En. induction (lists st) as [|x t IH]; intros [|l] En; simpl in *; try discriminate.
        + inversion En; subst. reflexivity.
        + f_equal. apply IH; exact En.
      - unfold st', sst', add_state, add_sstate. simpl. rewrite !length_upd. apply (r_len _ _ _ HR).
      - intros l1 l2 o1 o2 H1 H2 E. rewrite GL in H1, H2.
        destruct (Nat.eq_dec l1 l) as [->|N1], (Nat.eq_dec l2 l) as [->|N2]; auto.
        + inversion H1; subst o1. simpl in E. symmetry. apply (r_inj _ _ _ HR l2 l o2 o H2 Hl). auto.
        + inversion H2; subst o2. simpl in E. apply (r_inj _ _ _ HR l1 l o1 o H1 Hl). auto.
        + apply (r_inj _ _ _ HR l1 l2 o1 o2 H1 H2 E).
      - intros l' o' H'. rewrite GL in H'. destruct (Nat.eq_dec l' l) as [->|Hne].
        + inversion H'; subst o'. simpl. exists g2, (mkSG ents' (S n) (sfreed sgr)).
          rewrite GG, SG. destruct (Nat.eq_dec (lg o) (lg o)) as [_|X]; [|contradiction].
          split; [reflexivity|]. split; [reflexivity|]. split; [|split; [simpl; exact HkW|congruence]].
          constructor; simpl.
          * rewrite E2. exact G2.
          * intros e cc Hin. destruct (Hents e cc Hin) as [X|X].
            -- inversion X; subst. exists nn. auto.
            -- destruct (gr_cb _ _ _ HG e cc X) as [nd [A B]]. destruct (EX e nd A) as [nd' [A' [B' _]]]. exists nd'. split; [exact A'|congruence].
          * intros e nd' He. destruct (Nat.eq_dec e n) as [->|Hne].
            -- rewrite Hnn in He; inversion He; subst. lia.
            -- assert (e < n).
               { assert (e < length (heap g2)) by (apply nth_error_Some; rewrite He; discriminate). lia. }
               destruct (nth_error (heap gr) e) as [nd|] eqn:He0; [|apply nth_error_None in He0; lia].
               destruct (EX e nd He0) as [nd2 [A [B [C D]]]]. rewrite He in A; inversion A; subst nd2.
               rewrite C. assert (X := gr_ctr _ _ _ HG e nd He0). lia.
        + assert (Hgne : lg o' <> lg o). { intro X. apply Hne. apply (r_inj _ _ _ HR l' l o' o H' Hl X). }
          destruct (r_grp _ _ _ HR l' o' H') as [gr' [sgr' [A [B C]]]]. exists gr', sgr'.
          rewrite GG, SG. destruct (Nat.eq_dec (lg o') (lg o)); [contradiction|]. auto.
      - intros g' gr' sgr' H1 H2. rewrite GG in H1. rewrite SG in H2.
        destruct (Nat.eq_dec g' (lg o)) as [->|Hne].
        + inversion H1; inversion H2; subst. simpl. destruct (r_all _ _ _ HR _ _ _ Hg Hsg) as [A B]. split; [congruence|lia].
        + apply (r_all _ _ _ HR g' gr' sgr' H1 H2).
      - intros g' n' Hin. unfold st', add_state in Hin. simpl in Hin.
        destruct (r_pinown _ _ _ HR g' n' Hin) as [l' [o' [A B]]].
        destruct (Nat.eq_dec l' l) as [->|Hne].
        + exists l, (mkLobj (lg o) k). rewrite GL. destruct (Nat.eq_dec l l); [|contradiction]. rewrite Hl in A; inversion A; subst. auto.
        + exists l', o'. rewrite GL. destruct (Nat.eq_dec l' l); [contradiction|]. auto.
      - unfold st', sst', add_state, add_sstate. simpl. apply (r_pins _ _ _ HR).
      - unfold st', sst', add_state, add_sstate. simpl. rewrite (r_regs _ _ _ HR). reflexivity.
      - unfold st', sst', add_state, add_sstate. simpl. apply (r_acts _ _ _ HR).
      - unfold st', sst', add_state, add_sstate. simpl. apply (r_trace _ _ _ HR). }
    exact HR'.
  Qed.

  (* the group after the overflow loop is related to the same specification group, with every counter <= the rewrite value *)
  Lemma grel_reset gr sgr cur : GRel gr sgr cur -> GRel (reset_group gr) sgr GenCL.wrap_rewrite_value.
  Proof.
    intros [Gi Gc Gk]. destruct (wrap_reset_inv gr _ Gi) as (G' & L & B & A). constructor.
    - exact G'.
    - intros e c Hin. destruct (Gc e c Hin) as (nd & Hn & Hcb).
      assert (Hi : In e (map fst (ents sgr))) by (apply in_map_iff; exists (e, c); auto).
      exists (set_ctr GenCL.wrap_rewrite_value nd). split; [apply B; assumption|exact Hcb].
    - intros e nd Hn. destruct (wrap_reset_counters gr _ e nd Gi Hn) as [[_ X]|[_ X]]; rewrite X.
      + apply N.le_refl.
      + unfold GenCL.removed_marker, GenCL.wrap_rewrite_value. discriminate.
  Qed.

  (* an addition that takes the overflow branch: alloc_node + link, made explicit *)
  Lemma alloc_then_link_wrap st l o gr c (lk : group -> nat -> group) st1 g n st2 :
    wrapped st = false -> get_list st l = Some o -> get_group st (lg o) = Some gr ->
    alloc_node W st l c = Some (st1, g, n) -> with_group st1 g (fun x => lk x n) = Some st2 -> wrapped st2 = true ->
    g = lg o /\ n = length (heap gr) /\
    let k := counter_after_wrap W in
    clear_wrapped st2 = put_group (put_list st l (Some (mkLobj (lg o) k))) (lg o) (lk (fst (g_alloc (reset_group gr) c k)) (length (heap gr))) /\
    get_group st1 g = Some (fst (g_alloc (reset_group gr) c k)).
  Proof.
    intros Hw0 Hl Hg Ha Hw Hwr. unfold alloc_node, next_counter in Ha. rewrite Hl in Ha.
    destruct (GenCL.wrap_test ((lcur o + 1) mod W)) eqn:Et.
    - rewrite Hg in Ha. apply wrap_test_iff in Et.
      set (k := if GenCL.wrap_second_draw then (((lcur o + 1) mod W + 1) mod W)%N else ((lcur o + 1) mod W)%N) in *.
      assert (Ek : k = counter_after_wrap W) by (unfold k, counter_after_wrap; rewrite Et; reflexivity).
      set (grr := mkGroup (reset_chain (length (heap gr)) (heap gr) (ghead gr)) (ghead gr) (gtail gr) (gfreed gr)) in *.
      change grr with (reset_group gr) in *.
      set (s1 := set_wrapped (put_list (put_group st (lg o) (reset_group gr)) l (Some (mkLobj (lg o) k)))) in *.
      assert (L1 : get_list s1 l = Some (mkLobj (lg o) k)).
      { unfold s1. change (get_list (set_wrapped ?x) l) with (get_list x l). apply (get_list_put_same _ _ _ o).
        rewrite get_list_put_group. exact Hl. }
      rewrite L1 in Ha. cbn [lg] in Ha.
      assert (G1 : get_group s1 (lg o) = Some (reset_group gr)).
      { unfold s1. change (get_group (set_wrapped ?x) (lg o)) with (get_group x (lg o)). rewrite get_group_put_list.
        apply (get_group_put_same _ _ _ gr). exact Hg. }
      rewrite G1 in Ha. unfold g_alloc in Ha. inversion Ha; subst st1 g n. clear Ha.
      split; [reflexivity|]. split; [unfold reset_group; cbn [heap]; apply length_reset_chain|].
      unfold with_group in Hw. rewrite (get_group_put_same _ _ _ (reset_group gr)) in Hw by exact G1.
      inversion Hw; subst st2. rewrite put_group_twice. rewrite <- Ek. split.
      + unfold s1, clear_wrapped, put_group, put_list, set_groups, set_lists, set_wrapped. cbn.
        rewrite Hw0. rewrite upd_upd_const. rewrite length_reset_chain. reflexivity.
      + apply (get_group_put_same _ _ _ (reset_group gr)). exact G1.
    - exfalso. rewrite (get_list_put_same _ _ _ _ Hl) in Ha. cbn [lg] in Ha. rewrite get_group_put_list, Hg in Ha.
      unfold g_alloc in Ha. inversion Ha; subst st1 g n. clear Ha.
      rewrite (with_group_wrapped _ _ _ _ Hw) in Hwr. cbn in Hwr. congruence.
  Qed.

  Lemma reset_length gr : length (heap (reset_group gr)) = length (heap gr).
  Proof. unfold reset_group. cbn [heap]. apply length_reset_chain. Qed.

  Lemma counter_after_wrap_lt : (1 < W)%N -> (counter_after_wrap W < W)%N.
  Proof. intros HW. unfold counter_after_wrap, GenCL.wrap_second_draw. rewrite N.mod_small by lia. exact HW. Qed.

  (* the generic adding step (append / prepend / insert share it), when it takes the overflow branch *)
  Lemma add_step_wrap st sst l o gr sgr c h (lk : group -> nat -> group)
        (place : nat * nat -> list (nat * nat) -> list (nat * nat)) a b st1 g n st2 :
    (1 < W)%N -> R st sst -> wrapped st = false ->
    get_list st l = Some o -> get_group st (lg o) = Some gr -> s_get_group sst (lg o) = Some sgr ->
    alloc_node W st l c = Some (st1, g, n) -> with_group st1 g (fun x => lk x n) = Some st2 -> wrapped st2 = true ->
    map fst (ents sgr) = a ++ b ->
    (forall e, map fst (place e (ents sgr)) = a ++ fst e :: b) ->
    (forall e x, In x (place e (ents sgr)) -> x = e \/ In x (ents sgr)) ->
    link_spec (reset_group gr) c lk a b ->
    exists sst', s_add sst l c h place = Some sst' /\ R (clear_wrapped (set_reg st2 h (Some (g, n)))) sst'.
  Proof.
    intros HW HR Hw0 Hl Hg Hsg Ha Hw Hwr E1 E2 E3 LS.
    destruct (alloc_then_link_wrap st l o gr c lk st1 g n st2 Hw0 Hl Hg Ha Hw Hwr) as (-> & -> & Est2). cbv zeta in Est2. destruct Est2 as [Est2 _].
    destruct (wrap_second_draw_is_live W HW) as [Hk0 Hkr].
    destruct (LS (counter_after_wrap W) Hk0) as (G2 & _ & EX & NN & Hlen & Hfr).
    destruct (r_grp _ _ _ HR l o Hl) as (grx & sgrx & Hgx & Hsgx & HG & _ & _).
    rewrite Hg in Hgx; inversion Hgx; subst grx. rewrite Hsg in Hsgx; inversion Hsgx; subst sgrx. clear Hgx Hsgx.
    destruct (r_all _ _ _ HR _ _ _ Hg Hsg) as [_ Hnext].
    exists (add_sstate sst (lg o) (place (length (heap gr), c) (ents sgr)) (length (heap gr)) (sfreed sgr) h).
    split.
    - unfold s_add. rewrite (r_get_list W st sst l HR), Hl. simpl. rewrite Hsg, Hnext. reflexivity.
    - change (clear_wrapped (set_reg st2 h (Some (lg o, length (heap gr))))) with (set_reg (clear_wrapped st2) h (Some (lg o, length (heap gr)))).
      rewrite Est2.
      pose proof (add_R' st sst l o gr (reset_group gr) sgr _ (place (length (heap (reset_group gr)), c) (ents sgr)) a b c h
                         (counter_after_wrap W) GenCL.wrap_rewrite_value HR Hl Hg Hsg (grel_reset _ _ _ HG) Hkr (reset_length gr) eq_refl
                         (counter_after_wrap_lt HW) E1 (E2 _) (fun e cc Hin => E3 _ (e, cc) Hin) G2 EX NN Hlen Hfr) as X.
      rewrite (reset_length gr) in X. exact X.
  Qed.

  Notation chkR := GenCL.remove_checks_removed.
  Notation chkI := GenCL.insert_checks_removed.
  Notation chkO := GenCL.owns_checks_removed.

  (* append and prepend across the wrap *)
  Theorem append_wrap_reestablishes_R st sst l c h st' :
    (1 < W)%N -> R st sst -> wrapped st = false -> do_append W st l c h = Some st' -> wrapped st' = true ->
    exists sst', s_add sst l c h (fun n es => es ++ [n]) = Some sst' /\ R (clear_wrapped st') sst'.
  Proof.
    intros HW HR Hw0 H Hw. unfold do_append in H.
    destruct (alloc_node W st l c) as [[[st1 g] n]|] eqn:Ea; [|discriminate].
    destruct (with_group st1 g (fun gr => g_link_back gr n)) as [st2|] eqn:Ew; [|discriminate].
    inversion H; subst st'. clear H.
    destruct (alloc_node_list _ _ _ _ _ Ea) as [o Hl].
    destruct (r_grp _ _ _ HR l o Hl) as [gr [sgr [Hg [Hsg [HG _]]]]].
    apply (add_step_wrap st sst l o gr sgr c h g_link_back (fun n es => es ++ [n]) (map fst (ents sgr)) [] st1 g n st2); auto.
    - rewrite app_nil_r; reflexivity.
    - intros e. rewrite map_app. reflexivity.
    - intros e x Hin. apply in_app_or in Hin. destruct Hin as [X|[X|[]]]; auto.
    - intros k Hk. apply link_back_inv; [apply (gr_inv _ _ _ (grel_reset _ _ _ HG))|exact Hk].
  Qed.

  Theorem prepend_wrap_reestablishes_R st sst l c h st' :
    (1 < W)%N -> R st sst -> wrapped st = false -> do_prepend W st l c h = Some st' -> wrapped st' = true ->
    exists sst', s_add sst l c h (fun n es => n :: es) = Some sst' /\ R (clear_wrapped st') sst'.
  Proof.
    intros HW HR Hw0 H Hw. unfold do_prepend in H.
    destruct (alloc_node W st l c) as [[[st1 g] n]|] eqn:Ea; [|discriminate].
    destruct (with_group st1 g (fun gr => g_link_front gr n)) as [st2|] eqn:Ew; [|discriminate].
    inversion H; subst st'. clear H.
    destruct (alloc_node_list _ _ _ _ _ Ea) as [o Hl].
    destruct (r_grp _ _ _ HR l o Hl) as [gr [sgr [Hg [Hsg [HG _]]]]].
    apply (add_step_wrap st sst l o gr sgr c h g_link_front (fun n es => n :: es) [] (map fst (ents sgr)) st1 g n st2); auto.
    - intros e x Hin. destruct Hin as [X|X]; auto.
    - intros k Hk. apply link_front_inv; [apply (gr_inv _ _ _ (grel_reset _ _ _ HG))|exact Hk].
  Qed.

  Variable behav : nat -> nat -> list cmd.

  (* the node the before-handle refers to, re-read after the overflow loop: still live iff it was live *)
  Lemma reset_keeps_liveness gr ids b0 bn bn1 c k :
    GInv gr ids -> nth_error (heap gr) b0 = Some bn ->
    nth_error (heap (fst (g_alloc (reset_group gr) c k))) b0 = Some bn1 ->
    (live bn -> live bn1) /\ (~ live bn -> ~ live bn1).
  Proof.
    intros G Hb H1. destruct (wrap_reset_inv gr ids G) as (_ & L & B & A).
    assert (Lt : b0 < length (heap gr)) by (apply nth_error_Some; rewrite Hb; discriminate).
    unfold g_alloc in H1. cbn [fst heap] in H1. rewrite nth_error_snoc in H1.
    destruct (Nat.eqb_spec b0 (length (heap (reset_group gr)))) as [E|_]; [rewrite L in E; lia|].
    destruct (in_dec Nat.eq_dec b0 ids) as [Hin|Hnin].
    - rewrite (B b0 bn Hin Hb) in H1. inversion H1; subst bn1. split.
      + intros _. apply rewrite_value_live.
      + intros Hd. exfalso. destruct (lchain_in _ _ _ (gi_chain _ _ G) b0 Hin) as (nd & Hn & Hlv).
        rewrite Hb in Hn. inversion Hn; subst nd. exact (Hd Hlv).
    - rewrite (A b0 Hnin) in H1. rewrite Hb in H1. inversion H1; subst bn1. split; auto.
  Qed.

  Theorem insert_wrap_reestablishes_R st sst l c hb h st' :
    (1 < W)%N -> R st sst -> wrapped st = false ->
    do_insert W chkR chkI chkO st l c hb h = Some st' -> wrapped st' = true ->
    exists sst', s_step behav (fun _ _ => None) sst (Insert l c hb h) = Some sst' /\ R (clear_wrapped st') sst'.
  Proof.
    intros HW HR Hw0 H Hw. unfold do_insert in H. simpl.
    destruct (get_list st l) as [o|] eqn:Hl; [|discriminate].
    destruct (r_grp _ _ _ HR l o Hl) as [gr [sgr [Hg [Hsg [HG _]]]]].
    rewrite (r_get_list W st sst l HR), Hl. simpl. rewrite Hsg.
    assert (CA := classify_agree W st sst l o gr sgr (get_reg st hb) HR Hl Hg Hsg).
    assert (Ereg : s_get_reg sst hb = get_reg st hb) by (unfold s_get_reg, get_reg; rewrite (r_regs _ _ _ HR); reflexivity).
    rewrite Ereg.
    destruct (classify chkR chkI chkO st o (get_reg st hb)) as [|b0 bn| |] eqn:Ec;
      destruct (s_classify sst (lg o) sgr (get_reg st hb)) as [|e0| |] eqn:Es; try contradiction; try discriminate.
    - apply (append_wrap_reestablishes_R st sst l c h st' HW HR Hw0 H Hw).
    - (* before a live callback *)
      destruct CA as [<- [Hb [Hbl Hbin]]].
      destruct (alloc_node W st l c) as [[[st1 g] n]|] eqn:Ea; [|discriminate].
      destruct (get_group st1 g) as [gr1|] eqn:Eg1; [|discriminate].
      destruct (nth_error (heap gr1) b0) as [bn1|] eqn:Eb1; [|discriminate].
      destruct (in_split _ _ Hbin) as [a [r Eids]].
      assert (Hids := gr_inv _ _ _ HG).
      assert (Hids' := gr_inv _ _ _ (grel_reset _ _ _ HG)). rewrite Eids in Hids'.
      assert (Hba : ~ In b0 a) by (pose proof (gi_nodup _ _ Hids) as ND; rewrite Eids in ND; apply (nodup_split_notin _ _ _ ND)).
      assert (Hu : usable chkI bn1 = true).
      { destruct (with_group st1 g _) as [st2|] eqn:Ew in H; [|discriminate].
        inversion H; subst st'. simpl in Hw.
        assert (Hw2 : wrapped st2 = true) by exact Hw.
        destruct (usable chkI bn1) eqn:Eu; [reflexivity|exfalso].
        destruct (alloc_then_link_wrap st l o gr c g_link_back st1 g n st2 Hw0 Hl Hg Ea Ew Hw2) as (-> & -> & X). cbv zeta in X. destruct X as [_ G1].
        rewrite Eg1 in G1. inversion G1; subst gr1.
        destruct (reset_keeps_liveness gr _ b0 bn bn1 c _ Hids Hb Eb1) as [Lv _].
        unfold usable, GenCL.insert_checks_removed in Eu. apply negb_false_iff in Eu. apply N.eqb_eq in Eu. apply (Lv Hbl). exact Eu. }
      rewrite Hu in H.
      destruct (with_group st1 g (fun gr2 => g_link_before gr2 n b0)) as [st2|] eqn:Ew; [|discriminate].
      inversion H; subst st'. clear H.
      apply (add_step_wrap st sst l o gr sgr c h (fun x m => g_link_before x m b0) (fun n0 es => ins_before b0 n0 es) a (b0 :: r) st1 g n st2); auto.
      + intros e. apply map_fst_ins_before; auto.
      + intros e x. apply in_ins_before.
      + intros k Hk. apply link_before_inv; auto.
    - (* before a removed callback whose node is still around: append *)
      destruct CA as [Hb Hbd].
      destruct (alloc_node W st l c) as [[[st1 g] n]|] eqn:Ea; [|discriminate].
      destruct (get_group st1 g) as [gr1|] eqn:Eg1; [|discriminate].
      destruct (nth_error (heap gr1) b0) as [bn1|] eqn:Eb1; [|discriminate].
      assert (Hids := gr_inv _ _ _ HG).
      assert (Hu : usable chkI bn1 = false).
      { destruct (with_group st1 g _) as [st2|] eqn:Ew in H; [|discriminate].
        inversion H; subst st'. simpl in Hw.
        assert (Hw2 : wrapped st2 = true) by exact Hw.
        destruct (usable chkI bn1) eqn:Eu; [exfalso|reflexivity].
        destruct (alloc_then_link_wrap st l o gr c (fun x m => g_link_before x m b0) st1 g n st2 Hw0 Hl Hg Ea Ew Hw2) as (-> & -> & X). cbv zeta in X. destruct X as [_ G1].
        rewrite Eg1 in G1. inversion G1; subst gr1.
        destruct (reset_keeps_liveness gr _ b0 bn bn1 c _ Hids Hb Eb1) as [_ Dd].
        unfold usable, GenCL.insert_checks_removed in Eu. apply negb_true_iff in Eu. apply N.eqb_neq in Eu. apply (Dd Hbd). exact Eu. }
      rewrite Hu in H.
      assert (H' : do_append W st l c h = Some st').
      { unfold do_append. rewrite Ea. exact H. }
      apply (append_wrap_reestablishes_R st sst l c h st' HW HR Hw0 H' Hw).
    - apply (append_wrap_reestablishes_R st sst l c h st' HW HR Hw0 H Hw).
  Qed.
End WrapSim.
