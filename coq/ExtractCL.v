(* Extraction of the executable models for the correspondence check (tie B).
   ExtrOcamlBasic only: bool, option, list, prod, unit, sumbool are mapped to the
   OCaml types; nat stays Peano, positive/N/Z stay the binary Coq datatypes.
   No Extract Constant / Extract Inductive of our own. *)
Require Extraction.
Require Import ExtrOcamlBasic.
From EV Require CLModel CLSpec.
Extraction Language OCaml.
Set Extraction Optimize.
From EV.gen Require GenCL.
Definition cl_run_case W := CLModel.run_case W GenCL.remove_checks_removed GenCL.insert_checks_removed GenCL.owns_checks_removed.
Definition cl_legacy_run_case W := CLModel.run_case W false false false.
Definition cl_spec_run_case := CLSpec.s_run_case.
Extraction "../ocaml/gen/cl_model.ml" cl_run_case cl_legacy_run_case cl_spec_run_case.
