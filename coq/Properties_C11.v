(* Properties_C11.v — C11: a queue is never reported empty while an event is pending or in
   dispatch.  This file holds the single-threaded half (the observer is a listener) and the
   facts about emptyQueue()'s generated body that the thread-level argument uses. *)
From Coq Require Import List Arith NArith ZArith Bool.
From EV Require Import QModel QBalance QConc QConcInv.
From EV.gen Require GenQ.
Import ListNotations.

(* every command — to any nesting depth — leaves the "in dispatch" counter as it found it … *)
Theorem C11_counter_balanced :
  forall mech ordered klt behav pbehav fuel st cs st',
    q_run mech ordered klt behav pbehav fuel st cs = Some st' -> ecount st' = ecount st.
Proof. intros mech ordered klt behav pbehav. exact (ecount_balanced mech ordered klt behav pbehav). Qed.
Print Assumptions C11_counter_balanced.

(* … process / processOne / processIf / processUntil hold it incremented while listeners and
   predicates run (QModel.q_step), and with the counter positive emptyQueue() is false:
   from inside a listener the queue is seen as non-empty *)
Theorem C11_emptyqueue_false_while_in_dispatch :
  forall mech ordered klt behav pbehav rec st,
    1 <= ecount st -> q_step mech ordered klt behav pbehav rec st QEmpty = Some (qlog st (QRet false)).
Proof. exact emptyq_false_when_busy. Qed.
Print Assumptions C11_emptyqueue_false_while_in_dispatch.

(* emptyQueue() answers true exactly when nothing is pending AND nothing is in dispatch *)
Theorem C11_emptyqueue_true_iff :
  forall mech ordered klt behav pbehav rec st st',
    q_step mech ordered klt behav pbehav rec st QEmpty = Some st' ->
    (qtrace st' = QRet true :: qtrace st <-> qlist st = [] /\ ecount st = 0).
Proof. exact emptyq_true_iff. Qed.
Print Assumptions C11_emptyqueue_true_iff.

(* the order of the two reads in the header (tie A): the list first, the counter second —
   the order on which the argument for concurrent observers rests *)
Theorem C11_reads_list_then_counter : GenQ.empty_queue_reads = [0; 1].
Proof. reflexivity. Qed.

Print Assumptions C11_reads_list_then_counter.

(* under threads, for EVERY set of thread programs and EVERY schedule (QConcInv.v): the "in
   dispatch" counter is exactly the number of processing calls that are between their increment
   and their decrement (pd = outstanding decrements of a thread's remaining code), and it is
   back at 0 whenever no call is in progress.  NOT mechanised: the step from this to "emptyQueue
   never answers true while an event whose enqueue completed earlier is still in dispatch" for
   concurrent observers (that a processing call holds events only between its increment and its
   decrement, and the two-read history argument) — replayed on schedules instead *)
Theorem C11_threads_counter_counts_processing_calls_in_flight :
  forall progs schedule fuel,
    sum_pd (ths (reached progs schedule fuel)) = Some (cec (shs (reached progs schedule fuel))).
Proof. exact empty_counter_counts_the_processing_calls_in_flight. Qed.
Print Assumptions C11_threads_counter_counts_processing_calls_in_flight.

Theorem C11_threads_counter_restored_at_rest :
  forall progs schedule fuel,
    Forall (fun th => code th = []) (ths (reached progs schedule fuel)) ->
    cec (shs (reached progs schedule fuel)) = 0%Z.
Proof. exact empty_counter_restored_at_rest. Qed.
Print Assumptions C11_threads_counter_restored_at_rest.

Example C11_in_listener_example :
  exists st, q_run true false (fun _ _ => false) (fun c n => [QEmpty]) (fun _ _ => ([], true)) 5 q_init
                   [QAppend 0 1 0; QEnqueue 0 5%Z; QEmpty; QProcess; QEmpty] = Some st /\
             rev (qtrace st) = [QRet false; QCall 1 0 5%Z; QRet false; QRet true; QRet true].
Proof. eexists. split; vm_compute; reflexivity. Qed.
