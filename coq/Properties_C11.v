(* Properties_C11.v — C11: a queue is never reported empty while an event is pending or in
   dispatch.  The single-threaded half (the observer is a listener), the facts about emptyQueue()'s
   generated body, and the cross-thread clause for every set of thread programs and every schedule
   (QConcInv.v / QConcEmpty.v, at the granularity of visible actions).
   Not mechanised: the waitFor-times-out half of the statement, the reduction from instruction-level
   interleavings to visible-action interleavings, the C++ memory model. *)
From Coq Require Import List Arith NArith ZArith Bool.
From EV Require Import QModel QBalance QConc QConcInv QConcEmpty QConcWake.
From EV.gen Require GenQ.
Import ListNotations.

(* every command — to any nesting depth — leaves the "in dispatch" counter as it found it … *)
Theorem C11_counter_balanced :
  forall mech ordered klt behav pbehav fuel st cs st',
    q_run mech ordered klt behav pbehav fuel st cs = Some st' -> ecount st' = ecount st.
Proof. intros mech ordered klt behav pbehav. exact (ecount_balanced mech ordered klt behav pbehav). Qed.
Print Assumptions C11_counter_balanced.

(* … process / processOne / processIf / processUntil hold it incremented while listeners and
   predicates run (QModel.q_step), and with the counter positive emptyQueue() is false:
   from inside a listener the queue is seen as non-empty *)
Theorem C11_emptyqueue_false_while_in_dispatch :
  forall mech ordered klt behav pbehav rec st,
    1 <= ecount st -> q_step mech ordered klt behav pbehav rec st QEmpty = Some (qlog st (QRet false)).
Proof. exact emptyq_false_when_busy. Qed.
Print Assumptions C11_emptyqueue_false_while_in_dispatch.

(* emptyQueue() answers true exactly when nothing is pending AND nothing is in dispatch *)
Theorem C11_emptyqueue_true_iff :
  forall mech ordered klt behav pbehav rec st st',
    q_step mech ordered klt behav pbehav rec st QEmpty = Some st' ->
    (qtrace st' = QRet true :: qtrace st <-> qlist st = [] /\ ecount st = 0).
Proof. exact emptyq_true_iff. Qed.
Print Assumptions C11_emptyqueue_true_iff.

(* the same for the property's second observer, waitFor that times out (here with a zero time-out, from a listener or
   between operations, no DisableQueueNotify): it does not time out while an event is in dispatch, and it times out
   exactly when nothing is pending and nothing is in dispatch — for the predicate doCanProcess as it is in the header *)
Theorem C11_waitfor_does_not_time_out_while_in_dispatch :
  forall mech ordered klt behav pbehav rec st,
    1 <= ecount st -> q_step mech ordered klt behav pbehav rec st QWaitFor0 = Some (qlog st (QRet true)).
Proof. exact waitfor0_true_when_busy. Qed.
Print Assumptions C11_waitfor_does_not_time_out_while_in_dispatch.

Theorem C11_waitfor_times_out_iff :
  forall mech ordered klt behav pbehav rec st st',
    q_step mech ordered klt behav pbehav rec st QWaitFor0 = Some st' ->
    (qtrace st' = QRet false :: qtrace st <-> qlist st = [] /\ ecount st = 0).
Proof. exact waitfor0_false_iff. Qed.
Print Assumptions C11_waitfor_times_out_iff.

(* the order of the two reads in the header (tie A): the list first, the counter second —
   the order on which the argument for concurrent observers rests *)
Theorem C11_reads_list_then_counter : GenQ.empty_queue_reads = [0; 1].
Proof. reflexivity. Qed.

Print Assumptions C11_reads_list_then_counter.

(* under threads, for EVERY set of thread programs and EVERY schedule (QConcInv.v): the "in
   dispatch" counter is exactly the number of processing calls that are between their increment
   and their decrement (pd = outstanding decrements of a thread's remaining code), and it is
   back at 0 whenever no call is in progress *)
Theorem C11_threads_counter_counts_processing_calls_in_flight :
  forall progs schedule fuel,
    sum_pd (ths (reached progs schedule fuel)) = Some (cec (shs (reached progs schedule fuel))).
Proof. exact empty_counter_counts_the_processing_calls_in_flight. Qed.
Print Assumptions C11_threads_counter_counts_processing_calls_in_flight.

Theorem C11_threads_counter_restored_at_rest :
  forall progs schedule fuel,
    Forall (fun th => code th = []) (ths (reached progs schedule fuel)) ->
    cec (shs (reached progs schedule fuel)) = 0%Z.
Proof. exact empty_counter_restored_at_rest. Qed.
Print Assumptions C11_threads_counter_restored_at_rest.

(* THE CROSS-THREAD CLAUSE (QConcEmpty.v).  For every set of thread programs and every schedule in which
   no processIf / processUntil has put events back (g_putbacks = 0 — the property's quantifier: observers
   against enqueue, process, processOne, takeEvent, clearEvents): whenever an observer's emptyQueue() has
   found the list empty (lseen) and the in-dispatch counter is 0 — the configuration in which its second
   read returns 0 and the call answers true — every event that had been put into the queue when the call
   began (lsnap) has been dispatched, taken or cleared, or is in the hands of a takeEvent / clearEvents
   call that has removed it from the queue.  (`consumed` = dispatched ++ taken ++ cleared; an event is
   entered there when its dispatch by process / processOne has returned.) *)
Theorem C11_threads_emptyqueue_true_means_consumed :
  forall progs schedule fuel,
    let cfg := reached progs schedule fuel in
    g_putbacks (shs cfg) = 0 ->
    forall o, In o (ths cfg) -> lseen (lo o) = true -> cec (shs cfg) = 0%Z ->
    forall e, In e (lsnap (lo o)) ->
      In e (consumed (shs cfg)) \/
      exists t, In t (ths cfg) /\ ltaking (lo t) = true /\ In e (ltemp (lo t)).
Proof. exact emptyqueue_true_means_consumed. Qed.
Print Assumptions C11_threads_emptyqueue_true_means_consumed.

(* non-vacuity: producer, consumer, observer; the observer's call starts after the event was settled,
   sees the list empty and the counter 0, and the event is among the consumed *)
Example C11_threads_example :
  let cfg := reached [[AEnqueue 0 11%Z]; [AProcess]; [AEmptyQ]] [] 400 in
  g_putbacks (shs cfg) = 0 /\ cec (shs cfg) = 0%Z /\
  match nth_error (ths cfg) 2 with
  | Some o => lseen (lo o) = true /\ length (lsnap (lo o)) = 1 /\ lsnap (lo o) = consumed (shs cfg)
  | None => False
  end.
Proof. vm_compute. repeat split; reflexivity. Qed.

(* THE waitFor HALF.  waitFor takes the same snapshot ghost as emptyQueue when the call begins (lsnap).  Under the
   interference other threads can exert, for every state in which the call begins (QConcWake.v, the rely/guarantee
   calculus): when waitFor returns false it has timed out and its last evaluation of doCanProcess() either
     - read the list empty (ghost lseen) and then the in-dispatch counter 0 (lbe: emptyQueue() answered true), or
     - loaded a non-zero queueNotifyCounter: a DisableQueueNotify object existed.
   "waitFor times out while no DisableQueueNotify object exists" is therefore the first case, and the configuration in
   which that load of queueEmptyCounter returned 0 is one with lseen = true and cec = 0: by
   C11_threads_emptyqueue_true_means_consumed every event settled before the call began has been consumed (or is in
   the hands of a takeEvent / clearEvents that removed it). *)
Theorem C11_waitfor_false_means : forall t sh,
  oqm sh <> Some t -> ofm sh <> Some t ->
  wkl t (code_of AWaitFor)
      (fun _ lo => lres lo = false ->
                   ltimedout lo = true /\
                   ((lbe lo = true /\ lseen lo = true) \/ (lbe lo = false /\ GenQ.can_notify (lreg lo) = false)))
      sh lo0.
Proof. exact waitfor_false_means. Qed.
Print Assumptions C11_waitfor_false_means.

(* non-vacuity: producer, consumer, and a thread whose waitFor begins after the event was settled and times out on
   the queue the consumer has emptied: waitFor returns false and the event of its snapshot is among the consumed *)
Example C11_waitfor_example :
  let cfg := reached [[AEnqueue 0 11%Z]; [AProcess]; [AWaitFor]] [0; 0; 0; 0; 0; 0; 0; 1; 1; 1; 1; 1; 1; 1; 1; 1; 1] 400 in
  g_putbacks (shs cfg) = 0 /\ cec (shs cfg) = 0%Z /\
  existsb (fun a => match a with CRes 2 false => true | _ => false end) (clog (shs cfg)) = true /\
  match nth_error (ths cfg) 2 with
  | Some o => length (lsnap (lo o)) = 1 /\ lsnap (lo o) = consumed (shs cfg)
  | None => False
  end.
Proof. vm_compute. repeat split; reflexivity. Qed.

Example C11_in_listener_example :
  exists st, q_run true false (fun _ _ => false) (fun c n => [QEmpty]) (fun _ _ => ([], true)) 5 q_init
                   [QAppend 0 1 0; QEnqueue 0 5%Z; QEmpty; QProcess; QEmpty] = Some st /\
             rev (qtrace st) = [QRet false; QCall 1 0 5%Z; QRet false; QRet true; QRet true].
Proof. eexists. split; vm_compute; reflexivity. Qed.
