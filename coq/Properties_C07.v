(* Properties_C07.v — C07: wait/waitFor never miss a wake-up; DisableQueueNotify only defers it.

   PARTIAL.  What is proved here, for the transcription of eventqueue.h in QConc.v (tied to the
   code by replaying schedules step for step on the real queue under harness/vsched.h, and by
   the leaves GenQ / GenQConc): the synchronisation discipline on which the absence of lost
   wake-ups rests —
     (a) a waiter holds queueListMutex from the evaluation of its predicate until it is parked
         (the condition-variable wait is entered holding exactly that mutex);
     (b) each of the two changes that can turn the predicate from false to true — the splice of
         enqueue and the decrement of queueNotifyCounter in ~DisableQueueNotify — is made while
         holding queueListMutex, so it cannot fall between (a)'s evaluation and parking;
     (c) both are followed, in the same call, by the notification test and notify_one.
   Also proved (QConcWait.v): the third clause of the property — what wait / waitFor have observed when
   they return, and that waitFor returns false only after its timeout — under arbitrary interference.
   What is NOT mechanised: the final step from (a)–(c) to "no reachable configuration has every
   waiter parked with events pending and notification enabled" (an invariant over all
   interleavings).  That statement is checked by schedule search on model and implementation
   (see the check's evidence), which is how the defect repaired by bbf0063 was found. *)
From Coq Require Import List Arith NArith ZArith Bool.
From EV Require Import QConc QConcProofs QConcWait QConcWake QConcFuel.
From EV Require GenQFacts.
From EV.gen Require GenQ GenQConc.
Import ListNotations.

Theorem C07_partial_wakeup_discipline : forall c, call_ok c = true.
Proof. exact every_call_keeps_the_lock_discipline. Qed.
Print Assumptions C07_partial_wakeup_discipline.

(* the shape of the header this rests on (tie A) *)
Theorem C07_notification_reenabled_under_mutex : GenQConc.dqn_dtor_decrement_under_mutex = true.
Proof. reflexivity. Qed.

(* wait's predicate is exactly doCanProcess: non-empty (list first, then the in-dispatch counter)
   and notification enabled *)
Theorem C07_wait_predicate :
  forall list_empty ec nc,
    GenQ.can_process list_empty ec nc = true <-> (GenQ.empty_queue list_empty ec = false /\ nc = 0%Z).
Proof.
  intros le ec nc. rewrite GenQFacts.can_process_spec, GenQFacts.empty_queue_spec. rewrite andb_true_iff, negb_true_iff, Z.eqb_eq. tauto.
Qed.
Print Assumptions C07_wait_predicate.

(* what wait() / waitFor() have observed when they return, under ARBITRARY interference by other threads
   (every read of shared state may return any value; QConcWait.v): wait returns, and waitFor returns
   true, only after an evaluation of doCanProcess — made by the returning thread under queueListMutex —
   that found the queue non-empty and notification enabled; waitFor returns false only after its timeout *)
Theorem C07_wait_loop_exit_condition : forall timed lo, wql (wait_loop timed) (WExit timed) lo.
Proof. exact wait_exit_condition. Qed.
Print Assumptions C07_wait_loop_exit_condition.

Theorem C07_wait_returns_only_after_observing_work :
  wql (code_of AWait) (fun lo => lb lo = true /\ lbe lo = false) lo0.
Proof. exact wait_returns_only_after_observing_work. Qed.
Print Assumptions C07_wait_returns_only_after_observing_work.

Theorem C07_waitfor_result_means_what_it_says :
  wql (code_of AWaitFor)
      (fun lo => (lres lo = true -> lb lo = true /\ lbe lo = false) /\ (lres lo = false -> ltimedout lo = true)) lo0.
Proof. exact waitfor_result_means_what_it_says. Qed.
Print Assumptions C07_waitfor_result_means_what_it_says.

Theorem C07_predicate_values_mean :
  (forall nc, GenQ.can_notify nc = true <-> nc = 0%Z) /\
  (forall list_empty ec, GenQ.empty_queue list_empty ec = false <-> (list_empty = false \/ ec <> 0%Z)).
Proof. exact predicate_values_mean. Qed.
Print Assumptions C07_predicate_values_mean.

(* regression witnesses for the repaired destructor *)
Theorem C07_unlocked_decrement_refuted : check 200 [] legacy_disable_end = None.
Proof. exact unlocked_decrement_refuted. Qed.

Example C07_p7_schedule_now_completes :
  let tr := qc_run_case 400 [[AWait]; [AEnqueue 0 11%Z; ADisableBegin; AEnqueue 2 12%Z; ADisableEnd]]
                        [1; 1; 0; 1; 1; 1; 1; 1; 1; 1; 0; 0; 1; 1; 1] in
  existsb (fun a => match a with CDeadlock _ _ => true | _ => false end) tr = false /\
  existsb (fun a => match a with CDone 0 => true | _ => false end) tr = true.
Proof. exact p7_schedule_now_completes. Qed.

(* the put-back of processIf / processUntil (and HeterEventQueue::doProcessIf) is followed by
   if(doCanProcess()) notify_one()  — read off the headers on every run (tie A, tools/leaves/queueconc.py) *)
Theorem C07_putback_is_followed_by_a_notify :
  (GenQConc.processif_putback_notifies, GenQConc.processuntil_putback_notifies, GenQConc.heter_processif_putback_notifies)
  = (true, true, true).
Proof. reflexivity. Qed.

(* regression witnesses for the repaired put-back (7d407be): without that notify a waiter stays parked on a
   queue that holds an event; with it the same schedule completes *)
Theorem C07_putback_without_notify_refuted :
  let tr := qc_run_code 400 [code_of AWait; code_of (AEnqueue 1 11%Z); processif_code false 0] p13_schedule in
  existsb (fun a => match a with CDeadlock 1 _ => true | _ => false end) tr = true.
Proof. exact putback_without_notify_refuted. Qed.

Example C07_p13_schedule_now_completes :
  let tr := qc_run_case 400 [[AWait]; [AEnqueue 1 11%Z]; [AProcessIf 0]] p13_schedule in
  existsb (fun a => match a with CDeadlock _ _ => true | _ => false end) tr = false /\
  existsb (fun a => match a with CDone 0 => true | _ => false end) tr = true.
Proof. exact p13_schedule_now_completes. Qed.

(* ---------- first clause: no wake-up is lost (QConcWake.v) ---------- *)
(* every configuration reachable under ANY set of thread programs and ANY schedule satisfies the wake-up invariant
   (KInv: the invariant J over shared state and thread statuses, and each thread's weakest-precondition assertion);
   side condition: no block of local code was cut short by the fuel of QConc.advance (decidable: stopped_alongb) *)
Theorem C07_wake_invariant_every_schedule : forall progs schedule n,
  stopped_along n (mkCfg sh0 (start_threads progs) schedule false) ->
  KInv (run_sched n (mkCfg sh0 (start_threads progs) schedule false)).
Proof. exact wake_invariant_every_schedule. Qed.
Print Assumptions C07_wake_invariant_every_schedule.

(* the side condition holds on every run (QConcFuel.v: a syntactic bound on the local code between two visible actions,
   12 iterations against ADV_FUEL = 400, is an invariant of every thread's remaining code) ... *)
Theorem C07_never_out_of_fuel : forall progs schedule n,
  stopped_along n (mkCfg sh0 (start_threads progs) schedule false).
Proof. intros. destruct (init_s progs) as [A B0]. apply never_out_of_fuel; assumption. Qed.
Print Assumptions C07_never_out_of_fuel.

(* ... so the invariant holds in EVERY reachable configuration, unconditionally *)
Theorem C07_wake_invariant_unconditional : forall progs schedule n,
  KInv (run_sched n (mkCfg sh0 (start_threads progs) schedule false)).
Proof. exact wake_invariant_unconditional. Qed.
Print Assumptions C07_wake_invariant_unconditional.

(* and the first clause of the property, for every set of thread programs, every schedule and every number of steps:
   a configuration in which nobody can run, a thread is blocked in wait(), events are pending and notification is
   enabled exists only if a thread that was released from wait did not drain the queue (or the program destroyed a
   DisableQueueNotify it never constructed) *)
Theorem C07_no_lost_wakeup_every_schedule : forall progs schedule n,
  let cfg := run_sched n (mkCfg sh0 (start_threads progs) schedule false) in
  (forall t, th_enabled cfg t = false) ->
  (exists th, In th (ths cfg) /\ status th = TParked false) ->
  ql (shs cfg) <> [] -> cnc (shs cfg) = 0%Z -> g_under (shs cfg) = false ->
  g_awake (shs cfg) <> [].
Proof. intros progs schedule n cfg. apply no_lost_wakeup. apply wake_invariant_unconditional. Qed.
Print Assumptions C07_no_lost_wakeup_every_schedule.

(* nobody can run, a thread is blocked in wait(), events are pending, notification is enabled, and the program did not
   destroy a DisableQueueNotify it had not constructed  ==>  some thread that was released from wait / waitFor(true)
   has not since found the queue empty or taken all of it (a woken consumer did not drain the queue) *)
Theorem C07_no_lost_wakeup : forall cfg,
  KInv cfg ->
  (forall t, th_enabled cfg t = false) ->
  (exists th, In th (ths cfg) /\ status th = TParked false) ->
  ql (shs cfg) <> [] ->
  cnc (shs cfg) = 0%Z ->
  g_under (shs cfg) = false ->
  g_awake (shs cfg) <> [].
Proof. exact no_lost_wakeup. Qed.
Print Assumptions C07_no_lost_wakeup.

(* sharper: the thread that did not drain the queue has FINISHED its program.  A thread is in g_awake from the moment
   wait / waitFor(true) returns to it until it finds the queue empty, takes all of it (process / processIf /
   processUntil) or goes to wait again; the invariant carries "whoever is in g_awake is running or finished", and in
   a configuration where nobody can run nobody is running. *)
Theorem C07_no_lost_wakeup_names_a_finished_thread : forall progs schedule n,
  let cfg := run_sched n (mkCfg sh0 (start_threads progs) schedule false) in
  (forall t, th_enabled cfg t = false) ->
  (exists th, In th (ths cfg) /\ status th = TParked false) ->
  ql (shs cfg) <> [] -> cnc (shs cfg) = 0%Z -> g_under (shs cfg) = false ->
  exists u th, In u (g_awake (shs cfg)) /\ nth_error (ths cfg) u = Some th /\ status th = TFinished.
Proof. intros progs schedule n cfg. apply no_lost_wakeup_names_a_finished_thread. apply wake_invariant_unconditional. Qed.
Print Assumptions C07_no_lost_wakeup_names_a_finished_thread.

Corollary C07_no_waiter_left_behind : forall cfg,
  KInv cfg -> (forall t, th_enabled cfg t = false) -> g_under (shs cfg) = false -> g_awake (shs cfg) = [] ->
  ql (shs cfg) <> [] -> cnc (shs cfg) = 0%Z ->
  forall th, In th (ths cfg) -> status th <> TParked false.
Proof. exact no_waiter_left_behind. Qed.
Print Assumptions C07_no_waiter_left_behind.

(* every call of the API, as transcribed from the header that is there now (tie A: decrement under the mutex, notify
   after the put-back), meets its per-thread obligations: whatever it owes it discharges, it ends holding no mutex *)
Theorem C07_every_call_discharges_what_it_owes : forall t c sh,
  oqm sh <> Some t -> ofm sh <> Some t -> wkl t (code_of c) (Post t) sh lo0.
Proof. exact all_calls_wk. Qed.
Print Assumptions C07_every_call_discharges_what_it_owes.

(* the hypotheses are met by actual runs, and the disjunct "a woken consumer did not drain" is needed *)
Example C07_undrained_consumer_is_named :
  stopped_alongb 60 (mkCfg sh0 (start_threads [[AWait]; [AWait]; [AEnqueue 1 11%Z]]) [0; 0; 0; 0; 0; 1; 1; 1; 1; 1; 2; 2; 2; 2; 2; 2; 2; 2; 0; 0; 0; 0] false) = true /\
  forallb (fun t => negb (th_enabled undrained_cfg t)) [0; 1; 2] = true /\
  existsb (fun th => match status th with TParked false => true | _ => false end) (ths undrained_cfg) = true /\
  length (ql (shs undrained_cfg)) = 1 /\ cnc (shs undrained_cfg) = 0%Z /\ g_under (shs undrained_cfg) = false /\
  g_awake (shs undrained_cfg) = [0].
Proof. exact undrained_consumer_is_named. Qed.

(* the schedules the theorems quantify over include waits that end with no notification: a spurious wake-up (token
   2000 + w) and a timed wait that times out while other threads can run (token 1000 + w) *)
Example C07_spurious_wake_run :
  let c0 := mkCfg sh0 (start_threads [[AWait]; [AEnqueue 1 11%Z]])
                  ([0; 0; 0; 0; 0; 2000; 0; 0; 0; 0; 0; 0; 0] ++ repeat 1 12 ++ repeat 0 10) false in
  map status (ths (run_sched 5 c0)) = [TParked false; TRun] /\
  map status (ths (run_sched 6 c0)) = [TWoken; TRun] /\
  map status (ths (run_sched 10 c0)) = [TParked false; TRun] /\
  stopped_alongb 100 c0 = true /\ all_finished (run_sched 100 c0) = true.
Proof. exact spurious_wake_run. Qed.

Example C07_timeout_while_others_run :
  let c1 := mkCfg sh0 (start_threads [[AWaitFor]; [AEnqueue 1 11%Z]])
                  ([0; 0; 0; 0; 0; 1; 1; 1000] ++ repeat 0 10 ++ repeat 1 12) false in
  map status (ths (run_sched 7 c1)) = [TParked true; TRun] /\
  th_enabled (run_sched 7 c1) 1 = true /\
  map status (ths (run_sched 8 c1)) = [TWoken; TRun] /\
  In (CRes 0 false) (clog (shs (run_sched 100 c1))) /\
  stopped_alongb 100 c1 = true /\ all_finished (run_sched 100 c1) = true.
Proof. exact timeout_while_others_run. Qed.
