(* CopyModel.v — copy / move / assign / swap of event queues (homogeneous and heterogeneous)
   at the level of what the objects contain: listeners per event key (in order; every listener is a
   NODE with an identity of its own, which is what a handle refers to), filters,
   pending events and the two atomic counters.  A copy clones the nodes (fresh identities: no handle
   of the source is owned by the copy), a move and a swap transfer them (handles follow the nodes).
   Whether copy-assignment from itself leaves the nodes alone is read off the headers by tie A
   (GenCtor.*_copy_assign_self_safe): a copy-and-swap assignment without a self test clones them,
   and every handle taken before goes stale.  What a constructor does not name in its
   mem-initialiser list starts with an ARBITRARY value `junk` (the previous content of the
   storage): whether the copy and move constructors name the counters is read off the headers
   by tie A (GenCtor).  Definitions only. *)
From Coq Require Import List Arith NArith ZArith Bool.
From EV.gen Require GenQ.
Import ListNotations.
Local Open Scope nat_scope.

Record cobj := mkObj {
  olst : list (nat * list (nat * nat));   (* event key -> (node id, callback id) in list order *)
  ofilters : list (nat * bool);       (* filter id, verdict *)
  opending : list (nat * Z);          (* queued events (key, argument) *)
  oecnt : Z;                          (* queueEmptyCounter *)
  oncnt : Z                           (* queueNotifyCounter *)
}.

Inductive ccmd :=
| CAppend (o k c : nat)               (* the i-th CAppend of a program fills handle register i *)
| COwns (o k h : nat)                 (* ownsHandle(k, handle h) on object o *)
| CRemove (o k h : nat)               (* removeListener(k, handle h); only for a handle o owns (a foreign handle is outside the contract) *)
| CAddFilter (o c : nat) (verdict : bool)
| CEnqueue (o k : nat) (a : Z)
| CProcess (o : nat)
| CDispatch (o k : nat) (a : Z)
| CEmptyQ (o : nat)
| CCanProcess (o : nat)               (* what wait()/waitFor()'s predicate evaluates to *)
| CGuardBegin (o w : nat) | CGuardEnd (o w : nat)   (* an operation in flight on o holds a guard: w = 0 the processing guard
                                                       (queueEmptyCounter), otherwise DisableQueueNotify (queueNotifyCounter) *)
| CNew (d : nat)
| CCopyCtor (s d : nat) | CMoveCtor (s d : nat)
| CCopyAssign (s d : nat) | CMoveAssign (s d : nat)
| CSwap (a b : nat)
| CDestroy (o : nat).

Inductive cev := CRet (b : bool) | CCall (o c k : nat) (a : Z) | CFilter (o c : nat) (a : Z).

Fixpoint alook {A} (k : nat) (l : list (nat * A)) : option A :=
  match l with [] => None | (k', v) :: t => if Nat.eqb k k' then Some v else alook k t end.
Fixpoint aput {A} (k : nat) (v : A) (l : list (nat * A)) : list (nat * A) :=
  match l with
  | [] => [(k, v)]
  | (k', v') :: t => if Nat.eqb k k' then (k, v) :: t else (k', v') :: aput k v t
  end.
Fixpoint oset {A} (l : list A) (i : nat) (x : A) : list A :=
  match l, i with
  | [], _ => []
  | _ :: t, 0 => x :: t
  | y :: t, S j => y :: oset t j x
  end.

Definition fresh_obj : cobj := mkObj [] [] [] 0 0.

(* node identities of an object's listeners; the callbacks per key without the identities *)
Definition lnodes (l : list (nat * list (nat * nat))) : list nat := flat_map (fun kl => map fst (snd kl)) l.
Definition cbs_of (l : list (nat * list (nat * nat))) : list (nat * list nat) := map (fun kl => (fst kl, map snd (snd kl))) l.

(* cloning gives every node a fresh identity, in order *)
Fixpoint renum (nxt : nat) (l : list (nat * nat)) : list (nat * nat) * nat :=
  match l with
  | [] => ([], nxt)
  | nc :: t => let '(t', n') := renum (S nxt) t in ((nxt, snd nc) :: t', n')
  end.
Fixpoint clone_lst (nxt : nat) (l : list (nat * list (nat * nat))) : list (nat * list (nat * nat)) * nat :=
  match l with
  | [] => ([], nxt)
  | kl :: t => let '(ns', n1) := renum nxt (snd kl) in let '(t', n2) := clone_lst n1 t in ((fst kl, ns') :: t', n2)
  end.
Definition with_lst (o : cobj) (l : list (nat * list (nat * nat))) : cobj :=
  mkObj l (ofilters o) (opending o) (oecnt o) (oncnt o).
Definition has_node (n : nat) (l : list (nat * nat)) : bool := existsb (fun nc => Nat.eqb (fst nc) n) l.
Definition drop_node (n : nat) (l : list (nat * nat)) : list (nat * nat) := filter (fun nc => negb (Nat.eqb (fst nc) n)) l.

Section CopyInterp.
  Variable copy_inits copy_src : bool.     (* does the copy constructor initialise the two counters; if so, from the source's? *)
  Variable move_inits move_src : bool.     (* the same for the move constructor *)
  Variable junk1 junk2 : Z.                (* what the storage held before *)
  Variable assign_self_safe : bool.        (* does copy-assignment from itself leave the nodes alone (map assignment / self test)? *)

  Definition ctor_counter (inits from_src : bool) (junk srcv : Z) : Z :=
    if inits then (if from_src then srcv else 0%Z) else junk.

  Definition copy_of (o : cobj) : cobj :=
    mkObj (olst o) (ofilters o) [] (ctor_counter copy_inits copy_src junk1 (oecnt o)) (ctor_counter copy_inits copy_src junk2 (oncnt o)).
  (* the move constructor moves the listener map (and the filter list); queue members are default-constructed *)
  Definition moved_into (o : cobj) : cobj :=
    mkObj (olst o) (ofilters o) [] (ctor_counter move_inits move_src junk1 (oecnt o)) (ctor_counter move_inits move_src junk2 (oncnt o)).
  Definition moved_from (o : cobj) : cobj := mkObj [] [] (opending o) (oecnt o) (oncnt o).

  (* the copy constructed at node counter nxt: the shape of copy_of with cloned nodes *)
  Definition copy_at (nxt : nat) (o : cobj) : cobj * nat :=
    let '(l, n) := clone_lst nxt (olst o) in (with_lst (copy_of o) l, n).

  Record cstate := mkC { objs : list (option cobj); ctrace : list cev; cnext : nat; cregs : list nat }.

  Definition getobj (st : cstate) (o : nat) : option cobj :=
    match nth_error (objs st) o with Some (Some x) => Some x | _ => None end.
  Definition putobj (st : cstate) (o : nat) (x : option cobj) : cstate := mkC (oset (objs st) o x) (ctrace st) (cnext st) (cregs st).
  Definition clog (st : cstate) (e : cev) : cstate := mkC (objs st) (e :: ctrace st) (cnext st) (cregs st).
  Definition setnext (st : cstate) (n : nat) : cstate := mkC (objs st) (ctrace st) n (cregs st).
  Definition klist (x : cobj) (k : nat) : list (nat * nat) := match alook k (olst x) with Some l => l | None => [] end.

  (* filters in order until the first false; then the listeners of the key *)
  Fixpoint run_filters (st : cstate) (o : nat) (fs : list (nat * bool)) (a : Z) : cstate * bool :=
    match fs with
    | [] => (st, true)
    | (c, v) :: t => let st1 := clog st (CFilter o c a) in if v then run_filters st1 o t a else (st1, false)
    end.

  Definition do_dispatch (st : cstate) (o : nat) (x : cobj) (k : nat) (a : Z) : cstate :=
    let '(st1, pass) := run_filters st o (ofilters x) a in
    if pass then
      fold_left (fun s c => clog s (CCall o c k a)) (map snd (klist x k)) st1
    else st1.

  Definition is_nil {A} (l : list A) : bool := match l with [] => true | _ => false end.

  Definition cstep (st : cstate) (c : ccmd) : option cstate :=
    match c with
    | CAppend o k c =>
        match getobj st o with
        | Some x =>
            let st1 := putobj st o (Some (with_lst x (aput k (klist x k ++ [(cnext st, c)]) (olst x)))) in
            Some (mkC (objs st1) (ctrace st1) (S (cnext st)) (cregs st ++ [cnext st]))
        | None => None
        end
    | COwns o k h =>
        match getobj st o, nth_error (cregs st) h with
        | Some x, Some n => Some (clog st (CRet (has_node n (klist x k))))
        | _, _ => None
        end
    | CRemove o k h =>
        match getobj st o, nth_error (cregs st) h with
        | Some x, Some n =>
            if has_node n (klist x k)
            then Some (clog (putobj st o (Some (with_lst x (aput k (drop_node n (klist x k)) (olst x))))) (CRet true))
            else None
        | _, _ => None
        end
    | CAddFilter o c v =>
        match getobj st o with
        | Some x => Some (putobj st o (Some (mkObj (olst x) (ofilters x ++ [(c, v)]) (opending x) (oecnt x) (oncnt x))))
        | None => None
        end
    | CEnqueue o k a =>
        match getobj st o with
        | Some x => Some (putobj st o (Some (mkObj (olst x) (ofilters x) (opending x ++ [(k, a)]) (oecnt x) (oncnt x))))
        | None => None
        end
    | CProcess o =>
        match getobj st o with
        | Some x =>
            match opending x with
            | [] => Some (clog st (CRet false))
            | evs =>
                let st1 := putobj st o (Some (mkObj (olst x) (ofilters x) [] (oecnt x) (oncnt x))) in
                Some (clog (fold_left (fun s e => do_dispatch s o x (fst e) (snd e)) evs st1) (CRet true))
            end
        | None => None
        end
    | CDispatch o k a =>
        match getobj st o with Some x => Some (do_dispatch st o x k a) | None => None end
    | CEmptyQ o =>
        match getobj st o with
        | Some x => Some (clog st (CRet (GenQ.empty_queue (is_nil (opending x)) (oecnt x))))
        | None => None
        end
    | CCanProcess o =>
        match getobj st o with
        | Some x => Some (clog st (CRet (GenQ.can_process (is_nil (opending x)) (oecnt x) (oncnt x))))
        | None => None
        end
    | CGuardBegin o w =>
        match getobj st o with
        | Some x => Some (putobj st o (Some (if Nat.eqb w 0 then mkObj (olst x) (ofilters x) (opending x) (oecnt x + 1)%Z (oncnt x)
                                             else mkObj (olst x) (ofilters x) (opending x) (oecnt x) (oncnt x + 1)%Z)))
        | None => None
        end
    | CGuardEnd o w =>
        match getobj st o with
        | Some x => Some (putobj st o (Some (if Nat.eqb w 0 then mkObj (olst x) (ofilters x) (opending x) (oecnt x - 1)%Z (oncnt x)
                                             else mkObj (olst x) (ofilters x) (opending x) (oecnt x) (oncnt x - 1)%Z)))
        | None => None
        end
    | CNew d =>
        match nth_error (objs st) d with Some None => Some (putobj st d (Some fresh_obj)) | _ => None end
    | CCopyCtor s d =>
        match getobj st s, nth_error (objs st) d with
        | Some x, Some None => let '(y, n) := copy_at (cnext st) x in Some (setnext (putobj st d (Some y)) n)
        | _, _ => None
        end
    | CMoveCtor s d =>
        match getobj st s, nth_error (objs st) d with
        | Some x, Some None => Some (putobj (putobj st d (Some (moved_into x))) s (Some (moved_from x)))
        | _, _ => None
        end
    | CCopyAssign s d =>
        (* assignment only assigns the dispatcher part: the destination keeps its queue and counters *)
        match getobj st s, getobj st d with
        | Some x, Some y =>
            if Nat.eqb s d && assign_self_safe then Some st
            else let '(l, n) := clone_lst (cnext st) (olst x) in
                 Some (setnext (putobj st d (Some (mkObj l (ofilters x) (opending y) (oecnt y) (oncnt y)))) n)
        | _, _ => None
        end
    | CMoveAssign s d =>
        if Nat.eqb s d then (match getobj st s with Some _ => Some st | None => None end)
        else
        match getobj st s, getobj st d with
        | Some x, Some y =>
            Some (putobj (putobj st d (Some (mkObj (olst x) (ofilters x) (opending y) (oecnt y) (oncnt y))))
                         s (Some (mkObj [] [] (opending x) (oecnt x) (oncnt x))))
        | _, _ => None
        end
    | CSwap a b =>
        (* swap exchanges the dispatcher part only *)
        match getobj st a, getobj st b with
        | Some x, Some y =>
            Some (putobj (putobj st a (Some (mkObj (olst y) (ofilters y) (opending x) (oecnt x) (oncnt x))))
                         b (Some (mkObj (olst (if Nat.eqb a b then y else x)) (ofilters (if Nat.eqb a b then y else x)) (opending y) (oecnt y) (oncnt y))))
        | _, _ => None
        end
    | CDestroy o =>
        match getobj st o with Some _ => Some (putobj st o None) | None => None end
    end.

  Fixpoint crun (st : cstate) (cs : list ccmd) : option cstate :=
    match cs with
    | [] => Some st
    | c :: r => match cstep st c with Some st1 => crun st1 r | None => None end
    end.

  Definition cinit (n : nat) : cstate := mkC (Some fresh_obj :: repeat None (pred n)) [] 0 [].

  Definition c_run_case (n : nat) (cs : list ccmd) : option (list cev) :=
    match crun (cinit n) cs with Some st => Some (rev (ctrace st)) | None => None end.
End CopyInterp.
