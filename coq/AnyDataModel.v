(* AnyDataModel.v — executable model of include/eventpp/utilities/anydata.h (property C17),
   and the value-semantics specification it is proved to refine (AnyDataProofs.v).

   Definitions only (total, computable).  The decisions taken from the header are imported
   from the generated file gen/GenAnyData.v (tie A): the two enable_if conditions that select
   inline or heap storage, the effective capacity, MaxSizeOf, isLargerData, the branch
   conditions and comparisons of getAddress / isType, and the null guards of the destructors
   and of the move constructor.

   What is modelled:
   * every C++ object that AnyData constructs or destroys is an entry of a LEDGER
     (payload objects — source, stored copy, moved-to object, moved-from shell — and the
     LargeData boxes): construction allocates a fresh id, destruction of an id that is not
     live or a read through an id that is not live raises the error flag;
   * an AnyData is { functions ; buffer }: `functions` is the identity of a per-type function
     table (the table of type t, or the table of LargeData); the buffer holds either an object
     or a LargeData { data ; deleter };
   * free / moveConstruct are dispatched on `functions` and interpret the buffer as THEIR type:
     a table applied to a buffer of another type raises the error flag. *)
From Coq Require Import List Arith NArith ZArith Bool.
From EV.gen Require GenAnyData.
Import ListNotations.

(* ------------------------------------------------------------------------------------ *)
(* objects and the ledger *)

Record obj := mkObj { ty : nat; size : N; val : Z; oid : nat }.

Inductive tag := TPayload (t : nat) | TBox.

Notation lent := (nat * tag)%type.

Record ledger := mkL { live : list lent; dead : list nat; next : nat; err : bool }.

Definition l_init : ledger := mkL [] [] 0 false.

Definition l_fail (L : ledger) : ledger := mkL (live L) (dead L) (next L) true.

(* construct: a fresh object id *)
Definition l_new (tg : tag) (L : ledger) : nat * ledger :=
  (next L, mkL ((next L, tg) :: live L) (dead L) (S (next L)) (err L)).

Fixpoint l_remove (x : nat) (l : list lent) : option (list lent) :=
  match l with
  | [] => None
  | e :: l' => if fst e =? x then Some l'
               else match l_remove x l' with Some r => Some (e :: r) | None => None end
  end.

(* destroy: the id must be live (otherwise: double destruction / destruction of garbage) *)
Definition l_kill (x : nat) (L : ledger) : ledger :=
  match l_remove x (live L) with
  | Some l' => mkL l' (x :: dead L) (next L) (err L)
  | None => l_fail L
  end.

Definition l_is_live (x : nat) (L : ledger) : bool := existsb (fun e => fst e =? x) (live L).

(* read: the id must be live (otherwise: use after destruction) *)
Definition l_read (x : nat) (L : ledger) : ledger := if l_is_live x L then L else l_fail L.

(* ------------------------------------------------------------------------------------ *)
(* AnyData *)

(* identity of a function table: getAnyDataFunctions<T>() for a payload type, or for LargeData *)
Inductive fid := FnT (t : nat) | FnLarge.

(* pointer values as numbers (null = 0); distinct tables / deleters / objects have distinct
   addresses — MODELLED: no identical-code folding of the per-type functions *)
Definition fn_code (f : fid) : N := match f with FnLarge => 1 | FnT t => N.of_nat t + 2 end.
Definition del_code (d : option nat) : N := match d with None => 0 | Some t => N.of_nat t + 1 end.
Definition ptr_code (d : option obj) : N := match d with None => 0 | Some o => N.of_nat (oid o) + 1 end.

Inductive content :=
| CObj (o : obj)                                                  (* an object lives in the buffer *)
| CLarge (b : nat) (data : option obj) (deleter : option nat).   (* a LargeData (ledger id b) lives in the buffer *)

Record holder := mkH { hid : nat; funcs : fid; buf : content }.

Inductive addr := AInline (h : nat) | AHeap (x : nat) | ANull | ABad.

Definition addr_eqb (a b : addr) : bool :=
  match a, b with
  | AInline x, AInline y => x =? y
  | AHeap x, AHeap y => x =? y
  | ANull, ANull => true
  | _, _ => false
  end.

Definition h_is_large (h : holder) : bool :=
  GenAnyData.is_larger_data (fn_code (funcs h)) (fn_code FnLarge).

(* const void * getAddress() const *)
Definition h_address (h : holder) : addr :=
  if GenAnyData.get_address_inline (h_is_large h) then AInline (hid h)
  else match buf h with
       | CLarge _ (Some o) _ => AHeap (oid o)
       | CLarge _ None _ => ANull
       | CObj _ => ABad
       end.

(* get<T>() / operator T& / operator T*: all dereference getAddress() *)
Definition h_get (h : holder) (L : ledger) : option Z * ledger :=
  if GenAnyData.get_address_inline (h_is_large h) then
    match buf h with
    | CObj o => (Some (val o), l_read (oid o) L)
    | CLarge _ _ _ => (None, l_fail L)
    end
  else
    match buf h with
    | CLarge b (Some o) _ => (Some (val o), l_read (oid o) (l_read b L))
    | _ => (None, l_fail L)
    end.

(* isType<T>() *)
Definition h_is_type (h : holder) (t : nat) : bool :=
  if GenAnyData.is_type_sel (h_is_large h) then
    GenAnyData.is_type_inline (fn_code (FnT t)) (fn_code (funcs h))
  else
    match buf h with
    | CLarge _ _ del => GenAnyData.is_type_large (del_code del) (del_code (Some t))
    | CObj _ => false
    end.

(* functions->free(buffer):  funcFreeObject<T> = static_cast<T * >(buffer)->~T()
   ~LargeData() { if(guard) deleter(data); }    deleter = funcDeleteObject<U> = delete static_cast<U * >(data) *)
Definition fn_free (f : fid) (c : content) (L : ledger) : ledger :=
  match f, c with
  | FnT t, CObj o => if t =? ty o then l_kill (oid o) L else l_fail L
  | FnLarge, CLarge b d del =>
      let L1 := if GenAnyData.large_dtor_guard (ptr_code d) (del_code del) then
                  match d, del with
                  | Some o, Some t => if t =? ty o then l_kill (oid o) L else l_fail L
                  | _, _ => l_fail L
                  end
                else L in
      l_kill b L1
  | _, _ => l_fail L
  end.

(* functions->moveConstruct(src buffer, dst buffer):
     funcMoveConstruct<T>   = new (dst) T(std::move( *(T* )src))
     for LargeData: LargeData(LargeData && other) : data(), deleter() { swap(data, other.data); swap(deleter, other.deleter); }
   result: (dst content, src content afterwards) *)
Definition fn_move (f : fid) (src : content) (L : ledger) : option (content * content) * ledger :=
  match f, src with
  | FnT t, CObj o =>
      if t =? ty o then
        let (x, L1) := l_new (TPayload t) (l_read (oid o) L) in
        (Some (CObj (mkObj (ty o) (size o) (val o) x), CObj o), L1)
      else (None, l_fail L)
  | FnLarge, CLarge b d del =>
      let (x, L1) := l_new TBox (l_read b L) in
      (Some (CLarge x d del, CLarge b None None), L1)
  | _, _ => (None, l_fail L)
  end.

(* ~AnyData() { if(guard) functions->free(buffer.data()); } *)
Definition h_destroy (h : holder) (L : ledger) : ledger :=
  if GenAnyData.dtor_guard (fn_code (funcs h)) then fn_free (funcs h) (buf h) L else L.

(* AnyData(AnyData && other) : functions(other.functions), buffer()
   { if(guard) functions->moveConstruct(other.buffer.data(), buffer.data()); }
   result: (new AnyData, the source afterwards) *)
Definition h_move (hidn : nat) (h : holder) (L : ledger) : holder * holder * ledger :=
  if GenAnyData.move_guard (fn_code (funcs h)) then
    match fn_move (funcs h) (buf h) L with
    | (Some (cn, cs), L1) => (mkH hidn (funcs h) cn, mkH (hid h) (funcs h) cs, L1)
    | (None, L1) => (mkH hidn (funcs h) (buf h), h, L1)
    end
  else (mkH hidn (funcs h) (buf h), h, l_fail L).

Definition eff (cap ls : N) : N := GenAnyData.eff_max_size cap ls.

(* AnyData<cap> a(object) for a client object of type t, size sz, value v.
   The client's own object is constructed first and destroyed after the statement.
   None: no viable / ambiguous constructor — the statement does not compile. *)
Definition h_make (cap ls : N) (hidn t : nat) (sz : N) (v : Z) (L : ledger) : option holder * ledger :=
  let (s, L0) := l_new (TPayload t) L in
  let r :=
    match GenAnyData.inline_cond sz (eff cap ls), GenAnyData.heap_cond sz (eff cap ls) with
    | true, false =>
        let (x, L1) := l_new (TPayload t) (l_read s L0) in
        (Some (mkH hidn (FnT t) (CObj (mkObj t sz v x))), L1)
    | false, true =>
        let (b, L1) := l_new TBox L0 in
        let (x, L2) := l_new (TPayload t) (l_read s L1) in
        (Some (mkH hidn FnLarge (CLarge b (Some (mkObj t sz v x)) (Some t))), L2)
    | _, _ => (None, L0)
    end in
  (fst r, l_kill s (snd r)).

(* MaxSizeOf<T, Ts...>::value *)
Fixpoint max_size_of (t : N) (ts : list N) : N :=
  match ts with
  | [] => GenAnyData.max_size_single t
  | t' :: ts' => GenAnyData.max_size_step t (max_size_of t' ts')
  end.

(* ------------------------------------------------------------------------------------ *)
(* programs *)

Inductive cmd :=
| Make (r t : nat) (sz : N) (v : Z)     (* AnyData<cap> reg_r(object of type t, size sz, value v) *)
| Move (r r' : nat)                     (* AnyData<cap> reg_r'(std::move(reg_r)) *)
| Get (r : nat)                         (* read the value through get / T& / T* / getAddress *)
| IsType (r t : nat)
| Addr (r : nat)                        (* is getAddress() still what it was when reg_r was constructed? *)
| Where (r : nat)                       (* does getAddress() point into the AnyData object? *)
| Destroy (r : nat)
| Enqueue (r : nat)                     (* queue.enqueue(ev, std::move(reg_r)) *)
| QMake (t : nat) (sz : N) (v : Z)      (* queue.enqueue(ev, object) *)
| Process                               (* queue.process(): the listener reads each AnyData *)
| Take (r : nat)                        (* AnyData<cap> reg_r(std::move(front slot)); slot cleared *)
| Ledger                                (* number of live counted payload objects (quiescent points only) *)
| MaxSz (l : list N).                   (* maxSizeOf<Ts...>() *)

Inductive event :=
| EGet (v : Z)
| EIsType (b : bool)
| EAddr (b : bool)
| EWhere (b : bool)
| EDeliver (b : bool) (v : Z)
| ELedger (n : nat)
| EMaxSz (n : N)
| EReject
| ENoCompile
| EFault.

Inductive rstate := RLive (h : holder) (a0 : addr) | RMoved (h : holder).

Definition holder_of (x : rstate) : holder := match x with RLive h _ => h | RMoved h => h end.

Record state := mkS { regs : list (nat * rstate); queue : list holder; led : ledger; nexth : nat;
                      trace : list event }.

Definition init : state := mkS [] [] l_init 0 [].

Section AssocList.
  Context {A : Type}.
  Fixpoint get_reg (r : nat) (l : list (nat * A)) : option A :=
    match l with
    | [] => None
    | (k, x) :: l' => if k =? r then Some x else get_reg r l'
    end.
  Fixpoint del_reg (r : nat) (l : list (nat * A)) : list (nat * A) :=
    match l with
    | [] => []
    | (k, x) :: l' => if k =? r then l' else (k, x) :: del_reg r l'
    end.
End AssocList.

Definition emit (e : event) (s : state) : state :=
  mkS (regs s) (queue s) (led s) (nexth s) (trace s ++ [e]).

Definition reject (s : state) : state := emit EReject s.

Definition is_moved (p : nat * rstate) : bool := match snd p with RMoved _ => true | RLive _ _ => false end.

Definition counted (tracked : nat -> bool) (e : lent) : bool :=
  match snd e with TPayload t => tracked t | TBox => false end.

Definition l_count (tracked : nat -> bool) (L : ledger) : nat := length (filter (counted tracked) (live L)).

(* the listener of process(): reads the value and asks isType for the type the value was made with *)
Definition deliver (h : holder) (L : ledger) : event * ledger :=
  match h_get h L with
  | (Some v, L1) =>
      let t := match buf h with CObj o => ty o | CLarge _ (Some o) _ => ty o | _ => 0 end in
      (EDeliver (h_is_type h t) v, L1)
  | (None, L1) => (EFault, L1)
  end.

Fixpoint process_all (q : list holder) (L : ledger) (tr : list event) : ledger * list event :=
  match q with
  | [] => (L, tr)
  | h :: q' => let (e, L1) := deliver h L in process_all q' (h_destroy h L1) (tr ++ [e])
  end.

Section Step.
  Variables (cap ls : N) (tracked : nat -> bool).

  Definition step (s : state) (c : cmd) : state :=
    match c with
    | Make r t sz v =>
        match get_reg r (regs s) with
        | Some _ => reject s
        | None =>
            match h_make cap ls (nexth s) t sz v (led s) with
            | (Some h, L) => mkS ((r, RLive h (h_address h)) :: regs s) (queue s) L (S (nexth s)) (trace s)
            | (None, L) => mkS (regs s) (queue s) L (nexth s) (trace s ++ [ENoCompile])
            end
        end
    | Move r r' =>
        match get_reg r (regs s), get_reg r' (regs s) with
        | Some (RLive h _), None =>
            let '(hn, hs, L) := h_move (nexth s) h (led s) in
            mkS ((r', RLive hn (h_address hn)) :: (r, RMoved hs) :: del_reg r (regs s)) (queue s) L (S (nexth s)) (trace s)
        | _, _ => reject s
        end
    | Get r =>
        match get_reg r (regs s) with
        | Some (RLive h _) =>
            match h_get h (led s) with
            | (Some v, L) => mkS (regs s) (queue s) L (nexth s) (trace s ++ [EGet v])
            | (None, L) => mkS (regs s) (queue s) L (nexth s) (trace s ++ [EFault])
            end
        | _ => reject s
        end
    | IsType r t =>
        match get_reg r (regs s) with
        | Some (RLive h _) => emit (EIsType (h_is_type h t)) s
        | _ => reject s
        end
    | Addr r =>
        match get_reg r (regs s) with
        | Some (RLive h a0) => emit (EAddr (addr_eqb (h_address h) a0)) s
        | _ => reject s
        end
    | Where r =>
        match get_reg r (regs s) with
        | Some (RLive h _) => emit (EWhere (match h_address h with AInline _ => true | _ => false end)) s
        | _ => reject s
        end
    | Destroy r =>
        match get_reg r (regs s) with
        | Some x => mkS (del_reg r (regs s)) (queue s) (h_destroy (holder_of x) (led s)) (nexth s) (trace s)
        | None => reject s
        end
    | Enqueue r =>
        (* tuple<AnyData>(std::move(reg_r)) is a temporary; the slot is move-constructed from
           it; the temporary is destroyed at the end of the statement *)
        match get_reg r (regs s) with
        | Some (RLive h _) =>
            let '(tmp, hs, L1) := h_move (nexth s) h (led s) in
            let '(slot, tmps, L2) := h_move (S (nexth s)) tmp L1 in
            mkS ((r, RMoved hs) :: del_reg r (regs s)) (queue s ++ [slot]) (h_destroy tmps L2) (S (S (nexth s))) (trace s)
        | _ => reject s
        end
    | QMake t sz v =>
        match h_make cap ls (nexth s) t sz v (led s) with
        | (Some tmp, L1) =>
            let '(slot, tmps, L2) := h_move (S (nexth s)) tmp L1 in
            mkS (regs s) (queue s ++ [slot]) (h_destroy tmps L2) (S (S (nexth s))) (trace s)
        | (None, L) => mkS (regs s) (queue s) L (nexth s) (trace s ++ [ENoCompile])
        end
    | Process =>
        let (L, tr) := process_all (queue s) (led s) (trace s) in
        mkS (regs s) [] L (nexth s) tr
    | Take r =>
        match get_reg r (regs s), queue s with
        | None, h :: q =>
            let '(hn, hs, L1) := h_move (nexth s) h (led s) in
            mkS ((r, RLive hn (h_address hn)) :: regs s) q (h_destroy hs L1) (S (nexth s)) (trace s)
        | _, _ => reject s
        end
    | Ledger =>
        if existsb is_moved (regs s) then reject s
        else emit (ELedger (l_count tracked (led s))) s
    | MaxSz l =>
        match l with
        | [] => reject s
        | t :: ts => emit (EMaxSz (max_size_of t ts)) s
        end
    end.

  Definition run (s : state) (p : list cmd) : state := fold_left step p s.

  (* end of the case: every register goes out of scope, the queue is destroyed *)
  Definition destroy_all (hs : list holder) (L : ledger) : ledger := fold_left (fun L h => h_destroy h L) hs L.

  Definition finish (s : state) : state :=
    let L := destroy_all (queue s) (destroy_all (map (fun p => holder_of (snd p)) (regs s)) (led s)) in
    mkS [] [] L (nexth s) (trace s ++ [ELedger (l_count tracked L)]).

  Definition final (p : list cmd) : state := finish (run init p).

  (* the trace printed by the driver; a raised error flag is made visible *)
  Definition run_case (p : list cmd) : list event :=
    let s := final p in
    if err (led s) then trace s ++ [EFault] else trace s.
End Step.

(* EWhere is the only observation that may depend on sizes *)
Definition erase (e : event) : event := match e with EWhere _ => EWhere true | _ => e end.

(* ------------------------------------------------------------------------------------ *)
(* specification: registers and queue slots hold plain values *)

Inductive sreg := SLive (t : nat) (v : Z) | SMoved.

Record sstate := mkSS { sregs : list (nat * sreg); squeue : list (nat * Z); strace : list event }.

Definition s_init : sstate := mkSS [] [] [].

Definition s_emit (e : event) (s : sstate) : sstate := mkSS (sregs s) (squeue s) (strace s ++ [e]).

Definition s_is_moved (p : nat * sreg) : bool := match snd p with SMoved => true | SLive _ _ => false end.

Definition s_count (tracked : nat -> bool) (s : sstate) : nat :=
  length (filter (fun p => match snd p with SLive t _ => tracked t | SMoved => false end) (sregs s))
  + length (filter (fun e => tracked (fst e)) (squeue s)).

Section SStep.
  Variable tracked : nat -> bool.

  Definition s_step (s : sstate) (c : cmd) : sstate :=
    match c with
    | Make r t _ v =>
        match get_reg r (sregs s) with
        | Some _ => s_emit EReject s
        | None => mkSS ((r, SLive t v) :: sregs s) (squeue s) (strace s)
        end
    | Move r r' =>
        match get_reg r (sregs s), get_reg r' (sregs s) with
        | Some (SLive t v), None => mkSS ((r', SLive t v) :: (r, SMoved) :: del_reg r (sregs s)) (squeue s) (strace s)
        | _, _ => s_emit EReject s
        end
    | Get r =>
        match get_reg r (sregs s) with
        | Some (SLive _ v) => s_emit (EGet v) s
        | _ => s_emit EReject s
        end
    | IsType r t' =>
        match get_reg r (sregs s) with
        | Some (SLive t _) => s_emit (EIsType (t' =? t)) s
        | _ => s_emit EReject s
        end
    | Addr r =>
        match get_reg r (sregs s) with
        | Some (SLive _ _) => s_emit (EAddr true) s
        | _ => s_emit EReject s
        end
    | Where r =>
        match get_reg r (sregs s) with
        | Some (SLive _ _) => s_emit (EWhere true) s
        | _ => s_emit EReject s
        end
    | Destroy r =>
        match get_reg r (sregs s) with
        | Some _ => mkSS (del_reg r (sregs s)) (squeue s) (strace s)
        | None => s_emit EReject s
        end
    | Enqueue r =>
        match get_reg r (sregs s) with
        | Some (SLive t v) => mkSS ((r, SMoved) :: del_reg r (sregs s)) (squeue s ++ [(t, v)]) (strace s)
        | _ => s_emit EReject s
        end
    | QMake t _ v => mkSS (sregs s) (squeue s ++ [(t, v)]) (strace s)
    | Process => mkSS (sregs s) [] (strace s ++ map (fun e => EDeliver true (snd e)) (squeue s))
    | Take r =>
        match get_reg r (sregs s), squeue s with
        | None, (t, v) :: q => mkSS ((r, SLive t v) :: sregs s) q (strace s)
        | _, _ => s_emit EReject s
        end
    | Ledger =>
        if existsb s_is_moved (sregs s) then s_emit EReject s
        else s_emit (ELedger (s_count tracked s)) s
    | MaxSz l =>
        match l with
        | [] => s_emit EReject s
        | t :: ts => s_emit (EMaxSz (fold_right N.max t ts)) s
        end
    end.

  Definition s_run (s : sstate) (p : list cmd) : sstate := fold_left s_step p s.

  Definition s_run_case (p : list cmd) : list event := strace (s_run s_init p) ++ [ELedger 0].
End SStep.
