(* Extraction of the executable AnyData model and of its value-semantics specification for
   the correspondence check (tie B) of property C17.
   ExtrOcamlBasic only: bool, option, list, prod, unit, sumbool are mapped to the OCaml
   types; nat stays Peano, positive/N/Z stay the binary Coq datatypes.
   No Extract Constant / Extract Inductive of our own. *)
Require Extraction.
Require Import ExtrOcamlBasic.
From EV Require AnyDataModel.
Extraction Language OCaml.
Set Extraction Optimize.
Definition anydata_run_case := AnyDataModel.run_case.
Definition anydata_spec_run_case := AnyDataModel.s_run_case.
Extraction "../ocaml/gen/anydata_model.ml" anydata_run_case anydata_spec_run_case.
