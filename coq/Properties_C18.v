(* Properties_C18.v — C18: AnyId keys are coherent: equality, ordering and hash agree.

   This file contains only the property theorems (closed by `exact`), their non-vacuity examples
   and Print Assumptions.  The proofs are in AnyIdProofs.v.

   Reading guide.  An id is (digest, value).  aeq / alt / ahash are the bodies of operator==,
   operator< and std::hash<AnyId>::operator() regenerated from anyid.h (gen/GenAnyId.v), applied to
   ceq / clt = the results of compareEqual / compareLessThan on the stored values.
     value_order clt ceq  :=  ceq is an equivalence, clt a strict weak order, and clt-incomparability is ceq.
   storage_with_eq_and_lt_is_coherent and empty_storage_is_coherent show that the two storages of the
   property ("supports both == and <, or neither") provide such a pair; the other theorems hold for
   every such pair, every value type, all digests (collisions included) and all histories. *)
From Coq Require Import List ZArith Bool.
From EV Require Import AnyIdModel AnyIdProofs.
From EV.gen Require GenAnyId.
Import ListNotations.
Local Open Scope Z_scope.

(* a Storage whose own == is an equivalence and whose own < is a strict weak order with
   incomparability == : compareEqual / compareLessThan (the generated forwarding bodies) inherit that *)
Theorem storage_with_eq_and_lt_is_coherent :
  forall (V : Type) (veq vlt : V -> V -> bool),
    value_order vlt veq -> value_order (val_clt vlt) (val_ceq veq).
Proof. exact value_storage_order. Qed.
Print Assumptions storage_with_eq_and_lt_is_coherent.

(* EmptyAnyStorage (neither == nor <): the generated fallbacks form such a pair too *)
Theorem empty_storage_is_coherent :
  forall V : Type, value_order (@empty_clt V) (@empty_ceq V).
Proof. exact empty_storage_order. Qed.
Print Assumptions empty_storage_is_coherent.

(* operator== is reflexive, symmetric and transitive *)
Theorem anyid_eq_equiv :
  forall (V : Type) (ceq clt : V -> V -> bool), value_order clt ceq ->
    (forall a : id V, aeq ceq a a = true) /\
    (forall a b : id V, aeq ceq a b = true -> aeq ceq b a = true) /\
    (forall a b c : id V, aeq ceq a b = true -> aeq ceq b c = true -> aeq ceq a c = true).
Proof. exact aeq_equiv. Qed.
Print Assumptions anyid_eq_equiv.

(* operator< is a strict weak ordering: irreflexive, transitive, incomparability transitive *)
Theorem anyid_lt_swo :
  forall (V : Type) (ceq clt : V -> V -> bool), value_order clt ceq ->
    (forall a : id V, alt clt a a = false) /\
    (forall a b c : id V, alt clt a b = true -> alt clt b c = true -> alt clt a c = true) /\
    (forall a b c : id V,
        (alt clt a b = false /\ alt clt b a = false) ->
        (alt clt b c = false /\ alt clt c b = false) ->
        (alt clt a c = false /\ alt clt c a = false)).
Proof. exact alt_swo. Qed.
Print Assumptions anyid_lt_swo.

(* the incomparability classes of operator< are exactly the operator== classes *)
Theorem anyid_incomp_is_eq :
  forall (V : Type) (ceq clt : V -> V -> bool), value_order clt ceq ->
    forall a b : id V, (alt clt a b = false /\ alt clt b a = false) <-> aeq ceq a b = true.
Proof. exact alt_incomp_is_eq. Qed.
Print Assumptions anyid_incomp_is_eq.

(* equal ids hash equally (no hypothesis on the value comparison is needed) *)
Theorem anyid_hash_compat :
  forall (V : Type) (ceq : V -> V -> bool) (a b : id V), aeq ceq a b = true -> ahash a = ahash b.
Proof. exact hash_compat_any. Qed.
Print Assumptions anyid_hash_compat.

(* value-storing Storage: ids whose digests collide but whose values differ stay distinct, and
   operator< separates them *)
Theorem collisions_distinct :
  forall (V : Type) (veq vlt : V -> V -> bool), value_order vlt veq ->
    forall a b : id V, dig a = dig b -> veq (val a) (val b) = false ->
      aeq (val_ceq veq) a b = false /\ (alt (val_clt vlt) a b = true \/ alt (val_clt vlt) b a = true).
Proof. exact collision_distinct_val. Qed.
Print Assumptions collisions_distinct.

(* EmptyAnyStorage: ids are equal exactly when their digests are, and ordered by digest *)
Theorem empty_storage_digest_only :
  forall (V : Type) (a b : id V),
    (aeq empty_ceq a b = true <-> dig a = dig b) /\ (alt empty_clt a b = true <-> dig a < dig b).
Proof. exact empty_digest_only. Qed.
Print Assumptions empty_storage_digest_only.

(* both map disciplines — the list kept sorted by operator< and searched by "neither is less"
   (std::map) and the bucket table indexed through std::hash and searched by operator==
   (std::unordered_map, any bucket function) — return, after ANY history of appends, exactly the
   listeners appended under ids equal to the looked-up id, in append order; hence they agree *)
Theorem anyid_lookup :
  forall (V : Type) (ceq clt : V -> V -> bool), value_order clt ceq ->
    forall (L : Type) (bidx : Z -> Z) (ops : list (id V * L)) (k : id V),
      sm_find (alt clt) k (sm_run (alt clt) ops) = listeners_of (aeq ceq) k ops /\
      bm_find (aeq ceq) ahash bidx k (bm_run (aeq ceq) ahash bidx ops) = listeners_of (aeq ceq) k ops /\
      sm_sorted (alt clt) (sm_run (alt clt) ops).
Proof. exact lookup_any. Qed.
Print Assumptions anyid_lookup.

(* ... i.e. a listener is found iff it was registered under an equal id — never one of an unequal id *)
Theorem anyid_lookup_exact :
  forall (V : Type) (ceq clt : V -> V -> bool), value_order clt ceq ->
    forall (L : Type) (bidx : Z -> Z) (ops : list (id V * L)) (k : id V) (v : L),
      (In v (sm_find (alt clt) k (sm_run (alt clt) ops)) <-> exists k', In (k', v) ops /\ aeq ceq k k' = true) /\
      (In v (bm_find (aeq ceq) ahash bidx k (bm_run (aeq ceq) ahash bidx ops)) <-> exists k', In (k', v) ops /\ aeq ceq k k' = true).
Proof. exact lookup_exact. Qed.
Print Assumptions anyid_lookup_exact.

(* ------------------------------------------------------------------------------------------ *)
(* non-vacuity *)

(* the hypothesis is satisfiable: Z with == and <, and the (kind, n) pairs of the harness Storage *)
Example C18_hypotheses_satisfiable_Z : value_order Z.ltb Z.eqb.
Proof. exact Z_value_order. Qed.
Example C18_hypotheses_satisfiable_pairs : value_order pvlt pveq.
Proof. exact pair_value_order. Qed.

(* int 3 and int 14 collide under the 3-bit digester yet are distinct, ordered ids; int 4 and long 4
   are one id built from two C++ types; int 3 and long 3 store equal values but digest differently;
   with EmptyAnyStorage int 3 and int 14 are the same id *)
Example C18_collision_witness :
  dig (mk_id 0 3) = dig (mk_id 0 14) /\
  h_eq true (mk_id 0 3) (mk_id 0 14) = false /\ h_lt true (mk_id 0 3) (mk_id 0 14) = true /\
  h_eq true (mk_id 0 4) (mk_id 2 4) = true /\
  h_eq true (mk_id 0 3) (mk_id 2 3) = false /\
  h_eq false (mk_id 0 3) (mk_id 0 14) = true.
Proof. vm_compute. repeat split; reflexivity. Qed.

(* listeners 1..5; int 3, int 14 and string "4" share digest 7.  Looking up int 14 reaches 2 and 5 only
   (value-storing) resp. 1, 2, 3, 5 (EmptyAnyStorage: digest only), in both disciplines *)
Example C18_lookup_witness :
  let ops := [(mk_id 0 3, 1); (mk_id 0 14, 2); (mk_id 1 4, 3); (mk_id 2 4, 4); (mk_id 0 14, 5)] in
  h_map_lookup true ops (mk_id 0 14) = [2; 5] /\ h_umap_lookup true 7 ops (mk_id 0 14) = [2; 5] /\
  h_map_lookup false ops (mk_id 0 14) = [1; 2; 3; 5] /\ h_umap_lookup false 7 ops (mk_id 0 14) = [1; 2; 3; 5].
Proof. vm_compute. repeat split; reflexivity. Qed.
