(* ExnFault.v — C09 part 1, proofs: the generic theorems about fault profiles (for every fault
   index and every world, by induction over the step list) and, per operation of the library, which
   profiles satisfy the strong guarantee — by computation of the syntactic criterion faults_first on
   the profile BUILT FROM the generated facts (GenExn / GenCtor) — and, for the shapes the library
   had before the repairs (names starting with legacy), the refuting witnesses. *)
From Coq Require Import List Arith NArith ZArith Bool Lia.
From EV Require Import ExnModel.
From EV.gen Require GenExn GenCtor.
Import ListNotations.
Local Open Scope nat_scope.

(* ------------------------------------------------------------------ generic: propagation *)

Lemma run_no_fault steps : has_fault steps = false -> forall k gs w, exists w', run steps k gs w = Done w'.
Proof.
  induction steps as [|s r IH]; intros H k gs w; simpl.
  - eexists; reflexivity.
  - simpl in H. apply orb_false_iff in H. destruct H as [Hs Hr].
    destruct s; simpl in Hs; try discriminate; try (apply IH; assumption).
    destruct gs; apply IH; assumption.
Qed.

Lemma run_throws steps : forall k gs w, k < nfaults steps ->
  exists fk w', nth_error (fault_kinds steps) k = Some fk /\ run steps k gs w = Thrown fk w'.
Proof.
  unfold nfaults. induction steps as [|s r IH]; intros k gs w H; simpl in *; [lia|].
  destruct s; simpl in *; try (apply IH; assumption).
  - destruct k as [|k'].
    + eexists; eexists; split; reflexivity.
    + apply IH. lia.
  - destruct gs; apply IH; assumption.
Qed.

Lemma run_completes steps : forall k gs w, nfaults steps <= k -> exists w', run steps k gs w = Done w'.
Proof.
  unfold nfaults. induction steps as [|s r IH]; intros k gs w H; simpl in *.
  - eexists; reflexivity.
  - destruct s; simpl in *; try (apply IH; assumption).
    + destruct k as [|k']; [lia|]. apply IH. lia.
    + destruct gs; apply IH; assumption.
Qed.

(* the k-th fault point exists: its exception reaches the caller, with that point's kind — unless the
   operation is declared noexcept, then the process is terminated *)
Theorem exn_propagates op k w :
  k < nfaults (op_steps op) ->
  exists fk, nth_error (fault_kinds (op_steps op)) k = Some fk /\
    (op_noexcept op = false -> exists w', run_faulted op k w = Thrown fk w') /\
    (op_noexcept op = true -> run_faulted op k w = Terminated fk).
Proof.
  intros H. destruct (run_throws (op_steps op) k [] w H) as [fk [w1 [Hn Hr]]].
  exists fk. split; [exact Hn|]. unfold run_faulted. rewrite Hr. split; intros E; rewrite E.
  - eexists; reflexivity.
  - reflexivity.
Qed.

(* k beyond the last fault point: the operation completes *)
Theorem no_fault_completes op k w : nfaults (op_steps op) <= k -> exists w', run_faulted op k w = Done w'.
Proof.
  intros H. destruct (run_completes (op_steps op) k [] w H) as [w' E]. exists w'. unfold run_faulted. rewrite E. reflexivity.
Qed.

(* ------------------------------------------------------------------ generic: strong guarantee *)

Definition std_guard (g : guard) : bool := match g with GUnlinkLast _ => false | _ => true end.

Lemma obs_exit_congr g w1 w2 : std_guard g = true -> obs w1 = obs w2 -> obs (g_exit true g w1) = obs (g_exit true g w2).
Proof.
  intros Hg H. unfold obs in *. injection H as H1 H2 H3 H4 H5 H6.
  destruct g; simpl in *; try discriminate; congruence.
Qed.

Lemma obs_unwind_congr gs : forallb std_guard gs = true -> forall w1 w2, obs w1 = obs w2 -> obs (unwind true gs w1) = obs (unwind true gs w2).
Proof.
  induction gs as [|g r IH]; intros H w1 w2 E; simpl in *; [exact E|].
  apply andb_true_iff in H. destruct H as [Hg Hr]. apply IH; [exact Hr|]. apply obs_exit_congr; assumption.
Qed.

Lemma std_exit_same g w : std_guard g = true -> g_exit false g w = g_exit true g w.
Proof. destruct g; simpl; intros; try reflexivity; discriminate. Qed.

Lemma std_enter_exit g w : std_guard g = true -> obs (g_exit true g (g_enter g w)) = obs w.
Proof. destruct g; simpl; intros; try reflexivity; discriminate. Qed.

Lemma strong_gen steps : faults_first steps = true ->
  forall k gs w fk w' w0, forallb std_guard gs = true -> obs (unwind true gs w) = obs w0 ->
    run steps k gs w = Thrown fk w' -> obs w' = obs w0.
Proof.
  induction steps as [|s r IH]; intros FF k gs w fk w' w0 Hg Hinv Hr; simpl in *; [discriminate|].
  destruct s.
  - destruct k as [|k'].
    + inversion Hr; subst. exact Hinv.
    + eapply IH; eauto.
  - apply negb_true_iff in FF. destruct (run_no_fault r FF k gs (keep_private w (f w))) as [w2 E]. rewrite E in Hr. discriminate.
  - eapply IH; [exact FF| exact Hg | | exact Hr].
    rewrite <- Hinv. apply obs_unwind_congr; [exact Hg|reflexivity].
  - eapply IH; [exact FF| exact Hg | | exact Hr].
    rewrite <- Hinv. apply obs_unwind_congr; [exact Hg|reflexivity].
  - destruct (std_guard g) eqn:Sg.
    + assert (FF' : faults_first r = true) by (destruct g; try exact FF; discriminate).
      apply (IH FF' k (g :: gs) (g_enter g w) fk w' w0); [change (std_guard g && forallb std_guard gs = true); rewrite Sg; exact Hg | | exact Hr]. change (obs (unwind true gs (g_exit true g (g_enter g w))) = obs w0).
      rewrite <- Hinv. apply obs_unwind_congr; [exact Hg|]. apply std_enter_exit. exact Sg.
    + destruct g; try discriminate.
      apply negb_true_iff in FF. destruct (run_no_fault r FF k (GUnlinkLast l :: gs) (g_enter (GUnlinkLast l) w)) as [w2 E].
      rewrite E in Hr. discriminate.
  - destruct gs as [|g gs'].
    + eapply IH; eauto.
    + simpl in Hg. apply andb_true_iff in Hg. destruct Hg as [Hg1 Hg2].
      eapply IH; [exact FF | exact Hg2 | | exact Hr]. rewrite (std_exit_same g w Hg1). exact Hinv.
Qed.

(* no Commit precedes a Fault  ==>  whichever point fails, the caller gets the exception and the
   observable world is exactly the one before the call *)
Theorem strong_guarantee op k w fk w' :
  faults_first (op_steps op) = true -> run_faulted op k w = Thrown fk w' -> obs w' = obs w.
Proof.
  intros FF H. unfold run_faulted in H.
  destruct (run (op_steps op) k [] w) as [w1|fk1 w1|fk1] eqn:E; try discriminate.
  destruct (op_noexcept op); [discriminate|]. inversion H; subst.
  exact (strong_gen (op_steps op) FF k [] w fk w' w eq_refl eq_refl E).
Qed.

(* ------------------------------------------------------------------ generic: nothing under construction survives *)

Lemma tmp_exit e g w : wtmp w = [] -> wtmp (g_exit e g w) = [].
Proof. destruct g; simpl; intros H; try exact H; try reflexivity. destruct e; simpl; exact H. Qed.

Lemma tmp_unwind_clean e gs : forall w, wtmp w = [] -> wtmp (unwind e gs w) = [].
Proof. induction gs as [|g r IH]; intros w H; simpl; [exact H|]. apply IH. apply tmp_exit. exact H. Qed.

Lemma tmp_unwind_scratch e gs : forall w, existsb is_scratch gs = true -> wtmp (unwind e gs w) = [].
Proof.
  induction gs as [|g r IH]; intros w H; simpl in *; [discriminate|].
  destruct g; simpl in *; try (apply IH; exact H).
  apply tmp_unwind_clean. reflexivity.
Qed.

Lemma scratch_gen steps : forall open k gs w, scoped open steps = true -> open = map is_scratch gs ->
  (existsb is_scratch gs = true \/ wtmp w = []) ->
  match run steps k gs w with Done w' => wtmp w' = [] | Thrown _ w' => wtmp w' = [] | Terminated _ => True end.
Proof.
  induction steps as [|s r IH]; intros open k gs w Hs Ho Hi; simpl in *.
  - destruct Hi as [Hi|Hi]; [apply tmp_unwind_scratch|apply tmp_unwind_clean]; exact Hi.
  - destruct s; simpl in *.
    + destruct k as [|k'].
      * destruct Hi as [Hi|Hi]; [apply tmp_unwind_scratch|apply tmp_unwind_clean]; exact Hi.
      * eapply IH; eauto.
    + eapply IH; eauto.
    + eapply IH; eauto.
    + apply andb_true_iff in Hs. destruct Hs as [H1 H2]. eapply IH; [exact H2|exact Ho|]. left.
      subst open. clear -H1. induction gs as [|g t IHg]; simpl in *; [discriminate|].
      destruct (is_scratch g); simpl in *; [reflexivity|]. apply IHg. exact H1.
    + eapply IH; [exact Hs | subst open; reflexivity |].
      destruct Hi as [Hi|Hi]; [left; simpl; rewrite Hi; apply orb_true_r|].
      destruct g; simpl; [right; exact Hi | right; exact Hi | left; reflexivity | right; exact Hi].
    + destruct gs as [|g gs'].
      * subst open. simpl in Hs. eapply IH; [exact Hs | reflexivity |]. right. destruct Hi as [Hi|Hi]; [discriminate|exact Hi].
      * subst open. simpl in Hs. eapply IH; [exact Hs | reflexivity |].
        destruct g; simpl in *.
        -- exact Hi.
        -- destruct Hi as [Hi|Hi]; [left; exact Hi|right; exact Hi].
        -- right. reflexivity.
        -- exact Hi.
Qed.

(* the node / slot / local list under construction is released on every path, normal or exceptional *)
Theorem scratch_released op k w :
  scoped [] (op_steps op) = true -> wtmp w = [] ->
  match run_faulted op k w with Done w' => wtmp w' = [] | Thrown _ w' => wtmp w' = [] | Terminated _ => True end.
Proof.
  intros Hs Hw. unfold run_faulted.
  assert (X := scratch_gen (op_steps op) [] k [] w Hs eq_refl (or_intror Hw)).
  destruct (run (op_steps op) k [] w); try exact X. destruct (op_noexcept op); [exact I|exact X].
Qed.

(* ------------------------------------------------------------------ generic: frame (source of a copy) *)

Section Frame.
  Variable A : Type.
  Variable proj : world -> A.
  Hypothesis proj_hid : forall w v, proj (set_hid w v) = proj w.
  Hypothesis proj_tmp : forall w v, proj (set_tmp w v) = proj w.
  Hypothesis proj_cnt : forall w v, proj (set_cnt w v) = proj w.

  Definition frame_step (s : step) : Prop :=
    match s with
    | Commit f => forall w, proj (f w) = proj w
    | Enter (GUnlinkLast l) => forall w, proj (unlink l (pred (wnext w)) w) = proj w
    | _ => True
    end.
  Definition frame_guard (g : guard) : Prop :=
    match g with GUnlinkLast l => forall w, proj (unlink l (pred (wnext w)) w) = proj w | _ => True end.

  Lemma frame_exit e g w : frame_guard g -> proj (g_exit e g w) = proj w.
  Proof. destruct g; simpl; intros H; try reflexivity; try apply proj_cnt; try apply proj_tmp. destruct e; [apply H|reflexivity]. Qed.

  Lemma frame_unwind e gs : Forall frame_guard gs -> forall w, proj (unwind e gs w) = proj w.
  Proof. induction 1 as [|g r Hg Hr IH]; intros w; simpl; [reflexivity|]. rewrite IH. apply frame_exit. exact Hg. Qed.

  Lemma frame_gen steps : Forall frame_step steps -> forall k gs w, Forall frame_guard gs ->
    match run steps k gs w with Done w' => proj w' = proj w | Thrown _ w' => proj w' = proj w | Terminated _ => True end.
  Proof.
    induction 1 as [|s r Hs Hr IH]; intros k gs w Hg; simpl.
    - apply frame_unwind. exact Hg.
    - destruct s; simpl in Hs.
      + destruct k as [|k']; [apply frame_unwind; exact Hg|apply IH; exact Hg].
      + specialize (IH k gs (keep_private w (f w)) Hg).
        assert (E : proj (keep_private w (f w)) = proj w) by (unfold keep_private; rewrite proj_tmp, proj_hid; apply Hs).
        destruct (run r k gs (keep_private w (f w))); try (rewrite IH; exact E); exact I.
      + specialize (IH k gs (set_hid w (f (whid w))) Hg).
        destruct (run r k gs (set_hid w (f (whid w)))); try (rewrite IH; apply proj_hid); exact I.
      + specialize (IH k gs (set_tmp w (f (wtmp w))) Hg).
        destruct (run r k gs (set_tmp w (f (wtmp w)))); try (rewrite IH; apply proj_tmp); exact I.
      + assert (Hg' : Forall frame_guard (g :: gs)) by (constructor; [destruct g; simpl; try exact I; exact Hs|exact Hg]).
        specialize (IH k (g :: gs) (g_enter g w) Hg').
        assert (E : proj (g_enter g w) = proj w) by (destruct g; simpl; try reflexivity; apply proj_cnt).
        destruct (run r k (g :: gs) (g_enter g w)); try (rewrite IH; exact E); exact I.
      + destruct gs as [|g gs']; [apply IH; exact Hg|].
        inversion Hg; subst. specialize (IH k gs' (g_exit false g w) H2).
        assert (E : proj (g_exit false g w) = proj w) by (apply frame_exit; assumption).
        destruct (run r k gs' (g_exit false g w)); try (rewrite IH; exact E); exact I.
  Qed.
End Frame.

(* the lists of an object that no Commit of the operation writes are untouched by the operation,
   whether it completes or fails at any point *)
Definition obj_lists (o : nat) (w : world) := obj_entries o (wl w).

Lemma obj_entries_drop_other src dst es : src <> dst -> obj_entries src (drop_obj dst es) = obj_entries src es.
Proof.
  intros N. unfold obj_entries, drop_obj. induction es as [|[[o k] l] t IH]; simpl; [reflexivity|].
  destruct (Nat.eqb o dst) eqn:E1; simpl.
  - apply Nat.eqb_eq in E1. subst o. destruct (Nat.eqb dst src) eqn:E2; [apply Nat.eqb_eq in E2; congruence|]. exact IH.
  - destruct (Nat.eqb o src); [rewrite IH; reflexivity|exact IH].
Qed.

Lemma copy_entries_obj src dst : forall es n, Forall (fun e => fst (fst e) = dst) (fst (copy_entries src dst n es)).
Proof.
  induction es as [|[[o k] l] t IH]; intros n; simpl; [constructor|].
  destruct (Nat.eqb o src); [|apply IH].
  specialize (IH (n + length l)). destruct (copy_entries src dst (n + length l) t) as [r n']. simpl in *. constructor; [reflexivity|exact IH].
Qed.

Lemma obj_entries_none src es : Forall (fun e => fst (fst e) <> src) es -> obj_entries src es = [].
Proof.
  unfold obj_entries. induction 1 as [|e t He Ht IH]; simpl; [reflexivity|].
  destruct (Nat.eqb (fst (fst e)) src) eqn:E; [apply Nat.eqb_eq in E; contradiction|exact IH].
Qed.

Lemma obj_entries_app o a b : obj_entries o (a ++ b) = obj_entries o a ++ obj_entries o b.
Proof. unfold obj_entries. apply filter_app. Qed.

Lemma copy_obj_frame src dst w : src <> dst -> obj_lists src (copy_obj src dst w) = obj_lists src w.
Proof.
  intros N. unfold obj_lists, copy_obj. assert (F := copy_entries_obj src dst (wl w) (wnext w)).
  destruct (copy_entries src dst (wnext w) (wl w)) as [new n']. simpl in *.
  rewrite obj_entries_app, obj_entries_drop_other by exact N.
  rewrite (obj_entries_none src new); [apply app_nil_r|].
  eapply Forall_impl; [|exact F]. simpl. intros e E. congruence.
Qed.

Lemma clear_obj_frame src dst w : src <> dst -> obj_lists src (clear_obj dst w) = obj_lists src w.
Proof. intros N. unfold obj_lists, clear_obj. simpl. apply obj_entries_drop_other. exact N. Qed.

Lemma mark_unspecified_frame src dst w : src <> dst -> obj_lists src (mark_unspecified dst w) = obj_lists src w.
Proof. intros N. unfold obj_lists, mark_unspecified. simpl. apply obj_entries_drop_other. exact N. Qed.

Definition copy_commit (src dst : nat) (s : step) : Prop :=
  match s with
  | Commit f => f = copy_obj src dst \/ f = clear_obj dst \/ f = mark_unspecified dst \/ f = (fun w => w)
  | Enter (GUnlinkLast _) => False
  | _ => True
  end.

(* an operation all of whose Commits are "write the destination" steps leaves the source's lists
   untouched on every path *)
Theorem copy_fault_source_untouched src dst op k w :
  src <> dst -> Forall (copy_commit src dst) (op_steps op) ->
  match run_faulted op k w with
  | Done w' => obj_lists src w' = obj_lists src w
  | Thrown _ w' => obj_lists src w' = obj_lists src w
  | Terminated _ => True
  end.
Proof.
  intros N F. unfold run_faulted.
  assert (X := frame_gen _ (obj_lists src) (fun _ _ => eq_refl) (fun _ _ => eq_refl) (fun _ _ => eq_refl) (op_steps op)).
  assert (FS : Forall (frame_step _ (obj_lists src)) (op_steps op)).
  { eapply Forall_impl; [|exact F]. intros s Hs. destruct s; simpl in *; try exact I.
    - intros w0. destruct Hs as [E|[E|[E|E]]]; subst f.
      + apply copy_obj_frame; exact N.
      + apply clear_obj_frame; exact N.
      + apply mark_unspecified_frame; exact N.
      + reflexivity.
    - destruct g; try exact I. contradiction. }
  specialize (X FS k [] w (Forall_nil _)).
  destruct (run (op_steps op) k [] w); try exact X. destruct (op_noexcept op); [exact I|exact X].
Qed.

(* ------------------------------------------------------------------ computing faults_first on profiles *)

Definition pure_step (s : step) : bool :=
  match s with Commit _ => false | Enter (GUnlinkLast _) => false | _ => true end.
Definition pure_prefix (l : list step) : bool := forallb pure_step l.

Lemma hf_app a b : has_fault (a ++ b) = has_fault a || has_fault b.
Proof. unfold has_fault. apply existsb_app. Qed.

Lemma ff_app a b : faults_first (a ++ b) = if pure_prefix a then faults_first b else faults_first a && negb (has_fault b).
Proof.
  induction a as [|s r IH]; simpl; [reflexivity|].
  destruct s; simpl; try exact IH.
  - rewrite hf_app, negb_orb. reflexivity.
  - destruct g; simpl; try exact IH. rewrite hf_app, negb_orb. reflexivity.
Qed.

Lemma pp_app a b : pure_prefix (a ++ b) = pure_prefix a && pure_prefix b.
Proof. unfold pure_prefix. apply forallb_app. Qed.

Lemma pp_faults k n : pure_prefix (faults k n) = true.
Proof. induction n; simpl; [reflexivity|exact IHn]. Qed.
Lemma hf_faults k n : has_fault (faults k n) = negb (Nat.eqb n 0).
Proof. destruct n; reflexivity. Qed.
Lemma ff_faults k n : faults_first (faults k n) = true.
Proof. induction n; simpl; [reflexivity|exact IHn]. Qed.
Lemma pp_clone n : pure_prefix (clone_steps n) = true.
Proof. induction n; simpl; [reflexivity|exact IHn]. Qed.
Lemma ff_clone n : faults_first (clone_steps n) = true.
Proof. induction n; simpl; [reflexivity|exact IHn]. Qed.
Lemma pp_flat_pure (g : nat -> list step) l : (forall i, pure_prefix (g i) = true) -> pure_prefix (flat_map g l) = true.
Proof. intros H. induction l as [|x t IH]; simpl; [reflexivity|]. rewrite pp_app, H, IH. reflexivity. Qed.

Ltac ff_solve :=
  repeat (rewrite ?ff_app, ?pp_app, ?hf_app, ?pp_faults, ?ff_faults, ?pp_clone, ?ff_clone; simpl);
  try rewrite pp_flat_pure by (intros; reflexivity);
  repeat (rewrite ?ff_app, ?pp_app, ?hf_app, ?pp_faults, ?ff_faults, ?pp_clone, ?ff_clone; simpl);
  try reflexivity.

(* ------------------------------------------------------------------ per operation: strong guarantee *)

(* CallbackList::append / prepend / insert *)
Theorem cl_add_faults_first place hb o c reg : faults_first (prof_cl_add place hb o c reg) = true.
Proof. destruct place as [|[|p]]; reflexivity. Qed.

Theorem cl_remove_faults_first o reg : faults_first (prof_cl_remove o reg) = true.
Proof. reflexivity. Qed.

(* CallbackList copy construction and copy assignment (copy-and-swap) *)
Theorem cl_copy_ctor_faults_first dst src w : faults_first (prof_cl_copy_ctor dst src w) = true.
Proof. unfold prof_cl_copy_ctor, prof_cl_copy_ctor_with. simpl. ff_solve. Qed.

Theorem cl_assign_faults_first dst src w : faults_first (prof_cl_assign dst src w) = true.
Proof. unfold prof_cl_assign, prof_cl_assign_with. simpl. ff_solve. Qed.

(* EventDispatcher / EventQueue listener management *)
Theorem disp_add_faults_first ncmp place hb d key c reg : faults_first (prof_disp_add ncmp place hb d key c reg) = true.
Proof.
  unfold prof_disp_add, prof_disp_add_with, prof_disp_link_with, prof_map_index.
  destruct place as [|[|p]]; simpl; ff_solve.
Qed.

Theorem disp_remove_faults_first ncmp d key reg : faults_first (prof_disp_remove ncmp d key reg) = true.
Proof. unfold prof_disp_remove. ff_solve. Qed.

Theorem disp_copy_ctor_faults_first dst src w : faults_first (prof_disp_copy_ctor dst src w) = true.
Proof. unfold prof_disp_copy_ctor, prof_disp_copy_ctor_with. simpl. ff_solve. Qed.

(* CounterRemover / ConditionalRemover adders *)
Theorem counter_add_faults_first ncmp place hb d key c reg : faults_first (prof_counter_add ncmp place hb d key c reg) = true.
Proof.
  unfold prof_counter_add, prof_auto_add_with, prof_disp_link_with, prof_map_index.
  destruct place as [|[|p]]; simpl; ff_solve.
Qed.

Theorem conditional_add_faults_first ncmp place hb d key c reg : faults_first (prof_conditional_add ncmp place hb d key c reg) = true.
Proof.
  unfold prof_conditional_add, prof_auto_add_with, prof_disp_link_with, prof_map_index.
  destruct place as [|[|p]]; simpl; ff_solve.
Qed.

(* enqueue, plain list and OrderedQueueList; peekEvent *)
Theorem enqueue_faults_first ordered ncmp q key a : faults_first (prof_enqueue ordered ncmp q key a) = true.
Proof. unfold prof_enqueue, prof_enqueue_with, prof_splice_with. destruct ordered; simpl; ff_solve. Qed.

Theorem peek_faults_first : faults_first prof_peek = true.
Proof. reflexivity. Qed.

(* HeterCallbackList: add, copy construction, copy assignment *)
Theorem hcl_assign_faults_first dst src w : faults_first (op_steps (op_hcl_assign dst src w)) = true.
Proof. unfold op_hcl_assign, op_hcl_assign_with, prof_hcl_assign_with, prof_hcl_copy_steps. simpl. ff_solve. Qed.

Theorem hcl_assign_not_noexcept dst src w : op_noexcept (op_hcl_assign dst src w) = false.
Proof. reflexivity. Qed.

(* a throwing callback copy during HeterCallbackList copy assignment reaches the caller *)
Theorem hcl_assign_exception_reaches_caller dst src w k :
  k < nfaults (op_steps (op_hcl_assign dst src w)) ->
  exists fk w', run_faulted (op_hcl_assign dst src w) k w = Thrown fk w' /\ obs w' = obs w.
Proof.
  intros H. destruct (exn_propagates (op_hcl_assign dst src w) k w H) as [fk [_ [P _]]].
  destruct (P (hcl_assign_not_noexcept dst src w)) as [w' E]. exists fk, w'. split; [exact E|].
  eapply strong_guarantee; [apply hcl_assign_faults_first|exact E].
Qed.

(* every operation of a fault plan except the two member-wise assignments and the ScopedRemover adders
   (treated below) satisfies the syntactic criterion *)
Definition strong_by_shape (o : opn) : bool :=
  match o with
  | ODAssign _ _ | OSrAdd _ _ _ _ _ _ _ | OSrClAdd _ _ _ _ _ _ => false
  | _ => true
  end.

Theorem plan_ops_faults_first o w : strong_by_shape o = true -> faults_first (op_steps (op_of o w)) = true.
Proof.
  destruct o; intros H; try discriminate H; unfold op_of, op_steps;
    try solve [ apply cl_add_faults_first | apply cl_remove_faults_first | apply cl_copy_ctor_faults_first
              | apply cl_assign_faults_first | apply disp_add_faults_first | apply disp_remove_faults_first
              | apply disp_copy_ctor_faults_first | apply counter_add_faults_first | apply conditional_add_faults_first
              | apply enqueue_faults_first | apply peek_faults_first | apply hcl_assign_faults_first ].
  - destruct place as [|[|p]]; reflexivity.
  - unfold prof_hcl_copy_steps. simpl. ff_solve.
Qed.

Theorem plan_ops_strong o w k fk w' :
  strong_by_shape o = true -> run_faulted (op_of o w) k w = Thrown fk w' -> obs w' = obs w.
Proof. intros H. apply strong_guarantee. apply plan_ops_faults_first. exact H. Qed.

Theorem plan_ops_never_terminate o w : op_noexcept (op_of o w) = false.
Proof. destruct o; reflexivity. Qed.

(* ------------------------------------------------------------------ splitting a run at a point without faults before / after *)

(* the effect of a step list when none of its fault points fails *)
Fixpoint after (steps : list step) (gs : list guard) (w : world) : list guard * world :=
  match steps with
  | [] => (gs, w)
  | Fault _ :: r => after r gs w
  | Commit f :: r => after r gs (keep_private w (f w))
  | Hidden f :: r => after r gs (set_hid w (f (whid w)))
  | Local f :: r => after r gs (set_tmp w (f (wtmp w)))
  | Enter g :: r => after r (g :: gs) (g_enter g w)
  | Leave :: r => match gs with g :: gs' => after r gs' (g_exit false g w) | [] => after r [] w end
  end.

Lemma run_app_lt a b : forall k gs w, k < nfaults a -> run (a ++ b) k gs w = run a k gs w.
Proof.
  unfold nfaults. induction a as [|s r IH]; intros k gs w H; simpl in *; [lia|].
  destruct s; simpl in *; try (apply IH; assumption).
  - destruct k as [|k']; [reflexivity|]. apply IH. lia.
  - destruct gs; apply IH; assumption.
Qed.

Lemma run_app_ge a b : forall k gs w, nfaults a <= k ->
  run (a ++ b) k gs w = run b (k - nfaults a) (fst (after a gs w)) (snd (after a gs w)).
Proof.
  unfold nfaults. induction a as [|s r IH]; intros k gs w H; simpl in *.
  - rewrite Nat.sub_0_r. reflexivity.
  - destruct s; simpl in *; try (apply IH; assumption).
    + destruct k as [|k']; [lia|]. simpl. apply IH. lia.
    + destruct gs; apply IH; assumption.
Qed.

Lemma after_app a b : forall gs w, after (a ++ b) gs w = after b (fst (after a gs w)) (snd (after a gs w)).
Proof.
  induction a as [|s r IH]; intros gs w; simpl; [reflexivity|].
  destruct s; simpl; try apply IH. destruct gs; apply IH.
Qed.

Lemma after_faults fk n gs w : after (faults fk n) gs w = (gs, w).
Proof. induction n; simpl; [reflexivity|exact IHn]. Qed.

Lemma nfaults_app a b : nfaults (a ++ b) = nfaults a + nfaults b.
Proof. unfold nfaults. induction a as [|s r IH]; simpl; [reflexivity|]. destruct s; simpl; rewrite ?IH; reflexivity. Qed.

Lemma nfaults_faults fk n : nfaults (faults fk n) = n.
Proof. unfold nfaults. induction n; simpl; [reflexivity|]. f_equal. exact IHn. Qed.

(* ------------------------------------------------------------------ ScopedRemover adders: add, then record under catch-and-undo *)

(* observation through the interface: every list by lookup (an empty list and no list are the same) *)
Definition same_obs (w1 w2 : world) : Prop :=
  (forall l, lget l (wl w1) = lget l (wl w2)) /\ wq w1 = wq w2 /\ wr w1 = wr w2 /\ wh w1 = wh w2 /\
  wcnt w1 = wcnt w2 /\ wun w1 = wun w2.

Lemma obs_same w1 w2 : obs w1 = obs w2 -> same_obs w1 w2.
Proof. unfold obs, same_obs. intros H. injection H as H1 H2 H3 H4 H5 H6. rewrite H1. repeat split; assumption. Qed.

(* listener ids are names handed out in increasing order *)
Definition fresh (w : world) : Prop := forall l x, has_id x (lget l (wl w)) = true -> x < wnext w.

Lemma lid_eqb_refl l : lid_eqb l l = true.
Proof. unfold lid_eqb. rewrite !Nat.eqb_refl. reflexivity. Qed.

Lemma lid_eqb_eq a b : lid_eqb a b = true -> a = b.
Proof.
  unfold lid_eqb. intros H. apply andb_true_iff in H. destruct H as [H1 H2].
  apply Nat.eqb_eq in H1. apply Nat.eqb_eq in H2. destruct a, b; simpl in *; congruence.
Qed.

Lemma lget_lput_same l v es : lget l (lput l v es) = v.
Proof.
  induction es as [|[l' v'] t IH]; simpl; [rewrite lid_eqb_refl; reflexivity|].
  destruct (lid_eqb l l') eqn:E; simpl; [rewrite lid_eqb_refl; reflexivity|rewrite E; exact IH].
Qed.

Lemma lget_lput_other l l' v es : lid_eqb l' l = false -> lget l' (lput l v es) = lget l' es.
Proof.
  intros N. induction es as [|[l2 v2] t IH]; simpl; [rewrite N; reflexivity|].
  destruct (lid_eqb l l2) eqn:E; simpl.
  - apply lid_eqb_eq in E. subst l2. rewrite N. reflexivity.
  - destruct (lid_eqb l' l2); [reflexivity|exact IH].
Qed.

Lemma lput_lput l v1 v2 es : lput l v2 (lput l v1 es) = lput l v2 es.
Proof.
  induction es as [|[l' v'] t IH]; simpl; [rewrite lid_eqb_refl; reflexivity|].
  destruct (lid_eqb l l') eqn:E; simpl; [rewrite lid_eqb_refl; reflexivity|rewrite E, IH; reflexivity].
Qed.

Lemma lget_lput_self l es l' : lget l' (lput l (lget l es) es) = lget l' es.
Proof.
  destruct (lid_eqb l' l) eqn:E.
  - apply lid_eqb_eq in E. subst l'. apply lget_lput_same.
  - apply lget_lput_other. exact E.
Qed.

Lemma del_app_fresh id c old : has_id id old = false -> del_id id (old ++ [(id, c)]) = old.
Proof.
  induction old as [|[x cx] t IH]; simpl; intros H; [rewrite Nat.eqb_refl; reflexivity|].
  apply orb_false_iff in H. destruct H as [H1 H2]. rewrite H1, (IH H2). reflexivity.
Qed.

Lemma del_ins_fresh id c b old : has_id id old = false -> del_id id (ins_before b (id, c) old) = old.
Proof.
  induction old as [|[x cx] t IH]; simpl; intros H; [rewrite Nat.eqb_refl; reflexivity|].
  apply orb_false_iff in H. destruct H as [H1 H2].
  destruct (Nat.eqb b x); simpl; [rewrite Nat.eqb_refl; reflexivity|rewrite H1, (IH H2); reflexivity].
Qed.

Lemma del_place_fresh w place hb l id c old : has_id id old = false -> del_id id (place_entry w place hb l (id, c) old) = old.
Proof.
  intros H. unfold place_entry. destruct place as [|[|p]].
  - apply del_app_fresh; exact H.
  - simpl. rewrite Nat.eqb_refl. reflexivity.
  - destruct (nget hb (wh w)) as [[l' b]|]; [|apply del_app_fresh; exact H].
    destruct (lid_eqb l' l && has_id b old); [apply del_ins_fresh|apply del_app_fresh]; exact H.
Qed.

Lemma fresh_not_next w l : fresh w -> has_id (wnext w) (lget l (wl w)) = false.
Proof.
  intros F. destruct (has_id (wnext w) (lget l (wl w))) eqn:E; [|reflexivity].
  apply F in E. lia.
Qed.

(* detaching the listener that was attached last restores every list *)
Lemma unlink_link place hb l c w : fresh w ->
  forall l', lget l' (wl (unlink l (pred (wnext (link place hb l c w))) (link place hb l c w))) = lget l' (wl w).
Proof.
  intros F l'. unfold unlink, link. simpl. rewrite lget_lput_same, lput_lput.
  rewrite del_place_fresh by (apply fresh_not_next; exact F). apply lget_lput_self.
Qed.

Definition sr_prefix (ncmp place hb d key c : nat) : list step :=
  [Fault FUserCopy] ++ arg_conversion ++ prof_disp_link_with true true true ncmp place hb d key c.

Lemma sr_prefix_ff ncmp place hb d key c : faults_first (sr_prefix ncmp place hb d key c) = true.
Proof. unfold sr_prefix, prof_disp_link_with, prof_map_index. simpl. ff_solve. Qed.

Lemma sr_prefix_after ncmp place hb d key c w :
  exists gs w1, after (sr_prefix ncmp place hb d key c) [] w = (gs, w1) /\
    wl w1 = wl (link place hb (d, key) c w) /\ wnext w1 = wnext (link place hb (d, key) c w) /\
    wq w1 = wq w /\ wr w1 = wr w /\ wh w1 = wh w /\ wcnt w1 = wcnt w /\ wun w1 = wun w /\
    gs = [GLock; GScratch; GLock].
Proof.
  unfold sr_prefix, prof_disp_link_with, prof_map_index. simpl.
  rewrite after_app, after_app, after_faults. simpl.
  eexists; eexists; split; [reflexivity|]. simpl.
  unfold place_entry. simpl. repeat split; reflexivity.
Qed.

(* ScopedRemover<dispatcher>::appendListener / prependListener / insertListener, as built from the
   generated facts: whichever point fails — before the listener is attached, or while it is being
   recorded — every list, the remover's records and the caller's handles are as before *)
Theorem sr_add_strong ncmp place hb r d key c reg k w fk w' :
  fresh w ->
  run_faulted (mkOp false (prof_sr_add ncmp place hb r d key c reg)) k w = Thrown fk w' -> same_obs w' w.
Proof.
  intros F H. cbv [run_faulted op_steps op_noexcept] in H.
  assert (P : prof_sr_add ncmp place hb r d key c reg =
              sr_prefix ncmp place hb d key c ++
              [Enter (GUnlinkLast (d, key)); Enter GLock; Fault FAlloc; Fault FUserCopy; Commit (record r (d, key)); Leave; Leave;
               Commit (give_handle reg (d, key))]).
  { unfold prof_sr_add, prof_sr_add_with, sr_prefix. destruct place as [|[|p]]; simpl; rewrite <- ?app_assoc; reflexivity. }
  rewrite P in H. clear P.
  destruct (Nat.lt_ge_cases k (nfaults (sr_prefix ncmp place hb d key c))) as [L|G].
  - rewrite run_app_lt in H by exact L.
    destruct (run (sr_prefix ncmp place hb d key c) k [] w) as [x|fk1 w1|fk1] eqn:E; try discriminate.
    inversion H; subst. apply obs_same.
    exact (strong_gen _ (sr_prefix_ff ncmp place hb d key c) k [] w fk w' w eq_refl eq_refl E).
  - rewrite run_app_ge in H by exact G.
    destruct (sr_prefix_after ncmp place hb d key c w) as [gs [w1 [A [Hl [Hn [Hq [Hr [Hh [Hc [Hu Hg]]]]]]]]]].
    rewrite A in H. simpl in H. subst gs.
    destruct (k - nfaults (sr_prefix ncmp place hb d key c)) as [|[|m]]; simpl in H; try discriminate.
    + inversion H; subst. unfold same_obs. simpl. rewrite Hn, Hl. repeat split; try assumption.
      intros l'. assert (U := unlink_link place hb (d, key) c w F l'). unfold unlink in U. simpl in U. exact U.
    + inversion H; subst. unfold same_obs. simpl. rewrite Hn, Hl. repeat split; try assumption.
      intros l'. assert (U := unlink_link place hb (d, key) c w F l'). unfold unlink in U. simpl in U. exact U.
Qed.

(* the callback-list flavour of the remover *)
Definition srcl_prefix (place hb o c : nat) : list step :=
  arg_conversion ++ prof_cl_link true true place hb (o, 0) c.

Theorem srcl_add_strong place hb r o c reg k w fk w' :
  fresh w ->
  run_faulted (mkOp false (prof_srcl_add place hb r o c reg)) k w = Thrown fk w' -> same_obs w' w.
Proof.
  intros F H. cbv [run_faulted op_steps op_noexcept] in H.
  assert (P : prof_srcl_add place hb r o c reg =
              srcl_prefix place hb o c ++
              [Enter (GUnlinkLast (o, 0)); Enter GLock; Fault FAlloc; Commit (record r (o, 0)); Leave; Leave;
               Commit (give_handle reg (o, 0))]).
  { unfold prof_srcl_add, prof_srcl_add_with, srcl_prefix. destruct place as [|[|p]]; reflexivity. }
  rewrite P in H. clear P.
  destruct (Nat.lt_ge_cases k (nfaults (srcl_prefix place hb o c))) as [L|G].
  - rewrite run_app_lt in H by exact L.
    destruct (run (srcl_prefix place hb o c) k [] w) as [x|fk1 w1|fk1] eqn:E; try discriminate.
    inversion H; subst. apply obs_same.
    assert (FF : faults_first (srcl_prefix place hb o c) = true) by reflexivity.
    exact (strong_gen _ FF k [] w fk w' w eq_refl eq_refl E).
  - rewrite run_app_ge in H by exact G. simpl in H.
    destruct (k - nfaults (srcl_prefix place hb o c)) as [|m]; simpl in H; try discriminate.
    inversion H; subst. unfold same_obs. simpl. repeat split; try reflexivity.
    intros l'. assert (U := unlink_link place hb (o, 0) c w F l'). unfold unlink, link in U. simpl in U. exact U.
Qed.

(* ids stay fresh under the steps that hand them out *)
Lemma has_id_place w place hb l id c old x :
  has_id x (place_entry w place hb l (id, c) old) = true -> x = id \/ has_id x old = true.
Proof.
  assert (A : forall o, has_id x (o ++ [(id, c)]) = true -> x = id \/ has_id x o = true).
  { induction o as [|[y cy] t IH]; simpl; intros H.
    - rewrite orb_false_r in H. apply Nat.eqb_eq in H. left; exact H.
    - apply orb_true_iff in H. destruct H as [H|H]; [right; rewrite H; reflexivity|].
      destruct (IH H) as [E|E]; [left; exact E|right; rewrite E; apply orb_true_r]. }
  assert (B : forall b o, has_id x (ins_before b (id, c) o) = true -> x = id \/ has_id x o = true).
  { intros b. induction o as [|[y cy] t IH]; simpl; intros H.
    - rewrite orb_false_r in H. apply Nat.eqb_eq in H. left; exact H.
    - destruct (Nat.eqb b y); simpl in H.
      + apply orb_true_iff in H. destruct H as [H|H]; [left; apply Nat.eqb_eq; exact H|right; exact H].
      + apply orb_true_iff in H. destruct H as [H|H]; [right; rewrite H; reflexivity|].
        destruct (IH H) as [E|E]; [left; exact E|right; rewrite E; apply orb_true_r]. }
  unfold place_entry. destruct place as [|[|p]].
  - apply A.
  - simpl. intros H. apply orb_true_iff in H. destruct H as [H|H]; [left; apply Nat.eqb_eq; exact H|right; exact H].
  - destruct (nget hb (wh w)) as [[l' b]|]; [|apply A]. destruct (lid_eqb l' l && has_id b old); [apply B|apply A].
Qed.

Lemma fresh_link place hb l c w : fresh w -> fresh (link place hb l c w).
Proof.
  intros F l' x H. unfold link in *. simpl in *.
  destruct (lid_eqb l' l) eqn:E.
  - apply lid_eqb_eq in E. subst l'. rewrite lget_lput_same in H.
    destruct (has_id_place _ _ _ _ _ _ _ _ H) as [X|X]; [lia|]. apply F in X. lia.
  - rewrite lget_lput_other in H by exact E. apply F in H. lia.
Qed.

Lemma fresh_init : fresh w_init.
Proof. intros l x H. discriminate. Qed.

(* ------------------------------------------------------------------ copies: source untouched, destination valid *)

Lemma Forall_app_intro {A} (P : A -> Prop) a b : Forall P a -> Forall P b -> Forall P (a ++ b).
Proof. intros Ha Hb. apply Forall_app. split; assumption. Qed.

Lemma cc_clone src dst n : Forall (copy_commit src dst) (clone_steps n).
Proof. induction n; simpl; repeat constructor; assumption. Qed.

Lemma cc_flat src dst (g : nat -> list step) l : (forall i, Forall (copy_commit src dst) (g i)) -> Forall (copy_commit src dst) (flat_map g l).
Proof. intros H. induction l; simpl; [constructor|]. apply Forall_app_intro; [apply H|assumption]. Qed.

Lemma cc_cl_copy_ctor src dst w : Forall (copy_commit src dst) (prof_cl_copy_ctor dst src w).
Proof.
  unfold prof_cl_copy_ctor, prof_cl_copy_ctor_with. simpl. constructor; [exact I|].
  apply Forall_app_intro; [apply cc_clone|]. repeat constructor.
Qed.

Lemma cc_cl_assign src dst w : Forall (copy_commit src dst) (prof_cl_assign dst src w).
Proof.
  unfold prof_cl_assign, prof_cl_assign_with. simpl. constructor; [exact I|].
  apply Forall_app_intro; [apply cc_clone|]. repeat constructor.
Qed.

Lemma cc_disp_copy_ctor src dst w : Forall (copy_commit src dst) (prof_disp_copy_ctor dst src w).
Proof.
  unfold prof_disp_copy_ctor, prof_disp_copy_ctor_with. simpl. constructor; [exact I|].
  apply Forall_app_intro; [apply cc_flat; intros; repeat constructor|].
  apply Forall_app_intro; [apply cc_clone|]. repeat constructor.
Qed.

Lemma cc_disp_assign src dst w : Forall (copy_commit src dst) (prof_disp_assign dst src w).
Proof.
  unfold prof_disp_assign. constructor; [simpl; right; right; left; reflexivity|].
  apply Forall_app_intro; [apply cc_flat; intros; repeat constructor|].
  apply Forall_app_intro; [apply cc_flat; intros; repeat constructor|]. repeat constructor.
Qed.

Lemma cc_hcl_assign src dst w : Forall (copy_commit src dst) (op_steps (op_hcl_assign dst src w)).
Proof.
  unfold op_hcl_assign, op_hcl_assign_with, prof_hcl_assign_with, prof_hcl_copy_steps. simpl. constructor; [exact I|].
  rewrite <- app_assoc. apply Forall_app_intro; [apply cc_flat; intros; repeat constructor|].
  apply Forall_app_intro; [apply cc_clone|]. repeat constructor.
Qed.

Definition is_copy (o : opn) : option (nat * nat) :=
  match o with
  | OClCopyCtor d s | OClAssign d s | ODCopyCtor d s | ODAssign d s | OHCopyCtor d s | OHAssign d s => Some (d, s)
  | _ => None
  end.

(* every copy operation of the library (construction or assignment; callback list, dispatcher, queue,
   heterogeneous list): completed or failed at any point, the source's lists are untouched *)
Theorem copies_leave_source_untouched o dst src k w :
  is_copy o = Some (dst, src) -> src <> dst ->
  match run_faulted (op_of o w) k w with
  | Done w' => obj_lists src w' = obj_lists src w
  | Thrown _ w' => obj_lists src w' = obj_lists src w
  | Terminated _ => True
  end.
Proof.
  intros H N. apply copy_fault_source_untouched with (dst := dst); [exact N|].
  destruct o; simpl in H; inversion H; subst; unfold op_of, op_steps.
  - apply cc_cl_copy_ctor.
  - apply cc_cl_assign.
  - apply cc_disp_copy_ctor.
  - apply cc_disp_assign.
  - unfold prof_hcl_copy_steps. simpl. constructor; [exact I|]. rewrite <- app_assoc.
    apply Forall_app_intro; [apply cc_flat; intros; repeat constructor|].
    apply Forall_app_intro; [apply cc_clone|]. repeat constructor.
  - apply cc_hcl_assign.
Qed.

(* member-wise assignment of a dispatcher / queue: a failed copy leaves the destination VALID — empty
   of the old listeners, marked unspecified until it is assigned or cleared again — never half-linked *)
Lemma has_fault_flat2 l : has_fault (flat_map (fun _ : nat => [Fault FAlloc; Fault FUserCopy]) l) = negb (match l with [] => true | _ => false end).
Proof. destruct l; reflexivity. Qed.

Lemma run_only_faults steps : forallb is_fault steps = true -> forall k gs w fk w', run steps k gs w = Thrown fk w' -> w' = unwind true gs w.
Proof.
  induction steps as [|s r IH]; intros Hs k gs w fk w' H; simpl in *; [discriminate|].
  apply andb_true_iff in Hs. destruct Hs as [H1 H2]. destruct s; try discriminate.
  destruct k as [|k']; [inversion H; reflexivity|]. eapply IH; eauto.
Qed.

Definition assign_faults (src : nat) (w : world) : list step :=
  flat_map (fun _ : nat => [Fault FAlloc; Fault FUserCopy]) (seq 0 (key_points src w))
  ++ flat_map (fun _ : nat => [Fault FAlloc; Fault FUserCopy]) (seq 0 (obj_size src w)).

Lemma disp_assign_shape dst src w :
  prof_disp_assign dst src w = Commit (mark_unspecified dst) :: (assign_faults src w ++ [Commit (copy_obj src dst)]).
Proof. unfold prof_disp_assign, assign_faults. rewrite <- app_assoc. reflexivity. Qed.

Lemma assign_faults_only src w : forallb is_fault (assign_faults src w) = true.
Proof.
  unfold assign_faults. rewrite forallb_app. apply andb_true_iff. split.
  - induction (seq 0 (key_points src w)); simpl; [reflexivity|assumption].
  - induction (seq 0 (obj_size src w)); simpl; [reflexivity|assumption].
Qed.

Lemma obj_lists_dropped dst es : obj_entries dst (drop_obj dst es) = [].
Proof.
  unfold obj_entries, drop_obj. induction es as [|[[o kk] l] t IH]; simpl; [reflexivity|].
  destruct (Nat.eqb o dst) eqn:Eo; simpl; [exact IH|rewrite Eo; exact IH].
Qed.

Lemma mem_rem_nat x l : mem_nat x (rem_nat x l) = false.
Proof.
  unfold mem_nat, rem_nat. induction l as [|y t IH]; simpl; [reflexivity|].
  destruct (Nat.eqb x y) eqn:Ey; simpl; [exact IH|rewrite Ey; exact IH].
Qed.

Theorem disp_assign_failed_dest_valid dst src k w fk w' :
  run_faulted (mkOp false (prof_disp_assign dst src w)) k w = Thrown fk w' ->
  mem_nat dst (wun w') = true /\ obj_lists dst w' = [] /\ (forall o, o <> dst -> obj_lists o w' = obj_lists o w) /\
  wq w' = wq w /\ wr w' = wr w /\ wh w' = wh w.
Proof.
  cbv [run_faulted op_steps op_noexcept]. rewrite disp_assign_shape. cbn [run]. intros H.
  destruct (run _ k [] (keep_private w (mark_unspecified dst w))) as [x|fk1 w1|fk1] eqn:E; try discriminate.
  inversion H; subst.
  destruct (Nat.lt_ge_cases k (nfaults (assign_faults src w))) as [L|G].
  - rewrite run_app_lt in E by exact L. apply (run_only_faults _ (assign_faults_only src w)) in E. subst w'. simpl.
    split; [rewrite Nat.eqb_refl; reflexivity|].
    split; [apply obj_lists_dropped|].
    split; [intros o N; apply mark_unspecified_frame; exact N|]. repeat split; reflexivity.
  - rewrite run_app_ge in E by exact G. simpl in E. destruct (k - nfaults (assign_faults src w)); discriminate.
Qed.

Lemma after_only_faults steps : forallb is_fault steps = true -> forall gs w, after steps gs w = (gs, w).
Proof.
  induction steps as [|s r IH]; intros H gs w; simpl in *; [reflexivity|].
  apply andb_true_iff in H. destruct H as [H1 H2]. destruct s; try discriminate. apply IH. exact H2.
Qed.

(* ... and a later assignment that completes makes it a copy of the source again *)
Theorem disp_assign_completed dst src w k w' :
  run_faulted (mkOp false (prof_disp_assign dst src w)) k w = Done w' -> mem_nat dst (wun w') = false.
Proof.
  cbv [run_faulted op_steps op_noexcept]. rewrite disp_assign_shape. cbn [run]. intros H.
  destruct (run _ k [] (keep_private w (mark_unspecified dst w))) as [x|fk1 w1|fk1] eqn:E; try discriminate.
  inversion H; subst.
  destruct (Nat.lt_ge_cases k (nfaults (assign_faults src w))) as [L|G].
  - destruct (run_throws (assign_faults src w ++ [Commit (copy_obj src dst)]) k [] (keep_private w (mark_unspecified dst w))) as [fk [w2 [_ X]]];
      [rewrite nfaults_app; lia|]. rewrite X in E. discriminate.
  - rewrite run_app_ge in E by exact G. rewrite (after_only_faults _ (assign_faults_only src w)) in E. simpl in E.
    assert (X : forall w0, mem_nat dst (wun (keep_private w0 (copy_obj src dst w0))) = false).
    { intros w0. unfold keep_private, copy_obj. destruct (copy_entries src dst (wnext w0) (wl w0)). simpl. apply mem_rem_nat. }
    destruct (k - nfaults (assign_faults src w)); inversion E; apply X.
Qed.

(* ------------------------------------------------------------------ the shapes the library had before the repairs, and broken shapes: refuted *)

Definition count_listeners (l : lid) (w : world) : nat := length (lget l (wl w)).

(* HeterCallbackList::operator=(const &) declared noexcept: a throwing callback copy ends the process *)
Theorem legacy_hcl_assign_noexcept_refuted :
  exists k w, w = snd (after (op_steps (op_of (OHAdd 0 0 1 0 7 0) w_init)) [] w_init) /\
    exists fk, run_faulted (op_hcl_assign_with true true 2 1 w) k w = Terminated fk.
Proof. exists 1. eexists. split; [reflexivity|]. eexists. vm_compute. reflexivity. Qed.

(* ScopedRemover adder without catch-and-undo: the record fails, the listener stays attached and unrecorded *)
Theorem legacy_sr_add_refuted :
  exists k fk w', run_faulted (mkOp false (prof_sr_add_with true false true true true 1 0 0 5 1 3 7 0)) k w_init = Thrown fk w'
    /\ count_listeners (1, 3) w' = 1 /\ count_listeners (1, 3) w_init = 0 /\ ngetl 5 (wr w') = [].
Proof. exists 9. eexists. eexists. split; [vm_compute; reflexivity|]. repeat split. Qed.

(* OrderedQueueList::splice sorting after the splice: the comparator throws, the event is queued *)
Theorem legacy_ordered_enqueue_refuted :
  exists k fk w', run_faulted (mkOp false (prof_enqueue_with true true false true 2 1 3 5%Z)) k w_init = Thrown fk w'
    /\ ngetl 1 (wq w') = [(3, 5%Z)] /\ ngetl 1 (wq w_init) = [].
Proof. exists 6. eexists. eexists. split; [vm_compute; reflexivity|]. split; reflexivity. Qed.

(* broken shapes (not in the library): each loses the strong guarantee *)
Theorem link_before_callback_copy_refuted :
  exists k fk w', run_faulted (mkOp false (prof_cl_add_with false true 0 0 1 7 0)) k w_init = Thrown fk w'
    /\ count_listeners (1, 0) w' = 1.
Proof. exists 3. eexists. eexists. split; [vm_compute; reflexivity|]. reflexivity. Qed.

Theorem memberwise_list_assignment_refuted :
  exists w k fk w', w = snd (after (prof_cl_add 0 0 2 8 1) [] (snd (after (prof_cl_add 0 0 1 7 0) [] w_init))) /\
    run_faulted (mkOp false (prof_cl_assign_with false true 2 1 w)) k w = Thrown fk w'
    /\ count_listeners (2, 0) w = 1 /\ count_listeners (2, 0) w' = 0.
Proof. eexists. exists 1. eexists. eexists. split; [reflexivity|]. split; [vm_compute; reflexivity|]. split; reflexivity. Qed.

Theorem empty_slot_enqueue_refuted :
  exists k fk w', run_faulted (mkOp false (prof_enqueue_with false false true false 0 1 3 5%Z)) k w_init = Thrown fk w'
    /\ ngetl 1 (wq w') = [(3, (-1)%Z)].
Proof. exists 3. eexists. eexists. split; [vm_compute; reflexivity|]. reflexivity. Qed.

Theorem legacy_shapes_fail_the_criterion :
  faults_first (prof_sr_add_with true false true true true 1 0 0 5 1 3 7 0) = false /\
  faults_first (prof_enqueue_with true true false true 2 1 3 5%Z) = false /\
  faults_first (prof_cl_add_with false true 0 0 1 7 0) = false /\
  faults_first (prof_enqueue_with false false true false 0 1 3 5%Z) = false /\
  faults_first unknown_shape = false.
Proof. repeat split; reflexivity. Qed.

(* ------------------------------------------------------------------ nothing under construction survives: per operation *)

Theorem plan_ops_release_scratch o w k :
  wtmp w = [] ->
  match run_faulted (op_of o w) k w with Done w' => wtmp w' = [] | Thrown _ w' => wtmp w' = [] | Terminated _ => True end.
Proof.
  intros Hw. apply scratch_released; [|exact Hw].
  assert (SC : forall n open, existsb (fun b => b) open = true -> forall r, scoped open r = true -> scoped open (clone_steps n ++ r) = true).
  { induction n; intros open Ho r Hr; simpl; [exact Hr|]. rewrite Ho. simpl. apply IHn; assumption. }
  assert (SF : forall (g : nat -> list step) l open r, (forall i, forallb is_fault (g i) = true) -> scoped open r = true -> scoped open (flat_map g l ++ r) = true).
  { intros g l open r Hg Hr. induction l as [|x t IH]; simpl; [exact Hr|]. rewrite <- ?app_assoc.
    specialize (Hg x). induction (g x) as [|s q IHq]; simpl; [exact IH|].
    simpl in Hg. apply andb_true_iff in Hg. destruct Hg as [H1 H2]. destruct s; try discriminate. apply IHq. exact H2. }
  assert (SFl : forall k n open r, scoped open r = true -> scoped open (faults k n ++ r) = true).
  { intros k0 n open r Hr. induction n; simpl; [exact Hr|exact IHn]. }
  destruct o; unfold op_of, op_steps; try (destruct place as [|[|p]]); try (destruct ordered); try reflexivity.
  - unfold prof_cl_copy_ctor, prof_cl_copy_ctor_with. simpl. apply SC; reflexivity.
  - unfold prof_cl_assign, prof_cl_assign_with. simpl. apply SC; reflexivity.
  - unfold prof_disp_copy_ctor, prof_disp_copy_ctor_with. simpl. rewrite <- ?app_assoc. apply SF; [reflexivity|]. apply SC; reflexivity.
  - unfold prof_disp_assign. simpl. rewrite <- ?app_assoc. apply SF; [reflexivity|]. apply SF; reflexivity.
  - unfold prof_hcl_copy_steps. simpl. rewrite <- ?app_assoc. apply SF; [reflexivity|]. apply SC; reflexivity.
  - unfold op_hcl_assign, op_hcl_assign_with, prof_hcl_assign_with, prof_hcl_copy_steps. simpl. rewrite <- ?app_assoc.
    apply SF; [reflexivity|]. apply SC; reflexivity.
Qed.

(* ------------------------------------------------------------------ the profile, run without a fault, IS the operation *)

Definition obsn (w : world) := (obs w, wnext w).

Lemma run_done steps : forall k gs w, nfaults steps <= k ->
  run steps k gs w = Done (unwind false (fst (after steps gs w)) (snd (after steps gs w))).
Proof.
  unfold nfaults. induction steps as [|s r IH]; intros k gs w H; simpl in *; [reflexivity|].
  destruct s; simpl in *; try (apply IH; assumption).
  - destruct k as [|k']; [lia|]. apply IH. lia.
  - destruct gs; apply IH; assumption.
Qed.

Definition pure_only (s : step) : bool := match s with Fault _ | Hidden _ | Local _ => true | _ => false end.

Lemma after_pure l : forallb pure_only l = true -> forall gs w, fst (after l gs w) = gs /\ obsn (snd (after l gs w)) = obsn w.
Proof.
  induction l as [|s r IH]; intros H gs w; simpl in *; [split; reflexivity|].
  apply andb_true_iff in H. destruct H as [H1 H2]. destruct s; try discriminate.
  - apply IH. exact H2.
  - destruct (IH H2 gs (set_hid w (f (whid w)))) as [A B]. split; [exact A|rewrite B; reflexivity].
  - destruct (IH H2 gs (set_tmp w (f (wtmp w)))) as [A B]. split; [exact A|rewrite B; reflexivity].
Qed.

Lemma po_clone n : forallb pure_only (clone_steps n) = true.
Proof. induction n; simpl; [reflexivity|exact IHn]. Qed.
Lemma po_flat (g : nat -> list step) l : (forall i, forallb pure_only (g i) = true) -> forallb pure_only (flat_map g l) = true.
Proof. intros H. induction l as [|x t IH]; simpl; [reflexivity|]. rewrite forallb_app, H, IH. reflexivity. Qed.

Lemma copy_obj_obsn src dst w1 w2 : obsn w1 = obsn w2 -> obsn (copy_obj src dst w1) = obsn (copy_obj src dst w2).
Proof.
  unfold obsn, obs. intros H. injection H as H1 H2 H3 H4 H5 H6 H7. unfold copy_obj. rewrite H1, H7.
  destruct (copy_entries src dst (wnext w2) (wl w2)) as [new n']. simpl. congruence.
Qed.

(* pure steps, then Commit (copy_obj src dst), then only Hidden steps, all inside the scratch scope *)
Lemma copy_profile_effect src dst P tail w :
  forallb pure_only P = true -> forallb pure_only tail = true ->
  forall k, nfaults (Enter GScratch :: P ++ Commit (copy_obj src dst) :: tail) <= k ->
  exists w', run (Enter GScratch :: P ++ Commit (copy_obj src dst) :: tail) k [] w = Done w' /\ obsn w' = obsn (copy_obj src dst w).
Proof.
  intros HP HT k Hk. rewrite run_done by exact Hk. eexists. split; [reflexivity|].
  simpl. rewrite after_app. destruct (after_pure P HP [GScratch] w) as [A B]. rewrite A. simpl.
  set (w1 := snd (after P [GScratch] w)) in *.
  destruct (after_pure tail HT [GScratch] (keep_private w1 (copy_obj src dst w1))) as [C D]. rewrite C. simpl.
  assert (X : forall x, obsn (set_tmp x []) = obsn x) by reflexivity. rewrite X, D.
  assert (Y : obsn (keep_private w1 (copy_obj src dst w1)) = obsn (copy_obj src dst w1)) by reflexivity. rewrite Y.
  apply copy_obj_obsn. exact B.
Qed.

Definition effect_by_profile (o : opn) : bool := match o with ODAssign _ _ => false | _ => true end.

(* for every operation of a fault plan (the member-wise dispatcher assignment aside, whose intermediate
   state is unspecified): the profile run with no failing point has exactly the operation's specified
   effect on the observable world *)
Theorem profile_effect o w : effect_by_profile o = true -> obsn (apply_done o w) = obsn (spec_effect o w).
Proof.
  intros H. destruct o; try discriminate H; try (destruct place as [|[|p]]); try (destruct ordered); try reflexivity; unfold apply_done.
  - (* CallbackList copy construction *)
    destruct (copy_profile_effect src dst (clone_steps (obj_size src w)) [] w (po_clone _) eq_refl _ (Nat.le_refl _)) as [w' [E1 E2]].
    change (op_steps (op_of (OClCopyCtor dst src) w)) with (Enter GScratch :: clone_steps (obj_size src w) ++ [Commit (copy_obj src dst)]).
    rewrite E1. exact E2.
  - destruct (copy_profile_effect src dst (clone_steps (obj_size src w)) [Hidden S] w (po_clone _) eq_refl _ (Nat.le_refl _)) as [w' [E1 E2]].
    change (op_steps (op_of (OClAssign dst src) w)) with (Enter GScratch :: clone_steps (obj_size src w) ++ [Commit (copy_obj src dst); Hidden S]).
    rewrite E1. exact E2.
  - assert (HP : forallb pure_only (flat_map (fun _ : nat => [Fault FAlloc; Fault FUserCopy]) (seq 0 (key_points src w)) ++ clone_steps (obj_size src w)) = true)
      by (rewrite forallb_app, po_flat, po_clone by (intros; reflexivity); reflexivity).
    destruct (copy_profile_effect src dst _ [] w HP eq_refl _ (Nat.le_refl _)) as [w' [E1 E2]].
    change (op_steps (op_of (ODCopyCtor dst src) w)) with
      (Enter GScratch :: flat_map (fun _ : nat => [Fault FAlloc; Fault FUserCopy]) (seq 0 (key_points src w)) ++ clone_steps (obj_size src w) ++ [Commit (copy_obj src dst)]).
    rewrite app_assoc. rewrite E1. exact E2.
  - assert (HP : forallb pure_only (flat_map (fun _ : nat => [Fault FAlloc]) (seq 0 (key_points src w)) ++ clone_steps (obj_size src w)) = true)
      by (rewrite forallb_app, po_flat, po_clone by (intros; reflexivity); reflexivity).
    destruct (copy_profile_effect src dst _ [] w HP eq_refl _ (Nat.le_refl _)) as [w' [E1 E2]].
    change (op_steps (op_of (OHCopyCtor dst src) w)) with
      (Enter GScratch :: (flat_map (fun _ : nat => [Fault FAlloc]) (seq 0 (key_points src w)) ++ clone_steps (obj_size src w)) ++ [Commit (copy_obj src dst)]).
    rewrite E1. exact E2.
  - assert (HP : forallb pure_only (flat_map (fun _ : nat => [Fault FAlloc]) (seq 0 (key_points src w)) ++ clone_steps (obj_size src w)) = true)
      by (rewrite forallb_app, po_flat, po_clone by (intros; reflexivity); reflexivity).
    destruct (copy_profile_effect src dst _ [Hidden S] w HP eq_refl _ (Nat.le_refl _)) as [w' [E1 E2]].
    change (op_steps (op_of (OHAssign dst src) w)) with
      (Enter GScratch :: (flat_map (fun _ : nat => [Fault FAlloc]) (seq 0 (key_points src w)) ++ clone_steps (obj_size src w)) ++ [Commit (copy_obj src dst); Hidden S]).
    rewrite E1. exact E2.
Qed.
