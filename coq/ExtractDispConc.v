(* Extraction of the dispatcher machine run under a schedule, for tie B. ExtrOcamlBasic only. *)
Require Extraction.
Require Import ExtrOcamlBasic.
From EV Require CLDispRun.
Extraction Language OCaml.
Set Extraction Optimize.
Definition dr_run_case := CLDispRun.dr_run_case.
Extraction "../ocaml/gen/dispconc_model.ml" dr_run_case.
