(* QModel.v — executable model of eventpp::EventQueue (include/eventpp/eventqueue.h,
   internal/eventqueue_i.h, utilities/orderedqueuelist.h) for single-threaded,
   re-entrant programs.

   MECHANISM (q_run true …): queueList and freeList are lists of slots (BufferedItem):
   doEnqueue takes a recycled slot from the front of freeList or makes a new one, sets it,
   splices it to the back of queueList; process swaps the whole list out, bumps the
   "in dispatch" counter, dispatches and clears each slot, appends the slots to freeList;
   processOne/takeEvent splice the front; processIf/processUntil put what they keep back
   at the FRONT; with the OrderedQueueList policy every splice is followed by a stable sort
   with the header's comparator lambda (empty slots first).
   SPECIFICATION (q_run false …): the same interpreter with the plain FIFO/sorted list of
   pending events (no slots, no recycling, no dtor flags).
   The listener part is the snapshot rule of CLSpec, per event key (the pointer level of
   the listener lists is C01/C02's business).  Definitions only. *)
From Coq Require Import List Arith NArith ZArith Bool.
From EV.gen Require GenQ.
Import ListNotations.
Local Open Scope nat_scope.

Record qevent := mkEv { ekey : nat; earg : Z; eseq : nat }.

Definition slot := option qevent.        (* None = empty slot (dtor == nullptr) *)

Inductive qcmd :=
| QAppend (k c h : nat) | QPrepend (k c h : nat) | QInsert (k c hb h : nat) | QRemove (k h : nat)
| QDispatch (k : nat) (a : Z)
| QEnqueue (k : nat) (a : Z)
| QProcess | QProcessOne | QProcessIf (p : nat) | QProcessUntil (p : nat)
| QPeek | QTake (r : nat) | QDispatchTaken (r : nat) | QClear | QEmpty | QLedger
| QWaitFor0   (* waitFor with a zero time-out (no DisableQueueNotify in this domain): what its predicate says now *)
| QFinal.   (* the queue is destroyed: only what the caller took out is still alive *)

Inductive qev :=
| QRet (b : bool)
| QCall (c k : nat) (a : Z)
| QPred (p : nat) (k : nat) (a : Z)
| QPeeked (k : nat) (a : Z)
| QLive (n : nat).

Record qstate := mkQ {
  qlist : list slot;                         (* queueList *)
  flist : list slot;                         (* freeList *)
  ecount : nat;                              (* queueEmptyCounter *)
  lsts : list (nat * list (nat * nat));      (* per event key: (listener id, callback id) in order *)
  nexth : nat;                               (* listener ids handed out *)
  nexts : nat;                               (* events enqueued so far *)
  hregs : list (nat * (nat * nat));          (* handle register -> (key, listener id) *)
  tregs : list (nat * qevent);               (* taken events held by the caller *)
  qacts : list (nat * nat);
  pacts : list (nat * nat);
  livep : nat;                               (* event payloads currently alive inside queue or caller registers *)
  qerr : bool;                               (* set(): slot occupied / get(),clear(): slot empty *)
  qtrace : list qev
}.

Fixpoint alookup {A} (k : nat) (l : list (nat * A)) : option A :=
  match l with [] => None | (k', v) :: t => if Nat.eqb k k' then Some v else alookup k t end.

Fixpoint aset {A} (k : nat) (v : A) (l : list (nat * A)) : list (nat * A) :=
  match l with
  | [] => [(k, v)]
  | (k', v') :: t => if Nat.eqb k k' then (k, v) :: t else (k', v') :: aset k v t
  end.

Definition lst_of (st : qstate) (k : nat) : list (nat * nat) :=
  match alookup k (lsts st) with Some l => l | None => [] end.

Definition upd_q st ql fl := mkQ ql fl (ecount st) (lsts st) (nexth st) (nexts st) (hregs st) (tregs st) (qacts st) (pacts st) (livep st) (qerr st) (qtrace st).
Definition upd_ecount st n := mkQ (qlist st) (flist st) n (lsts st) (nexth st) (nexts st) (hregs st) (tregs st) (qacts st) (pacts st) (livep st) (qerr st) (qtrace st).
Definition upd_lsts st ls nh hr := mkQ (qlist st) (flist st) (ecount st) ls nh (nexts st) hr (tregs st) (qacts st) (pacts st) (livep st) (qerr st) (qtrace st).
Definition upd_nexts st n := mkQ (qlist st) (flist st) (ecount st) (lsts st) (nexth st) n (hregs st) (tregs st) (qacts st) (pacts st) (livep st) (qerr st) (qtrace st).
Definition upd_tregs st tr := mkQ (qlist st) (flist st) (ecount st) (lsts st) (nexth st) (nexts st) (hregs st) tr (qacts st) (pacts st) (livep st) (qerr st) (qtrace st).
Definition upd_qacts st a := mkQ (qlist st) (flist st) (ecount st) (lsts st) (nexth st) (nexts st) (hregs st) (tregs st) a (pacts st) (livep st) (qerr st) (qtrace st).
Definition upd_pacts st a := mkQ (qlist st) (flist st) (ecount st) (lsts st) (nexth st) (nexts st) (hregs st) (tregs st) (qacts st) a (livep st) (qerr st) (qtrace st).
Definition upd_live st n := mkQ (qlist st) (flist st) (ecount st) (lsts st) (nexth st) (nexts st) (hregs st) (tregs st) (qacts st) (pacts st) n (qerr st) (qtrace st).
Definition set_err st := mkQ (qlist st) (flist st) (ecount st) (lsts st) (nexth st) (nexts st) (hregs st) (tregs st) (qacts st) (pacts st) (livep st) true (qtrace st).
Definition qlog st e := mkQ (qlist st) (flist st) (ecount st) (lsts st) (nexth st) (nexts st) (hregs st) (tregs st) (qacts st) (pacts st) (livep st) (qerr st) (e :: qtrace st).

Definition act_of (l : list (nat * nat)) (c : nat) : nat := match alookup c l with Some n => n | None => 0 end.

Fixpoint has_l (h : nat) (l : list (nat * nat)) : bool :=
  match l with [] => false | (x, _) :: t => Nat.eqb h x || has_l h t end.
Fixpoint del_l (h : nat) (l : list (nat * nat)) : list (nat * nat) :=
  match l with [] => [] | (x, c) :: t => if Nat.eqb h x then t else (x, c) :: del_l h t end.
Fixpoint ins_l (b : nat) (new : nat * nat) (l : list (nat * nat)) : list (nat * nat) :=
  match l with
  | [] => [new]
  | (x, c) :: t => if Nat.eqb b x then new :: (x, c) :: t else (x, c) :: ins_l b new t
  end.

(* ---------- OrderedQueueList: stable sort with the header's lambda ---------- *)

Section Sorting.
  Variable klt : nat -> nat -> bool.      (* the user's Compare on event keys *)

  (* the lambda of doSort, generated from the header: empty slots first, then Compare *)
  Definition slot_lt (a b : slot) : bool :=
    GenQ.slot_lt (match a with None => true | Some _ => false end)
                 (match b with None => true | Some _ => false end)
                 (match a, b with Some x, Some y => klt (ekey x) (ekey y) | _, _ => false end).

  Fixpoint sinsert (x : slot) (l : list slot) : list slot :=
    match l with
    | [] => [x]
    | y :: t => if slot_lt y x then y :: sinsert x t else x :: y :: t
    end.

  (* stands for std::list::sort (stable, a permutation) *)
  Definition ssort (l : list slot) : list slot := fold_right sinsert [] l.
End Sorting.

Section QInterp.
  Variable mech : bool.                    (* true: slots + free list (the code); false: the plain specification *)
  Variable ordered : bool.                 (* OrderedQueueList policy *)
  Variable klt : nat -> nat -> bool.
  Variable behav : nat -> nat -> list qcmd.           (* listener c, n-th activation *)
  Variable pbehav : nat -> nat -> list qcmd * bool.   (* predicate p, n-th evaluation: body and verdict *)

  Definition resort (l : list slot) : list slot := if ordered then ssort klt l else l.

  (* BufferedItem::set / get / clear with their assertions *)
  Definition slot_set (st : qstate) (s : slot) (e : qevent) : qstate * slot :=
    match s with
    | None => (upd_live st (S (livep st)), Some e)
    | Some _ => (set_err st, Some e)
    end.

  Definition slot_clear (st : qstate) (s : slot) : qstate :=
    match s with
    | Some _ => upd_live st (pred (livep st))
    | None => set_err st
    end.

  (* doEnqueue *)
  Definition do_enqueue (st : qstate) (e : qevent) : qstate :=
    if mech then
      let '(s, fl) := match flist st with
                      | s :: fl => (s, fl)          (* recycled slot from the front of freeList *)
                      | [] => (None, [])            (* tempList.emplace_back() *)
                      end in
      let '(st1, s1) := slot_set st s e in
      upd_q st1 (resort (qlist st1 ++ [s1])) fl
    else
      upd_q (upd_live st (S (livep st))) (resort (qlist st ++ [Some e])) (flist st).

  (* freeList.splice(freeList.end(), cleared slots) *)
  Definition recycle (st : qstate) (n : nat) : qstate :=
    if mech then upd_q st (qlist st) (resort (flist st ++ repeat None n)) else st.

  Section WithRec.
    Variable rec : qstate -> list qcmd -> option qstate.

    (* directDispatch: snapshot rule on the listeners of key k *)
    Fixpoint call_all (st : qstate) (k : nat) (todo : list (nat * nat)) (a : Z) : option qstate :=
      match todo with
      | [] => Some st
      | (h, c) :: rest =>
          if has_l h (lst_of st k) then
            let st1 := qlog st (QCall c k a) in
            let st2 := upd_qacts st1 (aset c (S (act_of (qacts st1) c)) (qacts st1)) in
            match rec st2 (behav c (act_of (qacts st2) c)) with
            | Some st3 => call_all st3 k rest a
            | None => None
            end
          else call_all st k rest a
      end.

    Definition dispatch (st : qstate) (k : nat) (a : Z) : option qstate := call_all st k (lst_of st k) a.

    Definition eval_pred (st : qstate) (p : nat) (e : qevent) : option (qstate * bool) :=
      let st1 := qlog st (QPred p (ekey e) (earg e)) in
      let st2 := upd_pacts st1 (aset p (S (act_of (pacts st1) p)) (pacts st1)) in
      let '(body, verdict) := pbehav p (act_of (pacts st2) p) in
      match rec st2 body with
      | Some st3 => Some (st3, verdict)
      | None => None
      end.

    (* the loop of process(): dispatch and clear every slot of the local list *)
    Fixpoint process_loop (st : qstate) (temp : list slot) : option qstate :=
      match temp with
      | [] => Some st
      | s :: rest =>
          match s with
          | None => process_loop (set_err st) rest
          | Some e =>
              match dispatch st (ekey e) (earg e) with
              | Some st1 => process_loop (slot_clear st1 s) rest
              | None => None
              end
          end
      end.

    (* the loop of processIf(): returns (state, kept slots in order, number dispatched) *)
    Fixpoint processif_loop (st : qstate) (p : nat) (temp : list slot) (kept : list slot) (idle : nat)
      : option (qstate * list slot * nat) :=
      match temp with
      | [] => Some (st, rev kept, idle)
      | s :: rest =>
          match s with
          | None => processif_loop (set_err st) p rest kept idle
          | Some e =>
              match eval_pred st p e with
              | None => None
              | Some (st1, true) =>
                  match dispatch st1 (ekey e) (earg e) with
                  | Some st2 => processif_loop (slot_clear st2 s) p rest kept (S idle)
                  | None => None
                  end
              | Some (st1, false) => processif_loop st1 p rest (s :: kept) idle
              end
          end
      end.

    (* the loop of processUntil(): stop at the first event the predicate accepts *)
    Fixpoint processuntil_loop (st : qstate) (p : nat) (temp : list slot) (idle : nat)
      : option (qstate * list slot * nat) :=
      match temp with
      | [] => Some (st, [], idle)
      | s :: rest =>
          match s with
          | None => processuntil_loop (set_err st) p rest idle
          | Some e =>
              match eval_pred st p e with
              | None => None
              | Some (st1, true) => Some (st1, s :: rest, idle)
              | Some (st1, false) =>
                  match dispatch st1 (ekey e) (earg e) with
                  | Some st2 => processuntil_loop (slot_clear st2 s) p rest (S idle)
                  | None => None
                  end
              end
          end
      end.

    Definition add_listener (st : qstate) (k c h : nat) (place : nat * nat -> list (nat * nat) -> list (nat * nat)) : qstate :=
      let id := nexth st in
      upd_lsts st (aset k (place (id, c) (lst_of st k)) (lsts st)) (S id) (aset h (k, id) (hregs st)).

    Definition q_step (st : qstate) (c : qcmd) : option qstate :=
      match c with
      | QAppend k c h => Some (add_listener st k c h (fun n l => l ++ [n]))
      | QPrepend k c h => Some (add_listener st k c h (fun n l => n :: l))
      | QInsert k c hb h =>
          match alookup hb (hregs st) with
          | Some (k', b) =>
              if Nat.eqb k' k then
                if has_l b (lst_of st k) then Some (add_listener st k c h (fun n l => ins_l b n l))
                else Some (add_listener st k c h (fun n l => l ++ [n]))
              else None                      (* a handle of another event's list: misuse, excluded *)
          | None => Some (add_listener st k c h (fun n l => l ++ [n]))
          end
      | QRemove k h =>
          match alookup h (hregs st) with
          | Some (k', b) =>
              if Nat.eqb k' k then
                if has_l b (lst_of st k)
                then Some (qlog (upd_lsts st (aset k (del_l b (lst_of st k)) (lsts st)) (nexth st) (hregs st)) (QRet true))
                else Some (qlog st (QRet false))
              else None
          | None => Some (qlog st (QRet false))
          end
      | QDispatch k a => dispatch st k a
      | QEnqueue k a =>
          let e := mkEv k a (nexts st) in
          Some (do_enqueue (upd_nexts st (S (nexts st))) e)
      | QProcess =>
          match qlist st with
          | [] => Some (qlog st (QRet false))
          | temp =>
              let st1 := upd_q (upd_ecount st (S (ecount st))) [] (flist st) in
              match process_loop st1 temp with
              | Some st2 =>
                  let st3 := recycle st2 (length temp) in
                  Some (qlog (upd_ecount st3 (pred (ecount st3))) (QRet true))
              | None => None
              end
          end
      | QProcessOne =>
          match qlist st with
          | [] => Some (qlog st (QRet false))
          | s :: rest =>
              let st1 := upd_q (upd_ecount st (S (ecount st))) rest (flist st) in
              match process_loop st1 [s] with
              | Some st2 =>
                  let st3 := recycle st2 1 in
                  Some (qlog (upd_ecount st3 (pred (ecount st3))) (QRet true))
              | None => None
              end
          end
      | QProcessIf p =>
          match qlist st with
          | [] => Some (qlog st (QRet false))
          | temp =>
              let st1 := upd_q (upd_ecount st (S (ecount st))) [] (flist st) in
              match processif_loop st1 p temp [] 0 with
              | Some (st2, kept, idle) =>
                  let st3 := upd_q st2 (match kept with [] => qlist st2 | _ => resort (kept ++ qlist st2) end) (flist st2) in
                  let st4 := recycle st3 idle in
                  Some (qlog (upd_ecount st4 (pred (ecount st4))) (QRet (negb (Nat.eqb idle 0))))
              | None => None
              end
          end
      | QProcessUntil p =>
          match qlist st with
          | [] => Some (qlog st (QRet false))
          | temp =>
              let st1 := upd_q (upd_ecount st (S (ecount st))) [] (flist st) in
              match processuntil_loop st1 p temp 0 with
              | Some (st2, kept, idle) =>
                  let st3 := upd_q st2 (match kept with [] => qlist st2 | _ => resort (kept ++ qlist st2) end) (flist st2) in
                  let st4 := recycle st3 idle in
                  Some (qlog (upd_ecount st4 (pred (ecount st4))) (QRet (negb (Nat.eqb idle 0))))
              | None => None
              end
          end
      | QPeek =>
          match qlist st with
          | Some e :: _ => Some (qlog (qlog st (QPeeked (ekey e) (earg e))) (QRet true))
          | None :: _ => Some (set_err st)
          | [] => Some (qlog st (QRet false))
          end
      | QTake r =>
          match qlist st with
          | Some e :: rest =>
              (* the event moves into the caller's variable; what that variable held before is released *)
              let held := match alookup r (tregs st) with Some _ => 1 | None => 0 end in
              let st1 := upd_live (upd_tregs (upd_q st rest (flist st)) (aset r e (tregs st))) (livep st - held) in
              Some (qlog (qlog (recycle st1 1) (QPeeked (ekey e) (earg e))) (QRet true))
          | None :: _ => Some (set_err st)
          | [] => Some (qlog st (QRet false))
          end
      | QDispatchTaken r =>
          match alookup r (tregs st) with
          | Some e => dispatch st (ekey e) (earg e)
          | None => Some st
          end
      | QClear =>
          match qlist st with
          | [] => Some st
          | temp =>
              let n := length (filter (fun s => match s with Some _ => true | None => false end) temp) in
              let st1 := upd_live (upd_q st [] (flist st)) (livep st - n) in
              Some (recycle st1 (length temp))
          end
      | QEmpty =>
          Some (qlog st (QRet (GenQ.empty_queue (match qlist st with [] => true | _ => false end) (Z.of_nat (ecount st)))))
      | QWaitFor0 =>
          Some (qlog st (QRet (GenQ.can_process (match qlist st with [] => true | _ => false end) (Z.of_nat (ecount st)) 0%Z)))
      | QLedger => Some (qlog st (QLive (livep st)))
      | QFinal => Some (qlog (upd_q st [] []) (QLive (length (tregs st))))
      end.

    Fixpoint q_seq (st : qstate) (cs : list qcmd) : option qstate :=
      match cs with
      | [] => Some st
      | c :: r => match q_step st c with Some st1 => q_seq st1 r | None => None end
      end.
  End WithRec.

  Fixpoint q_run (fuel : nat) : qstate -> list qcmd -> option qstate :=
    match fuel with
    | 0 => fun _ _ => None
    | S f => q_seq (q_run f)
    end.

  Definition q_init : qstate := mkQ [] [] 0 [] 0 0 [] [] [] [] 0 false [].

  Definition q_run_case (fuel : nat) (main : list qcmd) : option (list qev * bool) :=
    match q_run fuel q_init main with
    | Some st => Some (rev (qtrace st), qerr st)
    | None => None
    end.
End QInterp.
