(* Extraction of the CounterRemover / ConditionalRemover model for tie B. ExtrOcamlBasic only. *)
Require Extraction.
Require Import ExtrOcamlBasic.
From EV Require AutoRemoveModel.
Extraction Language OCaml.
Set Extraction Optimize.
Definition autoremove_run_case := AutoRemoveModel.a_case.
Extraction "../ocaml/gen/autoremove_model.ml" autoremove_run_case.
