(* ExnModel.v — C09 part 1: every operation as its header's FAULT PROFILE.

   An operation is a list of steps over an abstract world of containers:
     Fault k      a point where user code runs or memory is allocated and may throw
                  (k : alloc | usercopy | usermove | usercmp | usercall)
     Commit f     an irrevocable change of the observable world
     Hidden f     a change of the part no operation of the public interface can observe
                  (generation counter drawn, an empty callback list left under a new map
                   key, a slot taken from / returned to the free list)
     Local f      a change of the object under construction (node, slot, local list, the
                  `copied` of copy-and-swap); it is released by its scope
     Enter g / Leave   RAII scopes: lock_guard, CounterGuard, the scope that owns the
                  object under construction, and try { } catch(...) { undo; throw; }
   run steps k: execute; the k-th Fault step met throws; unwinding runs the exits of the
   open scopes, innermost first (the catch handler only on the exceptional path).

   The profiles are transcribed from the headers and BUILT FROM the structural facts that
   tools/leaves/exn.py reads off the clang AST (coq/gen/GenExn.v) and from the noexcept flag
   of tools/leaves/ctors.py (coq/gen/GenCtor.v): a header change flips a fact, the profile
   changes shape, and the corresponding theorem of ExnFault.v stops checking.
   Definitions only (total, computable); extracted through ExtractExn.v. *)
From Coq Require Import List Arith NArith ZArith Bool.
From EV.gen Require GenExn GenCtor.
Import ListNotations.
Local Open Scope nat_scope.

Inductive fkind := FAlloc | FUserCopy | FUserMove | FUserCmp | FUserCall.

Definition fkind_eqb (a b : fkind) : bool :=
  match a, b with
  | FAlloc, FAlloc | FUserCopy, FUserCopy | FUserMove, FUserMove | FUserCmp, FUserCmp | FUserCall, FUserCall => true
  | _, _ => false
  end.

(* ---------- the abstract world ---------- *)

Definition lid := (nat * nat)%type.          (* (object, event key); a plain CallbackList is (o, 0) *)
Definition lentry := (nat * nat)%type.       (* (listener id, callback id) *)

Definition lid_eqb (a b : lid) : bool := Nat.eqb (fst a) (fst b) && Nat.eqb (snd a) (snd b).

Record world := mkW {
  wl : list (lid * list lentry);             (* listener lists, in invocation order *)
  wq : list (nat * list (nat * Z));          (* queue object -> pending events (key, payload) in order *)
  wr : list (nat * list (lid * nat));        (* ScopedRemover object -> recorded (list, listener id) *)
  wh : list (nat * (lid * nat));             (* handles the caller holds: register -> (list, listener id) *)
  wcnt : nat;                                (* events in dispatch (queueEmptyCounter) *)
  wun : list nat;                            (* objects whose content is unspecified (failed member-wise assignment) *)
  wnext : nat;                               (* listener ids handed out (names only) *)
  whid : nat;                                (* the unobservable part, see above *)
  wtmp : list lentry                         (* the object under construction *)
}.

(* what the public interface can observe *)
Definition obs (w : world) := (wl w, wq w, wr w, wh w, wcnt w, wun w).

Definition set_wl w v := mkW v (wq w) (wr w) (wh w) (wcnt w) (wun w) (wnext w) (whid w) (wtmp w).
Definition set_wq w v := mkW (wl w) v (wr w) (wh w) (wcnt w) (wun w) (wnext w) (whid w) (wtmp w).
Definition set_wr w v := mkW (wl w) (wq w) v (wh w) (wcnt w) (wun w) (wnext w) (whid w) (wtmp w).
Definition set_wh w v := mkW (wl w) (wq w) (wr w) v (wcnt w) (wun w) (wnext w) (whid w) (wtmp w).
Definition set_cnt w v := mkW (wl w) (wq w) (wr w) (wh w) v (wun w) (wnext w) (whid w) (wtmp w).
Definition set_un w v := mkW (wl w) (wq w) (wr w) (wh w) (wcnt w) v (wnext w) (whid w) (wtmp w).
Definition set_next w v := mkW (wl w) (wq w) (wr w) (wh w) (wcnt w) (wun w) v (whid w) (wtmp w).
Definition set_hid w v := mkW (wl w) (wq w) (wr w) (wh w) (wcnt w) (wun w) (wnext w) v (wtmp w).
Definition set_tmp w v := mkW (wl w) (wq w) (wr w) (wh w) (wcnt w) (wun w) (wnext w) (whid w) v.

Definition w_init : world := mkW [] [] [] [] 0 [] 1 0 [].

Fixpoint lget (l : lid) (es : list (lid * list lentry)) : list lentry :=
  match es with [] => [] | (l', v) :: t => if lid_eqb l l' then v else lget l t end.
Fixpoint lput (l : lid) (v : list lentry) (es : list (lid * list lentry)) : list (lid * list lentry) :=
  match es with
  | [] => [(l, v)]
  | (l', v') :: t => if lid_eqb l l' then (l, v) :: t else (l', v') :: lput l v t
  end.

Fixpoint nget {A} (k : nat) (l : list (nat * A)) : option A :=
  match l with [] => None | (k', v) :: t => if Nat.eqb k k' then Some v else nget k t end.
Fixpoint nput {A} (k : nat) (v : A) (l : list (nat * A)) : list (nat * A) :=
  match l with
  | [] => [(k, v)]
  | (k', v') :: t => if Nat.eqb k k' then (k, v) :: t else (k', v') :: nput k v t
  end.
Definition ngetl {A} (k : nat) (l : list (nat * list A)) : list A := match nget k l with Some v => v | None => [] end.

Fixpoint has_id (h : nat) (l : list lentry) : bool :=
  match l with [] => false | (x, _) :: t => Nat.eqb h x || has_id h t end.
Fixpoint del_id (h : nat) (l : list lentry) : list lentry :=
  match l with [] => [] | (x, c) :: t => if Nat.eqb h x then t else (x, c) :: del_id h t end.
Fixpoint ins_before (b : nat) (new : lentry) (l : list lentry) : list lentry :=
  match l with
  | [] => [new]
  | (x, c) :: t => if Nat.eqb b x then new :: (x, c) :: t else (x, c) :: ins_before b new t
  end.

(* where a new listener goes: 0 append, 1 prepend, 2 insert before the listener held in register hb
   (a handle of another list, an unknown or a dead handle: append — CallbackList::insert) *)
Definition place_entry (w : world) (place hb : nat) (l : lid) (new : lentry) (old : list lentry) : list lentry :=
  match place with
  | 0 => old ++ [new]
  | 1 => new :: old
  | _ => match nget hb (wh w) with
         | Some (l', b) => if lid_eqb l' l && has_id b old then ins_before b new old else old ++ [new]
         | None => old ++ [new]
         end
  end.

(* the locked link step: the node (already holding its callback copy) enters the list *)
Definition link (place hb : nat) (l : lid) (c : nat) (w : world) : world :=
  let id := wnext w in
  set_next (set_wl w (lput l (place_entry w place hb l (id, c) (lget l (wl w))) (wl w))) (S id).

(* the handle returned to the caller on success: the listener linked last *)
Definition give_handle (reg : nat) (l : lid) (w : world) : world := set_wh w (nput reg (l, pred (wnext w)) (wh w)).

Definition unlink (l : lid) (id : nat) (w : world) : world := set_wl w (lput l (del_id id (lget l (wl w))) (wl w)).

(* remove through a handle register: only a handle of this list whose listener is still linked *)
Definition remove_by_reg (l : lid) (reg : nat) (w : world) : world :=
  match nget reg (wh w) with
  | Some (l', id) => if lid_eqb l' l && has_id id (lget l (wl w)) then unlink l id w else w
  | None => w
  end.

(* copies of a whole object (CallbackList: one list; dispatcher / queue: one list per key) *)
Fixpoint renumber (n : nat) (l : list lentry) : list lentry :=
  match l with [] => [] | (_, c) :: t => (n, c) :: renumber (S n) t end.
Fixpoint copy_entries (src dst n : nat) (es : list (lid * list lentry)) : list (lid * list lentry) * nat :=
  match es with
  | [] => ([], n)
  | ((o, k), l) :: t =>
      if Nat.eqb o src then
        let '(r, n') := copy_entries src dst (n + length l) t in (((dst, k), renumber n l) :: r, n')
      else copy_entries src dst n t
  end.
Definition drop_obj (o : nat) (es : list (lid * list lentry)) : list (lid * list lentry) :=
  filter (fun e => negb (Nat.eqb (fst (fst e)) o)) es.
Definition obj_entries (o : nat) (es : list (lid * list lentry)) : list (lid * list lentry) :=
  filter (fun e => Nat.eqb (fst (fst e)) o) es.
Definition rem_nat (x : nat) (l : list nat) : list nat := filter (fun y => negb (Nat.eqb x y)) l.
Definition mem_nat (x : nat) (l : list nat) : bool := existsb (Nat.eqb x) l.

Definition copy_obj (src dst : nat) (w : world) : world :=
  let '(new, n') := copy_entries src dst (wnext w) (wl w) in
  set_un (set_next (set_wl w (drop_obj dst (wl w) ++ new)) n') (rem_nat dst (wun w)).
Definition mark_unspecified (o : nat) (w : world) : world :=
  set_un (set_wl w (drop_obj o (wl w))) (o :: rem_nat o (wun w)).
Definition clear_obj (o : nat) (w : world) : world := set_wl w (drop_obj o (wl w)).

(* number of nodes a copy of object o has to build *)
Definition obj_size (o : nat) (w : world) : nat := fold_right (fun e n => length (snd e) + n) 0 (obj_entries o (wl w)).
Definition obj_keys (o : nat) (w : world) : nat := length (obj_entries o (wl w)).
(* per-key fault points of a copy: one round per list the abstract world sees under the object, plus rounds
   for lists it does not see — the EMPTY callback list a failed appendListener leaves under a new key, the
   empty homogeneous list a HeterCallbackList creates when it is merely enumerated or invoked.  They hold no
   listener (Hidden), but copying them allocates; only the KIND of a failing point is taken from the real run,
   so surplus points are harmless while missing ones would be reported (ENoSuchPoint). *)
Definition hidden_entries : nat := 4.
Definition key_points (o : nat) (w : world) : nat := obj_keys o w + hidden_entries.

(* pending events *)
Fixpoint ins_sorted (e : nat * Z) (l : list (nat * Z)) : list (nat * Z) :=
  match l with
  | [] => [e]
  | x :: t => if Nat.ltb (fst e) (fst x) then e :: x :: t else x :: ins_sorted e t
  end.
Definition enq (q : nat) (ordered : bool) (e : nat * Z) (w : world) : world :=
  set_wq w (nput q (if ordered then ins_sorted e (ngetl q (wq w)) else ngetl q (wq w) ++ [e]) (wq w)).

(* remover records *)
Definition record (r : nat) (l : lid) (w : world) : world :=
  set_wr w (nput r (ngetl r (wr w) ++ [(l, pred (wnext w))]) (wr w)).
Definition release (r : nat) (w : world) : world :=
  set_wr (fold_left (fun w' e => unlink (fst e) (snd e) w') (ngetl r (wr w)) w) (nput r [] (wr w)).

(* ---------- steps, scopes, execution ---------- *)

Inductive guard :=
| GLock                          (* std::lock_guard / unique_lock: nothing of the abstract world *)
| GCounter                       (* CounterGuard: ++ on entry, -- on every exit *)
| GScratch                       (* the scope owning the object under construction *)
| GUnlinkLast (l : lid).         (* try { ... } catch(...) { remove the listener just added to l; throw; } :
                                   acts only on the exceptional exit *)

Inductive step :=
| Fault (k : fkind)
| Commit (f : world -> world)
| Hidden (f : nat -> nat)
| Local (f : list lentry -> list lentry)
| Enter (g : guard)
| Leave.

Definition g_enter (g : guard) (w : world) : world :=
  match g with GCounter => set_cnt w (S (wcnt w)) | _ => w end.
Definition g_exit (exn : bool) (g : guard) (w : world) : world :=
  match g with
  | GLock => w
  | GCounter => set_cnt w (pred (wcnt w))
  | GScratch => set_tmp w []
  | GUnlinkLast l => if exn then unlink l (pred (wnext w)) w else w
  end.
Fixpoint unwind (exn : bool) (gs : list guard) (w : world) : world :=
  match gs with [] => w | g :: r => unwind exn r (g_exit exn g w) end.

(* a Commit changes the observable world (and hands out listener ids) only *)
Definition keep_private (w w' : world) : world := set_tmp (set_hid w' (whid w)) (wtmp w).

Inductive outcome :=
| Done (w : world)
| Thrown (k : fkind) (w : world)
| Terminated (k : fkind).

Fixpoint run (steps : list step) (k : nat) (gs : list guard) (w : world) : outcome :=
  match steps with
  | [] => Done (unwind false gs w)
  | Fault fk :: r => match k with 0 => Thrown fk (unwind true gs w) | S k' => run r k' gs w end
  | Commit f :: r => run r k gs (keep_private w (f w))
  | Hidden f :: r => run r k gs (set_hid w (f (whid w)))
  | Local f :: r => run r k gs (set_tmp w (f (wtmp w)))
  | Enter g :: r => run r k (g :: gs) (g_enter g w)
  | Leave :: r => match gs with g :: gs' => run r k gs' (g_exit false g w) | [] => run r k [] w end
  end.

Record operation := mkOp { op_noexcept : bool; op_steps : list step }.

(* the k-th fault point of the operation fails (k counts from 0; k beyond the last: no fault) *)
Definition run_faulted (op : operation) (k : nat) (w : world) : outcome :=
  match run (op_steps op) k [] w with
  | Thrown fk w' => if op_noexcept op then Terminated fk else Thrown fk w'
  | o => o
  end.

Definition is_fault (s : step) : bool := match s with Fault _ => true | _ => false end.
Definition has_fault (steps : list step) : bool := existsb is_fault steps.
Fixpoint fault_kinds (steps : list step) : list fkind :=
  match steps with [] => [] | Fault k :: r => k :: fault_kinds r | _ :: r => fault_kinds r end.
Definition nfaults (steps : list step) : nat := length (fault_kinds steps).

(* the decidable syntactic criterion: no Commit (and no catch-and-undo scope, which only exists to
   repair a Commit) is followed by a Fault *)
Fixpoint faults_first (steps : list step) : bool :=
  match steps with
  | [] => true
  | Commit _ :: r => negb (has_fault r)
  | Enter (GUnlinkLast _) :: r => negb (has_fault r)
  | _ :: r => faults_first r
  end.

(* Local steps only inside a GScratch scope: the object under construction is always released *)
Definition is_scratch (g : guard) : bool := match g with GScratch => true | _ => false end.
Fixpoint scoped (open : list bool) (steps : list step) : bool :=
  match steps with
  | [] => true
  | Local _ :: r => existsb (fun b => b) open && scoped open r
  | Enter g :: r => scoped (is_scratch g :: open) r
  | Leave :: r => scoped (tl open) r
  | _ :: r => scoped open r
  end.

(* first fault point of the given kind *)
Fixpoint find_kind (k : fkind) (ks : list fkind) (i : nat) : option nat :=
  match ks with [] => None | x :: t => if fkind_eqb k x then Some i else find_kind k t (S i) end.

(* ---------- the fault profiles ---------- *)

Definition faults (k : fkind) (n : nat) : list step := repeat (Fault k) n.

(* a shape tools/leaves/exn.py did not recognise as one of the known ones: assume the worst *)
Definition unknown_shape : list step := [Commit (fun w => w); Fault FAlloc].

(* the caller's callable converted to the list's Callback type (std::function): allocation + copy *)
Definition arg_conversion : list step := [Fault FAlloc; Fault FUserCopy].

(* CallbackList::append / prepend / insert — callbacklist.h:171-233, 401-404:
     NodePtr node(doAllocateNode(callback))   counter drawn; make_shared<Node>(callback, counter)
     lock_guard; link; return Handle(node) *)
Definition prof_cl_link (node_first node_with_cb : bool) (place hb : nat) (l : lid) (c : nat) : list step :=
  if node_first && node_with_cb then
    [Hidden S; Enter GScratch; Fault FAlloc; Fault FUserCopy; Local (cons (0, c));
     Enter GLock; Commit (link place hb l c)]
  else
    (* the node is linked before it holds the callback *)
    [Hidden S; Fault FAlloc; Enter GLock; Commit (link place hb l 0); Leave; Fault FUserCopy;
     Commit (fun w => set_wl w (lput l (map (fun e => if Nat.eqb (fst e) (pred (wnext w)) then (fst e, c) else e) (lget l (wl w))) (wl w)))].

Definition node_first_fact (place : nat) : bool :=
  match place with
  | 0 => GenExn.cl_append_builds_node_before_link
  | 1 => GenExn.cl_prepend_builds_node_before_link
  | _ => GenExn.cl_insert_builds_node_before_link
  end.

Definition prof_cl_add_with (node_first node_with_cb : bool) (place hb o c reg : nat) : list step :=
  arg_conversion ++ prof_cl_link node_first node_with_cb place hb (o, 0) c ++ [Commit (give_handle reg (o, 0))].
Definition prof_cl_add (place hb o c reg : nat) : list step :=
  prof_cl_add_with (node_first_fact place) GenExn.cl_node_constructed_with_callback place hb o c reg.

(* CallbackList::remove — no user code, no allocation *)
Definition prof_cl_remove (o reg : nat) : list step := [Enter GLock; Commit (remove_by_reg (o, 0) reg); Leave].

(* cloneFrom: one node per source node, each make_shared + callback copy; the nodes built so far
   belong to the object under construction *)
Fixpoint clone_steps (n : nat) : list step :=
  match n with 0 => [] | S m => Fault FAlloc :: Fault FUserCopy :: Local (cons (0, 0)) :: clone_steps m end.

(* CallbackList(const CallbackList &) — delegating constructor, then cloneFrom: when it throws the
   destructor of the (fully constructed, by delegation) object frees the nodes *)
Definition prof_cl_copy_ctor_with (delegates : bool) (dst src : nat) (w : world) : list step :=
  if delegates then
    [Enter GScratch] ++ clone_steps (obj_size src w) ++ [Commit (copy_obj src dst)]
  else unknown_shape.
Definition prof_cl_copy_ctor := prof_cl_copy_ctor_with GenExn.cl_copy_ctor_delegates_then_clones.

(* CallbackList::operator=(const &) — callbacklist.h:122-128 *)
Definition prof_cl_assign_with (copy_then_swap delegates : bool) (dst src : nat) (w : world) : list step :=
  if copy_then_swap then
    if delegates then [Enter GScratch] ++ clone_steps (obj_size src w) ++ [Commit (copy_obj src dst); Hidden S]
    else unknown_shape
  else
    (* member-wise: the old nodes go first, then the nodes are copied one by one into *this *)
    Commit (clear_obj dst) :: flat_map (fun _ => [Fault FAlloc; Fault FUserCopy; Commit (fun w => w)]) (seq 0 (obj_size src w))
    ++ [Commit (copy_obj src dst)].
Definition prof_cl_assign :=
  prof_cl_assign_with GenExn.cl_copy_assign_copy_then_swap GenExn.cl_copy_ctor_delegates_then_clones.

(* EventDispatcher::appendListener / prependListener / insertListener — eventdispatcher.h:133-152:
     lock_guard(listenerMutex); eventCallbackListMap[event].append(callback)
   operator[]: comparisons / hash of the user's key (ncmp of them), node allocation, key copy; the
   empty CallbackList left under a new key when the add then fails has no listeners: Hidden *)
Definition prof_map_index (ncmp : nat) : list step :=
  faults FUserCmp ncmp ++ [Fault FAlloc; Fault FUserCopy; Fault FAlloc; Hidden S].
Definition index_then_add_fact (place : nat) : bool :=
  match place with
  | 0 => GenExn.disp_append_is_index_then_add
  | 1 => GenExn.disp_prepend_is_index_then_add
  | _ => GenExn.disp_insert_is_index_then_add
  end.
Definition prof_disp_link_with (shape node_first node_with_cb : bool) (ncmp place hb d key c : nat) : list step :=
  if shape then Enter GLock :: prof_map_index ncmp ++ prof_cl_link node_first node_with_cb place hb (d, key) c
  else unknown_shape.
Definition prof_disp_add_with (shape node_first node_with_cb : bool) (ncmp place hb d key c reg : nat) : list step :=
  arg_conversion ++ prof_disp_link_with shape node_first node_with_cb ncmp place hb d key c ++ [Commit (give_handle reg (d, key))].
Definition prof_disp_add (ncmp place hb d key c reg : nat) : list step :=
  prof_disp_add_with (index_then_add_fact place) (node_first_fact place) GenExn.cl_node_constructed_with_callback ncmp place hb d key c reg.

(* removeListener: find (user comparisons), then CallbackList::remove *)
Definition prof_disp_remove (ncmp d key reg : nat) : list step :=
  faults FUserCmp ncmp ++ [Enter GLock; Commit (remove_by_reg (d, key) reg); Leave].

(* copy construction of a dispatcher / queue: the map is copy-constructed (per key: node, key copy,
   CallbackList copy construction); a queue copies no events *)
Definition prof_disp_copy_ctor_with (delegates : bool) (dst src : nat) (w : world) : list step :=
  if delegates then
    [Enter GScratch] ++ flat_map (fun _ => [Fault FAlloc; Fault FUserCopy]) (seq 0 (key_points src w))
    ++ clone_steps (obj_size src w) ++ [Commit (copy_obj src dst)]
  else unknown_shape.
Definition prof_disp_copy_ctor := prof_disp_copy_ctor_with GenExn.cl_copy_ctor_delegates_then_clones.

(* copy assignment of a dispatcher / queue is member-wise assignment of the map (eventdispatcher.h:
   115-119, eventqueue.h:158-162): basic guarantee of the standard container only — the destination
   is valid but unspecified when a copy throws.  The property demands no more for these. *)
Definition prof_disp_assign (dst src : nat) (w : world) : list step :=
  Commit (mark_unspecified dst)
  :: flat_map (fun _ => [Fault FAlloc; Fault FUserCopy]) (seq 0 (key_points src w))
  ++ flat_map (fun _ => [Fault FAlloc; Fault FUserCopy]) (seq 0 (obj_size src w))
  ++ [Commit (copy_obj src dst)].

(* ScopedRemover adders — scopedremover.h: Item item { event, target->add(...) }; then
   { lock; itemList.push_back(item); }  (vector growth: allocation, copies of the recorded keys) *)
Definition prof_sr_add_with (attach_first rollback shape node_first node_with_cb : bool)
    (ncmp place hb r d key c reg : nat) : list step :=
  if attach_first then
    [Fault FUserCopy]                                   (* Item.event *)
    ++ arg_conversion ++ prof_disp_link_with shape node_first node_with_cb ncmp place hb d key c
    ++ (if rollback then [Enter (GUnlinkLast (d, key))] else [])
    ++ [Enter GLock; Fault FAlloc; Fault FUserCopy; Commit (record r (d, key)); Leave]
    ++ (if rollback then [Leave] else [])
    ++ [Commit (give_handle reg (d, key))]
  else unknown_shape.
Definition prof_sr_add (ncmp place hb r d key c reg : nat) : list step :=
  prof_sr_add_with GenExn.sr_add_attaches_before_recording GenExn.sr_add_failed_record_detaches_and_rethrows
    (index_then_add_fact place) (node_first_fact place) GenExn.cl_node_constructed_with_callback ncmp place hb r d key c reg.

(* the callback-list flavour of the remover *)
Definition prof_srcl_add_with (attach_first rollback node_first node_with_cb : bool) (place hb r o c reg : nat) : list step :=
  if attach_first then
    arg_conversion ++ prof_cl_link node_first node_with_cb place hb (o, 0) c
    ++ (if rollback then [Enter (GUnlinkLast (o, 0))] else [])
    ++ [Enter GLock; Fault FAlloc; Commit (record r (o, 0)); Leave]
    ++ (if rollback then [Leave] else [])
    ++ [Commit (give_handle reg (o, 0))]
  else unknown_shape.
Definition prof_srcl_add (place hb r o c reg : nat) : list step :=
  prof_srcl_add_with GenExn.sr_add_attaches_before_recording GenExn.sr_add_failed_record_detaches_and_rethrows
    (node_first_fact place) GenExn.cl_node_constructed_with_callback place hb r o c reg.

(* CounterRemover / ConditionalRemover adders: the shared Data block (allocation, copies of the key,
   the listener and, conditional flavour, the condition) is built first, then the wrapper is added
   through the dispatcher, then the handle is stored in the block (noexcept) *)
Definition prof_auto_add_with (data_first shape node_first node_with_cb : bool) (ncopies ncmp place hb d key c reg : nat) : list step :=
  if data_first then
    Fault FAlloc :: faults FUserCopy ncopies ++ faults FUserMove ncopies
    ++ arg_conversion ++ prof_disp_link_with shape node_first node_with_cb ncmp place hb d key c
    ++ [Hidden S; Commit (give_handle reg (d, key))]
  else unknown_shape.
Definition prof_counter_add (ncmp place hb d key c reg : nat) : list step :=
  prof_auto_add_with GenExn.counter_remover_builds_data_before_add (index_then_add_fact place) (node_first_fact place)
    GenExn.cl_node_constructed_with_callback 2 ncmp place hb d key c reg.
Definition prof_conditional_add (ncmp place hb d key c reg : nat) : list step :=
  prof_auto_add_with GenExn.conditional_remover_builds_data_before_add (index_then_add_fact place) (node_first_fact place)
    GenExn.cl_node_constructed_with_callback 3 ncmp place hb d key c reg.

(* EventQueue::enqueue — eventqueue.h:170-202, 514-535: the QueuedEvent temporary (key and argument
   copies / moves), a slot from the free list or a new one (allocation) in the LOCAL tempList, the
   event moved into the slot (set), then the locked splice; with OrderedQueueList the splice finds
   the position by user comparisons *)
Definition prof_splice_with (sorts_after last_step : bool) (ordered : bool) (ncmp : nat) (q : nat) (e : nat * Z) : list step :=
  if ordered then
    if sorts_after then Commit (enq q true e) :: faults FUserCmp ncmp
    else if last_step then faults FUserCmp ncmp ++ [Commit (enq q true e)]
    else unknown_shape
  else [Commit (enq q false e)].
Definition prof_enqueue_with (fills_first sorts_after last_step : bool) (ordered : bool) (ncmp q key : nat) (a : Z) : list step :=
  if fills_first then
    [Fault FUserCopy; Fault FUserCopy; Fault FUserMove; Enter GScratch; Hidden pred; Fault FAlloc;
     Fault FUserMove; Fault FUserMove; Local (cons (0, 0)); Enter GLock]
    ++ prof_splice_with sorts_after last_step ordered ncmp q (key, a)
  else
    (* an empty slot is queued, the event is moved into it afterwards *)
    [Fault FUserCopy; Fault FUserCopy; Fault FAlloc; Enter GLock; Commit (enq q ordered (key, (-1)%Z)); Leave;
     Fault FUserMove; Commit (fun w => w)].
Definition prof_enqueue (ordered : bool) (ncmp q key : nat) (a : Z) : list step :=
  prof_enqueue_with GenExn.eq_enqueue_fills_slot_before_splice GenExn.oql_single_splice_sorts_after_splicing
    GenExn.oql_single_splice_is_last_step ordered ncmp q key a.

(* peekEvent: *queuedEvent = queueList.front().get() under the lock — copy assignment of the key and
   of the arguments into the CALLER's object; the queue is only read *)
Definition prof_peek_with (readonly : bool) : list step :=
  if readonly then [Enter GLock; Fault FUserCopy; Fault FUserCopy; Leave] else unknown_shape.
Definition prof_peek := prof_peek_with GenExn.eq_peek_does_not_touch_queue.

(* HeterCallbackList: copy construction clones each homogeneous list (make_shared + CallbackList
   copy construction); copy assignment is copy-and-swap and must not be noexcept *)
Definition prof_hcl_copy_steps (src : nat) (w : world) : list step :=
  [Enter GScratch] ++ flat_map (fun _ => [Fault FAlloc]) (seq 0 (key_points src w)) ++ clone_steps (obj_size src w).
Definition prof_hcl_assign_with (copy_then_swap : bool) (dst src : nat) (w : world) : list step :=
  if copy_then_swap then prof_hcl_copy_steps src w ++ [Commit (copy_obj src dst); Hidden S] else unknown_shape.
Definition op_hcl_assign_with (ne copy_then_swap : bool) (dst src : nat) (w : world) : operation :=
  mkOp ne (prof_hcl_assign_with copy_then_swap dst src w).
Definition op_hcl_assign := op_hcl_assign_with GenCtor.hcl_copy_assign_noexcept GenExn.hcl_copy_assign_copy_then_swap.

(* ---------- the operations of a fault plan (tie B) ---------- *)

Inductive opn :=
| OClAdd (place hb o c reg : nat)
| OClRemove (o reg : nat)
| OClCopyCtor (dst src : nat)
| OClAssign (dst src : nat)
| ODAdd (place hb d key c reg : nat)
| ODRemove (d key reg : nat)
| ODCopyCtor (dst src : nat)
| ODAssign (dst src : nat)
| OSrAdd (place hb r d key c reg : nat)
| OSrClAdd (place hb r o c reg : nat)
| OCounterAdd (place hb d key c reg : nat)
| OConditionalAdd (place hb d key c reg : nat)
| OEnqueue (ordered : bool) (q key : nat) (a : Z)
| OPeek (q : nat)
| OHAdd (place hb o key c reg : nat)        (* key = prototype index *)
| OHCopyCtor (dst src : nat)
| OHAssign (dst src : nat).

(* comparisons the standard containers may make are counted generously: the profile has at least as
   many comparison points as any run (only the KIND of the failing point is taken from the run) *)
Definition cmp_budget : nat := 8.

Definition op_of (o : opn) (w : world) : operation :=
  match o with
  | OClAdd place hb o c reg => mkOp false (prof_cl_add place hb o c reg)
  | OClRemove o reg => mkOp false (prof_cl_remove o reg)
  | OClCopyCtor dst src => mkOp false (prof_cl_copy_ctor dst src w)
  | OClAssign dst src => mkOp false (prof_cl_assign dst src w)
  | ODAdd place hb d key c reg => mkOp false (prof_disp_add cmp_budget place hb d key c reg)
  | ODRemove d key reg => mkOp false (prof_disp_remove cmp_budget d key reg)
  | ODCopyCtor dst src => mkOp false (prof_disp_copy_ctor dst src w)
  | ODAssign dst src => mkOp false (prof_disp_assign dst src w)
  | OSrAdd place hb r d key c reg => mkOp false (prof_sr_add cmp_budget place hb r d key c reg)
  | OSrClAdd place hb r o c reg => mkOp false (prof_srcl_add place hb r o c reg)
  | OCounterAdd place hb d key c reg => mkOp false (prof_counter_add cmp_budget place hb d key c reg)
  | OConditionalAdd place hb d key c reg => mkOp false (prof_conditional_add cmp_budget place hb d key c reg)
  | OEnqueue ordered q key a => mkOp false (prof_enqueue ordered cmp_budget q key a)
  | OPeek q => mkOp false prof_peek
  | OHAdd place hb o key c reg =>
      (* doGetCallbackList: make_shared of the homogeneous list (Hidden when the add fails), then its append *)
      mkOp false (arg_conversion ++ [Fault FAlloc; Hidden S]
                  ++ prof_cl_link (node_first_fact place) GenExn.cl_node_constructed_with_callback place hb (o, key) c
                  ++ [Commit (give_handle reg (o, key))])
  | OHCopyCtor dst src => mkOp false (prof_hcl_copy_steps src w ++ [Commit (copy_obj src dst)])
  | OHAssign dst src => op_hcl_assign dst src w
  end.

(* ---------- fault-plan interpreter (extracted) ---------- *)

Inductive measured := MNoFault | MExn (k : fkind) | MTerminated.

Inductive fcmd :=
| FDo (o : opn)                              (* the operation without a fault *)
| FFault (m : measured) (o : opn)            (* the harness armed a fault; m is what the real run did *)
| FList (o key : nat)                        (* enumerate a list *)
| FDispatch (d key : nat)                    (* dispatch / invoke: the listeners called, in order *)
| FPending (q : nat)
| FDrain (q : nat)                           (* process(): every pending event to its key's listeners *)
| FRecords (r : nat)
| FRelease (r : nat)                         (* the remover is destroyed *)
| FDestroy (o : nat)
| FLive.

Inductive fev :=
| EOutcome (m : measured)
| ENoSuchPoint                               (* the real run failed at a kind of point the profile does not have *)
| EList (o key : nat) (cbs : option (list nat))
| ECall (c : nat) (key : nat) (a : Z)
| EPending (q : nat) (es : list (nat * Z))
| ERecords (r n : nat)
| ELive (callbacks payloads : nat)
| ELiveUnspecified
| EMustPropagate.                            (* specification side: std::terminate is never an allowed outcome *)

Definition total_callbacks (w : world) : nat := fold_right (fun e n => length (snd e) + n) 0 (wl w).
Definition total_payloads (w : world) : nat := fold_right (fun e n => length (snd e) + n) 0 (wq w).

(* state of the interpreter: the world, the trace (latest first), stopped (after std::terminate) *)
Definition fstate := (world * list fev * bool)%type.

Definition apply_done (o : opn) (w : world) : world :=
  let op := op_of o w in
  match run (op_steps op) (nfaults (op_steps op)) [] w with
  | Done w' => w'
  | Thrown _ w' => w'
  | Terminated _ => w
  end.

Definition f_step (st : fstate) (c : fcmd) : fstate :=
  let '(w, tr, stop) := st in
  if stop then st else
  match c with
  | FDo o => (apply_done o w, tr, false)
  | FFault MNoFault o => (apply_done o w, EOutcome MNoFault :: tr, false)
  | FFault m o =>
      let op := op_of o w in
      let kinds := fault_kinds (op_steps op) in
      let pick := match m with MExn k => find_kind k kinds 0 | _ => match kinds with [] => None | _ => Some 0 end end in
      match pick with
      | None => (w, ENoSuchPoint :: tr, false)
      | Some i =>
          match run_faulted op i w with
          | Thrown k w' => (w', EOutcome (MExn k) :: tr, false)
          | Terminated _ => (w, EOutcome MTerminated :: tr, true)
          | Done w' => (w', EOutcome MNoFault :: tr, false)
          end
      end
  | FList o key =>
      (w, EList o key (if mem_nat o (wun w) then None else Some (map snd (lget (o, key) (wl w)))) :: tr, false)
  | FDispatch d key =>
      if mem_nat d (wun w) then (w, EList d key None :: tr, false)
      else (w, rev (map (fun e => ECall (snd e) key 0%Z) (lget (d, key) (wl w))) ++ tr, false)
  | FPending q => (w, EPending q (ngetl q (wq w)) :: tr, false)
  | FDrain q =>
      if mem_nat q (wun w) then (set_wq w (nput q [] (wq w)), EList q 0 None :: tr, false)
      else
        (set_wq w (nput q [] (wq w)),
         rev (flat_map (fun ev => map (fun e => ECall (snd e) (fst ev) (snd ev)) (lget (q, fst ev) (wl w))) (ngetl q (wq w))) ++ tr,
         false)
  | FRecords r => (w, ERecords r (length (ngetl r (wr w))) :: tr, false)
  | FRelease r => (release r w, tr, false)
  | FDestroy o => (set_wq (set_un (clear_obj o w) (rem_nat o (wun w))) (nput o [] (wq w)), tr, false)
  | FLive =>
      (w, (if match wun w with [] => true | _ => false end then ELive (total_callbacks w) (total_payloads w) else ELiveUnspecified) :: tr, false)
  end.

Definition f_run (cs : list fcmd) : list fev :=
  let '(_, tr, _) := fold_left f_step cs (w_init, [], false) in rev tr.

(* ---------- the specification side of a fault plan: no profiles, no generated facts ----------
   what each operation does when it completes, and what the property demands when it fails:
   the exception reaches the caller and (all operations but the member-wise dispatcher / queue
   assignment) the world is the one before the call.  Used as oracle when a proof breaks. *)
Definition spec_effect (o : opn) (w : world) : world :=
  match o with
  | OClAdd place hb o c reg => give_handle reg (o, 0) (link place hb (o, 0) c w)
  | OClRemove o reg => remove_by_reg (o, 0) reg w
  | OClCopyCtor dst src | OClAssign dst src | ODCopyCtor dst src | ODAssign dst src
  | OHCopyCtor dst src | OHAssign dst src => copy_obj src dst w
  | ODAdd place hb d key c reg | OCounterAdd place hb d key c reg | OConditionalAdd place hb d key c reg
  | OHAdd place hb d key c reg => give_handle reg (d, key) (link place hb (d, key) c w)
  | ODRemove d key reg => remove_by_reg (d, key) reg w
  | OSrAdd place hb r d key c reg => give_handle reg (d, key) (record r (d, key) (link place hb (d, key) c w))
  | OSrClAdd place hb r o c reg => give_handle reg (o, 0) (record r (o, 0) (link place hb (o, 0) c w))
  | OEnqueue ordered q key a => enq q ordered (key, a) w
  | OPeek _ => w
  end.

Definition f_step_spec (st : fstate) (c : fcmd) : fstate :=
  let '(w, tr, stop) := st in
  match c with
  | FDo o => (spec_effect o w, tr, false)
  | FFault MNoFault o => (spec_effect o w, EOutcome MNoFault :: tr, false)
  | FFault (MExn k) o =>
      (match o with ODAssign dst _ => mark_unspecified dst w | _ => w end, EOutcome (MExn k) :: tr, false)
  | FFault MTerminated o => (w, EMustPropagate :: tr, false)
  | _ => f_step st c
  end.

Definition f_run_spec (cs : list fcmd) : list fev :=
  let '(_, tr, _) := fold_left f_step_spec cs (w_init, [], false) in rev tr.
