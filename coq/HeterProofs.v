(* HeterProofs.v — the compile-time searches of hetercallbacklist_i.h select the LEFTMOST
   callable prototype (through the generated index arithmetic GenHeter), callbacks are bound to
   it, and invocation / dispatch / enqueue route by it. *)
From Coq Require Import List Arith NArith ZArith Bool Lia.
From EV Require Import HeterModel.
From EV.gen Require GenHeter.
Import ListNotations.
Local Open Scope nat_scope.

(* the leftmost position in [a, a+len) satisfying f *)
Fixpoint leftmost (f : proto -> bool) (a len : nat) : option nat :=
  match len with
  | 0 => None
  | S l => if f a then Some a else leftmost f (S a) l
  end.

Lemma leftmost_some f : forall len a p, leftmost f a len = Some p ->
  a <= p < a + len /\ f p = true /\ forall q, a <= q < p -> f q = false.
Proof.
  induction len as [|l IH]; intros a p H; simpl in H; [discriminate|].
  destruct (f a) eqn:E.
  - inversion H; subst. split; [lia|]. split; [exact E|]. intros q Hq; lia.
  - destruct (IH _ _ H) as [A [B C]]. split; [lia|]. split; [exact B|].
    intros q Hq. destruct (Nat.eq_dec q a) as [->|Hne]; [exact E|apply C; lia].
Qed.

Lemma leftmost_none f : forall len a, leftmost f a len = None -> forall q, a <= q < a + len -> f q = false.
Proof.
  induction len as [|l IH]; intros a H q Hq; simpl in H; [lia|].
  destruct (f a) eqn:E; [discriminate|].
  destruct (Nat.eq_dec q a) as [->|Hne]; [exact E|apply (IH _ H); lia].
Qed.

Definition pack (o : option nat) : Z * proto :=
  match o with Some p => (Z.of_nat p, p) | None => ((-1)%Z, 0) end.

Section SearchFacts.
  Variable np : nat.
  Variable callable : kind -> proto -> bool.

  (* FindPrototypeByCallableFromIndex started with label = true position finds the leftmost callable
     prototype, labelled with its true position, as long as the guard N < M lets it see the list *)
  Lemma find_callable_seq k M : forall len a,
    (Z.of_nat (a + len) <= M)%Z ->
    find_callable callable M (Z.of_nat a) (seq a len) k = pack (leftmost (callable k) a len).
  Proof.
    induction len as [|l IH]; intros a HM; simpl; [reflexivity|].
    unfold GenHeter.fpc_guard, GenHeter.fpc_next, GenHeter.fpc_index, GenHeter.fpc_end.
    destruct (Z.ltb_spec (Z.of_nat a) M) as [_|Hge]; [|lia].
    replace (Z.of_nat a + 1)%Z with (Z.of_nat (S a)) by lia.
    rewrite IH by lia.
    destruct (callable k a); [reflexivity|].
    destruct (leftmost (callable k) (S a) l); reflexivity.
  Qed.

  Lemma find_args_seq k : forall len a,
    find_args callable (Z.of_nat a) (seq a len) k = pack (leftmost (callable k) a len).
  Proof.
    induction len as [|l IH]; intros a; simpl; [reflexivity|].
    unfold GenHeter.fpa_next, GenHeter.fpa_index, GenHeter.fpa_end.
    replace (Z.of_nat a + 1)%Z with (Z.of_nat (S a)) by lia.
    rewrite IH.
    destruct (callable k a); [reflexivity|].
    destruct (leftmost (callable k) (S a) l); reflexivity.
  Qed.

  Lemma decode_pack o : decode (pack o) = match o with Some p => Some (p, p) | None => None end.
  Proof.
    unfold decode, GenHeter.processif_enabled. destruct o as [p|]; simpl.
    - destruct (Z.leb_spec 0 (Z.of_nat p)); [|lia]. rewrite Nat2Z.id. reflexivity.
    - reflexivity.
  Qed.

  Lemma first_callable_leftmost k :
    first_callable np callable k = match leftmost (callable k) 0 np with Some p => Some (p, p) | None => None end.
  Proof.
    unfold first_callable, protos, GenHeter.fpc_start.
    change 0%Z with (Z.of_nat 0). rewrite find_callable_seq by (simpl; lia). apply decode_pack.
  Qed.

  Lemma first_args_leftmost k :
    first_args np callable k = match leftmost (callable k) 0 np with Some p => Some (p, p) | None => None end.
  Proof.
    unfold first_args, protos, GenHeter.fpa_start.
    change 0%Z with (Z.of_nat 0). rewrite find_args_seq. apply decode_pack.
  Qed.

  (* the repaired continuation search of doProcessIf: leftmost callable prototype AFTER ty *)
  Lemma next_round_leftmost ty k :
    next_round np callable true ty ty k =
    match leftmost (callable k) (S ty) (np - S ty) with Some p => Some (p, p) | None => None end.
  Proof.
    unfold next_round, GenHeter.processif_next_start.
    replace (Z.of_nat ty + 1)%Z with (Z.of_nat (S ty)) by lia.
    destruct (le_lt_dec (S ty) np) as [Hle|Hgt].
    - rewrite find_callable_seq by lia. apply decode_pack.
    - replace (np - S ty) with 0 by lia. reflexivity.
  Qed.

  (* what a search result means *)
  Definition is_first (k : kind) (p : proto) : Prop :=
    p < np /\ callable k p = true /\ forall q, q < p -> callable k q = false.

  Lemma first_callable_spec k i t : first_callable np callable k = Some (i, t) -> i = t /\ is_first k i.
  Proof.
    rewrite first_callable_leftmost. destruct (leftmost (callable k) 0 np) as [p|] eqn:E; [|discriminate].
    intros H; inversion H; subst. split; [reflexivity|].
    destruct (leftmost_some _ _ _ _ E) as [A [B C]]. split; [lia|]. split; [exact B|]. intros q Hq; apply C; lia.
  Qed.

  Lemma first_callable_none k : first_callable np callable k = None -> forall q, q < np -> callable k q = false.
  Proof.
    rewrite first_callable_leftmost. destruct (leftmost (callable k) 0 np) as [p|] eqn:E; [discriminate|].
    intros _ q Hq. apply (leftmost_none _ _ _ E); lia.
  Qed.

  Lemma first_args_spec k i t : first_args np callable k = Some (i, t) -> i = t /\ is_first k i.
  Proof.
    rewrite first_args_leftmost. destruct (leftmost (callable k) 0 np) as [p|] eqn:E; [|discriminate].
    intros H; inversion H; subst. split; [reflexivity|].
    destruct (leftmost_some _ _ _ _ E) as [A [B C]]. split; [lia|]. split; [exact B|]. intros q Hq; apply C; lia.
  Qed.

  Lemma first_args_callable_agree k : first_args np callable k = first_callable np callable k.
  Proof. rewrite first_args_leftmost, first_callable_leftmost. reflexivity. Qed.

  Lemma is_first_unique k p q : is_first k p -> is_first k q -> p = q.
  Proof.
    intros [A [B C]] [A' [B' C']].
    destruct (lt_eq_lt_dec p q) as [[H|H]|H]; [|exact H|].
    - rewrite (C' p H) in B; discriminate.
    - rewrite (C q H) in B'; discriminate.
  Qed.

  (* a round of processIf examines a prototype the predicate is callable with, at its own type,
     and the rounds visit the callable prototypes in increasing order *)
  Definition round_ok (pk : kind) (r : option (nat * proto)) : Prop :=
    match r with Some (lab, ty) => lab = ty /\ lab < np /\ callable pk lab = true | None => True end.

  Lemma first_round_ok pk : round_ok pk (first_callable np callable pk).
  Proof.
    destruct (first_callable np callable pk) as [[i t]|] eqn:E; simpl; [|exact I].
    destruct (first_callable_spec _ _ _ E) as [-> [A [B _]]]. auto.
  Qed.

  Lemma next_round_ok pk ty : round_ok pk (next_round np callable true ty ty pk).
  Proof.
    rewrite next_round_leftmost.
    destruct (leftmost (callable pk) (S ty) (np - S ty)) as [p|] eqn:E; simpl; [|exact I].
    destruct (leftmost_some _ _ _ _ E) as [A [B _]]. split; [reflexivity|]. split; [lia|exact B].
  Qed.

  Lemma next_round_after pk ty lab t : next_round np callable true ty ty pk = Some (lab, t) ->
    ty < lab /\ forall q, ty < q < lab -> callable pk q = false.
  Proof.
    rewrite next_round_leftmost.
    destruct (leftmost (callable pk) (S ty) (np - S ty)) as [p|] eqn:E; [|discriminate].
    intros H; inversion H; subst. destruct (leftmost_some _ _ _ _ E) as [A [_ C]].
    split; [lia|]. intros q Hq. apply C; lia.
  Qed.
End SearchFacts.

(* ---------- association lists keyed by (event key, prototype) ---------- *)

Lemma keq_true a b : keq a b = true <-> a = b.
Proof.
  unfold keq. destruct a as [a1 a2], b as [b1 b2]; simpl. rewrite andb_true_iff, !Nat.eqb_eq.
  split; [intros [-> ->]; reflexivity|intros H; inversion H; auto].
Qed.

Lemma keq_refl a : keq a a = true.
Proof. apply keq_true; reflexivity. Qed.

Lemma keq_false a b : a <> b -> keq a b = false.
Proof. intros H. destruct (keq a b) eqn:E; [apply keq_true in E; contradiction|reflexivity]. Qed.

Lemma l_lookup_set_same {A} k (v : A) l : l_lookup k (l_set k v l) = Some v.
Proof.
  induction l as [|[k' v'] t IH]; simpl; [rewrite keq_refl; reflexivity|].
  destruct (keq k k') eqn:E; simpl; [rewrite keq_refl; reflexivity|rewrite E; exact IH].
Qed.

Lemma l_lookup_set_other {A} k k2 (v : A) l : k2 <> k -> l_lookup k2 (l_set k v l) = l_lookup k2 l.
Proof.
  intros Hne. induction l as [|[k' v'] t IH]; simpl.
  - rewrite keq_false by exact Hne. reflexivity.
  - destruct (keq k k') eqn:E; simpl.
    + apply keq_true in E; subst k'. rewrite keq_false by exact Hne. reflexivity.
    + destruct (keq k2 k'); [reflexivity|exact IH].
Qed.

Lemma hins_l_split b new : forall l, exists l1 l2, l = l1 ++ l2 /\ hins_l b new l = l1 ++ new :: l2.
Proof.
  induction l as [|[x c] t IH]; simpl.
  - exists [], []. split; reflexivity.
  - destruct (Nat.eqb b x).
    + exists [], ((x, c) :: t). split; reflexivity.
    + destruct IH as [l1 [l2 [A B]]]. exists ((x, c) :: l1), l2. split; simpl; [rewrite A|rewrite B]; reflexivity.
Qed.

(* ---------- binding: a callback goes to the list of the first prototype it is callable with ---------- *)

Section Binding.
  Variable np : nat.
  Variable callable : kind -> proto -> bool.
  Variable own : proto -> kind.
  Variable arity : proto -> nat.
  Variable counted : proto -> bool.
  Variable mech chk rem : bool.
  Variable behav : nat -> nat -> list hcmd.
  Variable pbehav : nat -> nat -> list hcmd * bool.
  Variable rec : hstate -> list hcmd -> option hstate.

  Notation step := (h_step np callable own arity counted mech chk rem behav pbehav rec).

  Definition adds_callback (cmd : hcmd) (k : nat) (ck : kind) (c : nat) : Prop :=
    match cmd with
    | HAppend k' ck' c' _ | HPrepend k' ck' c' _ | HInsert k' ck' c' _ _ => k' = k /\ ck' = ck /\ c' = c
    | _ => False
    end.

  Lemma add_listener_effect st k i c h place :
    (forall n l, exists l1 l2, l = l1 ++ l2 /\ place n l = l1 ++ n :: l2) ->
    let st' := hadd_listener st k i c h place in
    (exists l1 l2, lst_of st k i = l1 ++ l2 /\ lst_of st' k i = l1 ++ (hnexth st, c) :: l2) /\
    (forall k2 p2, (k2, p2) <> (k, i) -> lst_of st' k2 p2 = lst_of st k2 p2) /\
    htrace st' = HBound i :: htrace st /\ hq st' = hq st /\ hf st' = hf st /\ herr st' = herr st.
  Proof.
    intros Hp. simpl. unfold hadd_listener, lst_of; simpl.
    split.
    - rewrite l_lookup_set_same. apply Hp.
    - split; [|auto]. intros k2 p2 Hne. rewrite l_lookup_set_other by exact Hne. reflexivity.
  Qed.

  (* append / prepend / insert of a callback of kind ck: the callback lands in the list of the
     FIRST listed prototype it is callable with (and only there), the handle carries that index;
     append puts it last, prepend first, insert before the given callback of the same list *)
  Theorem binds_first st cmd k ck c st' :
    adds_callback cmd k ck c -> step st cmd = Some st' ->
    exists p, is_first np callable ck p /\
      (exists l1 l2, lst_of st k p = l1 ++ l2 /\ lst_of st' k p = l1 ++ (hnexth st, c) :: l2 /\
                     match cmd with HAppend _ _ _ _ => l2 = [] | HPrepend _ _ _ _ => l1 = [] | _ => True end) /\
      (forall k2 p2, (k2, p2) <> (k, p) -> lst_of st' k2 p2 = lst_of st k2 p2) /\
      htrace st' = HBound p :: htrace st /\ hq st' = hq st /\ hf st' = hf st /\ herr st' = herr st.
  Proof.
    intros Ha Hs.
    destruct cmd; simpl in Ha; try contradiction; destruct Ha as [-> [-> ->]]; simpl in Hs;
      destruct (first_callable np callable ck) as [[i t]|] eqn:E; try discriminate;
      destruct (first_callable_spec _ _ _ _ _ E) as [_ Hf]; exists i; (split; [exact Hf|]).
    - inversion Hs; subst st'.
      destruct (add_listener_effect st k i c h (fun n l => l ++ [n])) as [_ R].
      { intros n l. exists l, []. split; [rewrite app_nil_r|]; reflexivity. }
      split; [|exact R]. exists (lst_of st k i), []. split; [rewrite app_nil_r; reflexivity|].
      split; [|reflexivity]. unfold hadd_listener, lst_of; simpl. rewrite l_lookup_set_same. reflexivity.
    - inversion Hs; subst st'.
      destruct (add_listener_effect st k i c h (fun n l => n :: l)) as [_ R].
      { intros n l. exists [], l. split; reflexivity. }
      split; [|exact R]. exists [], (lst_of st k i). split; [reflexivity|].
      split; [|reflexivity]. unfold hadd_listener, lst_of; simpl. rewrite l_lookup_set_same. reflexivity.
    - assert (Happ : forall n (l : list (nat * nat)), exists l1 l2, l = l1 ++ l2 /\ l ++ [n] = l1 ++ n :: l2).
      { intros n l. exists l, []. split; [rewrite app_nil_r|]; reflexivity. }
      destruct (h_alookup hb (hregs st)) as [[[k' i'] b]|].
      + destruct (Nat.eqb k' k); [|discriminate].
        destruct (Nat.eqb i' i && hhas_l b (lst_of st k i)); inversion Hs; subst st'.
        * destruct (add_listener_effect st k i c h (fun n l => hins_l b n l) (fun n l => hins_l_split b n l)) as [[l1 [l2 [A B]]] R].
          split; [|exact R]. exists l1, l2. auto.
        * destruct (add_listener_effect st k i c h (fun n l => l ++ [n]) Happ) as [[l1 [l2 [A B]]] R].
          split; [|exact R]. exists l1, l2. auto.
      + inversion Hs; subst st'.
        destruct (add_listener_effect st k i c h (fun n l => l ++ [n]) Happ) as [[l1 [l2 [A B]]] R].
        split; [|exact R]. exists l1, l2. auto.
  Qed.
End Binding.
