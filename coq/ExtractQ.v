(* Extraction of the queue model (mechanism and specification) for tie B. ExtrOcamlBasic only. *)
Require Extraction.
Require Import ExtrOcamlBasic.
From EV Require QModel.
Extraction Language OCaml.
Set Extraction Optimize.
Definition q_run_case := QModel.q_run_case.
Extraction "../ocaml/gen/q_model.ml" q_run_case.
